(* Model of abmarl.tools.gym_utils.Box.contains (abmarl/tools/gym_utils.py:10-23), with the
   numpy pieces it relies on: np.asarray(x, dtype=...) on nested lists/tuples (shape discovery,
   per-element conversion, truncation toward zero into integer dtypes), np.can_cast, the shape
   test and the bounds test.  [box_contains] is the repaired code (findings/C19-box-truncation),
   [box_contains_prefix] the code as found (finding F7).  No proofs here.

   A Box is (dtype, shape, low, high) with low/high flattened in C order, finite bounds. *)
From Coq Require Import ZArith QArith List Bool.
From Abm Require Import Base.Sx Spaces.PyVal.
Import ListNotations.
Open Scope Z_scope.

Record box := { b_dt : dtype; b_shape : list Z; b_low : list Q; b_high : list Q }.

Inductive bres := BOk (b : bool) | BRaise (o : outcome).

(* ---- np.asarray(x, dtype=dt) for x that is not an ndarray ------------------------------ *)

(* leaves of the nested sequence, in C order *)
Inductive leaf := LNum (q : Q) | LNaN | LInf | LNone | LStr | LObj.

Fixpoint arr_shape (x : pyval) : option (list Z) :=   (* None: inhomogeneous -> ValueError *)
  match x with
  | PArr _ sh _ => Some sh
  | PList l | PTuple l =>
      match l with
      | [] => Some [0]
      | y :: r =>
          match arr_shape y with
          | None => None
          | Some s =>
              if (fix go (r : list pyval) : bool :=
                    match r with
                    | [] => true
                    | z :: r' => match arr_shape z with
                                 | Some s' => zlist_eqb s s'
                                 | None => false
                                 end && go r'
                    end) r
              then Some (Z.of_nat (length l) :: s) else None
          end
      end
  | _ => Some []
  end.

Fixpoint leaves (x : pyval) : list leaf :=
  match x with
  | PNone => [LNone]
  | PBool b | PNpBool b => [LNum (qb b)]
  | PInt z | PNpInt z => [LNum (inject_Z z)]
  | PFloat q | PNpFloat q => [LNum q]
  | PFloatX FNaN => [LNaN]
  | PFloatX _ => [LInf]
  | PStr _ => [LStr]
  | PArr _ _ vs => map LNum vs
  | PList l | PTuple l =>
      (fix go (l : list pyval) : list leaf :=
         match l with [] => [] | y :: l' => leaves y ++ go l' end) l
  | PSet _ | PDict _ | PAgent _ => [LObj]
  end.

(* element conversion; a converted element is Some q (finite) or None (nan / +-inf, which fail
   every comparison with a finite bound).  The first failing element decides the exception. *)
Fixpoint convert (isint : bool) (ls : list leaf) : outcome + list (option Q) :=
  match ls with
  | [] => inr []
  | e :: r =>
      let one : outcome + option Q :=
        match e with
        | LNum q => inr (Some (if isint then inject_Z (Qtrunc q) else q))
        | LNaN => if isint then inl RaiseValue else inr None
        | LInf => if isint then inl RaiseOther (* OverflowError *) else inr None
        | LNone => if isint then inl RaiseType else inr None
        | LStr => inl RaiseValue
        | LObj => inl RaiseType
        end in
      match one with
      | inl o => inl o
      | inr v => match convert isint r with inl o => inl o | inr vs => inr (v :: vs) end
      end
  end.

Definition as_array (dt : dtype) (x : pyval) : outcome + (list Z * list (option Q)) :=
  match arr_shape x with
  | None => inl RaiseValue
  | Some sh => match convert (is_int_dtype dt) (leaves x) with
               | inl o => inl o
               | inr vs => inr (sh, vs)
               end
  end.

(* ---- the final conjunction ---------------------------------------------------------- *)
Fixpoint all_ge (vs : list (option Q)) (lo : list Q) : bool :=
  match vs, lo with
  | [], [] => true
  | Some v :: vs', l :: lo' => Qle_bool l v && all_ge vs' lo'
  | _, _ => false
  end.

Fixpoint all_le (vs : list (option Q)) (hi : list Q) : bool :=
  match vs, hi with
  | [], [] => true
  | Some v :: vs', h :: hi' => Qle_bool v h && all_le vs' hi'
  | _, _ => false
  end.

(* can_cast(x.dtype, self.dtype) and x.shape == self.shape and all(x >= low) and all(x <= high) *)
Definition finish (B : box) (dt : dtype) (sh : list Z) (vs : list (option Q)) : bool :=
  can_cast dt (b_dt B) && zlist_eqb sh (b_shape B) && all_ge vs (b_low B) && all_le vs (b_high B).

(* np.array_equal(point, np.asarray(x, dtype=float)): nothing was cut off *)
Fixpoint lossless (ls : list leaf) : bool :=
  match ls with
  | [] => true
  | LNum q :: r => Qintegral q && lossless r
  | _ :: r => lossless r
  end.

(* the code as found: sequences are converted to the Box's dtype and then tested *)
Definition box_contains_prefix (B : box) (x : pyval) : bres :=
  match x with
  | PInt z => BOk (finish B (DInt 64) [1] [Some (inject_Z z)])
  | PFloat q => BOk (finish B (DFloat 64) [1] [Some q])
  | PFloatX _ => BOk (finish B (DFloat 64) [1] [None])
  | PArr dt sh vs => BOk (finish B dt sh (map Some vs))
  | _ => match as_array (b_dt B) x with
         | inl o => BRaise o
         | inr (sh, vs) => BOk (finish B (b_dt B) sh vs)
         end
  end.

(* the repaired code: an integer Box refuses a sequence that lost a fractional part *)
Definition box_contains (B : box) (x : pyval) : bres :=
  match x with
  | PInt z => BOk (finish B (DInt 64) [1] [Some (inject_Z z)])
  | PFloat q => BOk (finish B (DFloat 64) [1] [Some q])
  | PFloatX _ => BOk (finish B (DFloat 64) [1] [None])
  | PArr dt sh vs => BOk (finish B dt sh (map Some vs))
  | _ => match as_array (b_dt B) x with
         | inl o => BRaise o
         | inr (sh, vs) =>
             if is_int_dtype (b_dt B) && negb (lossless (leaves x)) then BOk false
             else BOk (finish B (b_dt B) sh vs)
         end
  end.

(* ---- independent specification -----------------------------------------------------
   The point a candidate denotes: its shape and the mathematical values of its components
   (no dtype, no truncation).  A Python int/float offered to a Box is the one-component
   point; a number anywhere else is a zero-dimensional point; a list/tuple of k candidates
   that all denote points of one shape s denotes a point of shape k :: s.  None: the
   candidate denotes no point (ragged, or it holds something that is not a finite number). *)
Definition scalar_value (x : pyval) : option Q :=
  match x with
  | PBool b | PNpBool b => Some (qb b)
  | PInt z | PNpInt z => Some (inject_Z z)
  | PFloat q | PNpFloat q => Some q
  | _ => None
  end.

Fixpoint point_of (x : pyval) : option (list Z * list Q) :=
  match x with
  | PArr _ sh vs => Some (sh, vs)
  | PList l | PTuple l =>
      match l with
      | [] => Some ([0], [])
      | y :: r =>
          match point_of y with
          | None => None
          | Some (s, vs) =>
              match (fix go (r : list pyval) : option (list Q) :=
                       match r with
                       | [] => Some []
                       | z :: r' =>
                           match point_of z, go r' with
                           | Some (s', vz), Some rest =>
                               if zlist_eqb s s' then Some (vz ++ rest) else None
                           | _, _ => None
                           end
                       end) r with
              | Some rest => Some (Z.of_nat (length l) :: s, vs ++ rest)
              | None => None
              end
          end
      end
  | _ => match scalar_value x with Some q => Some ([], [q]) | None => None end
  end.

Definition candidate_point (x : pyval) : option (list Z * list Q) :=
  match x with
  | PInt z => Some ([1], [inject_Z z])
  | PFloat q => Some ([1], [q])
  | _ => point_of x
  end.

(* kind: a Python int is an int64, a Python float a float64, an ndarray has its dtype; these
   must be castable to the Box's dtype.  Anything else is coerced to the Box's dtype, which
   for an integer Box is possible without loss only when every component is integral. *)
Definition kind_ok (B : box) (x : pyval) (vs : list Q) : bool :=
  match x with
  | PInt _ => can_cast (DInt 64) (b_dt B)
  | PFloat _ => can_cast (DFloat 64) (b_dt B)
  | PArr dt _ _ => can_cast dt (b_dt B)
  | _ => negb (is_int_dtype (b_dt B)) || forallb Qintegral vs
  end.

Fixpoint within (vs lo hi : list Q) : bool :=
  match vs, lo, hi with
  | [], [], [] => true
  | v :: vs', l :: lo', h :: hi' => Qle_bool l v && Qle_bool v h && within vs' lo' hi'
  | _, _, _ => false
  end.

Definition box_spec (B : box) (x : pyval) : bool :=
  match candidate_point x with
  | Some (sh, vs) => zlist_eqb sh (b_shape B) && kind_ok B x vs && within vs (b_low B) (b_high B)
  | None => false
  end.

(* the input class of finding F7: a candidate that goes through np.asarray(x, dtype=Box dtype)
   (not a Python int/float, not an ndarray), offered to an integer Box, holding a non-integral
   component, whose truncation is a point of the Box *)
Definition f7_class (B : box) (x : pyval) : bool :=
  match x with
  | PInt _ | PFloat _ | PFloatX _ | PArr _ _ _ => false
  | _ => is_int_dtype (b_dt B) &&
         match point_of x with
         | Some (sh, vs) =>
             negb (forallb Qintegral vs) && zlist_eqb sh (b_shape B) &&
             within (map (fun q => inject_Z (Qtrunc q)) vs) (b_low B) (b_high B)
         | None => false
         end
  end.

(* a Box as gymnasium builds it: one finite bound pair per component, low <= high *)
Definition box_wf (B : box) : bool :=
  (Z.of_nat (length (b_low B)) =? fold_right Z.mul 1 (b_shape B)) &&
  (Z.of_nat (length (b_high B)) =? fold_right Z.mul 1 (b_shape B)) &&
  forallb (fun d => 0 <=? d) (b_shape B) &&
  match b_dt B with DInt _ | DFloat _ => true | _ => false end.

(* ---- property checker: the answer is "accepted" exactly for the points of the Box ------
   behaviour: (0 b) returned b, (c) raised exception kind c (= not accepted) *)
Definition chk_C19_box (B : box) (x : pyval) (beh : bres) : bool :=
  Bool.eqb (match beh with BOk b => b | BRaise _ => false end) (box_spec B x).

(* ---- wire ---------------------------------------------------------------------------
   box (dtype (d1 ..) (lo ..) (hi ..)) with bounds over 1024; input (box x) *)
Definition dec_box (x : sx) : option box :=
  match x with
  | L [xd; xs; xl; xh] =>
      match dec_dtype xd, sxZs xs, sxZs xl, sxZs xh with
      | Some d, Some sh, Some lo, Some hi =>
          let B := {| b_dt := d; b_shape := sh; b_low := map tick lo; b_high := map tick hi |} in
          if box_wf B then Some B else None
      | _, _, _, _ => None
      end
  | _ => None
  end.

Definition enc_bres (r : bres) : sx :=
  match r with
  | BOk b => L [A 0; ofB b]
  | BRaise o => L [A (outcome_code o)]
  end.

Definition dec_bres (x : sx) : option bres :=
  match x with
  | L [A 0; A 0] => Some (BOk false)
  | L [A 0; A 1] => Some (BOk true)
  | L [A 1] => Some (BRaise Reject)
  | L [A 6] => Some (BRaise RaiseValue)
  | L [A 7] => Some (BRaise RaiseType)
  | L [A _] => Some (BRaise RaiseOther)
  | _ => None
  end.

Definition run_box (x : sx) : sx :=
  match x with
  | L [xb; xv] =>
      match dec_box xb, dec_py xv with
      | Some B, Some v => enc_bres (box_contains B v)
      | _, _ => sx_err
      end
  | _ => sx_err
  end.

(* the code as found, for replaying finding F7 on the model *)
Definition run_box_prefix (x : sx) : sx :=
  match x with
  | L [xb; xv] =>
      match dec_box xb, dec_py xv with
      | Some B, Some v => enc_bres (box_contains_prefix B v)
      | _, _ => sx_err
      end
  | _ => sx_err
  end.

(* ((box x) behaviour) -> 1, or -1: membership answer differs from the specification *)
Definition run_chk_box (x : sx) : sx :=
  match x with
  | L [L [xb; xv]; xbeh] =>
      match dec_box xb, dec_py xv, dec_bres xbeh with
      | Some B, Some v, Some beh => if chk_C19_box B v beh then A 1 else A (-1)
      | _, _, _ => A (-9)
      end
  | _ => A (-9)
  end.

(* DISPATCH: 1905 => run_box *)
(* DISPATCH: 1906 => run_chk_box *)
(* DISPATCH: 1907 => run_box_prefix *)
