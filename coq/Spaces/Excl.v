(* Model of the exclusive-channel encoding of abmarl/sim/gridworld/wrapper.py
   (ExclusiveChannelActionWrapper.wrap_space / wrap_point / unwrap_point) over the list of the
   channel spaces of a Dict (in [space.spaces] order), resp. over the list of their sizes.
   [excl_decode] = wrap_point (trainer's Discrete value -> Dict point handed to the actor),
   [excl_encode] = unwrap_point.  No proofs here (see Proofs/Excl_proofs.v). *)
From Coq Require Import ZArith List Bool Arith.
From Abm Require Import Base.Sx Spaces.Space Spaces.Ravel.
Import ListNotations.
Open Scope Z_scope.

Definition zsum (l : list Z) : Z := fold_right Z.add 0 l.

(* wrap_space: dims = sum(n_c) - len(channels) + 1 *)
Definition excl_size (ns : list Z) : Z := zsum ns - Z.of_nat (length ns) + 1.

(* first loop of wrap_point: "for channel, subspace in ...: if point < n: break
   else: point = point - n + 1".  Result: (index of the loop variable after the loop, point).
   When no channel breaks, Python's loop variable stays at the LAST channel. *)
Fixpoint excl_find (ns : list Z) (i : nat) (k : Z) : nat * Z :=
  match ns with
  | [] => (i, k)
  | n :: ns' =>
      if k <? n then (i, k)
      else match ns' with
           | [] => (i, k - n + 1)
           | _ => excl_find ns' (S i) (k - n + 1)
           end
  end.

(* second loop of wrap_point: the activated channel unravels the point, the others unravel 0;
   here on the level of the ravelled per-channel values *)
Fixpoint excl_fill (ns : list Z) (j i : nat) (k : Z) : list Z :=
  match ns with
  | [] => []
  | _ :: ns' => (if Nat.eqb j i then k else 0) :: excl_fill ns' (S j) i k
  end.

Definition excl_digits (ns : list Z) (k : Z) : list Z :=
  let (i, r) := excl_find ns 0 k in excl_fill ns 0 i r.

(* loop of unwrap_point over the per-channel ravelled values:
   result (ravelled_point, top_level_point of the last iteration) *)
Fixpoint excl_acc (ns rs : list Z) (acc : Z) : Z * Z :=
  match ns, rs with
  | n :: ns', r :: rs' =>
      if negb (r =? 0) then (acc + r, r)
      else match rs' with
           | [] => (acc + n - 1, r)
           | _ => excl_acc ns' rs' (acc + n - 1)
           end
  | _, _ => (acc, 0)
  end.

Definition excl_undigits (ns rs : list Z) : Z :=
  let (rp, tl) := excl_acc ns rs 0 in if tl =? 0 then 0 else rp.

(* on spaces and points *)
Definition excl_space (ss : list space) : space := Discrete (excl_size (map size ss)).
Definition excl_ok (s : space) : bool :=
  match s with Dict _ => ravel_ok s | _ => false end.    (* check_space *)
Definition excl_decode (ss : list space) (k : Z) : point :=
  PT (map2 unravel ss (excl_digits (map size ss) k)).
Definition excl_encode (ss : list space) (p : point) : Z :=
  match p with
  | PT ps => excl_undigits (map size ss) (map2 ravel ss ps)
  | _ => 0
  end.

(* ---- independent specification used by the checker ------------------------------------
   A Dict point "uses at most one channel" when at most one of its children differs from the
   channel's zero point, i.e. has a non-zero ravelled value.  Its documented code is
   0 for the all-zero point and  sum_{l<j} (n_l - 1) + r_j  when channel j holds r_j <> 0. *)
Definition nz_count (rs : list Z) : nat := length (filter (fun r => negb (r =? 0)) rs).

Fixpoint spec_code (ns rs : list Z) : Z :=
  match ns, rs with
  | n :: ns', r :: rs' =>
      if r =? 0 then (let c := spec_code ns' rs' in if c =? 0 then 0 else (n - 1) + c) else r
  | _, _ => 0
  end.

Definition spec_size (ns : list Z) : Z := fold_left (fun a n => a + (n - 1)) ns 1.

(* enumeration, in code order, of the value vectors that use at most one channel *)
Definition zrange1 (n : Z) : list Z := map Z.of_nat (seq 1 (Z.to_nat n - 1)).   (* 1 .. n-1 *)
Fixpoint excl_enum_from (pre : nat) (ns : list Z) : list (list Z) :=
  match ns with
  | [] => []
  | n :: ns' =>
      map (fun v => repeat 0 pre ++ v :: repeat 0 (length ns')) (zrange1 n)
      ++ excl_enum_from (S pre) ns'
  end.
Definition excl_enum (ns : list Z) : list (list Z) := repeat 0 (length ns) :: excl_enum_from 0 ns.

Definition zrange0 (n : Z) : list Z := map Z.of_nat (seq 0 (Z.to_nat n)).        (* 0 .. n-1 *)

(* behaviour of the encoding on one Dict space and a list of codes:
   declared size, and for every code k the decoded point and its re-encoding *)
Definition excl_behaviour (ss : list space) (ks : list Z) : Z * list (point * Z) :=
  (excl_size (map size ss),
   map (fun k => let p := excl_decode ss k in (p, excl_encode ss p)) ks).

(* the checker: clauses numbered as in design/C06.md
   1 declared size = 1 + sum (n_c - 1)
   2 as many answers as codes
   3 every decoded point is a member of the Dict
   4 ... and uses at most one channel
   5 ... and its documented code is k
   6 re-encoding gives k back
   7 when [whole] is set the codes are exactly 0 .. size-1 *)
Definition point_children (p : point) : list point := match p with PT ps => ps | _ => [] end.

Fixpoint zlist_eqb (l m : list Z) : bool :=
  match l, m with
  | [], [] => true
  | a :: l', b :: m' => (a =? b) && zlist_eqb l' m'
  | _, _ => false
  end.

Definition chk_excl (ss : list space) (whole : bool) (ks : list Z)
           (n : Z) (beh : list (point * Z)) : Z :=
  let ns := map size ss in
  if negb (n =? spec_size ns) then -1
  else if negb (Nat.eqb (length beh) (length ks)) then -2
  else if negb (forallb (fun pe => member (Dict ss) (fst pe)) beh) then -3
  else if negb (forallb (fun pe => Nat.leb (nz_count (map2 ravel ss (point_children (fst pe)))) 1)
                        beh) then -4
  else if negb (forall2b (fun k pe => spec_code ns (map2 ravel ss (point_children (fst pe))) =? k)
                         ks beh) then -5
  else if negb (forall2b (fun k (pe : point * Z) => snd pe =? k) ks beh) then -6
  else if whole && negb (zlist_eqb ks (zrange0 n)) then -7
  else 1.

(* ---- wire -----------------------------------------------------------------------------
   input  (space shapes whole ks): space must be a Dict for the wrapper to accept it;
          shapes are used by the implementation side only
   output (0) when check_space refuses, else (1 n ((point code) ...)) *)
Definition dec_excl_in (x : sx) : option (space * bool * list Z) :=
  match x with
  | L [xs; _; xw; xk] =>
      match dec_space xs, sxB xw, sxZs xk with
      | Some s, Some w, Some ks => Some (s, w, ks)
      | _, _, _ => None
      end
  | _ => None
  end.

Definition run_excl (x : sx) : sx :=
  match dec_excl_in x with
  | Some (s, _, ks) =>
      if negb (wf s) then sx_err
      else if negb (excl_ok s) then L [A 0]
      else match s with
           | Dict ss =>
               let n := excl_size (map size ss) in
               if negb (forallb (in_range 0 n) ks) then sx_err
               else let b := excl_behaviour ss ks in
                    L [A 1; A (fst b);
                       L (map (fun pe : point * Z => L [enc_point (fst pe); A (snd pe)]) (snd b))]
           | _ => sx_err
           end
  | None => sx_err
  end.

Definition dec_pe (x : sx) : option (point * Z) :=
  match x with
  | L [xp; A e] => match dec_point xp with Some p => Some (p, e) | None => None end
  | _ => None
  end.

(* input ((space shapes whole ks) behaviour) -> 1 or -(number of the first failing clause);
   -8: refusal verdict wrong, -99: undecodable *)
Definition run_chk_excl (x : sx) : sx :=
  match x with
  | L [xi; xb] =>
      match dec_excl_in xi with
      | Some (s, w, ks) =>
          match xb with
          | L [A 0] => A (if has_float s || negb (match s with Dict _ => true | _ => false end)
                          then 1 else -8)
          | L [A 1; A n; L xl] =>
              match s, all_some (map dec_pe xl) with
              | Dict ss, Some beh => if has_float s then A (-8) else A (chk_excl ss w ks n beh)
              | _, _ => A (-99)
              end
          | _ => A (-99)
          end
      | None => A (-99)
      end
  | _ => A (-99)
  end.

(* DISPATCH: 605 => run_excl *)
(* DISPATCH: 606 => run_chk_excl *)
