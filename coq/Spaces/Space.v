(* gymnasium spaces as used by Abmarl, and membership.  No proofs here.

   Dict and Tuple both carry the list of their children in the order of
   [space.spaces]; a Dict point is the list of its values in that same order
   (the harness converts using [space.spaces] key order on the Python side).
   Boxes are flattened in C order: one (low, high) pair per component.
   Float boxes (BoxF) carry bounds and values in ticks of 1/1024. *)
From Coq Require Import ZArith List Bool.
From Abm Require Import Base.Sx.
Import ListNotations.
Open Scope Z_scope.

Inductive space :=
| Discrete (n : Z)
| MultiBinary (n : nat)
| MultiDiscrete (nvec : list Z)
| BoxI (bounds : list (Z * Z))
| BoxF (bounds : list (Z * Z))
| Tuple (ss : list space)
| Dict (ss : list space).

Inductive point :=
| PI (z : Z)            (* Discrete *)
| PV (v : list Z)       (* MultiBinary, MultiDiscrete, integer Box (flattened) *)
| PF (v : list Z)       (* float Box, ticks *)
| PT (ps : list point). (* Tuple / Dict children *)

Definition in_range (lo hi x : Z) : bool := (lo <=? x) && (x <? hi).
Definition in_closed (b : Z * Z) (x : Z) : bool := (fst b <=? x) && (x <=? snd b).

Fixpoint forall2b {X Y} (f : X -> Y -> bool) (l : list X) (m : list Y) : bool :=
  match l, m with
  | [], [] => true
  | x :: l', y :: m' => f x y && forall2b f l' m'
  | _, _ => false
  end.

Fixpoint member (s : space) (p : point) {struct s} : bool :=
  match s, p with
  | Discrete n, PI z => in_range 0 n z
  | MultiBinary n, PV v => forall2b (fun d x => in_range 0 d x) (repeat 2 n) v
  | MultiDiscrete nv, PV v => forall2b (fun d x => in_range 0 d x) nv v
  | BoxI bs, PV v => forall2b in_closed bs v
  | BoxF bs, PF v => forall2b in_closed bs v
  | Tuple ss, PT ps | Dict ss, PT ps =>
      (fix go (ss : list space) (ps : list point) : bool :=
         match ss, ps with
         | [], [] => true
         | s :: ss', p :: ps' => member s p && go ss' ps'
         | _, _ => false
         end) ss ps
  | _, _ => false
  end.

(* well-formedness = what gymnasium's constructors guarantee *)
Fixpoint wf (s : space) : bool :=
  match s with
  | Discrete n => 0 <? n
  | MultiBinary n => negb (Nat.eqb n 0)
  | MultiDiscrete nv => forallb (fun d => 0 <? d) nv
  | BoxI bs | BoxF bs => forallb (fun b => fst b <=? snd b) bs
  | Tuple ss | Dict ss =>
      match ss with [] => false | _ => true end &&
      (fix go (ss : list space) : bool :=
         match ss with [] => true | s :: ss' => wf s && go ss' end) ss
  end.

(* does the space contain a float Box anywhere *)
Fixpoint has_float (s : space) : bool :=
  match s with
  | BoxF _ => true
  | Tuple ss | Dict ss =>
      (fix go (ss : list space) : bool :=
         match ss with [] => false | s :: ss' => has_float s || go ss' end) ss
  | _ => false
  end.

(* ---- wire format ------------------------------------------------------- *)
(* space:  (0 n) (1 n) (2 d1 d2 ...) (3 (lo hi) ...) (4 (lo hi) ...) (5 s ...) (6 s ...) *)
Fixpoint dec_space (x : sx) : option space :=
  match x with
  | L [A 0; A n] => Some (Discrete n)
  | L [A 1; A n] => if n <? 0 then None else Some (MultiBinary (Z.to_nat n))
  | L (A 2 :: r) => option_map MultiDiscrete (all_some (map sxZ r))
  | L (A 3 :: r) => option_map BoxI (all_some (map sxPair r))
  | L (A 4 :: r) => option_map BoxF (all_some (map sxPair r))
  (* a bounded integer Box of a dtype other than int64 is not admitted by check_space: for the
     ravel model it is as unsupported as a float Box (only used by the C04 generator) *)
  | L (A 7 :: A _ :: r) => option_map BoxF (all_some (map sxPair r))
  | L (A 5 :: r) =>
      option_map Tuple
        ((fix go (r : list sx) : option (list space) :=
            match r with
            | [] => Some []
            | a :: r' => match dec_space a, go r' with
                         | Some s, Some ss => Some (s :: ss) | _, _ => None end
            end) r)
  | L (A 6 :: r) =>
      option_map Dict
        ((fix go (r : list sx) : option (list space) :=
            match r with
            | [] => Some []
            | a :: r' => match dec_space a, go r' with
                         | Some s, Some ss => Some (s :: ss) | _, _ => None end
            end) r)
  | _ => None
  end.

(* point:  (0 z) (1 v...) (2 v...) (3 p...) *)
Fixpoint dec_point (x : sx) : option point :=
  match x with
  | L [A 0; A z] => Some (PI z)
  | L (A 1 :: r) => option_map PV (all_some (map sxZ r))
  | L (A 2 :: r) => option_map PF (all_some (map sxZ r))
  | L (A 3 :: r) =>
      option_map PT
        ((fix go (r : list sx) : option (list point) :=
            match r with
            | [] => Some []
            | a :: r' => match dec_point a, go r' with
                         | Some s, Some ss => Some (s :: ss) | _, _ => None end
            end) r)
  | _ => None
  end.

Fixpoint enc_point (p : point) : sx :=
  match p with
  | PI z => L [A 0; A z]
  | PV v => L (A 1 :: map A v)
  | PF v => L (A 2 :: map A v)
  | PT ps => L (A 3 :: (fix go (ps : list point) : list sx :=
                          match ps with [] => [] | p :: ps' => enc_point p :: go ps' end) ps)
  end.
