(* Model of abmarl/sim/wrappers/super_agent_wrapper.py over an arbitrary simulation (section
   variable Sim), the scripted instance used on the wire, and the executable history checker
   chk_C14.  Agents of the wrapped simulation are indices; super agent j is the j-th entry of
   the mapping and covers `nth j mapping` in that order.  Python dicts are association lists in
   insertion order.  w_log is a ghost log of the effectful calls that reach the wrapped
   simulation (nothing in the model reads it).  No proofs here. *)
From Coq Require Import ZArith List Bool Arith.
From Abm Require Import Base.Sx Ctl.Managers Ctl.ScriptSim Ctl.MgrCheck.
Import ListNotations.
Open Scope Z_scope.

(* an agent id as the wrapper's caller can use it *)
Inductive wid := WSuper (j : nat) | WPlain (a : nat).

(* one item of the action dict given to the wrapper *)
Inductive wentry (Act : Type) := ESuper (j : nat) (acts : list (nat * Act)) | EPlain (a : nat) (x : Act).
Arguments ESuper {Act}.
Arguments EPlain {Act}.

Inductive ilog (Act : Type) := IReset | IStep (acts : list (nat * Act)) | IObs (a : nat) | IRew (a : nat).
Arguments IReset {Act}.
Arguments IStep {Act}.
Arguments IObs {Act}.
Arguments IRew {Act}.

Inductive wcall (Act : Type) :=
| KReset | KStep (es : list (wentry Act)) | KObs (i : wid) | KRew (i : wid) | KDone (i : wid)
| KInfo (i : wid) | KAll.
Arguments KReset {Act}.
Arguments KStep {Act}.
Arguments KObs {Act}.
Arguments KRew {Act}.
Arguments KDone {Act}.
Arguments KInfo {Act}.
Arguments KAll {Act}.

Inductive wresp (Obs Info : Type) :=
| WOk                                                        (* reset, step *)
| WSupObs (ents : list (nat * Obs)) (mask : list (nat * bool))
| WPlainObs (o : Obs)
| WRew (r : Z)
| WDone (b : bool)
| WSupInfo (l : list (nat * Info))
| WPlainInfo (i : Info)
| WAll (b : bool)
| WReject                                                    (* AssertionError *)
| WError (code : Z).
Arguments WOk {Obs Info}.
Arguments WSupObs {Obs Info}.
Arguments WPlainObs {Obs Info}.
Arguments WRew {Obs Info}.
Arguments WDone {Obs Info}.
Arguments WSupInfo {Obs Info}.
Arguments WPlainInfo {Obs Info}.
Arguments WAll {Obs Info}.
Arguments WReject {Obs Info}.
Arguments WError {Obs Info}.

(* w_orep / w_rrep: the covered agents whose _last_obs_reported / _last_reward_reported is True *)
Record wst (St Act : Type) := { w_sim : St; w_orep : list nat; w_rrep : list nat;
                                w_log : list (ilog Act) }.
Arguments w_sim {St Act}.
Arguments w_orep {St Act}.
Arguments w_rrep {St Act}.
Arguments w_log {St Act}.

(* d[k] = v on a Python dict *)
Fixpoint aupd {V : Type} (l : list (nat * V)) (k : nat) (v : V) : list (nat * V) :=
  match l with
  | [] => [(k, v)]
  | (k', v') :: l' => if Nat.eqb k k' then (k, v) :: l' else (k', v') :: aupd l' k v
  end.

Inductive ures (Act : Type) := UOk (acts : list (nat * Act)) | URej | UErr.
Arguments UOk {Act}.
Arguments URej {Act}.
Arguments UErr {Act}.

Definition sumZ (l : list Z) : Z := fold_right Z.add 0%Z l.

Section AnySim.
  Context {St Obs Info Act : Type}.
  Variable Sim : simulation St Obs Info Act.
  Variable mapping : list (list nat).
  Variable null_obs : nat -> option Obs.          (* the declared (truthy) null observation *)
  Notation n := (sim_n Sim).
  Notation learning := (sim_learning Sim).
  Notation s_reset := (sim_reset Sim).
  Notation s_step := (sim_step Sim).
  Notation s_obs := (sim_obs Sim).
  Notation s_reward := (sim_reward Sim).
  Notation s_done := (sim_done Sim).
  Notation s_all := (sim_all Sim).
  Notation s_info := (sim_info Sim).
  Notation wstate := (wst St Act).

  Definition covered_list : list nat := concat mapping.
  Definition covered (a : nat) : bool := memb a covered_list.

  (* the assertions of the super_agent_mapping setter *)
  Definition valid_mapping : bool :=
    forallb (fun c => Nat.ltb c n && learning c) covered_list && nodupb covered_list.

  Definition with_sim (w : wstate) (s : St) (ev : list (ilog Act)) : wstate :=
    {| w_sim := s; w_orep := w_orep w; w_rrep := w_rrep w; w_log := w_log w ++ ev |}.

  (* ---- reset ---- *)
  Definition w_reset (w : wstate) : wstate :=
    {| w_sim := s_reset (w_sim w); w_orep := []; w_rrep := []; w_log := w_log w ++ [IReset] |}.

  (* ---- step: decompose super actions, drop those of done covered agents ---- *)
  Definition put_live (s : St) (acc : list (nat * Act)) (kv : nat * Act) : list (nat * Act) :=
    if s_done s (fst kv) then acc else aupd acc (fst kv) (snd kv).

  Fixpoint unravel (s : St) (es : list (wentry Act)) (acc : list (nat * Act)) : ures Act :=
    match es with
    | [] => UOk acc
    | EPlain a x :: es' => if covered a then URej else unravel s es' (aupd acc a x)
    | ESuper j acts :: es' =>
        match nth_error mapping j with
        | None => UErr
        | Some _ => unravel s es' (fold_left (put_live s) acts acc)
        end
    end.

  Definition w_step (w : wstate) (es : list (wentry Act)) : wresp Obs Info * wstate :=
    match unravel (w_sim w) es [] with
    | URej => (WReject, w)
    | UErr => (WError 5, w)
    | UOk acts => (WOk, with_sim w (s_step (w_sim w) acts) [IStep acts])
    end.

  (* ---- get_obs ---- *)
  Definition cov_obs (w : wstate) (c : nat) : (Obs * bool) * wstate :=
    if s_done (w_sim w) c then
      if memb c (w_orep w) then
        match null_obs c with
        | Some o => ((o, false), w)
        | None => let (o, s1) := s_obs (w_sim w) c in ((o, false), with_sim w s1 [IObs c])
        end
      else
        let (o, s1) := s_obs (w_sim w) c in
        ((o, false), {| w_sim := s1; w_orep := w_orep w ++ [c]; w_rrep := w_rrep w;
                        w_log := w_log w ++ [IObs c] |})
    else
      let (o, s1) := s_obs (w_sim w) c in ((o, true), with_sim w s1 [IObs c]).

  Definition w_obs (w : wstate) (i : wid) : wresp Obs Info * wstate :=
    match i with
    | WPlain a =>
        if covered a then (WReject, w)
        else let (o, s1) := s_obs (w_sim w) a in (WPlainObs o, with_sim w s1 [IObs a])
    | WSuper j =>
        match nth_error mapping j with
        | None => (WError 5, w)
        | Some cv =>
            let (r, w1) := thread cov_obs w cv in
            (WSupObs (map (fun e => (fst e, fst (snd e))) r) (map (fun e => (fst e, snd (snd e))) r), w1)
        end
    end.

  (* ---- get_reward ---- *)
  Definition cov_rew (w : wstate) (c : nat) : Z * wstate :=
    if s_done (w_sim w) c then
      if memb c (w_rrep w) then (0%Z, w)
      else
        let (r, s1) := s_reward (w_sim w) c in
        (r, {| w_sim := s1; w_orep := w_orep w; w_rrep := w_rrep w ++ [c];
               w_log := w_log w ++ [IRew c] |})
    else
      let (r, s1) := s_reward (w_sim w) c in (r, with_sim w s1 [IRew c]).

  Definition w_rew (w : wstate) (i : wid) : wresp Obs Info * wstate :=
    match i with
    | WPlain a =>
        if covered a then (WReject, w)
        else let (r, s1) := s_reward (w_sim w) a in (WRew r, with_sim w s1 [IRew a])
    | WSuper j =>
        match nth_error mapping j with
        | None => (WError 5, w)
        | Some cv => let (r, w1) := thread cov_rew w cv in (WRew (sumZ (map snd r)), w1)
        end
    end.

  (* ---- get_done, get_info, get_all_done ---- *)
  Definition w_done (w : wstate) (i : wid) : wresp Obs Info :=
    match i with
    | WPlain a => if covered a then WReject else WDone (s_done (w_sim w) a)
    | WSuper j =>
        match nth_error mapping j with
        | None => WError 5
        | Some cv => WDone (forallb (s_done (w_sim w)) cv)
        end
    end.

  Definition w_info (w : wstate) (i : wid) : wresp Obs Info :=
    match i with
    | WPlain a => if covered a then WReject else WPlainInfo (s_info (w_sim w) a)
    | WSuper j =>
        match nth_error mapping j with
        | None => WError 5
        | Some cv => WSupInfo (map (fun c => (c, s_info (w_sim w) c)) cv)
        end
    end.

  Definition w_call (w : wstate) (c : wcall Act) : wresp Obs Info * wstate :=
    match c with
    | KReset => (WOk, w_reset w)
    | KStep es => w_step w es
    | KObs i => w_obs w i
    | KRew i => w_rew w i
    | KDone i => (w_done w i, w)
    | KInfo i => (w_info w i, w)
    | KAll => (WAll (s_all (w_sim w)), w)
    end.

  (* the state after a call sequence *)
  Definition w_exec (w : wstate) (cs : list (wcall Act)) : wstate :=
    fold_left (fun w c => snd (w_call w c)) cs w.

  (* a call sequence with, per call, the answer and the inner calls it caused *)
  Fixpoint w_run (w : wstate) (cs : list (wcall Act))
    : list (wresp Obs Info * list (ilog Act)) :=
    match cs with
    | [] => []
    | c :: cs' => let (r, w1) := w_call w c in
                  (r, skipn (length (w_log w)) (w_log w1)) :: w_run w1 cs'
    end.

  Definition w_init (s : St) : wstate := {| w_sim := s; w_orep := []; w_rrep := []; w_log := [] |}.

  (* membership of a super observation in the super agent's observation space
     Dict(mask: Dict(c: MultiBinary(1)), c: <space of c> ...), given membership in the covered
     agents' own spaces *)
  Variable obs_in : nat -> Obs -> bool.
  Definition sup_member (cv : list nat) (ents : list (nat * Obs)) (mask : list (nat * bool)) : bool :=
    nats_eqb (map fst ents) cv && nats_eqb (map fst mask) cv &&
    forallb (fun e => obs_in (fst e) (snd e)) ents.
End AnySim.

(* ---------------------------------------------------------------------------------------- *)
(* scripted instance                                                                          *)

Definition OBS_N : Z := 1000000.
Definition nulls_fn (nulls : list (option Z)) (a : nat) : option Z := nth a nulls None.

Record ritem := { ri_resp : wresp Z Z; ri_member : bool; ri_seg : list (ilog Z) }.

Section ScriptedSuper.
  Variable sc : script.
  Variable mapping : list (list nat).
  Variable nulls : list (option Z).

  Definition sobs_in (a : nat) (o : Z) : bool :=
    ss_learning sc a && (0 <=? o)%Z && (o <? OBS_N)%Z.

  Definition member_of (r : wresp Z Z) (i : option wid) : bool :=
    match r, i with
    | WSupObs ents mask, Some (WSuper j) =>
        match nth_error mapping j with
        | Some cv => sup_member sobs_in cv ents mask
        | None => false
        end
    | WPlainObs o, Some (WPlain a) => if ss_learning sc a then sobs_in a o else true
    | _, _ => true
    end.

  Definition call_id (c : wcall Z) : option wid :=
    match c with KObs i => Some i | _ => None end.

  Fixpoint ss_items (w : wst sst Z) (cs : list (wcall Z)) : list ritem :=
    match cs with
    | [] => []
    | c :: cs' =>
        let (r, w1) := w_call (script_sim sc) mapping (nulls_fn nulls) w c in
        {| ri_resp := r; ri_member := member_of r (call_id c);
           ri_seg := skipn (length (w_log w)) (w_log w1) |} :: ss_items w1 cs'
    end.

  Definition ss_super_run (cs : list (wcall Z)) : list ritem := ss_items (w_init (ss_init sc)) cs.

  Definition ss_valid : bool := valid_mapping (script_sim sc) mapping.
End ScriptedSuper.

(* ---------------------------------------------------------------------------------------- *)
(* the checker: from the script, the mapping, the nulls, the calls and the recorded behaviour *)

Definition kb_eqb (x y : nat * bool) : bool := Nat.eqb (fst x) (fst y) && Bool.eqb (snd x) (snd y).
Fixpoint kbs_eqb (l m : list (nat * bool)) : bool :=
  match l, m with
  | [], [] => true
  | x :: l', y :: m' => kb_eqb x y && kbs_eqb l' m'
  | _, _ => false
  end.

Definition ilog_eqb (x y : ilog Z) : bool :=
  match x, y with
  | IReset, IReset => true
  | IStep a, IStep b => kvs_eqb a b
  | IObs a, IObs b => Nat.eqb a b
  | IRew a, IRew b => Nat.eqb a b
  | _, _ => false
  end.
Fixpoint ilogs_eqb (l m : list (ilog Z)) : bool :=
  match l, m with
  | [], [] => true
  | x :: l', y :: m' => ilog_eqb x y && ilogs_eqb l' m'
  | _, _ => false
  end.

Record cghost := { cg_on : bool; cg_t : nat; cg_orep : list nat; cg_rrep : list nat; cg_pend : list Z }.

Section Chk.
  Variable sc : script.
  Variable mapping : list (list nat).
  Variable nulls : list (option Z).

  Definition c_done (t a : nat) : bool := nth a (r_done (row_at sc t)) false.
  Definition c_own (t a : nat) : Z := Z.of_nat t * 100 + Z.of_nat a.
  Definition c_covered (a : nat) : bool := memb a (concat mapping).
  Definition c_valid : bool :=
    forallb (fun c => Nat.ltb c (sc_n sc) && nth c (sc_learn sc) false) (concat mapping)
    && nodupb (concat mapping).

  (* membership in the wrapped simulation's own observation space Discrete(OBS_N) *)
  Definition c_obs_in (a : nat) (o : Z) : bool :=
    nth a (sc_learn sc) false && (0 <=? o)%Z && (o <? OBS_N)%Z.

  (* the covered agents that are done now and were not yet flagged *)
  Definition newly (t : nat) (rep cv : list nat) : list nat :=
    filter (fun c => c_done t c && negb (memb c rep)) cv.
  Definition has_null (c : nat) : bool := match nth c nulls None with Some _ => true | None => false end.

  (* spec of one super-agent observation entry *)
  Definition exp_entry (t : nat) (orep : list nat) (c : nat) : Z :=
    if c_done t c && memb c orep
    then match nth c nulls None with Some v => v | None => c_own t c end
    else c_own t c.
  Definition obs_reads (t : nat) (orep cv : list nat) : list nat :=
    filter (fun c => negb (c_done t c && memb c orep && has_null c)) cv.
  Definition rew_reads (t : nat) (rrep cv : list nat) : list nat :=
    filter (fun c => negb (c_done t c && memb c rrep)) cv.

  Definition exp_acts (t : nat) (es : list (wentry Z)) : list (nat * Z) :=
    flat_map (fun e => match e with
                       | ESuper _ acts => filter (fun kv => negb (c_done t (fst kv))) acts
                       | EPlain a x => [(a, x)]
                       end) es.
  Definition all_keys (es : list (wentry Z)) : list nat :=
    flat_map (fun e => match e with ESuper _ acts => map fst acts | EPlain a _ => [a] end) es.
  Definition names_covered (es : list (wentry Z)) : bool :=
    existsb (fun e => match e with EPlain a _ => c_covered a | ESuper _ _ => false end) es.
  Definition supers_known (es : list (wentry Z)) : bool :=
    forallb (fun e => match e with ESuper j _ => Nat.ltb j (length mapping) | EPlain _ _ => true end) es.

  Definition set_t (g : cghost) (t : nat) (pend : list Z) : cghost :=
    {| cg_on := cg_on g; cg_t := t; cg_orep := cg_orep g; cg_rrep := cg_rrep g; cg_pend := pend |}.

  (* one call: (0, ghost') when every clause that applies holds, else (clause number, _) *)
  Definition chk_call (g : cghost) (c : wcall Z) (it : ritem) : Z * cghost :=
    let t := cg_t g in
    let r := ri_resp it in
    let seg := ri_seg it in
    match c with
    | KReset =>
        (match r with WOk => if ilogs_eqb seg [IReset] then 0 else 8 | _ => 8 end,
         {| cg_on := true; cg_t := O; cg_orep := []; cg_rrep := []; cg_pend := zeros (sc_n sc) |})
    | _ =>
      if negb (cg_on g) then (0, g) else        (* before the first reset: outside the model *)
      match c with
      | KReset => (0, g)
      | KStep es =>
          if negb (supers_known es) then (0, g)
          else if names_covered es then
            ((match r with WReject => if ilogs_eqb seg [] then 0 else 10 | _ => 10 end), g)
          else
            let t' := S t in
            ((match r with
              | WOk =>
                  match seg with
                  | [IStep acts] =>
                      if nodupb (all_keys es) then if kvs_eqb acts (exp_acts t es) then 0 else 6
                      else 0
                  | _ => 6
                  end
              | _ => 6
              end), set_t g t' (add_lists (cg_pend g) (r_acc (row_at sc t'))))
      | KObs (WSuper j) =>
          match nth_error mapping j with
          | None => (0, g)
          | Some cv =>
              ((match r with
                | WSupObs ents mask =>
                    if negb (kbs_eqb mask (map (fun c => (c, negb (c_done t c))) cv)) then 1
                    else if negb (kvs_eqb ents (map (fun c => (c, exp_entry t (cg_orep g) c)) cv)
                                  && ilogs_eqb seg (map IObs (obs_reads t (cg_orep g) cv))) then 2
                    else if forallb (fun c => c_obs_in c (exp_entry t (cg_orep g) c)) cv
                            && negb (ri_member it) then 3
                    else 0
                | _ => 9
                end),
               {| cg_on := true; cg_t := t; cg_orep := cg_orep g ++ newly t (cg_orep g) cv;
                  cg_rrep := cg_rrep g; cg_pend := cg_pend g |})
          end
      | KRew (WSuper j) =>
          match nth_error mapping j with
          | None => (0, g)
          | Some cv =>
              let reads := rew_reads t (cg_rrep g) cv in
              ((match r with
                | WRew v =>
                    if (v =? sumZ (map (fun c => nth c (cg_pend g) 0%Z) reads))%Z
                       && ilogs_eqb seg (map IRew reads) then 0 else 4
                | _ => 9
                end),
               {| cg_on := true; cg_t := t; cg_orep := cg_orep g;
                  cg_rrep := cg_rrep g ++ newly t (cg_rrep g) cv;
                  cg_pend := fold_left (fun p c => set_nth p c 0%Z) reads (cg_pend g) |})
          end
      | KDone (WSuper j) =>
          match nth_error mapping j with
          | None => (0, g)
          | Some cv =>
              ((match r with
                | WDone b => if Bool.eqb b (forallb (c_done t) cv) && ilogs_eqb seg [] then 0 else 5
                | _ => 9
                end), g)
          end
      | KInfo (WSuper j) =>
          match nth_error mapping j with
          | None => (0, g)
          | Some cv =>
              ((match r with
                | WSupInfo l => if kvs_eqb l (map (fun c => (c, - c_own t c)%Z) cv) && ilogs_eqb seg []
                                then 0 else 11
                | _ => 9
                end), g)
          end
      | KAll =>
          ((match r with
            | WAll b => if Bool.eqb b (r_all (row_at sc t)) && ilogs_eqb seg [] then 0 else 7
            | _ => 9
            end), g)
      | KObs (WPlain a) =>
          if c_covered a then ((match r with WReject => if ilogs_eqb seg [] then 0 else 10 | _ => 10 end), g)
          else ((match r with
                 | WPlainObs o => if (o =? c_own t a)%Z && ilogs_eqb seg [IObs a] then
                                    if c_obs_in a o && negb (ri_member it) then 3 else 0
                                  else 7
                 | _ => 7
                 end), g)
      | KRew (WPlain a) =>
          if c_covered a then ((match r with WReject => if ilogs_eqb seg [] then 0 else 10 | _ => 10 end), g)
          else ((match r with
                 | WRew v => if (v =? nth a (cg_pend g) 0%Z)%Z && ilogs_eqb seg [IRew a] then 0 else 7
                 | _ => 7
                 end), set_t g t (set_nth (cg_pend g) a 0%Z))
      | KDone (WPlain a) =>
          if c_covered a then ((match r with WReject => if ilogs_eqb seg [] then 0 else 10 | _ => 10 end), g)
          else ((match r with
                 | WDone b => if Bool.eqb b (c_done t a) && ilogs_eqb seg [] then 0 else 7
                 | _ => 7
                 end), g)
      | KInfo (WPlain a) =>
          if c_covered a then ((match r with WReject => if ilogs_eqb seg [] then 0 else 10 | _ => 10 end), g)
          else ((match r with
                 | WPlainInfo v => if (v =? - c_own t a)%Z && ilogs_eqb seg [] then 0 else 7
                 | _ => 7
                 end), g)
      end
    end.

  Fixpoint chk_calls (g : cghost) (cs : list (wcall Z)) (its : list ritem) : Z :=
    match cs, its with
    | [], [] => 0
    | c :: cs', it :: its' =>
        let (code, g') := chk_call g c it in
        if (code =? 0)%Z then chk_calls g' cs' its' else code
    | _, _ => 12                      (* not one answer per call *)
    end.

  Definition cghost0 : cghost :=
    {| cg_on := false; cg_t := O; cg_orep := []; cg_rrep := []; cg_pend := zeros (sc_n sc) |}.

  (* clause 13: an invalid mapping is refused by the constructor, a valid one is accepted *)
  Definition chk_C14 (cs : list (wcall Z)) (init : bool) (its : list ritem) : Z :=
    if c_valid then (if init then 13 else chk_calls cghost0 cs its)
    else (if init then match its with [] => 0 | _ => 13 end else 13).
End Chk.

(* what the model answers for a whole input *)
Definition super_model (sc : script) (mapping : list (list nat)) (nulls : list (option Z))
           (cs : list (wcall Z)) : bool * list ritem :=
  if ss_valid sc mapping then (false, ss_super_run sc mapping nulls cs) else (true, []).

(* ---- wire -------------------------------------------------------------------------------- *)
Definition dec_wid (x : sx) : option wid :=
  match x with
  | L [A 0; j] => option_map WSuper (sxNat j)
  | L [A 1; a] => option_map WPlain (sxNat a)
  | _ => None
  end.

Definition dec_wentry (x : sx) : option (wentry Z) :=
  match x with
  | L [A 0; j; acts] =>
      match sxNat j, dec_kvs acts with Some j', Some a' => Some (ESuper j' a') | _, _ => None end
  | L [A 1; a; A v] => option_map (fun a' => EPlain a' v) (sxNat a)
  | _ => None
  end.

Definition dec_wcall (x : sx) : option (wcall Z) :=
  match x with
  | L [A 0] => Some KReset
  | L [A 1; L es] => option_map KStep (all_some (map dec_wentry es))
  | L [A 2; i] => option_map KObs (dec_wid i)
  | L [A 3; i] => option_map KRew (dec_wid i)
  | L [A 4; i] => option_map KDone (dec_wid i)
  | L [A 5; i] => option_map KInfo (dec_wid i)
  | L [A 6] => Some KAll
  | _ => None
  end.

Definition dec_nats2 (x : sx) : option (list (list nat)) :=
  match x with L l => all_some (map sxNats l) | A _ => None end.
Definition dec_nulls (x : sx) : option (list (option Z)) :=
  match x with L l => all_some (map sxOptZ l) | A _ => None end.

(* ids of super agents must exist: an unknown id is passed on to the wrapped simulation by the
   code, which is outside the model *)
Definition wid_known (k : nat) (i : wid) : bool :=
  match i with WSuper j => Nat.ltb j k | WPlain _ => true end.
Definition call_known (k : nat) (c : wcall Z) : bool :=
  match c with
  | KStep es => forallb (fun e => match e with ESuper j _ => Nat.ltb j k | EPlain _ _ => true end) es
  | KObs i | KRew i | KDone i | KInfo i => wid_known k i
  | _ => true
  end.

Definition dec_super_in (x : sx) : option (script * list (list nat) * list (option Z) * list (wcall Z)) :=
  match x with
  | L [xs; xm; xn; L xcs] =>
      match dec_script xs, dec_nats2 xm, dec_nulls xn, all_some (map dec_wcall xcs) with
      | Some (_, sc), Some m, Some nl, Some cs =>
          if forallb (call_known (length m)) cs then Some (sc, m, nl, cs) else None
      | _, _, _, _ => None
      end
  | _ => None
  end.

Definition enc_ilog (e : ilog Z) : sx :=
  match e with
  | IReset => L [A 0]
  | IStep acts => L [A 1; enc_kvs acts]
  | IObs a => L [A 2; ofNat a]
  | IRew a => L [A 3; ofNat a]
  end.

Definition enc_wresp (r : wresp Z Z) (member : bool) : sx :=
  match r with
  | WOk => L [A 0]
  | WSupObs ents mask => L [A 1; enc_kvs ents; L (map enc_kb mask); ofB member]
  | WPlainObs o => L [A 2; A o; ofB member]
  | WRew v => L [A 3; A v]
  | WDone b => L [A 4; ofB b]
  | WSupInfo l => L [A 5; enc_kvs l]
  | WPlainInfo i => L [A 6; A i]
  | WAll b => L [A 7; ofB b]
  | WReject => L [A 9; A 1]
  | WError c => L [A 9; A c]
  end.

Definition enc_ritem (it : ritem) : sx :=
  L [enc_wresp (ri_resp it) (ri_member it); L (map enc_ilog (ri_seg it))].

Definition dec_ilog (x : sx) : option (ilog Z) :=
  match x with
  | L [A 0] => Some IReset
  | L [A 1; acts] => option_map IStep (dec_kvs acts)
  | L [A 2; a] => option_map IObs (sxNat a)
  | L [A 3; a] => option_map IRew (sxNat a)
  | _ => None
  end.

Definition dec_wresp (x : sx) : option (wresp Z Z * bool) :=
  match x with
  | L [A 0] => Some (WOk, true)
  | L [A 1; ents; L mask; m] =>
      match dec_kvs ents, all_some (map dec_kb mask), sxB m with
      | Some e, Some k, Some m' => Some (WSupObs e k, m')
      | _, _, _ => None
      end
  | L [A 2; A o; m] => option_map (fun m' => (WPlainObs o, m')) (sxB m)
  | L [A 3; A v] => Some (WRew v, true)
  | L [A 4; b] => option_map (fun b' => (WDone b', true)) (sxB b)
  | L [A 5; l] => option_map (fun l' => (WSupInfo l', true)) (dec_kvs l)
  | L [A 6; A i] => Some (WPlainInfo i, true)
  | L [A 7; b] => option_map (fun b' => (WAll b', true)) (sxB b)
  | L [A 9; A 1] => Some (WReject, true)
  | L [A 9; A c] => Some (WError c, true)
  | _ => None
  end.

Definition dec_ritem (x : sx) : option ritem :=
  match x with
  | L [r; L seg] =>
      match dec_wresp r, all_some (map dec_ilog seg) with
      | Some (r', m), Some seg' => Some {| ri_resp := r'; ri_member := m; ri_seg := seg' |}
      | _, _ => None
      end
  | _ => None
  end.

(* (script mapping nulls calls) -> (init ((response inner-log-segment) ...)) *)
Definition run_super (x : sx) : sx :=
  match dec_super_in x with
  | Some (sc, m, nl, cs) =>
      let (init, its) := super_model sc m nl cs in
      L [ofB init; L (map enc_ritem its)]
  | None => sx_err
  end.

(* ((script mapping nulls calls) (init items)) -> 1 | -(first failing clause) | -99 undecodable *)
Definition run_chk_super (x : sx) : sx :=
  match x with
  | L [xin; L [xinit; L xits]] =>
      match dec_super_in xin, sxB xinit, all_some (map dec_ritem xits) with
      | Some (sc, m, nl, cs), Some init, Some its =>
          let code := chk_C14 sc m nl cs init its in
          if (code =? 0)%Z then A 1 else A (- code)
      | _, _, _ => A (-99)
      end
  | _ => A (-99)
  end.

(* DISPATCH: 1401 => run_super *)
(* DISPATCH: 1402 => run_chk_super *)
