(* Used-versus-fresh twin checks (C08): the behaviour of an object that has been used and then
   reset is compared with the behaviour of a newly built twin.  The "model" side of such a
   component is the fresh twin's behaviour itself (echo); the checker is structural equality. *)
From Coq Require Import ZArith List Bool.
From Abm Require Import Base.Sx.
Import ListNotations.
Open Scope Z_scope.

(* input (desc fresh) -> fresh *)
Definition run_echo (x : sx) : sx :=
  match x with
  | L [_; fresh] => fresh
  | _ => sx_err
  end.

(* input ((desc fresh) used) -> 1 when used = fresh, else -801 *)
Definition run_chk_twin (x : sx) : sx :=
  match x with
  | L [L [_; fresh]; used] => if sx_eqb fresh used then A 1 else A (-801)
  | _ => A (-809)
  end.

(* DISPATCH: 801 => run_echo *)
(* DISPATCH: 802 => run_chk_twin *)
