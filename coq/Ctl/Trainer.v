(* Model of abmarl/trainers/base.py (MultiPolicyTrainer.compute_actions, generate_episode,
   _check_agent_policy_alignment; SinglePolicyTrainer and DebugTrainer inherit them) over the
   manager models of Ctl/Managers.v, for an arbitrary simulation and arbitrary (stateful)
   policies.  Agents and policies are indices, dicts are association lists in insertion order.
   The executable checker chk_C16 works from the recorded traffic only.  No proofs here. *)
From Coq Require Import ZArith List Bool Arith.
From Abm Require Import Base.Sx Ctl.Managers Ctl.ScriptSim Ctl.MgrCheck.
Import ListNotations.

(* try: d[k].append(x) except KeyError: d[k] = [x] *)
Fixpoint rec_append {X} (a : nat) (x : X) (r : list (nat * list X)) : list (nat * list X) :=
  match r with
  | [] => [(a, [x])]
  | (b, l) :: r' => if Nat.eqb a b then (b, l ++ [x]) :: r' else (b, l) :: rec_append a x r'
  end.

Definition rec_all {X} (d : list (nat * X)) (r : list (nat * list X)) : list (nat * list X) :=
  fold_left (fun r kv => rec_append (fst kv) (snd kv) r) d r.

(* d[k], with "absent" read as the empty list *)
Fixpoint rec_get {X} (a : nat) (r : list (nat * list X)) : list X :=
  match r with
  | [] => []
  | (b, l) :: r' => if Nat.eqb a b then l else rec_get a r'
  end.

(* the entries of agent a in a dict *)
Definition occ {X} (a : nat) (d : list (nat * X)) : list X :=
  map snd (filter (fun kv => Nat.eqb (fst kv) a) d).

Record episode (Obs Act : Type) := {
  ep_obs : list (nat * list Obs); ep_act : list (nat * list Act);
  ep_rew : list (nat * list Z); ep_done : list (nat * list bool);
  ep_all : list bool                      (* dones['__all__'] *)
}.
Arguments ep_obs {Obs Act}.
Arguments ep_act {Obs Act}.
Arguments ep_rew {Obs Act}.
Arguments ep_done {Obs Act}.
Arguments ep_all {Obs Act}.

(* one call of policy.compute_action *)
Record query (Obs Act : Type) := { q_agent : nat; q_pid : nat; q_obs : Obs; q_act : Act }.
Arguments q_agent {Obs Act}.
Arguments q_pid {Obs Act}.
Arguments q_obs {Obs Act}.
Arguments q_act {Obs Act}.

(* one iteration of the loop: the policy queries, the dict sent, the manager's answer *)
Record iter (Obs Info Act : Type) := {
  it_q : list (query Obs Act); it_sent : list (nat * Act); it_resp : resp Obs Info }.
Arguments it_q {Obs Info Act}.
Arguments it_sent {Obs Info Act}.
Arguments it_resp {Obs Info Act}.

Inductive estatus := EOk | EReject | EError | EKeyErr.

(* for agent_id, agent_done in done.items(): if agent_done: del obs[agent_id] *)
Fixpoint del_done {Obs} (dn : list (nat * bool)) (obs : list (nat * Obs)) : option (list (nat * Obs)) :=
  match dn with
  | [] => Some obs
  | (a, true) :: dn' =>
      if memb a (map fst obs)
      then del_done dn' (filter (fun kv => negb (Nat.eqb (fst kv) a)) obs)
      else None                                                   (* KeyError *)
  | (_, false) :: dn' => del_done dn' obs
  end.

Section Trainer.
  Context {St Obs Info Act PS : Type}.
  Variable Sim : simulation St Obs Info Act.
  Variable pmap : nat -> nat.                          (* policy_mapping_fn *)
  Variable pol_act : PS -> nat -> Obs -> Act * PS.     (* policies[pid].compute_action(obs) *)
  Variable pol_reset : PS -> PS.                       (* every policy.reset() *)
  Variable shuf : nat -> list (nat * Act) -> list (nat * Act).  (* oracle: the all-step
                                         manager's shuffle in iteration j (identity when off) *)

  (* {agent_id: policies[policy_mapping_fn(agent_id)].compute_action(obs[agent_id]) for agent_id in obs} *)
  Fixpoint compute_actions (ps : PS) (obs : list (nat * Obs))
    : list (nat * Act) * list (query Obs Act) * PS :=
    match obs with
    | [] => ([], [], ps)
    | (a, ob) :: obs' =>
        let (x, ps1) := pol_act ps (pmap a) ob in
        let '(acts, qs, ps2) := compute_actions ps1 obs' in
        ((a, x) :: acts,
         {| q_agent := a; q_pid := pmap a; q_obs := ob; q_act := x |} :: qs, ps2)
    end.

  Definition store (ep : episode Obs Act) (o : out Obs Info) (acts : list (nat * Act))
    : episode Obs Act :=
    {| ep_obs := rec_all (o_obs o) (ep_obs ep); ep_act := rec_all acts (ep_act ep);
       ep_rew := rec_all (o_rew o) (ep_rew ep); ep_done := rec_all (o_done o) (ep_done ep);
       ep_all := ep_all ep ++ [o_all o] |}.

  Definition status_of (r : resp Obs Info) : estatus :=
    match r with RReject => EReject | _ => EError end.

  (* for j in range(horizon): ...   (h = iterations left, j = index of this iteration) *)
  Fixpoint ep_loop (h j : nat) (k : mgr) (m : mstate St) (ps : PS) (obs : list (nat * Obs))
           (ep : episode Obs Act)
    : list (iter Obs Info Act) * estatus * episode Obs Act * mstate St * PS :=
    match h with
    | O => ([], EOk, ep, m, ps)
    | S h' =>
        let '(acts, qs, ps1) := compute_actions ps obs in
        let (r, m1) := do_call Sim k m (CStep acts (shuf j acts)) in
        let it := {| it_q := qs; it_sent := acts; it_resp := r |} in
        match r with
        | ROut o =>
            let ep1 := store ep o acts in
            if o_all o then ([it], EOk, ep1, m1, ps1)
            else match del_done (o_done o) (o_obs o) with
                 | None => ([it], EKeyErr, ep1, m1, ps1)
                 | Some obs' =>
                     let '(its, st, ep2, m2, ps2) := ep_loop h' (S j) k m1 ps1 obs' ep1 in
                     (it :: its, st, ep2, m2, ps2)
                 end
        | _ => ([it], status_of r, ep, m1, ps1)
        end
    end.

  Record eprun := {
    er_reset : resp Obs Info;                 (* the manager's answer to reset() *)
    er_iters : list (iter Obs Info Act);
    er_status : estatus;                      (* EOk: the four dicts are returned *)
    er_ep : episode Obs Act;
    er_m : mstate St; er_ps : PS }.

  Definition empty_ep : episode Obs Act :=
    {| ep_obs := []; ep_act := []; ep_rew := []; ep_done := []; ep_all := [] |}.

  Definition generate_episode (horizon : nat) (k : mgr) (m : mstate St) (ps : PS) : eprun :=
    let (r, m1) := do_call Sim k m CReset in
    match r with
    | RObs obs =>
        let ps1 := pol_reset ps in
        (* observations[agent_id] = [agent_obs] for every key of the (key-unique) dict *)
        let ep0 := {| ep_obs := rec_all obs []; ep_act := []; ep_rew := []; ep_done := [];
                      ep_all := [] |} in
        let '(its, st, ep, m2, ps2) := ep_loop horizon 0 k m1 ps1 obs ep0 in
        {| er_reset := r; er_iters := its; er_status := st; er_ep := ep; er_m := m2; er_ps := ps2 |}
    | _ => {| er_reset := r; er_iters := []; er_status := status_of r; er_ep := empty_ep;
              er_m := m1; er_ps := ps |}
    end.

  (* ---- _check_agent_policy_alignment: spaces are compared by their identifier ---- *)
  Variable npol : nat.                                   (* policies 0..npol-1 exist *)
  Variables a_obs_sp a_act_sp p_obs_sp p_act_sp : nat -> Z.

  Inductive align := AlOk | AlReject | AlKeyErr.

  Fixpoint check_agents (l : list nat) : align :=
    match l with
    | [] => AlOk
    | a :: l' =>
        if sim_learning Sim a then
          let pid := pmap a in
          if Nat.ltb pid npol then                       (* self.policies[policy_id] *)
            if (a_act_sp a =? p_act_sp pid)%Z && (a_obs_sp a =? p_obs_sp pid)%Z
            then check_agents l' else AlReject
          else AlKeyErr
        else check_agents l'
    end.

  Definition check_alignment : align := check_agents (agents Sim).
End Trainer.
Arguments er_reset {St Obs Info Act PS}.
Arguments er_iters {St Obs Info Act PS}.
Arguments er_status {St Obs Info Act PS}.
Arguments er_ep {St Obs Info Act PS}.
Arguments er_m {St Obs Info Act PS}.
Arguments er_ps {St Obs Info Act PS}.

(* ================================================================== wire *)
(* the recording policy of the harness: the action is a function of the global query count,
   the policy id and the observation *)
Definition wire_pol (seed : Z) (c : nat) (pid : nat) (ob : Z) : Z * nat :=
  ((seed + 3 * Z.of_nat c + ob + 5 * Z.of_nat pid) mod 10, S c)%Z.

Record tinput := {
  ti_k : mgr; ti_sc : script; ti_h : nat; ti_pmap : list nat;
  ti_asp : list (Z * Z);             (* per agent: (observation space id, action space id) *)
  ti_psp : list (Z * Z);             (* per policy *)
  ti_seed : Z }.

Definition dec_tinput (x : sx) : option tinput :=
  match x with
  | L [xs; h; pm; asp; psp; A seed] =>
      match dec_script xs, sxNat h, sxNats pm, sxPairs asp, sxPairs psp with
      | Some (k, sc), Some h', Some pm', Some asp', Some psp' =>
          Some {| ti_k := k; ti_sc := sc; ti_h := h'; ti_pmap := pm'; ti_asp := asp';
                  ti_psp := psp'; ti_seed := seed |}
      | _, _, _, _, _ => None
      end
  | _ => None
  end.

(* nominations of a dynamic-order script: duplicate-free lists of existing agents *)
Definition rows_ok (sc : script) : bool :=
  forallb (fun r => nodupb (r_next r) && forallb (fun a => Nat.ltb a (sc_n sc)) (r_next r))
          (sc_rows sc).

Definition ti_pm (i : tinput) (a : nat) : nat := nth a (ti_pmap i) O.

Definition t_align (i : tinput) : align :=
  check_alignment (script_sim (ti_sc i)) (ti_pm i) (length (ti_psp i))
                  (fun a => fst (nth a (ti_asp i) (0, 0)%Z)) (fun a => snd (nth a (ti_asp i) (0, 0)%Z))
                  (fun p => fst (nth p (ti_psp i) (0, 0)%Z)) (fun p => snd (nth p (ti_psp i) (0, 0)%Z)).

(* behaviour: status 0 = the four dicts were returned, 2 / 3 = the constructor raised
   AssertionError / KeyError, 4 = generate_episode raised *)
Record tbeh := {
  tb_status : Z; tb_reset : option (resp Z Z); tb_iters : list (iter Z Z Z);
  tb_ep : episode Z Z }.

Definition trainer_model (i : tinput) : tbeh :=
  match t_align i with
  | AlReject => {| tb_status := 2; tb_reset := None; tb_iters := []; tb_ep := empty_ep |}
  | AlKeyErr => {| tb_status := 3; tb_reset := None; tb_iters := []; tb_ep := empty_ep |}
  | AlOk =>
      let r := generate_episode (script_sim (ti_sc i)) (ti_pm i) (wire_pol (ti_seed i))
                                (fun c => c) (fun _ acts => acts)
                                (ti_h i) (ti_k i) (init (ss_init (ti_sc i))) O in
      {| tb_status := match er_status r with EOk => 0 | _ => 4 end;
         tb_reset := Some (er_reset r); tb_iters := er_iters r;
         tb_ep := match er_status r with EOk => er_ep r | _ => empty_ep end |}
  end.

Definition enc_query (q : query Z Z) : sx :=
  L [ofNat (q_agent q); ofNat (q_pid q); A (q_obs q); A (q_act q)].
Definition dec_query (x : sx) : option (query Z Z) :=
  match x with
  | L [a; p; A ob; A ac] =>
      match sxNat a, sxNat p with
      | Some a', Some p' => Some {| q_agent := a'; q_pid := p'; q_obs := ob; q_act := ac |}
      | _, _ => None
      end
  | _ => None
  end.

Definition enc_iter (it : iter Z Z Z) : sx :=
  L [L (map enc_query (it_q it)); enc_kvs (it_sent it); enc_resp (it_resp it)].
Definition dec_iter (x : sx) : option (iter Z Z Z) :=
  match x with
  | L [L qs; sent; r] =>
      match all_some (map dec_query qs), dec_kvs sent, dec_resp r with
      | Some qs', Some sent', Some r' => Some {| it_q := qs'; it_sent := sent'; it_resp := r' |}
      | _, _, _ => None
      end
  | _ => None
  end.

Definition enc_recZ (r : list (nat * list Z)) : sx :=
  L (map (fun al => L [ofNat (fst al); ofZs (snd al)]) r).
Definition enc_recB (r : list (nat * list bool)) : sx :=
  L (map (fun al => L [ofNat (fst al); ofBs (snd al)]) r).
Definition dec_recZ (x : sx) : option (list (nat * list Z)) :=
  match x with
  | L l => all_some (map (fun y => match y with
                                   | L [a; zs] => match sxNat a, sxZs zs with
                                                  | Some a', Some zs' => Some (a', zs')
                                                  | _, _ => None
                                                  end
                                   | _ => None
                                   end) l)
  | _ => None
  end.
Definition dec_recB (x : sx) : option (list (nat * list bool)) :=
  match x with
  | L l => all_some (map (fun y => match y with
                                   | L [a; bs] => match sxNat a, sxBs bs with
                                                  | Some a', Some bs' => Some (a', bs')
                                                  | _, _ => None
                                                  end
                                   | _ => None
                                   end) l)
  | _ => None
  end.

Definition enc_ep (e : episode Z Z) : sx :=
  L [enc_recZ (ep_obs e); enc_recZ (ep_act e); enc_recZ (ep_rew e); enc_recB (ep_done e);
     ofBs (ep_all e)].
Definition dec_ep (x : sx) : option (episode Z Z) :=
  match x with
  | L [o; a; r; d; al] =>
      match dec_recZ o, dec_recZ a, dec_recZ r, dec_recB d, sxBs al with
      | Some o', Some a', Some r', Some d', Some al' =>
          Some {| ep_obs := o'; ep_act := a'; ep_rew := r'; ep_done := d'; ep_all := al' |}
      | _, _, _, _, _ => None
      end
  | _ => None
  end.

Definition enc_tbeh (b : tbeh) : sx :=
  L [A (tb_status b); match tb_reset b with Some r => L [enc_resp r] | None => L [] end;
     L (map enc_iter (tb_iters b)); enc_ep (tb_ep b)].
Definition dec_tbeh (x : sx) : option tbeh :=
  match x with
  | L [A st; xr; L its; ep] =>
      match (match xr with
             | L [] => Some None
             | L [r] => option_map Some (dec_resp r)
             | _ => None
             end), all_some (map dec_iter its), dec_ep ep with
      | Some r', Some its', Some ep' =>
          Some {| tb_status := st; tb_reset := r'; tb_iters := its'; tb_ep := ep' |}
      | _, _, _ => None
      end
  | _ => None
  end.

Definition run_trainer (x : sx) : sx :=
  match dec_tinput x with
  | Some i => enc_tbeh (trainer_model i)
  | None => sx_err
  end.

(* ------------------------------------------------------------------ chk_C16 *)
Fixpoint bools_eqb (l m : list bool) : bool :=
  match l, m with
  | [], [] => true
  | x :: l', y :: m' => Bool.eqb x y && bools_eqb l' m'
  | _, _ => false
  end.
Fixpoint zlist_eqb (l m : list Z) : bool :=
  match l, m with
  | [], [] => true
  | x :: l', y :: m' => (x =? y)%Z && zlist_eqb l' m'
  | _, _ => false
  end.

Definition flagged (a : nat) (dn : list (nat * bool)) : bool :=
  existsb (fun kb => Nat.eqb (fst kb) a && snd kb) dn.

Definition outs_of (its : list (iter Z Z Z)) : list (out Z Z) :=
  flat_map (fun it => match it_resp it with ROut o => [o] | _ => [] end) its.

Section ChkTrainer.
  Variable i : tinput.
  Notation sc := (ti_sc i).

  Definition t_aligned : bool :=
    forallb (fun a => Nat.ltb (ti_pm i a) (length (ti_psp i))
                      && (snd (nth a (ti_asp i) (0, 0)) =? snd (nth (ti_pm i a) (ti_psp i) (0, 0)))%Z
                      && (fst (nth a (ti_asp i) (0, 0)) =? fst (nth (ti_pm i a) (ti_psp i) (0, 0)))%Z)
            (corder sc).

  (* clauses 62 (only live, reported agents are asked, with their own latest observation),
     66 (the policy asked is the agent's policy and has the agent's observation space) *)
  Definition chk_query (lobs : list (nat * Z)) (ldone : list (nat * bool)) (q : query Z Z) : Z :=
    let a := q_agent q in
    if negb (memb a (map fst lobs)) then 62
    else if flagged a ldone then 62
    else if negb (existsb (fun kv => Nat.eqb (fst kv) a && (snd kv =? q_obs q)%Z) lobs) then 62
    else if negb (Nat.eqb (q_pid q) (ti_pm i a)) then 66
    else if memb a (corder sc)          (* a learning agent of the simulation *)
            && negb ((fst (nth a (ti_asp i) (0, 0)) =? fst (nth (q_pid q) (ti_psp i) (0, 0)))%Z)
         then 66
    else 0%Z.

  Fixpoint first_code (l : list Z) : Z :=
    match l with [] => 0%Z | c :: l' => if (c =? 0)%Z then first_code l' else c end.

  (* the iterations, given the latest reported observations / done flags; left = iterations
     the horizon still allows; returns 0 or the failing clause *)
  Fixpoint chk_iters (left : nat) (lobs : list (nat * Z)) (ldone : list (nat * bool))
           (its : list (iter Z Z Z)) (ok : bool) : Z :=
    match its with
    | [] => 0%Z
    | it :: its' =>
        match left with
        | O => 64%Z                                           (* more steps than the horizon *)
        | S left' =>
            let cq := first_code (map (chk_query lobs ldone) (it_q it)) in
            if negb (cq =? 0)%Z then cq
            else if negb (perm_kvs (it_sent it) (map (fun q => (q_agent q, q_act q)) (it_q it)))
                 then 63%Z                                    (* sent something else *)
            else
              match it_resp it with
              | ROut o =>
                  if o_all o then (match its' with [] => 0 | _ => 64 end)%Z   (* went on after __all__ *)
                  else chk_iters left' (o_obs o) (o_done o) its' ok
              | _ => if ok then 64%Z else (match its' with [] => 0 | _ => 64 end)%Z
              end
        end
    end.

  (* clause 64, the other direction: stopping early only after __all__ *)
  Definition stops_ok (its : list (iter Z Z Z)) : bool :=
    Nat.eqb (length its) (ti_h i)
    || match it_resp (last its {| it_q := []; it_sent := []; it_resp := RError |}) with
       | ROut o => o_all o
       | _ => false
       end && negb (Nat.eqb (length its) O).

  (* clause 65: the records are what occurred, per agent, in order *)
  Definition rec_keys_ok {X} (r : list (nat * list X)) : bool :=
    nodupb (map fst r) && forallb (fun al => Nat.ltb (fst al) (sc_n sc)
                                             && negb (Nat.eqb (length (snd al)) O)) r.

  Definition chk_records (obs0 : list (nat * Z)) (its : list (iter Z Z Z)) (ep : episode Z Z) : bool :=
    let outs := outs_of its in
    rec_keys_ok (ep_obs ep) && rec_keys_ok (ep_act ep) && rec_keys_ok (ep_rew ep)
    && rec_keys_ok (ep_done ep)
    && bools_eqb (ep_all ep) (map o_all outs)
    && forallb (fun a =>
         zlist_eqb (rec_get a (ep_obs ep)) (occ a obs0 ++ flat_map (fun o => occ a (o_obs o)) outs)
         && zlist_eqb (rec_get a (ep_act ep)) (flat_map (fun it => occ a (it_sent it)) its)
         && zlist_eqb (rec_get a (ep_rew ep)) (flat_map (fun o => occ a (o_rew o)) outs)
         && bools_eqb (rec_get a (ep_done ep)) (flat_map (fun o => occ a (o_done o)) outs)
         && Nat.leb (length (rec_get a (ep_act ep))) (length (rec_get a (ep_obs ep)))
         && Nat.leb (length (rec_get a (ep_obs ep))) (S (length (rec_get a (ep_act ep))))
         && Nat.eqb (length (rec_get a (ep_rew ep))) (length (rec_get a (ep_done ep))))
       (cagents sc).

  (* clause 67: at most one true done flag per agent, and it is the last record *)
  Definition one_done_ok (ep : episode Z Z) : bool :=
    forallb (fun al => forallb negb (removelast (snd al))) (ep_done ep).

  Definition chk_C16_code (b : tbeh) : Z :=
    if (tb_status b =? 2)%Z || (tb_status b =? 3)%Z then
      if t_aligned then 61%Z
      else match tb_reset b, tb_iters b with None, [] => 0%Z | _, _ => 61%Z end
    else if negb t_aligned then 61%Z
    else
      match tb_reset b with
      | Some (RObs obs0) =>
          let ok := (tb_status b =? 0)%Z in
          let c := chk_iters (ti_h i) obs0 [] (tb_iters b) ok in
          if negb (c =? 0)%Z then c
          else if negb ok then 68%Z             (* an exception escaped generate_episode *)
          else if negb (stops_ok (tb_iters b)) then 64%Z
          else if negb (chk_records obs0 (tb_iters b) (tb_ep b)) then 65%Z
          else if negb (one_done_ok (tb_ep b)) then 67%Z
          else 0%Z
      | Some _ => if (tb_status b =? 4)%Z then (match tb_iters b with [] => 0 | _ => 64 end)%Z
                  else 64%Z
      | None => 64%Z
      end.
End ChkTrainer.

Definition chk_C16 (i : tinput) (b : tbeh) : bool := (chk_C16_code i b =? 0)%Z.

Definition run_chk_C16 (x : sx) : sx :=
  match x with
  | L [xi; xb] =>
      match dec_tinput xi, dec_tbeh xb with
      | Some i, Some b =>
          let code := chk_C16_code i b in
          if (code =? 0)%Z then A 1%Z else A (- code)%Z
      | _, _ => A (-12)%Z
      end
  | _ => A (-12)%Z
  end.

(* DISPATCH: 1601 => run_trainer *)
(* DISPATCH: 1602 => run_chk_C16 *)
