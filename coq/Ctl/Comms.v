(* Model of abmarl/sim/wrappers/communication_wrapper.py (CommunicationHandshakeWrapper) over an
   arbitrary simulation whose get_obs accepts a fusion matrix (section variable s_fobs), the
   scripted instance used on the wire, and the executable history checker chk_C20.
   message_buffer / received_message are dicts of dicts: association lists receiver -> sender ->
   bit, in insertion order.  c_log is a ghost log of the effectful calls reaching the wrapped
   simulation.  No proofs here. *)
From Coq Require Import ZArith List Bool Arith.
From Abm Require Import Base.Sx Ctl.Managers Ctl.ScriptSim Ctl.MgrCheck Ctl.Super.
Import ListNotations.
Open Scope Z_scope.

Definition row := list (nat * bool).
Definition rows := list (nat * row).

(* one agent's wrapped action {'action': x, 'send': {...}, 'receive': {...}} *)
Record cact (Act : Type) := { ca_act : Act; ca_send : row; ca_recv : row }.
Arguments ca_act {Act}.
Arguments ca_send {Act}.
Arguments ca_recv {Act}.

Inductive clog (Act : Type) :=
| LReset | LStep (acts : list (nat * Act)) | LObs (a : nat) (fm : row) | LRew (a : nat).
Arguments LReset {Act}.
Arguments LStep {Act}.
Arguments LObs {Act}.
Arguments LRew {Act}.

Inductive ccall (Act : Type) :=
| QReset | QStep (acts : list (nat * cact Act)) | QObs (a : nat) | QRew (a : nat) | QDone (a : nat)
| QInfo (a : nat) | QAll.
Arguments QReset {Act}.
Arguments QStep {Act}.
Arguments QObs {Act}.
Arguments QRew {Act}.
Arguments QDone {Act}.
Arguments QInfo {Act}.
Arguments QAll {Act}.

Inductive cresp (Obs Info : Type) :=
| COk | CObs (o : Obs) (buf : row) | CRew (r : Z) | CDone (b : bool) | CInfo (i : Info)
| CAll (b : bool) | CErr (code : Z).
Arguments COk {Obs Info}.
Arguments CObs {Obs Info}.
Arguments CRew {Obs Info}.
Arguments CDone {Obs Info}.
Arguments CInfo {Obs Info}.
Arguments CAll {Obs Info}.
Arguments CErr {Obs Info}.

Record cst (St Act : Type) := { c_sim : St; c_buf : rows; c_rcv : rows; c_log : list (clog Act) }.
Arguments c_sim {St Act}.
Arguments c_buf {St Act}.
Arguments c_rcv {St Act}.
Arguments c_log {St Act}.

Fixpoint alookup {V : Type} (l : list (nat * V)) (k : nat) : option V :=
  match l with
  | [] => None
  | (k', v) :: l' => if Nat.eqb k k' then Some v else alookup l' k
  end.

(* the other agents, in listing order *)
Definition others (n a : nat) : list nat := filter (fun b => negb (Nat.eqb b a)) (seq 0 n).

(* {my: {other: f my other}} over all agents *)
Definition table (n : nat) (f : nat -> nat -> bool) : rows :=
  map (fun r => (r, map (fun s => (s, f r s)) (others n r))) (seq 0 n).

(* the code's KeyError *)
Definition KEYERR : Z := 5.

Section AnySim.
  Context {St Obs Info Act : Type}.
  Variable Sim : simulation St Obs Info Act.
  (* get_obs(agent, fusion_matrix=m) of the wrapped simulation *)
  Variable s_fobs : St -> nat -> row -> Obs * St.
  Notation n := (sim_n Sim).
  Notation s_reset := (sim_reset Sim).
  Notation s_step := (sim_step Sim).
  Notation s_reward := (sim_reward Sim).
  Notation s_done := (sim_done Sim).
  Notation s_all := (sim_all Sim).
  Notation s_info := (sim_info Sim).
  Notation cstate := (cst St Act).

  Definition c_reset (c : cstate) : cstate :=
    {| c_sim := s_reset (c_sim c); c_buf := table n (fun _ _ => false);
       c_rcv := table n (fun _ _ => false); c_log := c_log c ++ [LReset] |}.

  (* {s: True if buffer[r][s] and action['receive'][s] else False for s in received[r]};
     `and` short-circuits: receive[s] is only looked up when the buffer entry is true *)
  Definition recv_row (bufr recv old : row) : option row :=
    all_some (map (fun kv =>
                     match alookup bufr (fst kv) with
                     | None => None
                     | Some true => option_map (fun x => (fst kv, x)) (alookup recv (fst kv))
                     | Some false => Some (fst kv, false)
                     end) old).

  (* process the receive actions against the old buffer; false = KeyError (state so far kept) *)
  Fixpoint recv_phase (buf rcv : rows) (acts : list (nat * cact Act)) : rows * bool :=
    match acts with
    | [] => (rcv, true)
    | (r, a) :: acts' =>
        match alookup rcv r, alookup buf r with
        | Some old, Some bufr =>
            match recv_row bufr (ca_recv a) old with
            | Some new => recv_phase buf (aupd rcv r new) acts'
            | None => (rcv, false)
            end
        | _, _ => (rcv, false)
        end
    end.

  (* message_buffer[r][s] = m for (r, m) in action['send'].items() *)
  Fixpoint send_row (buf : rows) (s : nat) (sends : row) : rows * bool :=
    match sends with
    | [] => (buf, true)
    | (r, m) :: sends' =>
        match alookup buf r with
        | Some rowr => send_row (aupd buf r (aupd rowr s m)) s sends'
        | None => (buf, false)
        end
    end.

  Fixpoint send_phase (buf : rows) (acts : list (nat * cact Act)) : rows * bool :=
    match acts with
    | [] => (buf, true)
    | (s, a) :: acts' =>
        let (buf1, ok) := send_row buf s (ca_send a) in
        if ok then send_phase buf1 acts' else (buf1, false)
    end.

  Definition sim_acts (acts : list (nat * cact Act)) : list (nat * Act) :=
    map (fun kv => (fst kv, ca_act (snd kv))) acts.

  Definition c_step (c : cstate) (acts : list (nat * cact Act)) : cresp Obs Info * cstate :=
    let (rcv1, ok1) := recv_phase (c_buf c) (c_rcv c) acts in
    if negb ok1 then
      (CErr KEYERR, {| c_sim := c_sim c; c_buf := c_buf c; c_rcv := rcv1; c_log := c_log c |})
    else
      let buf0 := table n (fun _ _ => false) in                 (* every buffer is cleared *)
      let s1 := s_step (c_sim c) (sim_acts acts) in             (* only the 'action' parts *)
      let lg := c_log c ++ [LStep (sim_acts acts)] in
      let (buf1, ok2) := send_phase buf0 acts in
      (if ok2 then COk else CErr KEYERR,
       {| c_sim := s1; c_buf := buf1; c_rcv := rcv1; c_log := lg |}).

  Definition c_obs (c : cstate) (a : nat) : cresp Obs Info * cstate :=
    match alookup (c_rcv c) a with
    | None => (CErr KEYERR, c)
    | Some fm =>
        let (o, s1) := s_fobs (c_sim c) a fm in
        let c1 := {| c_sim := s1; c_buf := c_buf c; c_rcv := c_rcv c; c_log := c_log c ++ [LObs a fm] |} in
        match alookup (c_buf c) a with
        | None => (CErr KEYERR, c1)
        | Some b => (CObs o b, c1)
        end
    end.

  Definition c_rew (c : cstate) (a : nat) : cresp Obs Info * cstate :=
    let (r, s1) := s_reward (c_sim c) a in
    (CRew r, {| c_sim := s1; c_buf := c_buf c; c_rcv := c_rcv c; c_log := c_log c ++ [LRew a] |}).

  Definition c_call (c : cstate) (q : ccall Act) : cresp Obs Info * cstate :=
    match q with
    | QReset => (COk, c_reset c)
    | QStep acts => c_step c acts
    | QObs a => c_obs c a
    | QRew a => c_rew c a
    | QDone a => (CDone (s_done (c_sim c) a), c)
    | QInfo a => (CInfo (s_info (c_sim c) a), c)
    | QAll => (CAll (s_all (c_sim c)), c)
    end.

  Definition c_exec (c : cstate) (qs : list (ccall Act)) : cstate :=
    fold_left (fun c q => snd (c_call c q)) qs c.

  Definition c_init (s : St) : cstate := {| c_sim := s; c_buf := []; c_rcv := []; c_log := [] |}.

  (* ---- the independent specification of the two tables, from the steps of the episode so far
          (most recent first) ---- *)
  Definition sent (acts : list (nat * cact Act)) (s r : nat) : bool :=
    match alookup acts s with
    | Some a => match alookup (ca_send a) r with Some m => m | None => false end
    | None => false
    end.
  Definition wants (a : cact Act) (s : nat) : bool :=
    match alookup (ca_recv a) s with Some x => x | None => false end.

  Definition spec_buf (h : list (list (nat * cact Act))) (r s : nat) : bool :=
    match h with [] => false | acts :: _ => sent acts s r end.
  Fixpoint spec_rcv (h : list (list (nat * cact Act))) (r s : nat) : bool :=
    match h with
    | [] => false
    | acts :: older =>
        match alookup acts r with
        | Some a => spec_buf older r s && wants a s
        | None => spec_rcv older r s
        end
    end.

  (* well-formed (in-space) action dict: known agents, each sends only to others, and names every
     other agent in 'receive' *)
  Definition incl_b (l m : list nat) : bool := forallb (fun x => memb x m) l.
  Definition wf_act (kv : nat * cact Act) : bool :=
    Nat.ltb (fst kv) n &&
    nodupb (map fst (ca_send (snd kv))) && incl_b (map fst (ca_send (snd kv))) (others n (fst kv)) &&
    incl_b (others n (fst kv)) (map fst (ca_recv (snd kv))).
  Definition wf_acts (acts : list (nat * cact Act)) : bool :=
    nodupb (map fst acts) && forallb wf_act acts.

  (* membership of a wrapped observation in Dict(obs: <inner space>, message_buffer:
     Dict(other: Discrete(2))) and of a wrapped action in Dict(action: <inner space>,
     send: Dict(other: Discrete(2)), receive: Dict(other: Discrete(2))) *)
  Variable obs_in : nat -> Obs -> bool.
  Variable act_in : nat -> Act -> bool.
  Definition same_keys (l m : list nat) : bool :=
    Nat.eqb (length l) (length m) && nodupb l && incl_b l m.
  Definition cobs_member (a : nat) (o : Obs) (b : row) : bool :=
    obs_in a o && same_keys (map fst b) (others n a).
  Definition cact_member (kv : nat * cact Act) : bool :=
    act_in (fst kv) (ca_act (snd kv)) &&
    same_keys (map fst (ca_send (snd kv))) (others n (fst kv)) &&
    same_keys (map fst (ca_recv (snd kv))) (others n (fst kv)).
End AnySim.

(* ---------------------------------------------------------------------------------------- *)
(* scripted instance: fused observation = t*100 + a + 10000 * sum of 2^s over fused senders s *)

Definition fuse_code (fm : row) : Z :=
  fold_right (fun (kv : nat * bool) acc => if snd kv then 2 ^ Z.of_nat (fst kv) + acc else acc) 0 fm.
Definition ss_fobs (s : sst) (a : nat) (fm : row) : Z * sst :=
  (Z.of_nat (s_t s) * 100 + Z.of_nat a + 10000 * fuse_code fm, s).

Definition ACT_N : Z := 10.

(* what is recorded per call: answer, membership bit (observations: the observation is in the
   wrapped agent's observation space; steps: every submitted action is in its action space),
   inner calls, and both tables after the call *)
Record qitem := { qi_resp : cresp Z Z; qi_member : bool; qi_seg : list (clog Z);
                  qi_buf : rows; qi_rcv : rows }.

Section ScriptedComms.
  Variable sc : script.
  Notation Sim := (script_sim sc).

  Definition cs_obs_in (a : nat) (o : Z) : bool := (0 <=? o) && (o <? OBS_N).
  Definition cs_act_in (a : nat) (x : Z) : bool := (0 <=? x) && (x <? ACT_N).

  Definition cmember_of (r : cresp Z Z) (q : ccall Z) : bool :=
    match r, q with
    | CObs o b, QObs a => if ss_learning sc a then cobs_member Sim cs_obs_in a o b else true
    | _, QStep acts =>
        forallb (fun kv => ss_learning sc (fst kv) && cact_member Sim cs_act_in kv) acts
    | _, _ => true
    end.

  Fixpoint cs_items (c : cst sst Z) (qs : list (ccall Z)) : list qitem :=
    match qs with
    | [] => []
    | q :: qs' =>
        let (r, c1) := c_call Sim ss_fobs c q in
        {| qi_resp := r; qi_member := cmember_of r q;
           qi_seg := skipn (length (c_log c)) (c_log c1); qi_buf := c_buf c1; qi_rcv := c_rcv c1 |}
        :: cs_items c1 qs'
    end.

  Definition comms_model (qs : list (ccall Z)) : list qitem := cs_items (c_init (ss_init sc)) qs.
End ScriptedComms.

(* ---------------------------------------------------------------------------------------- *)
(* the checker                                                                                *)

Definition row_eqb (l m : row) : bool := kbs_eqb l m.
Fixpoint rows_eqb (l m : rows) : bool :=
  match l, m with
  | [], [] => true
  | (a, x) :: l', (b, y) :: m' => Nat.eqb a b && row_eqb x y && rows_eqb l' m'
  | _, _ => false
  end.

Definition clog_eqb (x y : clog Z) : bool :=
  match x, y with
  | LReset, LReset => true
  | LStep a, LStep b => kvs_eqb a b
  | LObs a f, LObs b g => Nat.eqb a b && row_eqb f g
  | LRew a, LRew b => Nat.eqb a b
  | _, _ => false
  end.
Fixpoint clogs_eqb (l m : list (clog Z)) : bool :=
  match l, m with
  | [], [] => true
  | x :: l', y :: m' => clog_eqb x y && clogs_eqb l' m'
  | _, _ => false
  end.

(* ghost: episode running and tables known (off after an exception, until the next reset),
   inner step count, unread rewards, the action dicts of this episode (most recent first) *)
Record qghost := { qg_on : bool; qg_t : nat; qg_pend : list Z; qg_hist : list (list (nat * cact Z)) }.

Section Chk.
  Variable sc : script.
  Notation n := (sc_n sc).
  Notation Sim := (script_sim sc).

  Definition q_own (t a : nat) : Z := Z.of_nat t * 100 + Z.of_nat a.

  Definition chk_qcall (g : qghost) (q : ccall Z) (it : qitem) : Z * qghost :=
    let t := qg_t g in
    let h := qg_hist g in
    let r := qi_resp it in
    let seg := qi_seg it in
    match q with
    | QReset =>
        ((match r with
          | COk => if negb (clogs_eqb seg [LReset]) then 8
                   else if negb (rows_eqb (qi_buf it) (table n (fun _ _ => false))
                                 && rows_eqb (qi_rcv it) (table n (fun _ _ => false))) then 3
                   else 0
          | _ => 8
          end),
         {| qg_on := true; qg_t := O; qg_pend := zeros n; qg_hist := [] |})
    | _ =>
      if negb (qg_on g) then (0, g) else
      let same_tables := rows_eqb (qi_buf it) (table n (spec_buf h))
                         && rows_eqb (qi_rcv it) (table n (spec_rcv h)) in
      match q with
      | QReset => (0, g)
      | QStep acts =>
          if negb (wf_acts Sim acts) then
            (0, {| qg_on := false; qg_t := t; qg_pend := qg_pend g; qg_hist := h |})
          else
            let h' := acts :: h in
            let t' := S t in
            ((match r with
              | COk =>
                  if negb (clogs_eqb seg [LStep (sim_acts acts)]) then 4
                  else if negb (rows_eqb (qi_buf it) (table n (spec_buf h'))) then 1
                  else if negb (rows_eqb (qi_rcv it) (table n (spec_rcv h'))) then 2
                  else if forallb (fun kv => nth (fst kv) (sc_learn sc) false
                                             && cact_member Sim (cs_act_in) kv) acts
                          && negb (qi_member it) then 5
                  else 0
              | _ => 7
              end),
             {| qg_on := true; qg_t := t'; qg_pend := add_lists (qg_pend g) (r_acc (row_at sc t'));
                qg_hist := h' |})
      | QObs a =>
          if negb (Nat.ltb a n) then (0, g) else
          let fm := map (fun s => (s, spec_rcv h a s)) (others n a) in
          ((match r with
            | CObs o b =>
                if negb (row_eqb b (map (fun s => (s, spec_buf h a s)) (others n a))) then 1
                else if negb (clogs_eqb seg [LObs a fm]) then 2
                else if negb ((o =? q_own t a + 10000 * fuse_code fm) && same_tables) then 6
                else if nth a (sc_learn sc) false && cs_obs_in a o && negb (qi_member it) then 5
                else 0
            | _ => 7
            end), g)
      | QRew a =>
          ((match r with
            | CRew v => if (v =? nth a (qg_pend g) 0) && clogs_eqb seg [LRew a] && same_tables
                        then 0 else 6
            | _ => 7
            end),
           {| qg_on := true; qg_t := t; qg_pend := set_nth (qg_pend g) a 0; qg_hist := h |})
      | QDone a =>
          ((match r with
            | CDone b => if Bool.eqb b (nth a (r_done (row_at sc t)) false) && clogs_eqb seg []
                            && same_tables then 0 else 6
            | _ => 7
            end), g)
      | QInfo a =>
          ((match r with
            | CInfo v => if (v =? - q_own t a) && clogs_eqb seg [] && same_tables then 0 else 6
            | _ => 7
            end), g)
      | QAll =>
          ((match r with
            | CAll b => if Bool.eqb b (r_all (row_at sc t)) && clogs_eqb seg [] && same_tables
                        then 0 else 6
            | _ => 7
            end), g)
      end
    end.

  Fixpoint chk_qcalls (g : qghost) (qs : list (ccall Z)) (its : list qitem) : Z :=
    match qs, its with
    | [], [] => 0
    | q :: qs', it :: its' =>
        let (code, g') := chk_qcall g q it in
        if code =? 0 then chk_qcalls g' qs' its' else code
    | _, _ => 12
    end.

  Definition qghost0 : qghost := {| qg_on := false; qg_t := O; qg_pend := zeros n; qg_hist := [] |}.
  Definition chk_C20 (qs : list (ccall Z)) (its : list qitem) : Z := chk_qcalls qghost0 qs its.
End Chk.

(* ---- wire -------------------------------------------------------------------------------- *)
Definition dec_row (x : sx) : option row :=
  match x with L l => all_some (map dec_kb l) | A _ => None end.
Definition enc_row (r : row) : sx := L (map enc_kb r).
Definition enc_rows (t : rows) : sx := L (map (fun kr => L [ofNat (fst kr); enc_row (snd kr)]) t).
Definition dec_rows (x : sx) : option rows :=
  match x with
  | L l => all_some (map (fun y => match y with
                                   | L [a; r] => match sxNat a, dec_row r with
                                                 | Some a', Some r' => Some (a', r')
                                                 | _, _ => None
                                                 end
                                   | _ => None
                                   end) l)
  | A _ => None
  end.

Definition dec_cact (x : sx) : option (nat * cact Z) :=
  match x with
  | L [a; A v; sd; rc] =>
      match sxNat a, dec_row sd, dec_row rc with
      | Some a', Some sd', Some rc' => Some (a', {| ca_act := v; ca_send := sd'; ca_recv := rc' |})
      | _, _, _ => None
      end
  | _ => None
  end.

Definition dec_ccall (x : sx) : option (ccall Z) :=
  match x with
  | L [A 0] => Some QReset
  | L [A 1; L acts] => option_map QStep (all_some (map dec_cact acts))
  | L [A 2; a] => option_map QObs (sxNat a)
  | L [A 3; a] => option_map QRew (sxNat a)
  | L [A 4; a] => option_map QDone (sxNat a)
  | L [A 5; a] => option_map QInfo (sxNat a)
  | L [A 6] => Some QAll
  | _ => None
  end.

(* the wrapper is used after its first reset: the first call must be a reset *)
Definition dec_comms_in (x : sx) : option (script * list (ccall Z)) :=
  match x with
  | L [xs; L xqs] =>
      match dec_script xs, all_some (map dec_ccall xqs) with
      | Some (_, sc), Some qs =>
          match qs with
          | QReset :: _ => Some (sc, qs)
          | [] => Some (sc, qs)
          | _ => None
          end
      | _, _ => None
      end
  | _ => None
  end.

Definition enc_clog (e : clog Z) : sx :=
  match e with
  | LReset => L [A 0]
  | LStep acts => L [A 1; enc_kvs acts]
  | LObs a fm => L [A 2; ofNat a; enc_row fm]
  | LRew a => L [A 3; ofNat a]
  end.
Definition dec_clog (x : sx) : option (clog Z) :=
  match x with
  | L [A 0] => Some LReset
  | L [A 1; acts] => option_map LStep (dec_kvs acts)
  | L [A 2; a; fm] => match sxNat a, dec_row fm with
                      | Some a', Some f => Some (LObs a' f)
                      | _, _ => None
                      end
  | L [A 3; a] => option_map LRew (sxNat a)
  | _ => None
  end.

Definition enc_cresp (r : cresp Z Z) (member : bool) : sx :=
  match r with
  | COk => L [A 0; ofB member]
  | CObs o b => L [A 1; A o; enc_row b; ofB member]
  | CRew v => L [A 3; A v]
  | CDone b => L [A 4; ofB b]
  | CInfo i => L [A 6; A i]
  | CAll b => L [A 7; ofB b]
  | CErr c => L [A 9; A c]
  end.
Definition dec_cresp (x : sx) : option (cresp Z Z * bool) :=
  match x with
  | L [A 0; m] => option_map (fun m' => (COk, m')) (sxB m)
  | L [A 1; A o; b; m] => match dec_row b, sxB m with
                          | Some b', Some m' => Some (CObs o b', m')
                          | _, _ => None
                          end
  | L [A 3; A v] => Some (CRew v, true)
  | L [A 4; b] => option_map (fun b' => (CDone b', true)) (sxB b)
  | L [A 6; A i] => Some (CInfo i, true)
  | L [A 7; b] => option_map (fun b' => (CAll b', true)) (sxB b)
  | L [A 9; A c] => Some (CErr c, true)
  | _ => None
  end.

Definition enc_qitem (it : qitem) : sx :=
  L [enc_cresp (qi_resp it) (qi_member it); L (map enc_clog (qi_seg it));
     enc_rows (qi_buf it); enc_rows (qi_rcv it)].
Definition dec_qitem (x : sx) : option qitem :=
  match x with
  | L [r; L seg; b; rc] =>
      match dec_cresp r, all_some (map dec_clog seg), dec_rows b, dec_rows rc with
      | Some (r', m), Some seg', Some b', Some rc' =>
          Some {| qi_resp := r'; qi_member := m; qi_seg := seg'; qi_buf := b'; qi_rcv := rc' |}
      | _, _, _, _ => None
      end
  | _ => None
  end.

(* (script calls) -> ((response inner-log-segment message_buffer received_message) ...) *)
Definition run_comms (x : sx) : sx :=
  match dec_comms_in x with
  | Some (sc, qs) => L (map enc_qitem (comms_model sc qs))
  | None => sx_err
  end.

(* ((script calls) items) -> 1 | -(first failing clause) | -99 undecodable *)
Definition run_chk_comms (x : sx) : sx :=
  match x with
  | L [xin; L xits] =>
      match dec_comms_in xin, all_some (map dec_qitem xits) with
      | Some (sc, qs), Some its =>
          let code := chk_C20 sc qs its in
          if code =? 0 then A 1 else A (- code)
      | _, _ => A (-99)
      end
  | _ => A (-99)
  end.

(* DISPATCH: 2001 => run_comms *)
(* DISPATCH: 2002 => run_chk_comms *)
