(* Model of abmarl/sim/wrappers/{wrapper,sar_wrapper,ravel_discrete_wrapper,flatten_wrapper}.py
   (Wrapper, SARWrapper.step/get_obs, RavelDiscreteWrapper, FlattenWrapper, FlattenActionWrapper)
   and of abmarl/sim/gridworld/wrapper.py (ComponentWrapper.unwrapped, ActorWrapper.process_action,
   RavelActionWrapper, ExclusiveChannelActionWrapper) over an arbitrary simulation / actor.

   Values travelling through wrappers (observations and actions on every level of a stack) are
   [upoint]s: nested values whose leaves remember their numpy kind (Spaces/Flatten.v).
   Agents are indices; an agent's spaces are [Some asp] for learning agents and [None] for the
   others (PrincipleAgent has no spaces).  No proofs here (see Proofs/Wrappers_proofs.v). *)
From Coq Require Import ZArith List Bool Arith.
From Abm Require Import Base.Sx Spaces.Space Spaces.Ravel Spaces.Flatten Spaces.Excl Ctl.Managers.
Import ListNotations.
Open Scope Z_scope.

(* ---------------- values ---------------- *)
Fixpoint p2u (p : point) : upoint :=
  match p with
  | PI z => UI z false
  | PV v => UV v false
  | PF v => UV v true
  | PT ps => UT (map p2u ps)
  end.

Definition unscale (v : list Z) : option (list Z) :=
  if forallb (fun z => z mod TICK =? 0) v then Some (map (fun z => z / TICK) v) else None.

(* read a value as a point of [s]; an integer leaf that arrives with float kind is accepted when
   it is integral (numpy casts it) *)
Fixpoint u2p (s : space) (u : upoint) {struct s} : option point :=
  match s, u with
  | Discrete _, UI z f =>
      if f then (if z mod TICK =? 0 then Some (PI (z / TICK)) else None) else Some (PI z)
  | MultiBinary _, UV v f | MultiDiscrete _, UV v f | BoxI _, UV v f =>
      if f then option_map PV (unscale v) else Some (PV v)
  | BoxF _, UV v true => Some (PF v)
  | Tuple ss, UT us | Dict ss, UT us =>
      option_map PT
        ((fix go (ss : list space) (us : list upoint) : option (list point) :=
            match ss, us with
            | [], [] => Some []
            | s :: ss', u :: us' =>
                match u2p s u, go ss' us' with
                | Some p, Some ps => Some (p :: ps)
                | _, _ => None
                end
            | _, _ => None
            end) ss us)
  | _, _ => None
  end.

(* the Box returned by flatten_space, as a space; a flat vector of kind k as a point of it *)
Definition fbox (b : list (Z * Z) * bool) : space := if snd b then BoxF (fst b) else BoxI (fst b).
Definition fvec (v : list Z * bool) : upoint := UV (fst v) (snd v).

(* ---------------- the four conversions of the two SAR wrappers ---------------- *)
(* RavelDiscreteWrapper: wrap_observation = ravel, wrap_action = unravel (and their inverses) *)
Definition ravel_enc (s : space) (u : upoint) : upoint :=
  match u2p s u with Some p => UI (ravel s p) false | None => UErr end.
Definition ravel_dec (s : space) (u : upoint) : upoint :=
  match u with UI k false => p2u (unravel s k) | _ => UErr end.
(* FlattenWrapper: wrap_observation = flatten, wrap_action = unflatten *)
Definition flat_enc (s : space) (u : upoint) : upoint :=
  match u2p s u with Some p => fvec (flatten s p) | None => UErr end.
Definition flat_dec (s : space) (u : upoint) : upoint :=
  match u with UV v f => unflatten s v f | _ => UErr end.

Inductive wkind := WRavel | WFlatten | WFlattenAct.

(* an agent's spaces and its null observation / null action (None = the empty dict the agent
   setters store when no null point is given) *)
Record asp := { a_obs : space; a_act : space; a_nobs : option upoint; a_nact : option upoint }.
Definition spaces := list (option asp).

Definition asp_at (sp : spaces) (a : nat) : option asp :=
  match nth_error sp a with Some (Some x) => Some x | _ => None end.

(* the constructors: converted spaces and null points of the wrapper's deep-copied agents, and the
   assertions.  A null point is converted when the agent has one (see findings/C06-null-truthiness:
   the code before the repair tested the null point's truth value instead, [ctor_prefix] below) *)
Definition wrap_asp (k : wkind) (x : asp) : asp :=
  match k with
  | WRavel => {| a_obs := ravel_space (a_obs x); a_act := ravel_space (a_act x);
                 a_nobs := option_map (ravel_enc (a_obs x)) (a_nobs x);
                 a_nact := option_map (ravel_enc (a_act x)) (a_nact x) |}
  | WFlatten => {| a_obs := fbox (flatten_space (a_obs x)); a_act := fbox (flatten_space (a_act x));
                   a_nobs := option_map (flat_enc (a_obs x)) (a_nobs x);
                   a_nact := option_map (flat_enc (a_act x)) (a_nact x) |}
  | WFlattenAct => {| a_obs := a_obs x; a_act := fbox (flatten_space (a_act x));
                      a_nobs := a_nobs x;
                      a_nact := option_map (flat_enc (a_act x)) (a_nact x) |}
  end.
Definition wrap_ok (k : wkind) (x : asp) : bool :=
  match k with
  | WRavel => ravel_ok (a_obs x) && ravel_ok (a_act x)
  | _ => true
  end.
Definition ctor_ok (k : wkind) (sp : spaces) : bool :=
  forallb (fun o => match o with Some x => wrap_ok k x | None => true end) sp.
Definition wrap_spaces (k : wkind) (sp : spaces) : spaces := map (option_map (wrap_asp k)) sp.

(* ---- the constructors before the repair (finding C06-null-truthiness) ----------------------
   "if self.agents[agent_id].null_observation:" tests the truth value of the null point:
   an empty dict is false (no null point), a number is false when it is 0 (and is then left
   unconverted), a numpy array with more than one element raises ValueError.
   Results: 1 accepted, 0 AssertionError (check_space), 2 ValueError. *)
Definition truthy_prefix (u : upoint) : option bool :=
  match u with
  | UI z _ => Some (negb (z =? 0))
  | UV [z] _ => Some (negb (z =? 0))
  | UV _ _ => None
  | UT us => Some (match us with [] => false | _ => true end)
  | UErr => None
  end.
Definition conv_prefix (enc : upoint -> upoint) (o : option upoint) : option (option upoint) :=
  match o with
  | None => Some None
  | Some u => match truthy_prefix u with
              | None => None
              | Some true => Some (Some (enc u))
              | Some false => Some (Some u)
              end
  end.
Definition wrap_asp_prefix (k : wkind) (x : asp) : option asp :=
  let w := wrap_asp k x in
  match k with
  | WRavel =>
      match conv_prefix (ravel_enc (a_obs x)) (a_nobs x), conv_prefix (ravel_enc (a_act x)) (a_nact x) with
      | Some no, Some na => Some {| a_obs := a_obs w; a_act := a_act w; a_nobs := no; a_nact := na |}
      | _, _ => None
      end
  | WFlatten =>
      match conv_prefix (flat_enc (a_obs x)) (a_nobs x), conv_prefix (flat_enc (a_act x)) (a_nact x) with
      | Some no, Some na => Some {| a_obs := a_obs w; a_act := a_act w; a_nobs := no; a_nact := na |}
      | _, _ => None
      end
  | WFlattenAct =>
      match conv_prefix (flat_enc (a_act x)) (a_nact x) with
      | Some na => Some {| a_obs := a_obs w; a_act := a_act w; a_nobs := a_nobs x; a_nact := na |}
      | None => None
      end
  end.
(* the loop over the agents of one constructor: the first agent that fails decides *)
Fixpoint ctor_prefix (k : wkind) (sp : list (option asp)) : Z * list (option asp) :=
  match sp with
  | [] => (1, [])
  | None :: sp' => let (v, r) := ctor_prefix k sp' in (v, None :: r)
  | Some x :: sp' =>
      if negb (wrap_ok k x) then (0, [])
      else match wrap_asp_prefix k x with
           | None => (2, [])
           | Some y => let (v, r) := ctor_prefix k sp' in (v, Some y :: r)
           end
  end.
Fixpoint stack_prefix (ks : list wkind) (sp : list (option asp)) : Z * list (option asp) :=
  match ks with
  | [] => (1, sp)
  | k :: ks' => let (v, below) := stack_prefix ks' sp in
                if v =? 1 then ctor_prefix k below else (v, [])
  end.

(* wrap_action(self.sim.agents[agent_id], action) / wrap_observation(...): the reference agent is
   the agent of the simulation directly below *)
Definition dec_act (k : wkind) (below : spaces) (a : nat) (u : upoint) : upoint :=
  match asp_at below a with
  | Some x => match k with
              | WRavel => ravel_dec (a_act x) u
              | WFlatten | WFlattenAct => flat_dec (a_act x) u
              end
  | None => UErr
  end.
Definition enc_obs (k : wkind) (below : spaces) (a : nat) (u : upoint) : upoint :=
  match asp_at below a with
  | Some x => match k with
              | WRavel => ravel_enc (a_obs x) u
              | WFlatten => flat_enc (a_obs x) u
              | WFlattenAct => u
              end
  | None => UErr
  end.
(* the inverse conversions (unwrap_action, unwrap_observation); used by the checker *)
Definition enc_act (k : wkind) (below : spaces) (a : nat) (u : upoint) : upoint :=
  match asp_at below a with
  | Some x => match k with
              | WRavel => ravel_enc (a_act x) u
              | WFlatten | WFlattenAct => flat_enc (a_act x) u
              end
  | None => UErr
  end.
Definition dec_obs (k : wkind) (below : spaces) (a : nat) (u : upoint) : upoint :=
  match asp_at below a with
  | Some x => match k with
              | WRavel => ravel_dec (a_obs x) u
              | WFlatten => flat_dec (a_obs x) u
              | WFlattenAct => u
              end
  | None => UErr
  end.

(* ---------------- stacks: lists of wrapper kinds, outermost first ---------------- *)
Fixpoint level_spaces (ks : list wkind) (sp : spaces) : spaces :=
  match ks with
  | [] => sp
  | k :: ks' => wrap_spaces k (level_spaces ks' sp)
  end.
Fixpoint stack_ok (ks : list wkind) (sp : spaces) : bool :=
  match ks with
  | [] => true
  | k :: ks' => stack_ok ks' sp && ctor_ok k (level_spaces ks' sp)
  end.
Fixpoint decode_stack (ks : list wkind) (sp : spaces) (a : nat) (u : upoint) : upoint :=
  match ks with
  | [] => u
  | k :: ks' => decode_stack ks' sp a (dec_act k (level_spaces ks' sp) a u)
  end.
Fixpoint encode_stack (ks : list wkind) (sp : spaces) (a : nat) (u : upoint) : upoint :=
  match ks with
  | [] => u
  | k :: ks' => enc_obs k (level_spaces ks' sp) a (encode_stack ks' sp a u)
  end.
(* the same two walks with the inverse conversions *)
Fixpoint reencode_act (ks : list wkind) (sp : spaces) (a : nat) (u : upoint) : upoint :=
  match ks with
  | [] => u
  | k :: ks' => enc_act k (level_spaces ks' sp) a (reencode_act ks' sp a u)
  end.
Fixpoint redecode_obs (ks : list wkind) (sp : spaces) (a : nat) (u : upoint) : upoint :=
  match ks with
  | [] => u
  | k :: ks' => redecode_obs ks' sp a (dec_obs k (level_spaces ks' sp) a u)
  end.

Definition decode_dict (ks : list wkind) (sp : spaces) (acts : list (nat * upoint)) :=
  map (fun kv => (fst kv, decode_stack ks sp (fst kv) (snd kv))) acts.

(* ---------------- SARWrapper over an arbitrary simulation ---------------- *)
Section AnySim.
  Context {St Info : Type}.
  Notation sim := (simulation St upoint Info upoint).

  (* Wrapper forwards everything; SARWrapper.step converts every action of the dict with the
     inner agent as reference, SARWrapper.get_obs converts the inner observation; wrap_reward is
     the identity in all three wrappers *)
  Definition sar_wrap (dec enc : nat -> upoint -> upoint) (S : sim) : sim :=
    {| sim_n := sim_n S;
       sim_learning := sim_learning S;
       sim_reset := sim_reset S;
       sim_step := fun st acts => sim_step S st (map (fun kv => (fst kv, dec (fst kv) (snd kv))) acts);
       sim_obs := fun st a => let (o, st') := sim_obs S st a in (enc a o, st');
       sim_reward := sim_reward S;
       sim_done := sim_done S;
       sim_all := sim_all S;
       sim_info := sim_info S;
       sim_next := sim_next S |}.

  Fixpoint wrap_stack (ks : list wkind) (sp : spaces) (S : sim) : sim :=
    match ks with
    | [] => S
    | k :: ks' => sar_wrap (dec_act k (level_spaces ks' sp)) (enc_obs k (level_spaces ks' sp))
                           (wrap_stack ks' sp S)
    end.

  (* the object graph: a wrapper holds its simulation in [.sim] *)
  Inductive wobj := Bare (S : sim) | Wrapper (k : wkind) (inner : wobj).
  Fixpoint mk (ks : list wkind) (S : sim) : wobj :=
    match ks with [] => Bare S | k :: ks' => Wrapper k (mk ks' S) end.
  (* Wrapper.unwrapped: "try: return self.sim.unwrapped  except AttributeError: return self.sim";
     None = the attribute does not exist *)
  Fixpoint unwrapped (w : wobj) : option wobj :=
    match w with
    | Bare _ => None
    | Wrapper _ w' => match unwrapped w' with Some x => Some x | None => Some w' end
    end.

  (* a history: after every step the observations of the listed agents are read *)
  Fixpoint run_hist (S : sim) (who : list nat) (st : St) (hs : list (list (nat * upoint)))
    : list (list (nat * upoint)) * St :=
    match hs with
    | [] => ([], st)
    | acts :: hs' =>
        let st1 := sim_step S st acts in
        let (obs, st2) := thread (sim_obs S) st1 who in
        let (tr, st3) := run_hist S who st2 hs' in
        (obs :: tr, st3)
    end.
End AnySim.

(* ---------------- actor wrappers over an arbitrary actor ---------------- *)
Inductive akind := ARavel | AExcl.

Definition excl_dec (ss : list space) (u : upoint) : upoint :=
  match u with UI k false => p2u (excl_decode ss k) | _ => UErr end.
Definition excl_enc (ss : list space) (u : upoint) : upoint :=
  match u2p (Dict ss) u with Some p => UI (excl_encode ss p) false | None => UErr end.

(* wrap_space / check_space / wrap_point / unwrap_point of the two actor wrappers *)
Definition awrap_space (k : akind) (s : space) : space :=
  match k, s with
  | ARavel, _ => ravel_space s
  | AExcl, Dict ss => excl_space ss
  | AExcl, _ => s
  end.
Definition awrap_ok (k : akind) (s : space) : bool :=
  match k with ARavel => ravel_ok s | AExcl => excl_ok s end.
Definition awrap_point (k : akind) (s : space) (u : upoint) : upoint :=
  match k, s with
  | ARavel, _ => ravel_dec s u
  | AExcl, Dict ss => excl_dec ss u
  | AExcl, _ => UErr
  end.
Definition aunwrap_point (k : akind) (s : space) (u : upoint) : upoint :=
  match k, s with
  | ARavel, _ => ravel_enc s u
  | AExcl, Dict ss => excl_enc ss u
  | AExcl, _ => UErr
  end.

(* the channel spaces of the supported agents (None: the actor does not support the agent) *)
Definition chans := list (option space).
Definition chan_at (fs : chans) (a : nat) : option space :=
  match nth_error fs a with Some (Some s) => Some s | _ => None end.

Fixpoint alevel (ks : list akind) (fs : chans) : chans :=
  match ks with
  | [] => fs
  | k :: ks' => map (option_map (awrap_space k)) (alevel ks' fs)
  end.
Fixpoint astack_ok (ks : list akind) (fs : chans) : bool :=
  match ks with
  | [] => true
  | k :: ks' => astack_ok ks' fs &&
                forallb (fun o => match o with Some s => awrap_ok k s | None => true end) (alevel ks' fs)
  end.
(* from_space[agent.id] is the channel space recorded before this wrapper converted it *)
Definition adec (k : akind) (from : chans) (a : nat) (u : upoint) : upoint :=
  match chan_at from a with Some s => awrap_point k s u | None => UErr end.
Definition aenc (k : akind) (from : chans) (a : nat) (u : upoint) : upoint :=
  match chan_at from a with Some s => aunwrap_point k s u | None => UErr end.
Fixpoint adecode_stack (ks : list akind) (fs : chans) (a : nat) (u : upoint) : upoint :=
  match ks with
  | [] => u
  | k :: ks' => adecode_stack ks' fs a (adec k (alevel ks' fs) a u)
  end.
Fixpoint areencode (ks : list akind) (fs : chans) (a : nat) (u : upoint) : upoint :=
  match ks with
  | [] => u
  | k :: ks' => aenc k (alevel ks' fs) a (areencode ks' fs a u)
  end.

Section AnyActor.
  Context {G Res : Type}.
  (* an actor component: which agents it supports and process_action(agent, {key: action}),
     answering None (Python's implicit None) or a result, and changing the grid/agents state G *)
  Record actor := { ac_supported : nat -> bool;
                    ac_proc : G -> nat -> upoint -> option Res * G }.

  (* ActorWrapper.process_action *)
  Definition actor_wrap (dec : nat -> upoint -> upoint) (A : actor) : actor :=
    {| ac_supported := ac_supported A;
       ac_proc := fun g a u =>
                    if ac_supported A a then ac_proc A g a (dec a u) else (None, g) |}.

  Fixpoint actor_stack (ks : list akind) (fs : chans) (A : actor) : actor :=
    match ks with
    | [] => A
    | k :: ks' => actor_wrap (adec k (alevel ks' fs)) (actor_stack ks' fs A)
    end.

  (* ComponentWrapper.unwrapped, same shape as Wrapper.unwrapped *)
  Inductive aobj := ABare (A : actor) | AWrapper (k : akind) (inner : aobj).
  Fixpoint amk (ks : list akind) (A : actor) : aobj :=
    match ks with [] => ABare A | k :: ks' => AWrapper k (amk ks' A) end.
  Fixpoint aunwrapped (w : aobj) : option aobj :=
    match w with
    | ABare _ => None
    | AWrapper _ w' => match aunwrapped w' with Some x => Some x | None => Some w' end
    end.
End AnyActor.
Arguments actor : clear implicits.
Arguments aobj : clear implicits.

(* =====================================================================================
   Wire format and checkers
   ===================================================================================== *)
Fixpoint enc_space (s : space) : sx :=
  match s with
  | Discrete n => L [A 0; A n]
  | MultiBinary n => L [A 1; ofNat n]
  | MultiDiscrete nv => L (A 2 :: map A nv)
  | BoxI bs => L (A 3 :: map ofPair bs)
  | BoxF bs => L (A 4 :: map ofPair bs)
  | Tuple ss => L (A 5 :: (fix go (ss : list space) : list sx :=
                             match ss with [] => [] | s :: ss' => enc_space s :: go ss' end) ss)
  | Dict ss => L (A 6 :: (fix go (ss : list space) : list sx :=
                            match ss with [] => [] | s :: ss' => enc_space s :: go ss' end) ss)
  end.

Definition upoint_eqb (u v : upoint) : bool := sx_eqb (enc_upoint u) (enc_upoint v).
Definition space_eqb (s t : space) : bool := sx_eqb (enc_space s) (enc_space t).
Definition opoint_eqb (p q : option point) : bool :=
  match p, q with
  | Some x, Some y => sx_eqb (enc_point x) (enc_point y)
  | _, _ => false
  end.

Definition dec_wkind (x : sx) : option wkind :=
  match x with A 0 => Some WRavel | A 1 => Some WFlatten | A 2 => Some WFlattenAct | _ => None end.
Definition dec_akind (x : sx) : option akind :=
  match x with A 0 => Some ARavel | A 1 => Some AExcl | _ => None end.

(* agent: (0) non-learning | (1 obs_space act_space null_obs null_act), null: () | (value) *)
Definition dec_null (x : sx) : option (option upoint) :=
  match x with
  | L [] => Some None
  | L [xu] => option_map Some (dec_upoint xu)
  | _ => None
  end.
Definition enc_null (o : option upoint) : sx :=
  match o with None => L [] | Some u => L [enc_upoint u] end.
Definition dec_agent (x : sx) : option (option asp) :=
  match x with
  | L [A 0] => Some None
  | L [A 1; xo; xa; xno; xna] =>
      match dec_space xo, dec_space xa, dec_null xno, dec_null xna with
      | Some o, Some a, Some no, Some na =>
          Some (Some {| a_obs := o; a_act := a; a_nobs := no; a_nact := na |})
      | _, _, _, _ => None
      end
  | _ => None
  end.
Definition enc_agent (o : option asp) : sx :=
  match o with
  | None => L [A 0]
  | Some x => L [A 1; enc_space (a_obs x); enc_space (a_act x); enc_null (a_nobs x); enc_null (a_nact x)]
  end.

Definition dec_av (x : sx) : option (nat * upoint) :=
  match x with
  | L [xa; xu] => match sxNat xa, dec_upoint xu with
                  | Some a, Some u => Some (a, u)
                  | _, _ => None
                  end
  | _ => None
  end.
Definition dec_avs (x : sx) : option (list (nat * upoint)) :=
  match x with L l => all_some (map dec_av l) | A _ => None end.
Definition dec_avss (x : sx) : option (list (list (nat * upoint))) :=
  match x with L l => all_some (map dec_avs l) | A _ => None end.
Definition enc_av (kv : nat * upoint) : sx := L [ofNat (fst kv); enc_upoint (snd kv)].

Definition wf_asp (o : option asp) : bool :=
  match o with Some x => wf (a_obs x) && wf (a_act x) | None => true end.
Definition has_agent (sp : spaces) (kv : nat * upoint) : bool :=
  match asp_at sp (fst kv) with Some _ => true | None => false end.

(* ---- twin component -------------------------------------------------------------------
   input  (meta agents stack steps obslog)
            meta    : description of the simulation for the implementation side (ignored here)
            agents  : ((0) | (1 obs act)) ...
            stack   : wrapper kinds, outermost first (0 Ravel, 1 Flatten, 2 FlattenAction)
            steps   : ((agent wrapped_action) ...) ...     one dict per sim.step
            obslog  : ((agent bare_observation) ...) ...   what the bare twin's get_obs returned
   output (0) when a constructor assertion fails, else
          (1 (alias unwrapped states) wrapped_agents decoded encoded)
            alias/unwrapped/states : 1 (the facts the implementation side decides by comparing
                                       the twins; the model's theorems say they hold)
            decoded : per step ((agent action reaching the inner simulation) ...)
            encoded : per log entry ((agent wrapped_observation member) ...)                 *)
Record twin_in := { t_sp : spaces; t_ks : list wkind;
                    t_steps : list (list (nat * upoint)); t_obs : list (list (nat * upoint)) }.

Definition dec_twin_in (x : sx) : option twin_in :=
  match x with
  | L [_; L xa; L xk; xs; xo] =>
      match all_some (map dec_agent xa), all_some (map dec_wkind xk), dec_avss xs, dec_avss xo with
      | Some sp, Some ks, Some steps, Some obs =>
          Some {| t_sp := sp; t_ks := ks; t_steps := steps; t_obs := obs |}
      | _, _, _, _ => None
      end
  | _ => None
  end.

Definition twin_wf (i : twin_in) : bool :=
  forallb wf_asp (t_sp i) &&
  forallb (forallb (has_agent (t_sp i))) (t_steps i) &&
  forallb (forallb (has_agent (t_sp i))) (t_obs i).

Definition obs_member (sp : spaces) (a : nat) (u : upoint) : bool :=
  match asp_at sp a with
  | Some x => match u2p (a_obs x) u with Some p => member (a_obs x) p | None => false end
  | None => false
  end.

Definition twin_decoded (i : twin_in) : list (list (nat * upoint)) :=
  map (decode_dict (t_ks i) (t_sp i)) (t_steps i).
Definition twin_encoded (i : twin_in) : list (list (nat * upoint * bool)) :=
  let top := level_spaces (t_ks i) (t_sp i) in
  map (map (fun kv => let w := encode_stack (t_ks i) (t_sp i) (fst kv) (snd kv) in
                      (fst kv, w, obs_member top (fst kv) w))) (t_obs i).

Definition enc_avb (x : nat * upoint * bool) : sx :=
  L [ofNat (fst (fst x)); enc_upoint (snd (fst x)); ofB (snd x)].

Definition twin_out (agents : spaces) (i : twin_in) : sx :=
  L [A 1; L [A 1; A 1; A 1];
     L (map enc_agent agents);
     L (map (fun d => L (map enc_av d)) (twin_decoded i));
     L (map (fun d => L (map enc_avb d)) (twin_encoded i))].

Definition run_twin (x : sx) : sx :=
  match dec_twin_in x with
  | Some i =>
      if negb (twin_wf i) then sx_err
      else if negb (stack_ok (t_ks i) (t_sp i)) then L [A 0]
      else twin_out (level_spaces (t_ks i) (t_sp i)) i
  | None => sx_err
  end.

(* the same with the constructors as they were before the repair: (2) = ValueError *)
Definition run_twin_prefix (x : sx) : sx :=
  match dec_twin_in x with
  | Some i =>
      if negb (twin_wf i) then sx_err
      else let (v, agents) := stack_prefix (t_ks i) (t_sp i) in
           if v =? 1 then twin_out agents i else L [A v]
  | None => sx_err
  end.

(* decoding only: (agents stack steps) -> decoded steps; the harness steps the bare twin with it *)
Definition run_decode (x : sx) : sx :=
  match x with
  | L [L xa; L xk; xs] =>
      match all_some (map dec_agent xa), all_some (map dec_wkind xk), dec_avss xs with
      | Some sp, Some ks, Some steps =>
          if negb (stack_ok ks sp) then L [A 0]
          else L [A 1; L (map (fun d => L (map enc_av (decode_dict ks sp d))) steps)]
      | _, _, _ => sx_err
      end
  | _ => sx_err
  end.

(* ---- the property checker on a reported twin behaviour --------------------------------
   clauses (number = k of the answer -k):
   1 the constructors accept the stack exactly when no ravel level sits on a space with a float
     Box (check_space), judged with [has_float], not with the model's [ravel_ok]
   2 wrapping left the inner simulation's agents and spaces as they were (dump comparison)
   3 wrapper.unwrapped is the innermost simulation
   4 the twins' state snapshots agree after every step
   5 the wrapper's agents carry the converted spaces (their converted null points are compared
     with the model's by the differential run only: the property text does not speak of them)
   6 for every submitted action, the action that reached the inner simulation belongs to the
     same agent, and re-encoding it (unwrap_action up the stack) gives the submitted action back
   7 every wrapped observation, decoded down the stack (unwrap_observation), is the bare
     observation
   8 every wrapped observation is a member of the wrapped observation space, and the real
     space's [contains] said so too                                                       *)
Fixpoint stack_ok_spec (ks : list wkind) (sp : spaces) : bool :=
  match ks with
  | [] => true
  | k :: ks' =>
      stack_ok_spec ks' sp &&
      match k with
      | WRavel => forallb (fun o => match o with
                                    | Some x => negb (has_float (a_obs x)) && negb (has_float (a_act x))
                                    | None => true
                                    end) (level_spaces ks' sp)
      | _ => true
      end
  end.

Definition agent_eqb (x y : option asp) : bool :=
  match x, y with
  | None, None => true
  | Some a, Some b => space_eqb (a_obs a) (a_obs b) && space_eqb (a_act a) (a_act b)
  | _, _ => false
  end.

Definition chk_act (ks : list wkind) (sp : spaces) (sub got : nat * upoint) : bool :=
  Nat.eqb (fst sub) (fst got) &&
  upoint_eqb (reencode_act ks sp (fst sub) (snd got)) (snd sub).

Definition chk_obs7 (ks : list wkind) (sp : spaces) (bare : nat * upoint) (got : nat * upoint * bool)
  : bool :=
  Nat.eqb (fst bare) (fst (fst got)) &&
  match asp_at sp (fst bare) with
  | Some x => opoint_eqb (u2p (a_obs x) (redecode_obs ks sp (fst bare) (snd (fst got))))
                         (u2p (a_obs x) (snd bare))
  | None => false
  end.

Definition chk_obs8 (top : spaces) (got : nat * upoint * bool) : bool :=
  snd got && obs_member top (fst (fst got)) (snd (fst got)).

Definition chk_twin (i : twin_in) (flags : Z * Z * Z) (agents : spaces)
           (decoded : list (list (nat * upoint))) (encoded : list (list (nat * upoint * bool))) : Z :=
  let ks := t_ks i in let sp := t_sp i in
  let top := level_spaces ks sp in
  if negb (stack_ok_spec ks sp) then -1
  else if negb (fst (fst flags) =? 1) then -2
  else if negb (snd (fst flags) =? 1) then -3
  else if negb (snd flags =? 1) then -4
  else if negb (forall2b agent_eqb top agents) then -5
  else if negb (forall2b (forall2b (chk_act ks sp)) (t_steps i) decoded) then -6
  else if negb (forall2b (forall2b (chk_obs7 ks sp)) (t_obs i) encoded) then -7
  else if negb (forallb (forallb (chk_obs8 top)) encoded) then -8
  else 1.

Definition dec_avb (x : sx) : option (nat * upoint * bool) :=
  match x with
  | L [xa; xu; xb] => match sxNat xa, dec_upoint xu, sxB xb with
                      | Some a, Some u, Some b => Some (a, u, b)
                      | _, _, _ => None
                      end
  | _ => None
  end.
Definition dec_avbs (x : sx) : option (list (nat * upoint * bool)) :=
  match x with L l => all_some (map dec_avb l) | A _ => None end.

Definition run_chk_twin (x : sx) : sx :=
  match x with
  | L [xi; xb] =>
      match dec_twin_in xi with
      | Some i =>
          match xb with
          | L [A 0] => A (if stack_ok_spec (t_ks i) (t_sp i) then -1 else 1)
          | L [A 2] => A (-1)      (* a constructor raised something else than its assertion *)
          | L [A 1; L [A f1; A f2; A f3]; L xag; xdec; L xenc] =>
              match all_some (map dec_agent xag), dec_avss xdec, all_some (map dec_avbs xenc) with
              | Some ag, Some dc, Some en => A (chk_twin i (f1, f2, f3) ag dc en)
              | _, _, _ => A (-99)
              end
          | _ => A (-99)
          end
      | None => A (-99)
      end
  | _ => A (-99)
  end.

(* ---- actor component --------------------------------------------------------------------
   input  (meta chans stack calls)
            chans : (() | (space)) ... channel space of every agent before wrapping
            stack : actor wrapper kinds, outermost first (0 RavelAction, 1 ExclusiveChannel)
            calls : (agent wrapped_action) ...   wrapped_action: an integer of the Discrete space
   output (0) when a constructor assertion fails, else
          (1 unwrapped wrapped_sizes ((supported decoded ret_equal state_equal) ...))
            decoded : the action handed to the innermost actor ((9) for unsupported agents)  *)
Record actor_in := { ai_fs : chans; ai_ks : list akind; ai_calls : list (nat * Z) }.

Definition dec_chan (x : sx) : option (option space) :=
  match x with
  | L [] => Some None
  | L [xs] => option_map Some (dec_space xs)
  | _ => None
  end.
Definition dec_call (x : sx) : option (nat * Z) :=
  match x with
  | L [xa; A k] => option_map (fun a => (a, k)) (sxNat xa)
  | _ => None
  end.
Definition dec_actor_in (x : sx) : option actor_in :=
  match x with
  | L [_; L xc; L xk; L xl] =>
      match all_some (map dec_chan xc), all_some (map dec_akind xk), all_some (map dec_call xl) with
      | Some fs, Some ks, Some calls => Some {| ai_fs := fs; ai_ks := ks; ai_calls := calls |}
      | _, _, _ => None
      end
  | _ => None
  end.

Definition chan_size (o : option space) : sx :=
  match o with
  | Some (Discrete n) => L [A n]
  | Some _ => L [A (-1)]
  | None => L []
  end.

Definition actor_wf (i : actor_in) : bool :=
  forallb (fun o => match o with Some s => wf s | None => true end) (ai_fs i) &&
  forallb (fun c => Nat.ltb (fst c) (length (ai_fs i))) (ai_calls i).

Definition actor_call (i : actor_in) (c : nat * Z) : bool * upoint :=
  match chan_at (ai_fs i) (fst c) with
  | Some _ => (true, adecode_stack (ai_ks i) (ai_fs i) (fst c) (UI (snd c) false))
  | None => (false, UErr)
  end.

Definition actor_results (i : actor_in) : list (bool * upoint * Z * Z) :=
  map (fun c => let r := actor_call i c in (fst r, snd r, 1, 1)) (ai_calls i).

Definition enc_call_res (r : bool * upoint * Z * Z) : sx :=
  let '(b, u, x, y) := r in L [ofB b; enc_upoint u; A x; A y].

Definition run_actor (x : sx) : sx :=
  match dec_actor_in x with
  | Some i =>
      if negb (actor_wf i) then sx_err
      else if negb (astack_ok (ai_ks i) (ai_fs i)) then L [A 0]
      else L [A 1; A 1; L (map chan_size (alevel (ai_ks i) (ai_fs i)));
              L (map enc_call_res (actor_results i))]
  | None => sx_err
  end.

(* clauses of the actor checker
   1 constructor verdict: accepted iff every level is wrappable (has_float / top-level Dict)
   2 wrapper.unwrapped is the innermost actor
   3 the declared wrapped sizes: ravel -> number of points, exclusive -> 1 + sum (n_c - 1)
   4 supported flag right; for unsupported agents nothing reached the inner actor
   5 the decoded action is a member of the channel space
   6 ... re-encoding it (unwrap_point up the stack) gives the submitted integer
   7 for an exclusive wrapper directly on the actor: the decoded Dict uses at most one channel
     and has the documented code
   8 process_action returned the same value on both twins
   9 both twins are in the same state afterwards *)
Fixpoint astack_ok_spec (ks : list akind) (fs : chans) : bool :=
  match ks with
  | [] => true
  | k :: ks' =>
      astack_ok_spec ks' fs &&
      forallb (fun o => match o with
                        | Some s => negb (has_float s) &&
                                    match k, s with
                                    | AExcl, Dict _ => true
                                    | AExcl, _ => false
                                    | ARavel, _ => true
                                    end
                        | None => true
                        end) (alevel ks' fs)
  end.

Definition spec_wrapped_size (k : akind) (s : space) : Z :=
  match k, s with
  | AExcl, Dict ss => fold_left (fun a c => a + (size c - 1)) ss 1
  | _, _ => size s
  end.
Definition spec_sizes (ks : list akind) (fs : chans) : list sx :=
  match ks with
  | [] => map chan_size fs
  | k :: ks' => map (fun o => match o with
                              | Some s => L [A (spec_wrapped_size k s)]
                              | None => L []
                              end) (alevel ks' fs)
  end.

Definition chk_call (i : actor_in) (c : nat * Z) (r : bool * upoint * Z * Z) : Z :=
  let '(sup, dec, req, steq) := r in
  match chan_at (ai_fs i) (fst c) with
  | None => if sup || negb (upoint_eqb dec UErr) then -4
            else if negb (req =? 1) then -8 else if negb (steq =? 1) then -9 else 1
  | Some s =>
      if negb sup then -4
      else match u2p s dec with
           | None => -5
           | Some p =>
               if negb (member s p) then -5
               else if negb (upoint_eqb (areencode (ai_ks i) (ai_fs i) (fst c) dec)
                                        (UI (snd c) false)) then -6
               else if match ai_ks i, s with
                       | [AExcl], Dict ss =>
                           negb (Nat.leb (nz_count (map2 ravel ss (point_children p))) 1 &&
                                 (spec_code (map size ss) (map2 ravel ss (point_children p)) =? snd c))
                       | _, _ => false
                       end then -7
               else if negb (req =? 1) then -8 else if negb (steq =? 1) then -9 else 1
           end
  end.

Fixpoint first_bad (l : list Z) : Z :=
  match l with [] => 1 | z :: l' => if z =? 1 then first_bad l' else z end.

Definition sx_list_eqb (l m : list sx) : bool := sx_eqb (L l) (L m).

Definition chk_actor (i : actor_in) (unw : Z) (sizes : list sx)
           (rs : list (bool * upoint * Z * Z)) : Z :=
  if negb (astack_ok_spec (ai_ks i) (ai_fs i)) then -1
  else if negb (unw =? 1) then -2
  else if negb (sx_list_eqb sizes (spec_sizes (ai_ks i) (ai_fs i))) then -3
  else if negb (Nat.eqb (length rs) (length (ai_calls i))) then -4
  else first_bad (map2 (chk_call i) (ai_calls i) rs).

Definition dec_call_res (x : sx) : option (bool * upoint * Z * Z) :=
  match x with
  | L [xb; xu; A r; A s] =>
      match sxB xb, dec_upoint xu with
      | Some b, Some u => Some (b, u, r, s)
      | _, _ => None
      end
  | _ => None
  end.

Definition run_chk_actor (x : sx) : sx :=
  match x with
  | L [xi; xb] =>
      match dec_actor_in xi with
      | Some i =>
          match xb with
          | L [A 0] => A (if astack_ok_spec (ai_ks i) (ai_fs i) then -1 else 1)
          | L [A 1; A unw; L sizes; L xr] =>
              match all_some (map dec_call_res xr) with
              | Some rs => A (chk_actor i unw sizes rs)
              | None => A (-99)
              end
          | _ => A (-99)
          end
      | None => A (-99)
      end
  | _ => A (-99)
  end.

(* DISPATCH: 601 => run_twin *)
(* DISPATCH: 602 => run_chk_twin *)
(* DISPATCH: 603 => run_actor *)
(* DISPATCH: 604 => run_chk_actor *)
(* DISPATCH: 607 => run_decode *)
(* DISPATCH: 608 => run_twin_prefix *)
