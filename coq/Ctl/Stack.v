(* Wrapper models packaged as instances of the `simulation` record (Ctl/Managers.v), so that the
   manager models (and every theorem stated for an arbitrary simulation) apply to
   manager-over-wrapper-over-simulation stacks, and the relations under which the reset facts of
   the layers compose.  Everything is defined from the existing wrapper models
   (Ctl/Super.v, Ctl/Comms.v, Ctl/Wrappers.v); nothing is re-modelled.  No proofs here
   (Proofs/Stack_proofs.v).

   What the `simulation` interface cannot carry: it has no channel for an exception raised inside
   sim.step / get_reward / get_done.  A wrapper answer that is an exception (WReject, WError,
   CErr) is kept where the interface has room for it (observations and infos of the packaged
   wrappers ARE the wrapper's answers, `wresp` / `cresp`), and is dropped for step (the state is
   the one the wrapper model leaves behind), reward (0) and done (false).  With the agent indices
   of the packaged simulation (`wid_of`) and well-shaped actions no such answer arises in
   SuperAgentWrapper; CommunicationHandshakeWrapper.step raises KeyError on ill-formed dicts only.

   Wrapper (abmarl/sim/wrappers/wrapper.py) is not a DynamicOrderSimulation: DynamicOrderManager
   refuses a wrapped simulation in its constructor.  `sim_next` of the packaged super-agent and
   communication wrappers is therefore the empty nomination; the theorems still cover MDyn. *)
From Coq Require Import ZArith List Bool Arith.
From Abm Require Import Base.Sx Spaces.Space Spaces.Flatten Ctl.Managers Ctl.ScriptSim Ctl.Super Ctl.Comms
     Ctl.Wrappers.
Import ListNotations.

(* ---------------------------------------------------------------------------------------- *)
(* congruences: a relation on simulation states that every interface function respects.      *)
(* `eq` is one for every simulation; "equal up to ghost logs" is the one used for the models  *)
(* that carry a log of the calls they made (w_log, c_log, s_steps/s_reads).                   *)

Record sim_congr {St Obs Info Act : Type} (Sim : simulation St Obs Info Act)
       (R : St -> St -> Prop) : Prop := {
  cg_reset : forall s1 s2, R s1 s2 -> R (sim_reset Sim s1) (sim_reset Sim s2);
  cg_step : forall s1 s2 acts, R s1 s2 -> R (sim_step Sim s1 acts) (sim_step Sim s2 acts);
  cg_obs : forall s1 s2 a, R s1 s2 ->
             fst (sim_obs Sim s1 a) = fst (sim_obs Sim s2 a) /\
             R (snd (sim_obs Sim s1 a)) (snd (sim_obs Sim s2 a));
  cg_reward : forall s1 s2 a, R s1 s2 ->
             fst (sim_reward Sim s1 a) = fst (sim_reward Sim s2 a) /\
             R (snd (sim_reward Sim s1 a)) (snd (sim_reward Sim s2 a));
  cg_done : forall s1 s2 a, R s1 s2 -> sim_done Sim s1 a = sim_done Sim s2 a;
  cg_all : forall s1 s2, R s1 s2 -> sim_all Sim s1 = sim_all Sim s2;
  cg_info : forall s1 s2 a, R s1 s2 -> sim_info Sim s1 a = sim_info Sim s2 a;
  cg_next : forall s1 s2, R s1 s2 -> sim_next Sim s1 = sim_next Sim s2
}.

(* the simulation's reset does not depend on the state it is applied to (up to R) *)
Definition reset_forgets {St Obs Info Act : Type} (Sim : simulation St Obs Info Act)
           (R : St -> St -> Prop) : Prop :=
  forall s1 s2, R (sim_reset Sim s1) (sim_reset Sim s2).

(* manager states over R-related simulation states: what an episode can depend on
   (Reset_proofs.meq is the instance R = eq) *)
Definition mrel {St : Type} (R : St -> St -> Prop) (k : mgr) (m1 m2 : mstate St) : Prop :=
  R (m_sim m1) (m_sim m2) /\ m_done m1 = m_done m2 /\
  match k with MTurn | MTurnPrefix => m_ptr m1 = m_ptr m2 | _ => True end.

(* the manager kinds of the repaired tree; the turn-based manager needs a learning agent
   (its reset raises StopIteration otherwise) *)
Definition mgr_ok {St Obs Info Act : Type} (Sim : simulation St Obs Info Act) (k : mgr) : Prop :=
  k <> MTurnPrefix /\ (k = MTurn -> order Sim <> []).

(* ---------------------------------------------------------------------------------------- *)
(* SuperAgentWrapper as a simulation                                                          *)

(* an action as the wrapper's caller submits it: a dict covered agent -> action for a super
   agent, the agent's own action for an uncovered agent *)
Inductive sact (Act : Type) := SSuper (acts : list (nat * Act)) | SPlain (x : Act).
Arguments SSuper {Act}.
Arguments SPlain {Act}.

Section SuperLayer.
  Context {St Obs Info Act : Type}.
  Variable Sim : simulation St Obs Info Act.
  Variable mapping : list (list nat).
  Variable null_obs : nat -> option Obs.

  (* _construct_agents_from_super_agent_mapping: the super agents in mapping order, then the
     uncovered agents (a Python set difference; taken in the listing order of sim.agents) *)
  Definition uncovered : list nat :=
    filter (fun a => negb (covered mapping a)) (seq 0 (sim_n Sim)).
  Definition sup_n : nat := length mapping + length uncovered.
  Definition wid_of (i : nat) : wid :=
    if Nat.ltb i (length mapping) then WSuper i
    else WPlain (nth (i - length mapping) uncovered (sim_n Sim)).
  (* super agents are `Agent`s; uncovered agents are the inner objects *)
  Definition sup_learning (i : nat) : bool :=
    match wid_of i with WSuper _ => true | WPlain a => sim_learning Sim a end.

  Definition entry_of (kv : nat * sact Act) : option (wentry Act) :=
    match wid_of (fst kv), snd kv with
    | WSuper j, SSuper acts => Some (ESuper j acts)
    | WPlain a, SPlain x => Some (EPlain a x)
    | _, _ => None                          (* ill-shaped action: outside the model *)
    end.

  Definition sup_step (w : wst St Act) (acts : list (nat * sact Act)) : wst St Act :=
    match all_some (map entry_of acts) with
    | Some es => snd (w_step Sim mapping w es)
    | None => w
    end.
  Definition sup_reward (w : wst St Act) (i : nat) : Z * wst St Act :=
    let (r, w1) := w_rew Sim mapping w (wid_of i) in
    (match r with WRew z => z | _ => 0%Z end, w1).
  Definition sup_done (w : wst St Act) (i : nat) : bool :=
    match w_done Sim mapping w (wid_of i) with WDone b => b | _ => false end.

  Definition super_sim : simulation (wst St Act) (wresp Obs Info) (wresp Obs Info) (sact Act) :=
    {| sim_n := sup_n;
       sim_learning := sup_learning;
       sim_reset := w_reset Sim;
       sim_step := sup_step;
       sim_obs := fun w i => w_obs Sim mapping null_obs w (wid_of i);
       sim_reward := sup_reward;
       sim_done := sup_done;
       sim_all := fun w => sim_all Sim (w_sim w);
       sim_info := fun w i => w_info Sim mapping w (wid_of i);
       sim_next := fun _ => [] |}.

  (* wrapper states over R-related inner states with the same flags; the ghost log is free *)
  Definition super_rel (R : St -> St -> Prop) (w1 w2 : wst St Act) : Prop :=
    R (w_sim w1) (w_sim w2) /\ w_orep w1 = w_orep w2 /\ w_rrep w1 = w_rrep w2.
End SuperLayer.

(* ---------------------------------------------------------------------------------------- *)
(* CommunicationHandshakeWrapper as a simulation                                              *)

Section CommLayer.
  Context {St Obs Info Act : Type}.
  Variable Sim : simulation St Obs Info Act.
  Variable s_fobs : St -> nat -> row -> Obs * St.       (* get_obs(agent, fusion_matrix=m) *)

  Definition com_reward (c : cst St Act) (a : nat) : Z * cst St Act :=
    let (r, c1) := c_rew Sim c a in (match r with CRew z => z | _ => 0%Z end, c1).

  Definition comm_sim : simulation (cst St Act) (cresp Obs Info) Info (cact Act) :=
    {| sim_n := sim_n Sim;
       sim_learning := sim_learning Sim;
       sim_reset := c_reset Sim;
       sim_step := fun c acts => snd (c_step Sim c acts);
       sim_obs := fun c a => c_obs s_fobs c a;
       sim_reward := com_reward;
       sim_done := fun c a => sim_done Sim (c_sim c) a;
       sim_all := fun c => sim_all Sim (c_sim c);
       sim_info := fun c a => sim_info Sim (c_sim c) a;
       sim_next := fun _ => [] |}.

  Definition comm_rel (R : St -> St -> Prop) (c1 c2 : cst St Act) : Prop :=
    R (c_sim c1) (c_sim c2) /\ c_buf c1 = c_buf c2 /\ c_rcv c1 = c_rcv c2.

  (* the fused getter respects R *)
  Definition fobs_congr (R : St -> St -> Prop) : Prop :=
    forall s1 s2 a fm, R s1 s2 ->
      fst (s_fobs s1 a fm) = fst (s_fobs s2 a fm) /\ R (snd (s_fobs s1 a fm)) (snd (s_fobs s2 a fm)).
End CommLayer.

(* ---------------------------------------------------------------------------------------- *)
(* SARWrapper stacks (Ravel / Flatten / FlattenAction): Ctl/Wrappers.v already packages them   *)
(* as simulations over the SAME state type (these wrappers have no episode state)             *)

Definition sar_sim {St Info : Type} (ks : list wkind) (sp : spaces)
           (S : simulation St upoint Info upoint) : simulation St upoint Info upoint :=
  wrap_stack ks sp S.

(* ---------------------------------------------------------------------------------------- *)
(* the scripted simulation: equal up to its two ghost logs (s_steps, s_reads survive reset)    *)

Definition script_rel (s1 s2 : sst) : Prop := s_t s1 = s_t s2 /\ s_pend s1 = s_pend s2.

(* the scripted fused getter of Ctl/Comms.v is ss_fobs *)

(* ---- a three-layer stack on the scripted simulation, used by the non-vacuity examples -------
   TurnBased/AllStep manager over SuperAgentWrapper over the scripted simulation with 3 agents,
   super agent 0 covering agents 0 and 1, agent 2 uncovered; agent 0 is done from t = 1 on. *)
Definition nv_script : script :=
  {| sc_n := 3; sc_learn := [true; true; true];
     sc_rows := [ {| r_done := [false; false; false]; r_all := false; r_next := []; r_acc := [0; 0; 0]%Z |};
                  {| r_done := [true; false; false]; r_all := false; r_next := []; r_acc := [1; 2; 3]%Z |};
                  {| r_done := [true; false; false]; r_all := false; r_next := []; r_acc := [4; 5; 6]%Z |} ] |}.
Definition nv_mapping : list (list nat) := [[0; 1]]%nat.
Definition nv_super : simulation (wst sst Z) (wresp Z Z) (wresp Z Z) (sact Z) :=
  super_sim (script_sim nv_script) nv_mapping (fun _ => Some 7%Z).
Definition nv_comm : simulation (cst sst Z) (cresp Z Z) Z (cact Z) :=
  comm_sim (script_sim nv_script) ss_fobs.

(* start states as the constructors leave them, a history that dirties the flags (agent 0 is done
   at t = 1: both of its flags are raised, its reward of t = 2 is never collected) and a follow-up *)
Definition nv_w0 : wst sst Z := w_init (ss_init nv_script).
Definition nv_st (a b c : Z) : call (sact Z) :=
  let acts := [(0%nat, SSuper [(0%nat, a); (1%nat, b)]); (1%nat, SPlain c)] in CStep acts acts.
Definition nv_h : list (call (sact Z)) := [CReset; nv_st 1 2 3; nv_st 4 5 6].
Definition nv_cs : list (call (sact Z)) := [nv_st 7 8 9; nv_st 1 1 1].

(* communication wrapper: in the history agent 0 sends to 1 and 2, agent 1 then receives from 0:
   message_buffer and received_message are both non-trivial when the history is cut *)
Definition nv_c0 : cst sst Z := c_init (ss_init nv_script).
Definition nv_ca (x : Z) (a : nat) (snd_to rcv_from : list nat) : nat * cact Z :=
  (a, {| ca_act := x;
         ca_send := map (fun b => (b, memb b snd_to)) (others 3 a);
         ca_recv := map (fun b => (b, memb b rcv_from)) (others 3 a) |}).
Definition nv_qstep (l : list (nat * cact Z)) : call (cact Z) := CStep l l.
Definition nv_ch : list (call (cact Z)) :=
  [CReset; nv_qstep [nv_ca 1 0 [1; 2] []; nv_ca 2 1 [] []; nv_ca 3 2 [] []]%nat;
           nv_qstep [nv_ca 2 1 [2] [0]; nv_ca 3 2 [] []]%nat].
Definition nv_ccs : list (call (cact Z)) :=
  [nv_qstep [nv_ca 1 0 [] []; nv_ca 2 1 [0; 2] []; nv_ca 3 2 [] [0]]%nat;
   nv_qstep [nv_ca 2 1 [] [0]; nv_ca 3 2 [] [1]]%nat].

(* table[r][s] *)
Definition entry_of_rows (t : rows) (r s : nat) : option bool :=
  match alookup t r with Some rw => alookup rw s | None => None end.

(* SARWrapper.get_obs does not forward keyword arguments: the fused getter that a communication
   wrapper sees on a SAR stack (or on any simulation that ignores fusion_matrix) is the plain one *)
Definition drop_fm {St Obs Info Act : Type} (S : simulation St Obs Info Act)
  : St -> nat -> row -> Obs * St := fun s a _ => sim_obs S s a.

(* the scripted simulation seen through structured spaces: observation MultiDiscrete [1000; 10]
   = (clock, agent), action MultiDiscrete [3; 4] read as 4*x + y *)
Definition u2z (u : upoint) : Z :=
  match u with
  | UI x _ => x
  | UV l _ => fold_left (fun acc v => acc * 4 + v)%Z l 0%Z
  | _ => (-1)%Z
  end.
Definition script_usim (sc : script) : simulation sst upoint Z upoint :=
  {| sim_n := sc_n sc; sim_learning := ss_learning sc; sim_reset := ss_reset sc;
     sim_step := fun s acts => ss_step sc s (map (fun kv => (fst kv, u2z (snd kv))) acts);
     sim_obs := fun s a => (UV [Z.of_nat (s_t s); Z.of_nat a] false, s);
     sim_reward := ss_reward; sim_done := ss_done sc; sim_all := ss_all sc;
     sim_info := ss_info; sim_next := ss_next sc |}.

(* depth three on the script: SuperAgentWrapper over CommunicationHandshakeWrapper over
   RavelDiscreteWrapper over the scripted simulation *)
Definition nv_asp : asp :=
  {| a_obs := MultiDiscrete [1000; 10]%Z; a_act := MultiDiscrete [3; 4]%Z; a_nobs := None; a_nact := None |}.
Definition nv_sp : spaces := [Some nv_asp; Some nv_asp; Some nv_asp].
Definition nv_ravel : simulation sst upoint Z upoint := sar_sim [WRavel] nv_sp (script_usim nv_script).
Definition nv_deep : simulation (wst (cst sst upoint) (cact upoint))
                                (wresp (cresp upoint Z) Z) (wresp (cresp upoint Z) Z)
                                (sact (cact upoint)) :=
  super_sim (comm_sim nv_ravel (drop_fm nv_ravel)) nv_mapping (fun _ => None).
Definition nv_d0 : wst (cst sst upoint) (cact upoint) := w_init (c_init (ss_init nv_script)).
Definition nv_dca (x : Z) (a : nat) (snd_to rcv_from : list nat) : nat * cact upoint :=
  (a, {| ca_act := UI x false;
         ca_send := map (fun b => (b, memb b snd_to)) (others 3 a);
         ca_recv := map (fun b => (b, memb b rcv_from)) (others 3 a) |}).
Definition nv_dstep (a0 a1 a2 : nat * cact upoint) : call (sact (cact upoint)) :=
  let acts := [(0%nat, SSuper [a0; a1]); (1%nat, SPlain (snd a2))] in CStep acts acts.
Definition nv_dh : list (call (sact (cact upoint))) :=
  [CReset; nv_dstep (nv_dca 11 0 [1; 2] []) (nv_dca 5 1 [] []) (nv_dca 7 2 [] []);
           nv_dstep (nv_dca 1 0 [] []) (nv_dca 6 1 [2] [0]) (nv_dca 2 2 [] [])]%nat.
Definition nv_dcs : list (call (sact (cact upoint))) :=
  [nv_dstep (nv_dca 9 0 [] []) (nv_dca 4 1 [0; 2] []) (nv_dca 3 2 [] [0]);
   nv_dstep (nv_dca 2 0 [] []) (nv_dca 8 1 [] [0]) (nv_dca 10 2 [] [1])]%nat.
