(* Model of abmarl/managers/{all_step,turn_based,dynamic_order}_manager.py over an arbitrary
   simulation (section variables).  Agents are indices 0..n-1 in the listing order of
   sim.agents.  Python dicts are association lists in insertion order.  No proofs here. *)
From Coq Require Import ZArith List Bool Arith.
Import ListNotations.

Definition memb (a : nat) (l : list nat) : bool := existsb (Nat.eqb a) l.

(* the AgentBasedSimulation interface, as seen by managers, wrappers and trainers *)
Record simulation (St Obs Info Act : Type) := {
  sim_n : nat;                                   (* agents 0..n-1 *)
  sim_learning : nat -> bool;                    (* is_agent *)
  sim_reset : St -> St;
  sim_step : St -> list (nat * Act) -> St;
  sim_obs : St -> nat -> Obs * St;               (* getters that may have effects *)
  sim_reward : St -> nat -> Z * St;
  sim_done : St -> nat -> bool;
  sim_all : St -> bool;
  sim_info : St -> nat -> Info;
  sim_next : St -> list nat                      (* DynamicOrderSimulation.next_agent *)
}.
Arguments sim_n {St Obs Info Act}.
Arguments sim_learning {St Obs Info Act}.
Arguments sim_reset {St Obs Info Act}.
Arguments sim_step {St Obs Info Act}.
Arguments sim_obs {St Obs Info Act}.
Arguments sim_reward {St Obs Info Act}.
Arguments sim_done {St Obs Info Act}.
Arguments sim_all {St Obs Info Act}.
Arguments sim_info {St Obs Info Act}.
Arguments sim_next {St Obs Info Act}.

Record mstate (St : Type) := { m_sim : St; m_done : list nat; m_ptr : nat }.
Arguments m_sim {St}.
Arguments m_done {St}.
Arguments m_ptr {St}.

Record out (Obs Info : Type) := { o_obs : list (nat * Obs); o_rew : list (nat * Z);
                                  o_done : list (nat * bool); o_info : list (nat * Info);
                                  o_all : bool }.
Arguments o_obs {Obs Info}.
Arguments o_rew {Obs Info}.
Arguments o_done {Obs Info}.
Arguments o_info {Obs Info}.
Arguments o_all {Obs Info}.

Inductive resp (Obs Info : Type) :=
| RObs (obs : list (nat * Obs))     (* reset *)
| ROut (o : out Obs Info)           (* step *)
| RReject                           (* AssertionError before the simulation advanced *)
| RError                            (* any other exception (e.g. empty action dict) *)
| ROutOfFuel.
Arguments RObs {Obs Info}.
Arguments ROut {Obs Info}.
Arguments RReject {Obs Info}.
Arguments RError {Obs Info}.
Arguments ROutOfFuel {Obs Info}.

Inductive mgr := MAll | MTurn | MDyn | MTurnPrefix.

(* a step carries the submitted dict and (all-step with randomize_action_input) its shuffle *)
Inductive call (Act : Type) := CReset | CStep (acts shuffled : list (nat * Act)).
Arguments CReset {Act}.
Arguments CStep {Act}.

Section AnySim.
  Context {St Obs Info Act : Type}.
  Variable Sim : simulation St Obs Info Act.
  Notation n := (sim_n Sim).
  Notation learning := (sim_learning Sim).
  Notation s_reset := (sim_reset Sim).
  Notation s_step := (sim_step Sim).
  Notation s_obs := (sim_obs Sim).
  Notation s_reward := (sim_reward Sim).
  Notation s_done := (sim_done Sim).
  Notation s_all := (sim_all Sim).
  Notation s_info := (sim_info Sim).
  Notation s_next := (sim_next Sim).

  Definition agents : list nat := seq 0 n.
  Definition order : list nat := filter learning agents.        (* the cycle of the turn manager *)
  Definition nonlearning : list nat := filter (fun a => negb (learning a)) agents.

  (* thread a getter with effects over a list of agents *)
  Fixpoint thread {X} (g : St -> nat -> X * St) (s : St) (l : list nat) : list (nat * X) * St :=
    match l with
    | [] => ([], s)
    | a :: l' => let (x, s1) := g s a in
                 let (r, s2) := thread g s1 l' in ((a, x) :: r, s2)
    end.

  Definition all_in (d : list nat) : bool := forallb (fun a => memb a d) agents.

  (* ---------------- AllStepManager ---------------- *)
  Definition all_reset (m : mstate St) : resp Obs Info * mstate St :=
    let d := nonlearning in
    let s1 := s_reset (m_sim m) in
    let live := filter (fun a => negb (memb a d)) agents in
    let (obs, s2) := thread s_obs s1 live in
    (RObs obs, {| m_sim := s2; m_done := d; m_ptr := m_ptr m |}).

  (* perm: the shuffled action list when randomize_action_input is on (oracle); the caller
     passes the submitted list itself when it is off *)
  Definition all_step (m : mstate St) (acts shuffled : list (nat * Act)) : resp Obs Info * mstate St :=
    if existsb (fun kv => memb (fst kv) (m_done m)) acts then (RReject, m)
    else
      let s1 := s_step (m_sim m) shuffled in
      let live := filter (fun a => negb (memb a (m_done m))) agents in
      let (obs, s2) := thread s_obs s1 live in
      let (rew, s3) := thread s_reward s2 live in
      let dones := map (fun a => (a, s_done s3 a)) live in
      let infos := map (fun a => (a, s_info s3 a)) live in
      let d' := m_done m ++ map fst (filter snd dones) in
      let all := s_all s3 || all_in d' in
      (ROut {| o_obs := obs; o_rew := rew; o_done := dones; o_info := infos; o_all := all |},
       {| m_sim := s3; m_done := d'; m_ptr := m_ptr m |}).

  (* ---------------- shared by turn-based and dynamic-order ---------------- *)
  Definition add_report (s : St) (a : nat) (o : out Obs Info) : out Obs Info * St :=
    let (ob, s1) := s_obs s a in
    let (r, s2) := s_reward s1 a in
    ({| o_obs := o_obs o ++ [(a, ob)]; o_rew := o_rew o ++ [(a, r)];
        o_done := o_done o ++ [(a, s_done s2 a)]; o_info := o_info o ++ [(a, s_info s2 a)];
        o_all := o_all o |}, s2).

  Definition empty_out (all : bool) : out Obs Info :=
    {| o_obs := []; o_rew := []; o_done := []; o_info := []; o_all := all |}.

  Definition set_all (o : out Obs Info) (b : bool) : out Obs Info :=
    {| o_obs := o_obs o; o_rew := o_rew o; o_done := o_done o; o_info := o_info o; o_all := b |}.

  (* the simulation is done: report every agent not yet in done_agents *)
  Fixpoint flush (s : St) (d : list nat) (l : list nat) (o : out Obs Info) : out Obs Info * St :=
    match l with
    | [] => (o, s)
    | a :: l' => if memb a d then flush s d l' o
                 else let (o1, s1) := add_report s a o in flush s1 d l' o1
    end.

  (* ---------------- TurnBasedManager ---------------- *)
  Definition turn_reset (m : mstate St) : resp Obs Info * mstate St :=
    match order with
    | [] => (RError, m)                                 (* next() on an empty cycle *)
    | a0 :: _ =>
        let d := nonlearning in
        let s1 := s_reset (m_sim m) in
        (* fix F1: the cycle is re-created, the first turn goes to the first agent *)
        let a := nth 0 order a0 in
        let (ob, s2) := s_obs s1 a in
        (RObs [(a, ob)], {| m_sim := s2; m_done := d; m_ptr := 1 mod length order |})
    end.

  (* the tree before the fix: the pointer survives reset *)
  Definition turn_reset_prefix (m : mstate St) : resp Obs Info * mstate St :=
    match order with
    | [] => (RError, m)
    | a0 :: _ =>
        let d := nonlearning in
        let s1 := s_reset (m_sim m) in
        let a := nth (m_ptr m) order a0 in
        let (ob, s2) := s_obs s1 a in
        (RObs [(a, ob)], {| m_sim := s2; m_done := d; m_ptr := S (m_ptr m) mod length order |})
    end.

  Inductive sres := SOk (o : out Obs Info) (s : St) (d : list nat) (p : nat) | SFuel.

  Fixpoint turn_search (fuel : nat) (s : St) (d : list nat) (p : nat) (o : out Obs Info) : sres :=
    match fuel with
    | O => SFuel
    | S fuel' =>
        let a := nth p order 0 in
        let p' := S p mod length order in
        if memb a d then turn_search fuel' s d p' o
        else if s_done s a then
               let (o1, s1) := add_report s a o in
               let d1 := d ++ [a] in
               if all_in d1 then SOk (set_all o1 true) s1 d1 p'
               else turn_search fuel' s1 d1 p' o1
             else
               let (o1, s1) := add_report s a o in SOk o1 s1 d p'
    end.

  Definition turn_step_gen (check_all_keys : bool) (m : mstate St) (acts : list (nat * Act))
    : resp Obs Info * mstate St :=
    match acts with
    | [] => (RError, m)                                  (* next(iter({})) *)
    | (a0, _) :: _ =>
        if (if check_all_keys then existsb (fun kv => memb (fst kv) (m_done m)) acts
            else memb a0 (m_done m))
        then (RReject, m)
        else
          let s1 := s_step (m_sim m) acts in
          if s_all s1 then
            let (o, s2) := flush s1 (m_done m) agents (empty_out true) in
            (ROut o, {| m_sim := s2; m_done := m_done m; m_ptr := m_ptr m |})
          else
            match turn_search (S (length order)) s1 (m_done m) (m_ptr m) (empty_out false) with
            | SOk o s2 d p => (ROut o, {| m_sim := s2; m_done := d; m_ptr := p |})
            | SFuel => (ROutOfFuel, m)
            end
    end.

  (* fix F2: every submitted key is checked *)
  Definition turn_step := turn_step_gen true.
  Definition turn_step_prefix := turn_step_gen false.

  (* ---------------- DynamicOrderManager ---------------- *)
  Definition dyn_reset (m : mstate St) : resp Obs Info * mstate St :=
    let s1 := s_reset (m_sim m) in
    let (obs, s2) := thread s_obs s1 (s_next s1) in
    (RObs obs, {| m_sim := s2; m_done := []; m_ptr := m_ptr m |}).

  Fixpoint dyn_loop (s : St) (d : list nat) (l : list nat) (o : out Obs Info) : out Obs Info * St * list nat :=
    match l with
    | [] => (o, s, d)
    | a :: l' =>
        if memb a d then dyn_loop s d l' o
        else if s_done s a then
               let (o1, s1) := add_report s a o in
               let d1 := d ++ [a] in
               if all_in d1 then (set_all o1 true, s1, d1)
               else dyn_loop s1 d1 l' o1
             else
               let (o1, s1) := add_report s a o in dyn_loop s1 d l' o1
    end.

  Definition dyn_step (m : mstate St) (acts : list (nat * Act)) : resp Obs Info * mstate St :=
    if existsb (fun kv => memb (fst kv) (m_done m)) acts then (RReject, m)
    else
      let s1 := s_step (m_sim m) acts in
      if s_all s1 then
        let (o, s2) := flush s1 (m_done m) agents (empty_out true) in
        (ROut o, {| m_sim := s2; m_done := m_done m; m_ptr := m_ptr m |})
      else
        let '(o, s2, d) := dyn_loop s1 (m_done m) (s_next s1) (empty_out false) in
        (ROut o, {| m_sim := s2; m_done := d; m_ptr := m_ptr m |}).

  (* ---------------- histories ---------------- *)
  Definition do_call (k : mgr) (m : mstate St) (c : call Act) : resp Obs Info * mstate St :=
    match k, c with
    | MAll, CReset => all_reset m
    | MAll, CStep a sh => all_step m a sh
    | MTurn, CReset => turn_reset m
    | MTurn, CStep a _ => turn_step m a
    | MTurnPrefix, CReset => turn_reset_prefix m
    | MTurnPrefix, CStep a _ => turn_step_prefix m a
    | MDyn, CReset => dyn_reset m
    | MDyn, CStep a _ => dyn_step m a
    end.

  Fixpoint run (k : mgr) (m : mstate St) (cs : list (call Act)) : list (resp Obs Info) * mstate St :=
    match cs with
    | [] => ([], m)
    | c :: cs' => let (r, m1) := do_call k m c in
                  let (rs, m2) := run k m1 cs' in (r :: rs, m2)
    end.

  Definition init (s : St) : mstate St := {| m_sim := s; m_done := []; m_ptr := 0 |}.

End AnySim.
