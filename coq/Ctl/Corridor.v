(* Model of abmarl/examples/sim/multi_corridor.py (MultiCorridor, the simulation the library's own
   test-suite runs under every manager and wrapper) as an instance of the abstract `simulation`
   record of Ctl/Managers.v, and the packaged wrapper models of Ctl/Stack.v over it.

   Agents are indices 0..n-1 in the listing order of sim.agents ('agent0', 'agent1', ...).
   State: position per agent (an arrived agent stands at end-1 and is NOT in the array), the
   occupancy array `corridor` (None / agent index per cell), the reward table, the reset draws
   `np.random.choice(end-1, n, False)` as an oracle stream (a function of the episode number, so
   that it never runs out) and a flag.  The flag stands for an exception escaping from the
   simulation: IndexError of `self.corridor[agent.position + 1]` (the error arm: an agent at end-1
   moving RIGHT), KeyError / AttributeError on unknown agents or before the first reset, ValueError
   of np.random.choice when the draw is impossible.  An exception aborts the loop of `step` (what
   was done for earlier keys stays); once the flag is set the model stops tracking the object
   (a step does nothing, the getters read nothing: the manager call that raised never reached
   them) until a successful reset re-creates every attribute.
   Not modelled: negative numpy indices wrap around (never evaluated: `position - 1` is guarded by
   `position != 0`); `_last_action` (written, never read); render.  No proofs here. *)
From Coq Require Import ZArith List Bool Arith.
From Abm Require Import Base.Sx Spaces.Space Spaces.Ravel Spaces.Flatten Ctl.Managers Ctl.ScriptSim
     Ctl.MgrCheck Ctl.Super Ctl.Comms Ctl.Wrappers Ctl.Stack.
Import ListNotations.
Open Scope Z_scope.

Fixpoint lset {X : Type} (l : list X) (i : nat) (v : X) : list X :=
  match l, i with
  | [], _ => []
  | _ :: l', O => v :: l'
  | x :: l', S j => x :: lset l' j v
  end.

Fixpoint zmemb (z : Z) (l : list Z) : bool :=
  match l with [] => false | y :: l' => (z =? y) || zmemb z l' end.
Fixpoint znodupb (l : list Z) : bool :=
  match l with [] => true | z :: l' => negb (zmemb z l') && znodupb l' end.

(* get_obs: {'position': [p], 'left': [0/1], 'right': [0/1]} *)
Record cobs := { ob_pos : Z; ob_left : Z; ob_right : Z }.
Definition ob0 : cobs := {| ob_pos := 0; ob_left := 0; ob_right := 0 |}.

Record cstate := { co_pos : list Z; co_arr : list (option nat); co_rew : list Z;
                   co_draws : nat -> list Z; co_ep : nat; co_bad : bool }.

Definition set_bad (s : cstate) : cstate :=
  {| co_pos := co_pos s; co_arr := co_arr s; co_rew := co_rew s; co_draws := co_draws s;
     co_ep := co_ep s; co_bad := true |}.
Definition with_rew (s : cstate) (r : list Z) : cstate :=
  {| co_pos := co_pos s; co_arr := co_arr s; co_rew := r; co_draws := co_draws s;
     co_ep := co_ep s; co_bad := co_bad s |}.
Definition with_pos_arr (s : cstate) (p : list Z) (a : list (option nat)) : cstate :=
  {| co_pos := p; co_arr := a; co_rew := co_rew s; co_draws := co_draws s;
     co_ep := co_ep s; co_bad := co_bad s |}.

(* the simulation object before its first reset: no corridor, no positions, no reward table *)
Definition co_init (draws : nat -> list Z) : cstate :=
  {| co_pos := []; co_arr := []; co_rew := []; co_draws := draws; co_ep := O; co_bad := false |}.

(* the same object with the random generator re-seeded: the stream from episode k on is f *)
Definition reseed (s : cstate) (f : nat -> list Z) (k : nat) : cstate :=
  {| co_pos := co_pos s; co_arr := co_arr s; co_rew := co_rew s; co_draws := f; co_ep := k;
     co_bad := co_bad s |}.

(* np.random.choice(end-1, n, False): n distinct cells below end-1 *)
Definition admb (cend : Z) (n : nat) (d : list Z) : bool :=
  Nat.eqb (length d) n && forallb (fun c => (0 <=? c) && (c <? cend - 1)) d && znodupb d.

(* for i, agent in enumerate(agents): corridor[location_sample[i]] = agent *)
Fixpoint place (arr : list (option nat)) (i : nat) (d : list Z) : list (option nat) :=
  match d with
  | [] => arr
  | c :: d' => place (lset arr (Z.to_nat c) (Some i)) (S i) d'
  end.

Definition co_reset (cend : Z) (n : nat) (s : cstate) : cstate :=
  let d := co_draws s (co_ep s) in
  if admb cend n d then
    {| co_pos := d; co_arr := place (repeat None (Z.to_nat cend)) 0 d; co_rew := repeat 0 n;
       co_draws := co_draws s; co_ep := S (co_ep s); co_bad := false |}
  else
    {| co_pos := co_pos s; co_arr := co_arr s; co_rew := co_rew s; co_draws := co_draws s;
       co_ep := S (co_ep s); co_bad := true |}.

(* self.corridor[c]: None = IndexError *)
Definition cell (s : cstate) (c : Z) : option (option nat) :=
  if c <? 0 then None else nth_error (co_arr s) (Z.to_nat c).
(* self.corridor[c] = v *)
Definition arr_set (arr : list (option nat)) (c : Z) (v : option nat) : option (list (option nat)) :=
  if (c <? 0) || (Z.of_nat (length arr) <=? c) then None else Some (lset arr (Z.to_nat c) v).

(* self.reward[id] += d *)
Definition add_rew (s : cstate) (i : nat) (d : Z) : cstate :=
  if co_bad s then s else
  match nth_error (co_rew s) i with
  | Some r => with_rew s (lset (co_rew s) i (r + d))
  | None => set_bad s
  end.

(* one iteration of `for agent_id, action in action_dict.items()` *)
Definition step_one (cend : Z) (s : cstate) (ia : nat * Z) : cstate :=
  if co_bad s then s else
  let i := fst ia in
  let a := snd ia in
  match nth_error (co_pos s) i with
  | None => set_bad s
  | Some p =>
      if a =? 0 then                                             (* LEFT *)
        if p =? 0 then add_rew s i (-5)                          (* left-most square *)
        else match cell s (p - 1) with
             | None => set_bad s
             | Some None =>                                      (* good move *)
                 match arr_set (co_arr s) p None with
                 | None => set_bad s
                 | Some a1 =>
                     match arr_set a1 (p - 1) (Some i) with
                     | None => set_bad s
                     | Some a2 => add_rew (with_pos_arr s (lset (co_pos s) i (p - 1)) a2) i (-1)
                     end
                 end
             | Some (Some j) => add_rew (add_rew s i (-5)) j (-2)   (* bumped into j *)
             end
      else if a =? 2 then                                        (* RIGHT *)
        match cell s (p + 1) with
        | None => set_bad s                                      (* the error arm *)
        | Some None =>
            match arr_set (co_arr s) p None with
            | None => set_bad s
            | Some a1 =>
                if p + 1 =? cend - 1 then                        (* arrived: not written into the array *)
                  add_rew (with_pos_arr s (lset (co_pos s) i (p + 1)) a1) i (cend * cend)
                else
                  match arr_set a1 (p + 1) (Some i) with
                  | None => set_bad s
                  | Some a2 => add_rew (with_pos_arr s (lset (co_pos s) i (p + 1)) a2) i (-1)
                  end
            end
        | Some (Some j) => add_rew (add_rew s i (-5)) j (-2)
        end
      else if a =? 1 then add_rew s i (-1)                       (* STAY *)
      else s
  end.

Definition co_step (cend : Z) (s : cstate) (acts : list (nat * Z)) : cstate :=
  fold_left (step_one cend) acts s.

(* is there somebody in cell c?  None = IndexError *)
Definition occupied (s : cstate) (c : Z) : option Z :=
  match cell s c with
  | None => None
  | Some None => Some 0
  | Some (Some _) => Some 1
  end.

Definition co_obs (cend : Z) (s : cstate) (i : nat) : cobs * cstate :=
  if co_bad s then (ob0, s) else
  match nth_error (co_pos s) i with
  | None => (ob0, set_bad s)
  | Some p =>
      match (if p =? 0 then Some 0 else occupied s (p - 1)),
            (if p =? cend - 1 then Some 0 else occupied s (p + 1)) with
      | Some l, Some r => ({| ob_pos := p; ob_left := l; ob_right := r |}, s)
      | _, _ => (ob0, set_bad s)
      end
  end.

(* get_reward: read AND reset the accumulator *)
Definition co_reward (s : cstate) (i : nat) : Z * cstate :=
  if co_bad s then (0, s) else
  match nth_error (co_rew s) i with
  | Some r => (r, with_rew s (lset (co_rew s) i 0))
  | None => (0, set_bad s)
  end.

Definition co_done (cend : Z) (s : cstate) (i : nat) : bool :=
  match nth_error (co_pos s) i with Some p => p =? cend - 1 | None => false end.
Definition co_all (cend : Z) (s : cstate) : bool := forallb (fun p => p =? cend - 1) (co_pos s).

Definition corridor_sim (cend : Z) (n : nat) : simulation cstate cobs unit Z :=
  {| sim_n := n;
     sim_learning := fun _ => true;
     sim_reset := co_reset cend n;
     sim_step := co_step cend;
     sim_obs := co_obs cend;
     sim_reward := co_reward;
     sim_done := co_done cend;
     sim_all := co_all cend;
     sim_info := fun _ _ => tt;
     sim_next := fun _ => [] |}.

(* ---- the same simulation seen through its declared spaces ----------------------------------
   observation space Dict{position: Box(0, end-1, (1,), int), left: MultiBinary(1),
   right: MultiBinary(1)}; gymnasium sorts the keys of a Dict: left, position, right;
   action space Discrete(3) *)
Definition corr_obs_space (cend : Z) : space := Dict [MultiBinary 1; BoxI [(0, cend - 1)]; MultiBinary 1].
Definition corr_asp (cend : Z) : asp :=
  {| a_obs := corr_obs_space cend; a_act := Discrete 3; a_nobs := None; a_nact := None |}.
Definition corr_spaces (cend : Z) (n : nat) : spaces := repeat (Some (corr_asp cend)) n.

Definition obs_u (o : cobs) : upoint :=
  UT [UV [ob_left o] false; UV [ob_pos o] false; UV [ob_right o] false].
(* `action == self.Actions.LEFT`: numeric comparison; a value that is no action selects no branch *)
Definition act_z (u : upoint) : Z :=
  match u with
  | UI z false => z
  | UI z true => if z mod TICK =? 0 then z / TICK else -1
  | _ => -1
  end.

Definition corridor_usim (cend : Z) (n : nat) : simulation cstate upoint unit upoint :=
  {| sim_n := n;
     sim_learning := fun _ => true;
     sim_reset := co_reset cend n;
     sim_step := fun s acts => co_step cend s (map (fun kv => (fst kv, act_z (snd kv))) acts);
     sim_obs := fun s i => let (o, s') := co_obs cend s i in (obs_u o, s');
     sim_reward := co_reward;
     sim_done := co_done cend;
     sim_all := co_all cend;
     sim_info := fun _ _ => tt;
     sim_next := fun _ => [] |}.

(* ---- the wrapper stacks of the library's tests over the corridor ---------------------------- *)
(* MultiCorridor.get_obs ignores keyword arguments: the fused getter is the plain one (drop_fm);
   its agents declare no null observation *)
Definition corr_super (cend : Z) (n : nat) (mapping : list (list nat))
  : simulation (wst cstate Z) (wresp cobs unit) (wresp cobs unit) (sact Z) :=
  super_sim (corridor_sim cend n) mapping (fun _ => None).
Definition corr_comm (cend : Z) (n : nat) : simulation (cst cstate Z) (cresp cobs unit) unit (cact Z) :=
  comm_sim (corridor_sim cend n) (drop_fm (corridor_sim cend n)).
Definition corr_sar (cend : Z) (n : nat) (ks : list wkind) : simulation cstate upoint unit upoint :=
  sar_sim ks (corr_spaces cend n) (corridor_usim cend n).
(* SuperAgentWrapper over CommunicationHandshakeWrapper over Ravel/Flatten wrappers over the corridor *)
Definition corr_deep (cend : Z) (n : nat) (ks : list wkind) (mapping : list (list nat))
  : simulation (wst (cst cstate upoint) (cact upoint)) (wresp (cresp upoint unit) unit)
               (wresp (cresp upoint unit) unit) (sact (cact upoint)) :=
  super_sim (comm_sim (corr_sar cend n ks) (drop_fm (corr_sar cend n ks))) mapping (fun _ => None).

(* the uncovered agents of a SuperAgentWrapper come out of a Python set difference: the listing
   order of the wrapper's agent dictionary is an input.  ord: position in wrapper.agents -> index
   of the packaged simulation (super agents first, then the uncovered ones in listing order) *)
Definition perm_sim {St Obs Info Act : Type} (ord : list nat) (S : simulation St Obs Info Act)
  : simulation St Obs Info Act :=
  let f := fun i => nth i ord (sim_n S) in
  {| sim_n := length ord;
     sim_learning := fun i => sim_learning S (f i);
     sim_reset := sim_reset S;
     sim_step := fun s acts => sim_step S s (map (fun kv => (f (fst kv), snd kv)) acts);
     sim_obs := fun s i => sim_obs S s (f i);
     sim_reward := fun s i => sim_reward S s (f i);
     sim_done := fun s i => sim_done S s (f i);
     sim_all := sim_all S;
     sim_info := fun s i => sim_info S s (f i);
     sim_next := fun _ => [] |}.

(* ---- a manager run that records the simulation after every call ----------------------------- *)
Record snap := { sn_pos : list Z; sn_arr : list (option nat); sn_rew : list Z; sn_bad : bool }.
Definition snap_of (s : cstate) : snap :=
  {| sn_pos := co_pos s; sn_arr := co_arr s; sn_rew := co_rew s; sn_bad := co_bad s |}.

Section RunSnap.
  Context {St Obs Info Act : Type}.
  Variable Sim : simulation St Obs Info Act.
  Variable inner : St -> cstate.
  Fixpoint run_snap (k : mgr) (m : mstate St) (cs : list (call Act))
    : list (resp Obs Info * snap) * mstate St :=
    match cs with
    | [] => ([], m)
    | c :: cs' =>
        let (r, m1) := do_call Sim k m c in
        let (rs, m2) := run_snap k m1 cs' in ((r, snap_of (inner (m_sim m1))) :: rs, m2)
    end.
End RunSnap.

(* ---- wire -----------------------------------------------------------------------------------
   2501 input  (end n draws kind calls)     draws ((c ...) ...) one list per reset, kind 0 all / 1 turn,
                                            calls as ScriptSim.dec_call: (0) | (1 ((i a) ...) shuffled)
        output ((resp snapshot) ...)        resp (0 obs) | (1 obs rewards dones infokeys all) | (2) | (3) | (4)
                                            obs ((i position left right) ...); a response given while
                                            the flag is set is (3); snapshot (positions array rewards flag),
                                            array cell: -1 = None                                   *)
Definition draws_of (l : list (list Z)) : nat -> list Z := fun k => nth k l [].

Definition dec_kind (k : Z) : option mgr :=
  if k =? 0 then Some MAll else if k =? 1 then Some MTurn else None.

Definition enc_cobs (o : cobs) : list sx := [A (ob_pos o); A (ob_left o); A (ob_right o)].
Definition enc_kcobs (kv : nat * cobs) : sx := L (ofNat (fst kv) :: enc_cobs (snd kv)).
Definition enc_key {X : Type} (kv : nat * X) : sx := ofNat (fst kv).
Definition enc_kz (kv : nat * Z) : sx := L [ofNat (fst kv); A (snd kv)].

Definition enc_gresp {Obs Info : Type} (eo : nat * Obs -> sx) (r : resp Obs Info) : sx :=
  match r with
  | RObs obs => L [A 0; L (map eo obs)]
  | ROut o => L [A 1; L (map eo (o_obs o)); L (map enc_kz (o_rew o)); L (map enc_kb (o_done o));
                 L (map enc_key (o_info o)); ofB (o_all o)]
  | RReject => L [A 2]
  | RError => L [A 3]
  | ROutOfFuel => L [A 4]
  end.

Definition enc_cell (c : option nat) : sx := match c with None => A (-1) | Some i => ofNat i end.
Definition enc_snap (s : snap) : sx :=
  L [ofZs (sn_pos s); L (map enc_cell (sn_arr s)); ofZs (sn_rew s); ofB (sn_bad s)].
Definition enc_rec {Obs Info : Type} (eo : nat * Obs -> sx) (rs : resp Obs Info * snap) : sx :=
  L [if sn_bad (snd rs) then L [A 3] else enc_gresp eo (fst rs); enc_snap (snd rs)].

Record corr_in := { ci_end : Z; ci_n : nat; ci_draws : list (list Z); ci_kind : mgr;
                    ci_calls : list (call Z) }.

Definition dec_corr (x : sx) : option corr_in :=
  match x with
  | L [A e; A n; dr; A k; L cs] =>
      match sxZZs dr, dec_kind k, all_some (map ScriptSim.dec_call cs) with
      | Some dr', Some k', Some cs' =>
          if (e <? 0) || (n <? 0) then None
          else Some {| ci_end := e; ci_n := Z.to_nat n; ci_draws := dr'; ci_kind := k'; ci_calls := cs' |}
      | _, _, _ => None
      end
  | _ => None
  end.

Definition corr_records (i : corr_in) : list (resp cobs unit * snap) * mstate cstate :=
  run_snap (corridor_sim (ci_end i) (ci_n i)) (fun s => s) (ci_kind i)
           (init (co_init (draws_of (ci_draws i)))) (ci_calls i).

Definition run_corridor (x : sx) : sx :=
  match dec_corr x with
  | Some i => L (map (enc_rec enc_kcobs) (fst (corr_records i)))
  | None => sx_err
  end.

(* ---- checker 2502: from the input and the recorded behaviour only ----------------------------
   per record, first failing clause:
     2511 the flag is set: an exception escaped from the simulation although the step acted only
          for agents the previous answer asked to act (resp. from a reset that can place n agents)
     2512 shape: n positions inside [0, end-1], n reward entries, end cells
     2513 the array and the positions disagree: a cell names an agent that does not stand there or
          that stands at end-1; an agent that has not arrived is not in its cell
     2514 two agents that have not arrived share a cell
     2515 key lists of the four dictionaries differ / duplicate key / unknown agent / agent
          already reported done in this episode
     2516 a done flag is not `position == end-1`
     2517 an observation is not (position, left neighbour cell occupied, right neighbour cell occupied)
     2518 `__all__` is not `everybody arrived or everybody reported done`
     2519 the reward accumulator of a reported agent is not zero afterwards
     2520 reset: somebody has arrived / an accumulator is not zero / wrong observations or keys
     2521 rejection without a submitted done agent, or acceptance of one
     2522 error answer other than the turn manager's on an empty submission
     2529 malformed                                                                            *)
Definition sn_cell (s : snap) (c : Z) : option (option nat) :=
  if c <? 0 then None else nth_error (sn_arr s) (Z.to_nat c).
Definition spec_occ (s : snap) (c : Z) : Z :=
  match sn_cell s c with Some (Some _) => 1 | _ => 0 end.
Definition spec_obs (cend : Z) (s : snap) (i : nat) : cobs :=
  let p := nth i (sn_pos s) 0 in
  {| ob_pos := p;
     ob_left := if p =? 0 then 0 else spec_occ s (p - 1);
     ob_right := if p =? cend - 1 then 0 else spec_occ s (p + 1) |}.
Definition arrived (cend : Z) (s : snap) (i : nat) : bool := nth i (sn_pos s) 0 =? cend - 1.

Definition cobs_eqb (x y : cobs) : bool :=
  (ob_pos x =? ob_pos y) && (ob_left x =? ob_left y) && (ob_right x =? ob_right y).

Fixpoint cells_ok (cend : Z) (pos : list Z) (arr : list (option nat)) (c : Z) : bool :=
  match arr with
  | [] => true
  | None :: arr' => cells_ok cend pos arr' (c + 1)
  | Some j :: arr' =>
      match nth_error pos j with
      | Some p => (p =? c) && (c <? cend - 1)
      | None => false
      end && cells_ok cend pos arr' (c + 1)
  end.
Fixpoint agents_ok (cend : Z) (arr : list (option nat)) (pos : list Z) (j : nat) : bool :=
  match pos with
  | [] => true
  | p :: pos' =>
      ((p =? cend - 1) ||
       match (if p <? 0 then None else nth_error arr (Z.to_nat p)) with
       | Some (Some j') => Nat.eqb j' j
       | _ => false
       end) && agents_ok cend arr pos' (S j)
  end.
Fixpoint distinct_ok (cend : Z) (pos : list Z) : bool :=
  match pos with
  | [] => true
  | p :: pos' => ((p =? cend - 1) || negb (zmemb p pos')) && distinct_ok cend pos'
  end.

Definition snap_chk (cend : Z) (n : nat) (s : snap) : Z :=
  if negb (Nat.eqb (length (sn_pos s)) n && Nat.eqb (length (sn_rew s)) n &&
                (Z.of_nat (length (sn_arr s)) =? cend) &&
                forallb (fun p => (0 <=? p) && (p <=? cend - 1)) (sn_pos s)) then 2512
  else if negb (cells_ok cend (sn_pos s) (sn_arr s) 0 && agents_ok cend (sn_arr s) (sn_pos s) O) then 2513
  else if negb (distinct_ok cend (sn_pos s)) then 2514
  else 0.

Definition obs_ok (cend : Z) (s : snap) (obs : list (nat * cobs)) : bool :=
  forallb (fun kv => cobs_eqb (snd kv) (spec_obs cend s (fst kv))) obs.

Section ChkCorr.
  Variable cend : Z.
  Variable n : nat.
  Variable k : mgr.

  (* ghost: an episode is running; the agents reported done since the last reset *)
  Definition out_chk (gd : list nat) (o : out cobs unit) (s : snap) : Z :=
    let ks := map fst (o_obs o) in
    if negb (nats_eqb (map fst (o_rew o)) ks && nats_eqb (map fst (o_done o)) ks &&
             nats_eqb (map fst (o_info o)) ks && nodupb ks &&
             forallb (fun a => Nat.ltb a n && negb (memb a gd)) ks) then 2515
    else if negb (forallb (fun kb => Bool.eqb (snd kb) (arrived cend s (fst kb))) (o_done o)) then 2516
    else if negb (obs_ok cend s (o_obs o)) then 2517
    else if negb (Bool.eqb (o_all o)
                    (forallb (arrived cend s) (seq 0 n) ||
                     forallb (fun a => memb a (gd ++ map fst (filter snd (o_done o)))) (seq 0 n))) then 2518
    else if negb (forallb (fun a => nth a (sn_rew s) 1 =? 0) ks) then 2519
    else 0.

  Definition reset_chk (obs : list (nat * cobs)) (s : snap) : Z :=
    if negb (forallb (fun p => p <? cend - 1) (sn_pos s) && forallb (fun r => r =? 0) (sn_rew s) &&
             obs_ok cend s obs &&
             nats_eqb (map fst obs) (match k with MAll => seq 0 n | _ => firstn 1 (seq 0 n) end))
    then 2520 else 0.

  (* ghost: an episode is running; the agents reported done since the last reset; the agents the
     last answer asked to act (observation given, not done).  A step that acts only for asked
     agents is `polite`: the flag after an impolite step is not judged (an arrived agent that the
     turn-based manager has not reported yet may move RIGHT: IndexError), nor is anything after it *)
  Definition asked_of (r : resp cobs unit) (old : list nat) : list nat :=
    match r with
    | RObs obs => map fst obs
    | ROut o => map fst (filter (fun kb => negb (snd kb)) (o_done o))
    | _ => old
    end.

  Fixpoint chk_recs (live : bool) (gd asked : list nat) (cs : list (call Z))
           (rs : list (resp cobs unit * snap)) : Z :=
    match cs, rs with
    | [], [] => 0
    | c :: cs', (r, s) :: rs' =>
        if sn_bad s then
          match c with
          | CReset => if Z.of_nat n <=? cend - 1 then 2511 else 0      (* ValueError of choice *)
          | CStep acts sh =>
              if live && forallb (fun kv => memb (fst kv) asked) (acts ++ sh) then 2511 else 0
          end
        else
        let c0 := snap_chk cend n s in
        match c, r with
        | CReset, RObs obs =>
            if negb (c0 =? 0) then c0
            else let c1 := reset_chk obs s in
                 if c1 =? 0 then chk_recs true [] (asked_of r asked) cs' rs' else c1
        | CReset, _ => 2522
        | CStep acts sh, _ =>
            if negb live then 0            (* a step outside an episode: not judged any further *)
            else if negb (c0 =? 0) then c0
            else
              let names_done := existsb (fun kv => memb (fst kv) gd) acts in
              match r with
              | ROut o =>
                  if names_done then 2521
                  else let c1 := out_chk gd o s in
                       if c1 =? 0
                       then chk_recs (negb (o_all o)) (gd ++ map fst (filter snd (o_done o)))
                                     (asked_of r asked) cs' rs'
                       else c1
              | RReject => if names_done then chk_recs live gd asked cs' rs' else 2521
              | RError =>
                  match k, acts with
                  | MTurn, [] => chk_recs live gd asked cs' rs'
                  | _, _ => 2522
                  end
              | _ => 2522
              end
        end
    | _, _ => 2529
    end.
End ChkCorr.

Definition dec_cell (x : sx) : option (option nat) :=
  match x with
  | A z => if z <? 0 then Some None else Some (Some (Z.to_nat z))
  | L _ => None
  end.
Definition dec_snap (x : sx) : option snap :=
  match x with
  | L [p; L a; r; b] =>
      match sxZs p, all_some (map dec_cell a), sxZs r, sxB b with
      | Some p', Some a', Some r', Some b' =>
          Some {| sn_pos := p'; sn_arr := a'; sn_rew := r'; sn_bad := b' |}
      | _, _, _, _ => None
      end
  | _ => None
  end.
Definition dec_kcobs (x : sx) : option (nat * cobs) :=
  match x with
  | L [i; A p; A l; A r] =>
      option_map (fun i' => (i', {| ob_pos := p; ob_left := l; ob_right := r |})) (sxNat i)
  | _ => None
  end.
Definition dec_keyu (x : sx) : option (nat * unit) := option_map (fun i => (i, tt)) (sxNat x).

Definition dec_gresp {Obs : Type} (dobs : sx -> option (nat * Obs)) (x : sx) : option (resp Obs unit) :=
  match x with
  | L [A 0; L obs] => option_map RObs (all_some (map dobs obs))
  | L [A 1; L obs; rew; L dn; L info; al] =>
      match all_some (map dobs obs), dec_kvs rew, all_some (map dec_kb dn),
            all_some (map dec_keyu info), sxB al with
      | Some o, Some r, Some d, Some i, Some a =>
          Some (ROut {| o_obs := o; o_rew := r; o_done := d; o_info := i; o_all := a |})
      | _, _, _, _, _ => None
      end
  | L [A 2] => Some RReject
  | L [A 3] => Some RError
  | L [A 4] => Some ROutOfFuel
  | _ => None
  end.
Definition dec_rec {Obs : Type} (dobs : sx -> option (nat * Obs)) (x : sx)
  : option (resp Obs unit * snap) :=
  match x with
  | L [r; s] => match dec_gresp dobs r, dec_snap s with
                | Some r', Some s' => Some (r', s')
                | _, _ => None
                end
  | _ => None
  end.

Definition run_chk_corridor (x : sx) : sx :=
  match x with
  | L [xin; L recs] =>
      match dec_corr xin, all_some (map (dec_rec dec_kcobs) recs) with
      | Some i, Some rs =>
          let c := chk_recs (ci_end i) (ci_n i) (ci_kind i) false [] [] (ci_calls i) rs in
          if c =? 0 then A 1 else A (- c)
      | _, _ => A (-2529)
      end
  | _ => A (-2529)
  end.

(* ---- 2503 / 2504: the wrapper stacks under the managers ----------------------------------------
   2503 input  (end n draws kind wk (mapping ord) calls)
                 wk 0 SuperAgentWrapper (mapping: covered agents per super agent; ord: see perm_sim),
                    1 CommunicationHandshakeWrapper, 2 Ravel, 3 Flatten, 4 Flatten over Ravel
                 calls (0) | (1 acts shuffled); one action
                    wk 0: (i (0 ((c a) ...))) super agent | (i (1 a)) uncovered agent
                    wk 1: (i a send receive)       send / receive: ((other 0/1) ...)
                    wk 2-4: (i upoint)
        output ((resp snapshot) ...) as 2501, snapshot of the INNER corridor; one observation
                    wk 0: (i (1 ((c position left right) ...) ((c live) ...))) | (i (2 position left right))
                    wk 1: (i (1 (position left right) message_buffer))
                    wk 2-4: (i upoint)                     (9): the wrapper model answered an error *)
Definition dec_gcall {Act : Type} (dact : sx -> option (nat * Act)) (x : sx) : option (call Act) :=
  match x with
  | L [A 0] => Some CReset
  | L [A 1; L a; L sh] =>
      match all_some (map dact a), all_some (map dact sh) with
      | Some a', Some sh' => Some (CStep a' sh')
      | _, _ => None
      end
  | _ => None
  end.

Definition dec_sact (x : sx) : option (nat * sact Z) :=
  match x with
  | L [i; L [A 0; acts]] =>
      match sxNat i, dec_kvs acts with
      | Some i', Some a' => Some (i', SSuper a')
      | _, _ => None
      end
  | L [i; L [A 1; A a]] => option_map (fun i' => (i', SPlain a)) (sxNat i)
  | _ => None
  end.

Definition enc_wobs (kv : nat * wresp cobs unit) : sx :=
  L [ofNat (fst kv);
     match snd kv with
     | WSupObs ents mask => L [A 1; L (map enc_kcobs ents); L (map enc_kb mask)]
     | WPlainObs o => L (A 2 :: enc_cobs o)
     | _ => L [A 9]
     end].
Definition enc_qobs (kv : nat * cresp cobs unit) : sx :=
  L [ofNat (fst kv);
     match snd kv with
     | CObs o b => L [A 1; L (enc_cobs o); enc_row b]
     | _ => L [A 9]
     end].

Definition wk_stack (wk : Z) : option (list wkind) :=
  if wk =? 2 then Some [WRavel] else if wk =? 3 then Some [WFlatten]
  else if wk =? 4 then Some [WFlatten; WRavel] else None.

Record wrap_in := { wi_end : Z; wi_n : nat; wi_draws : list (list Z); wi_kind : mgr; wi_wk : Z;
                    wi_map : list (list nat); wi_ord : list nat; wi_calls : list sx }.

Definition dec_wrap (x : sx) : option wrap_in :=
  match x with
  | L [A e; A n; dr; A k; A wk; L [mp; od]; L cs] =>
      match sxZZs dr, dec_kind k, dec_nats2 mp, sxNats od with
      | Some dr', Some k', Some mp', Some od' =>
          if (e <? 0) || (n <? 0) then None
          else Some {| wi_end := e; wi_n := Z.to_nat n; wi_draws := dr'; wi_kind := k'; wi_wk := wk;
                       wi_map := mp'; wi_ord := od'; wi_calls := cs |}
      | _, _, _, _ => None
      end
  | _ => None
  end.

Definition run_wrapped (x : sx) : sx :=
  match dec_wrap x with
  | None => sx_err
  | Some i =>
      let s0 := co_init (draws_of (wi_draws i)) in
      let e := wi_end i in let n := wi_n i in let k := wi_kind i in
      if wi_wk i =? 0 then
        match all_some (map (dec_gcall dec_sact) (wi_calls i)) with
        | Some cs => L (map (enc_rec enc_wobs)
                          (fst (run_snap (perm_sim (wi_ord i) (corr_super e n (wi_map i))) w_sim k
                                         (init (w_init s0)) cs)))
        | None => sx_err
        end
      else if wi_wk i =? 1 then
        match all_some (map (dec_gcall dec_cact) (wi_calls i)) with
        | Some cs => L (map (enc_rec enc_qobs)
                          (fst (run_snap (corr_comm e n) c_sim k (init (c_init s0)) cs)))
        | None => sx_err
        end
      else
        match wk_stack (wi_wk i), all_some (map (dec_gcall dec_av) (wi_calls i)) with
        | Some ks, Some cs => L (map (enc_rec enc_av)
                                   (fst (run_snap (corr_sar e n ks) (fun s => s) k (init s0) cs)))
        | _, _ => sx_err
        end
  end.

(* ---- checker 2504: clauses 2511-2514 on the inner snapshot as 2502, and
     2535 keys of the four dictionaries / duplicate / unknown / already reported done
     2536 a done flag is not the specification's: uncovered, communication, ravelled / flattened
          agent: arrived; super agent: every covered agent arrived
     2537 an observation is not the specification's: the corridor observation of the snapshot,
          per covered agent with mask = not arrived (super), with the message buffer the history
          of sends prescribes (communication), re-decoded down the stack and a member of the
          wrapped space (Ravel / Flatten)
     2538 `__all__`   2540 reset   2541 rejection   2542 error answer   2549 malformed          *)
Section ChkWrapped.
  Context {Obs Act : Type}.
  Variable cend : Z.
  Variable n : nat.                 (* agents of the corridor *)
  Variable N : nat.                 (* agents of the wrapped simulation *)
  Variable k : mgr.
  Variable wdone : snap -> nat -> bool.
  Variable wobs_ok : list (list (nat * Act)) -> snap -> nat * Obs -> bool.

  Definition wout_chk (gd : list nat) (h : list (list (nat * Act))) (o : out Obs unit) (s : snap) : Z :=
    let ks := map fst (o_obs o) in
    if negb (nats_eqb (map fst (o_rew o)) ks && nats_eqb (map fst (o_done o)) ks &&
             nats_eqb (map fst (o_info o)) ks && nodupb ks &&
             forallb (fun a => Nat.ltb a N && negb (memb a gd)) ks) then 2535
    else if negb (forallb (fun kb => Bool.eqb (snd kb) (wdone s (fst kb))) (o_done o)) then 2536
    else if negb (forallb (wobs_ok h s) (o_obs o)) then 2537
    else if negb (Bool.eqb (o_all o)
                    (forallb (arrived cend s) (seq 0 n) ||
                     forallb (fun a => memb a (gd ++ map fst (filter snd (o_done o)))) (seq 0 N))) then 2538
    else 0.

  Definition wreset_chk (obs : list (nat * Obs)) (s : snap) : Z :=
    if negb (forallb (fun p => p <? cend - 1) (sn_pos s) && forallb (fun r => r =? 0) (sn_rew s) &&
             forallb (wobs_ok [] s) obs &&
             nats_eqb (map fst obs) (match k with MAll => seq 0 N | _ => firstn 1 (seq 0 N) end))
    then 2540 else 0.

  Definition wasked_of (r : resp Obs unit) (old : list nat) : list nat :=
    match r with
    | RObs obs => map fst obs
    | ROut o => map fst (filter (fun kb => negb (snd kb)) (o_done o))
    | _ => old
    end.

  Fixpoint chk_wrecs (live : bool) (gd asked : list nat) (h : list (list (nat * Act)))
           (cs : list (call Act)) (rs : list (resp Obs unit * snap)) : Z :=
    match cs, rs with
    | [], [] => 0
    | c :: cs', (r, s) :: rs' =>
        if sn_bad s then
          match c with
          | CReset => if Z.of_nat n <=? cend - 1 then 2511 else 0
          | CStep acts sh =>
              if live && forallb (fun kv => memb (fst kv) asked) (acts ++ sh) then 2511 else 0
          end
        else
        let c0 := snap_chk cend n s in
        match c, r with
        | CReset, RObs obs =>
            if negb (c0 =? 0) then c0
            else let c1 := wreset_chk obs s in
                 if c1 =? 0 then chk_wrecs true [] (wasked_of r asked) [] cs' rs' else c1
        | CReset, _ => 2542
        | CStep acts sh, _ =>
            if negb live then 0
            else if negb (c0 =? 0) then c0
            else
              let names_done := existsb (fun kv => memb (fst kv) gd) acts in
              match r with
              | ROut o =>
                  if names_done then 2541
                  else let h' := (match k with MAll => sh | _ => acts end) :: h in
                       let c1 := wout_chk gd h' o s in
                       if c1 =? 0
                       then chk_wrecs (negb (o_all o)) (gd ++ map fst (filter snd (o_done o)))
                                      (wasked_of r asked) h' cs' rs'
                       else c1
              | RReject => if names_done then chk_wrecs live gd asked h cs' rs' else 2541
              | RError =>
                  match k, acts with
                  | MTurn, [] => chk_wrecs live gd asked h cs' rs'
                  | _, _ => 2542
                  end
              | _ => 2542
              end
        end
    | _, _ => 2549
    end.
End ChkWrapped.

(* specifications per wrapper, from the snapshot of the inner corridor *)
Definition kcobs_ok (cend : Z) (s : snap) (kv : nat * cobs) : bool :=
  cobs_eqb (snd kv) (spec_obs cend s (fst kv)).

(* SuperAgentWrapper: ord / mapping as in the input; index of the packaged simulation -> agents *)
Definition sup_members (n : nat) (mapping : list (list nat)) (ord : list nat) (i : nat) : option (list nat) + nat :=
  let j := nth i ord (length mapping + n)%nat in
  if Nat.ltb j (length mapping) then inl (nth_error mapping j)
  else inr (nth (j - length mapping)%nat
                (filter (fun a => negb (memb a (concat mapping))) (seq 0 n)) n).
Definition sup_wdone (cend : Z) (n : nat) (mapping : list (list nat)) (ord : list nat) (s : snap) (i : nat) : bool :=
  match sup_members n mapping ord i with
  | inl (Some cv) => forallb (arrived cend s) cv
  | inl None => false
  | inr a => arrived cend s a
  end.
Definition sup_wobs_ok (cend : Z) (n : nat) (mapping : list (list nat)) (ord : list nat)
           (h : list (list (nat * sact Z))) (s : snap) (kv : nat * wresp cobs unit) : bool :=
  match sup_members n mapping ord (fst kv), snd kv with
  | inl (Some cv), WSupObs ents mask =>
      nats_eqb (map fst ents) cv && forallb (kcobs_ok cend s) ents &&
      kbs_eqb mask (map (fun c => (c, negb (arrived cend s c))) cv)
  | inr a, WPlainObs o => cobs_eqb o (spec_obs cend s a)
  | _, _ => false
  end.

(* CommunicationHandshakeWrapper: the message buffer shows who sent to me in the last step *)
Definition com_wobs_ok (cend : Z) (n : nat) (h : list (list (nat * cact Z))) (s : snap)
           (kv : nat * cresp cobs unit) : bool :=
  match snd kv with
  | CObs o b => cobs_eqb o (spec_obs cend s (fst kv)) &&
                row_eqb b (map (fun x => (x, spec_buf h (fst kv) x)) (others n (fst kv)))
  | _ => false
  end.

(* Ravel / Flatten stacks: decoded down the stack the observation is the corridor's, and it is a
   member of the wrapped observation space *)
Definition sar_wobs_ok (cend : Z) (n : nat) (ks : list wkind) (h : list (list (nat * upoint)))
           (s : snap) (kv : nat * upoint) : bool :=
  let sp := corr_spaces cend n in
  upoint_eqb (redecode_obs ks sp (fst kv) (snd kv)) (obs_u (spec_obs cend s (fst kv))) &&
  obs_member (level_spaces ks sp) (fst kv) (snd kv).

Definition dec_wobs (x : sx) : option (nat * wresp cobs unit) :=
  match x with
  | L [i; L [A 1; L ents; L mask]] =>
      match sxNat i, all_some (map dec_kcobs ents), all_some (map dec_kb mask) with
      | Some i', Some e, Some m => Some (i', WSupObs e m)
      | _, _, _ => None
      end
  | L [i; L [A 2; A p; A l; A r]] =>
      option_map (fun i' => (i', WPlainObs {| ob_pos := p; ob_left := l; ob_right := r |})) (sxNat i)
  | L [i; L [A 9]] => option_map (fun i' => (i', WError 0)) (sxNat i)
  | _ => None
  end.
Definition dec_qobs (x : sx) : option (nat * cresp cobs unit) :=
  match x with
  | L [i; L [A 1; L [A p; A l; A r]; b]] =>
      match sxNat i, Comms.dec_row b with
      | Some i', Some b' => Some (i', CObs {| ob_pos := p; ob_left := l; ob_right := r |} b')
      | _, _ => None
      end
  | L [i; L [A 9]] => option_map (fun i' => (i', CErr 0)) (sxNat i)
  | _ => None
  end.

Definition run_chk_wrapped (x : sx) : sx :=
  match x with
  | L [xin; L recs] =>
      match dec_wrap xin with
      | None => A (-2549)
      | Some i =>
          let e := wi_end i in let n := wi_n i in let k := wi_kind i in
          let fin := fun c : Z => if c =? 0 then A 1 else A (- c) in
          if wi_wk i =? 0 then
            match all_some (map (dec_gcall dec_sact) (wi_calls i)), all_some (map (dec_rec dec_wobs) recs) with
            | Some cs, Some rs =>
                fin (chk_wrecs e n (length (wi_ord i)) k (sup_wdone e n (wi_map i) (wi_ord i))
                               (sup_wobs_ok e n (wi_map i) (wi_ord i)) false [] [] [] cs rs)
            | _, _ => A (-2549)
            end
          else if wi_wk i =? 1 then
            match all_some (map (dec_gcall dec_cact) (wi_calls i)), all_some (map (dec_rec dec_qobs) recs) with
            | Some cs, Some rs =>
                fin (chk_wrecs e n n k (arrived e) (com_wobs_ok e n) false [] [] [] cs rs)
            | _, _ => A (-2549)
            end
          else
            match wk_stack (wi_wk i), all_some (map (dec_gcall dec_av) (wi_calls i)),
                  all_some (map (dec_rec dec_av) recs) with
            | Some ks, Some cs, Some rs =>
                fin (chk_wrecs e n n k (arrived e) (sar_wobs_ok e n ks) false [] [] [] cs rs)
            | _, _, _ => A (-2549)
            end
      end
  | _ => A (-2549)
  end.

(* DISPATCH: 2501 => run_corridor *)
(* DISPATCH: 2502 => run_chk_corridor *)
(* DISPATCH: 2503 => run_wrapped *)
(* DISPATCH: 2504 => run_chk_wrapped *)
