(* Model of abmarl/external/gym_env_wrapper.py (GymWrapper, GymABS) and
   abmarl/external/open_spiel_env_wrapper.py (OpenSpielWrapper) over the manager models of
   Ctl/Managers.v, for an arbitrary simulation.  Agents are indices, dicts are association
   lists in insertion order.  The `_prefix` variants transcribe the code before the repairs
   of findings F4 (current player = first reported key) and F5 (GymABS.reset keeps the cached
   reward and done flag).  Executable checkers chk_C15 / chk_C15_gym / chk_gymabs work from
   the recorded traffic only; they never call the adapter model.  No proofs here. *)
From Coq Require Import ZArith List Bool Arith.
From Abm Require Import Base.Sx Ctl.Managers Ctl.ScriptSim Ctl.MgrCheck.
Import ListNotations.

Fixpoint alookup {X} (a : nat) (l : list (nat * X)) : option X :=
  match l with
  | [] => None
  | (b, x) :: l' => if Nat.eqb a b then Some x else alookup a l'
  end.

Definition is_turn (k : mgr) : bool :=
  match k with MTurn | MTurnPrefix => true | _ => false end.

Definition zrange (k : nat) : list Z := map Z.of_nat (seq 0 k).

(* ------------------------------------------------------------------ OpenSpiel adapter *)
Inductive stype := FIRST | MID | LAST.

Record tstep (Obs : Type) := {
  ts_type : stype;
  ts_obs : list (nat * Obs);              (* observations["info_state"] *)
  ts_legal : list (nat * list Z);         (* observations["legal_actions"] *)
  ts_cur : nat;                           (* observations["current_player"] *)
  ts_rew : option (list (nat * Z));       (* None at FIRST *)
  ts_disc : option (list (nat * Z))       (* None at FIRST *)
}.
Arguments ts_type {Obs}.
Arguments ts_obs {Obs}.
Arguments ts_legal {Obs}.
Arguments ts_cur {Obs}.
Arguments ts_rew {Obs}.
Arguments ts_disc {Obs}.

Inductive aresp (Obs : Type) :=
| ATime (t : tstep Obs)
| AReject                     (* AssertionError *)
| AError.                     (* any other exception *)
Arguments ATime {Obs}.
Arguments AReject {Obs}.
Arguments AError {Obs}.

(* adapter state: the wrapped manager, _should_reset, _current_player (unset before reset) *)
Record ostate (St : Type) := { os_m : mstate St; os_sr : bool; os_cur : option nat }.
Arguments os_m {St}.
Arguments os_sr {St}.
Arguments os_cur {St}.

(* what one adapter call did: its answer, the calls it made on the manager with their answers,
   and whether it went through _take_fake_step *)
Record oevent (Obs Info Act : Type) := {
  ev_resp : aresp Obs;
  ev_calls : list (call Act * resp Obs Info);
  ev_fake : bool
}.
Arguments ev_resp {Obs Info Act}.
Arguments ev_calls {Obs Info Act}.
Arguments ev_fake {Obs Info Act}.

Inductive ocall (Act : Type) :=
| OReset
| OStep (al : list Act) (sh : option (list (nat * Act))).   (* sh: oracle shuffle (all-step) *)
Arguments OReset {Act}.
Arguments OStep {Act}.

(* result of looking for the first reported agent that is not done *)
Inductive pick := PSome (a : nat) | PNone | PKeyErr.

Fixpoint pick_live (ks : list nat) (dn : list (nat * bool)) : pick :=
  match ks with
  | [] => PNone
  | a :: ks' => match alookup a dn with
                | None => PKeyErr                      (* done[agent_id] raises KeyError *)
                | Some false => PSome a
                | Some true => pick_live ks' dn
                end
  end.

Section Adapters.
  Context {St Obs Info Act : Type}.
  Variable Sim : simulation St Obs Info Act.
  Variable nact : nat -> nat.          (* size of the agent's Discrete action space *)
  Variable disc : nat -> Z.            (* the agent's discount *)
  Notation order := (order Sim).
  Notation s_obs := (sim_obs Sim).

  Definition with_sim (m : mstate St) (s : St) : mstate St :=
    {| m_sim := s; m_done := m_done m; m_ptr := m_ptr m |}.

  (* _append_obs: every learning agent missing from the manager's dict is read from the
     simulation itself (self.sim.sim.get_obs) and appended *)
  Definition append_obs (s : St) (obs : list (nat * Obs)) : list (nat * Obs) * St :=
    let missing := filter (fun a => negb (memb a (map fst obs))) order in
    let (extra, s') := thread s_obs s missing in (obs ++ extra, s').

  Definition append_rew (rew : list (nat * Z)) : list (nat * Z) :=
    rew ++ map (fun a => (a, 0%Z)) (filter (fun a => negb (memb a (map fst rew))) order).

  Definition legal_all : list (nat * list Z) := map (fun a => (a, zrange (nact a))) order.
  Definition discounts : list (nat * Z) := map (fun a => (a, disc a)) order.

  Definition mk_ev (r : aresp Obs) (cs : list (call Act * resp Obs Info)) (fk : bool)
    : oevent Obs Info Act := {| ev_resp := r; ev_calls := cs; ev_fake := fk |}.

  (* OpenSpielWrapper.reset *)
  Definition os_reset (k : mgr) (st : ostate St) : oevent Obs Info Act * ostate St :=
    let (r, m1) := do_call Sim k (os_m st) CReset in
    let cs := [(CReset, r)] in
    match r with
    | RObs obs =>
        match obs with
        | [] => (mk_ev AError cs false, {| os_m := m1; os_sr := false; os_cur := os_cur st |})
        | (a, _) :: _ =>
            if memb a order then                          (* current_player setter *)
              let (obs', s') := append_obs (m_sim m1) obs in
              (mk_ev (ATime {| ts_type := FIRST; ts_obs := obs'; ts_legal := legal_all;
                               ts_cur := a; ts_rew := None; ts_disc := None |}) cs false,
               {| os_m := with_sim m1 s'; os_sr := false; os_cur := Some a |})
            else (mk_ev AReject cs false,
                  {| os_m := m1; os_sr := false; os_cur := os_cur st |})
        end
    | RReject => (mk_ev AReject cs false, {| os_m := m1; os_sr := false; os_cur := os_cur st |})
    | _ => (mk_ev AError cs false, {| os_m := m1; os_sr := false; os_cur := os_cur st |})
    end.

  (* _take_fake_step *)
  Definition os_fake (st : ostate St) : oevent Obs Info Act * ostate St :=
    let (obs, s') := append_obs (m_sim (os_m st)) [] in
    match obs with
    | [] => (mk_ev AError [] true,
             {| os_m := with_sim (os_m st) s'; os_sr := os_sr st; os_cur := os_cur st |})
    | (a, _) :: _ =>
        (* the keys are learning agents: the setter's assertion holds *)
        (mk_ev (ATime {| ts_type := MID; ts_obs := obs; ts_legal := legal_all; ts_cur := a;
                         ts_rew := Some (append_rew []); ts_disc := Some discounts |}) [] true,
         {| os_m := with_sim (os_m st) s'; os_sr := os_sr st; os_cur := Some a |})
    end.

  (* the player named after a manager step.  fixd = true: first reported agent that is not
     done, else the first reported one (repair of F4); fixd = false: next(iter(obs)) *)
  Definition next_player (fixd : bool) (o : out Obs Info) : pick :=
    match o_obs o with
    | [] => PNone                                          (* StopIteration *)
    | (a0, _) :: _ =>
        if fixd then
          match pick_live (map fst (o_obs o)) (o_done o) with
          | PSome a => PSome a
          | PNone => PSome a0
          | PKeyErr => PKeyErr
          end
        else PSome a0
    end.

  (* OpenSpielWrapper.step *)
  Definition os_step_gen (fixd : bool) (k : mgr) (st : ostate St) (al : list Act)
             (sh : option (list (nat * Act))) : oevent Obs Info Act * ostate St :=
    if os_sr st then os_reset k st
    else
      let m := os_m st in
      let dict :=
        if is_turn k then
          match os_cur st, al with
          | Some c, x :: _ => inl [(c, x)]
          | _, _ => inr AError                               (* IndexError *)
          end
        else if Nat.eqb (length al) (length order) then inl (combine order al)
             else inr AReject in
      match dict with
      | inr e => (mk_ev e [] false, st)
      | inl d0 =>
          let d1 := filter (fun kv => negb (memb (fst kv) (m_done m))) d0 in
          match d1 with
          | [] => os_fake st
          | _ :: _ =>
              let c := CStep d1 (match sh with Some l => l | None => d1 end) in
              let (r, m1) := do_call Sim k m c in
              let cs := [(c, r)] in
              let keep := {| os_m := m1; os_sr := os_sr st; os_cur := os_cur st |} in
              match r with
              | ROut o =>
                  match next_player fixd o with
                  | PSome a =>
                      if memb a order then
                        let ty := if o_all o then LAST else MID in
                        let (obs', s') := append_obs (m_sim m1) (o_obs o) in
                        (mk_ev (ATime {| ts_type := ty; ts_obs := obs'; ts_legal := legal_all;
                                         ts_cur := a; ts_rew := Some (append_rew (o_rew o));
                                         ts_disc := Some discounts |}) cs false,
                         {| os_m := with_sim m1 s'; os_sr := o_all o; os_cur := Some a |})
                      else (mk_ev AReject cs false, keep)
                  | _ => (mk_ev AError cs false, keep)
                  end
              | RReject => (mk_ev AReject cs false, keep)
              | _ => (mk_ev AError cs false, keep)
              end
          end
      end.

  Definition os_step := os_step_gen true.
  Definition os_step_prefix := os_step_gen false.

  Definition os_call_gen (fixd : bool) (k : mgr) (st : ostate St) (c : ocall Act)
    : oevent Obs Info Act * ostate St :=
    match c with
    | OReset => os_reset k st
    | OStep al sh => os_step_gen fixd k st al sh
    end.

  Fixpoint os_run_gen (fixd : bool) (k : mgr) (st : ostate St) (cs : list (ocall Act))
    : list (oevent Obs Info Act) * ostate St :=
    match cs with
    | [] => ([], st)
    | c :: cs' => let (e, st1) := os_call_gen fixd k st c in
                  let (es, st2) := os_run_gen fixd k st1 cs' in (e :: es, st2)
    end.

  Definition os_call := os_call_gen true.
  Definition os_run := os_run_gen true.

  (* a newly constructed adapter over a newly constructed manager *)
  Definition os_init (s : St) : ostate St :=
    {| os_m := init s; os_sr := true; os_cur := None |}.

  (* ---------------------------------------------------------------- GymWrapper *)
  Inductive gresp :=
  | GObs (ob : Obs)                                         (* reset: (obs, {}) *)
  | GStep (ob : Obs) (r : Z) (d : bool) (trunc : bool) (i : Info)
  | GReject | GError.

  (* the constructor asserts that there is exactly one learning agent *)
  Definition gym_agent : option nat := match order with [a] => Some a | _ => None end.

  Definition gym_reset (k : mgr) (a : nat) (m : mstate St)
    : gresp * list (call Act * resp Obs Info) * mstate St :=
    let (r, m1) := do_call Sim k m CReset in
    (match r with
     | RObs obs => match alookup a obs with Some ob => GObs ob | None => GError end
     | RReject => GReject
     | _ => GError
     end, [(CReset, r)], m1).

  Definition gym_step (k : mgr) (a : nat) (m : mstate St) (x : Act)
             (sh : option (list (nat * Act)))
    : gresp * list (call Act * resp Obs Info) * mstate St :=
    let d := [(a, x)] in
    let c := CStep d (match sh with Some l => l | None => d end) in
    let (r, m1) := do_call Sim k m c in
    (match r with
     | ROut o =>
         match alookup a (o_obs o), alookup a (o_rew o), alookup a (o_done o),
               alookup a (o_info o) with
         | Some ob, Some rw, Some dn, Some inf => GStep ob rw dn false inf
         | _, _, _, _ => GError                              (* KeyError *)
         end
     | RReject => GReject
     | _ => GError
     end, [(c, r)], m1).

  Inductive gcall := GCReset | GCStep (x : Act) (sh : option (list (nat * Act))).

  Fixpoint gym_run (k : mgr) (a : nat) (m : mstate St) (cs : list gcall)
    : list (gresp * list (call Act * resp Obs Info)) * mstate St :=
    match cs with
    | [] => ([], m)
    | c :: cs' =>
        let '(r, l, m1) := match c with
                           | GCReset => gym_reset k a m
                           | GCStep x sh => gym_step k a m x sh
                           end in
        let (rs, m2) := gym_run k a m1 cs' in ((r, l) :: rs, m2)
    end.
End Adapters.
Arguments GObs {Obs Info}.
Arguments GStep {Obs Info}.
Arguments GReject {Obs Info}.
Arguments GError {Obs Info}.
Arguments GCReset {Act}.
Arguments GCStep {Act}.

(* ------------------------------------------------------------------ GymABS *)
(* the wrapped gym environment *)
Record genv (E Obs Info Act : Type) := {
  ge_reset : E -> (Obs * Info) * E;
  ge_step : E -> Act -> (Obs * Z * bool * bool * Info) * E
}.
Arguments ge_reset {E Obs Info Act}.
Arguments ge_step {E Obs Info Act}.

(* the ABS storage: None is Python's None *)
Record gcache (Obs Info : Type) := {
  c_obs : option Obs; c_rew : option Z; c_done : option bool; c_info : option Info }.
Arguments c_obs {Obs Info}.
Arguments c_rew {Obs Info}.
Arguments c_done {Obs Info}.
Arguments c_info {Obs Info}.

Section GymABS.
  Context {E Obs Info Act : Type}.
  Variable G : genv E Obs Info Act.

  Definition gabs_fresh : gcache Obs Info :=
    {| c_obs := None; c_rew := None; c_done := None; c_info := None |}.

  (* fixd = true: reset clears the cached reward and done flag (repair of F5) *)
  Definition gabs_reset_gen (fixd : bool) (e : E) (c : gcache Obs Info) : E * gcache Obs Info :=
    let '((ob, inf), e') := ge_reset G e in
    (e', {| c_obs := Some ob; c_rew := if fixd then None else c_rew c;
            c_done := if fixd then None else c_done c; c_info := Some inf |}).

  (* step(action): action['agent']; None = KeyError, nothing changes *)
  Definition gabs_step (e : E) (c : gcache Obs Info) (acts : list (nat * Act))
    : option (E * gcache Obs Info) :=
    match alookup 0 acts with
    | None => None
    | Some x =>
        let '((ob, rw, term, trunc, inf), e') := ge_step G e x in
        Some (e', {| c_obs := Some ob; c_rew := Some rw; c_done := Some (term || trunc);
                     c_info := Some inf |})
    end.

  Definition gabs_reset := gabs_reset_gen true.
  Definition gabs_reset_prefix := gabs_reset_gen false.

  Definition gabs_get_obs (c : gcache Obs Info) := c_obs c.
  Definition gabs_get_reward (c : gcache Obs Info) := c_rew c.
  Definition gabs_get_done (c : gcache Obs Info) := c_done c.
  Definition gabs_get_all_done (c : gcache Obs Info) := gabs_get_done c.
  Definition gabs_get_info (c : gcache Obs Info) := c_info c.
End GymABS.

(* ================================================================== wire: OpenSpiel *)
Definition enc_call (c : call Z) : sx :=
  match c with
  | CReset => L [A 0]
  | CStep a sh => L [A 1; enc_kvs a; enc_kvs sh]
  end.

Definition enc_mcalls (l : list (call Z * resp Z Z)) : sx :=
  L (map (fun cr => L [enc_call (fst cr); enc_resp (snd cr)]) l).

Definition dec_mcalls (x : sx) : option (list (call Z * resp Z Z)) :=
  match x with
  | L l => all_some (map (fun y => match y with
                                   | L [c; r] => match dec_call c, dec_resp r with
                                                 | Some c', Some r' => Some (c', r')
                                                 | _, _ => None
                                                 end
                                   | _ => None
                                   end) l)
  | _ => None
  end.

Definition enc_stype (t : stype) : sx := A (match t with FIRST => 0 | MID => 1 | LAST => 2 end)%Z.
Definition dec_stype (x : sx) : option stype :=
  match x with A 0%Z => Some FIRST | A 1%Z => Some MID | A 2%Z => Some LAST | _ => None end.

Definition enc_legal (l : list (nat * list Z)) : sx :=
  L (map (fun al => L [ofNat (fst al); ofZs (snd al)]) l).
Definition dec_legal (x : sx) : option (list (nat * list Z)) :=
  match x with
  | L l => all_some (map (fun y => match y with
                                   | L [a; zs] => match sxNat a, sxZs zs with
                                                  | Some a', Some zs' => Some (a', zs')
                                                  | _, _ => None
                                                  end
                                   | _ => None
                                   end) l)
  | _ => None
  end.

Definition enc_okvs (o : option (list (nat * Z))) : sx :=
  match o with None => L [] | Some l => L [enc_kvs l] end.
Definition dec_okvs (x : sx) : option (option (list (nat * Z))) :=
  match x with
  | L [] => Some None
  | L [y] => option_map Some (dec_kvs y)
  | _ => None
  end.

Definition enc_aresp (r : aresp Z) : sx :=
  match r with
  | ATime t => L [A 0%Z; enc_stype (ts_type t); enc_kvs (ts_obs t); enc_legal (ts_legal t);
                  ofNat (ts_cur t); enc_okvs (ts_rew t); enc_okvs (ts_disc t)]
  | AReject => L [A 2%Z]
  | AError => L [A 3%Z]
  end.
Definition dec_aresp (x : sx) : option (aresp Z) :=
  match x with
  | L [A 0%Z; ty; obs; lg; cur; rw; dc] =>
      match dec_stype ty, dec_kvs obs, dec_legal lg, sxNat cur, dec_okvs rw, dec_okvs dc with
      | Some ty', Some obs', Some lg', Some cur', Some rw', Some dc' =>
          Some (ATime {| ts_type := ty'; ts_obs := obs'; ts_legal := lg'; ts_cur := cur';
                         ts_rew := rw'; ts_disc := dc' |})
      | _, _, _, _, _, _ => None
      end
  | L [A 2%Z] => Some AReject
  | L [A 3%Z] => Some AError
  | _ => None
  end.

Definition enc_oevent (e : oevent Z Z Z) : sx :=
  L [enc_aresp (ev_resp e); enc_mcalls (ev_calls e); ofB (ev_fake e)].
Definition dec_oevent (x : sx) : option (oevent Z Z Z) :=
  match x with
  | L [r; cs; fk] =>
      match dec_aresp r, dec_mcalls cs, sxB fk with
      | Some r', Some cs', Some fk' => Some {| ev_resp := r'; ev_calls := cs'; ev_fake := fk' |}
      | _, _, _ => None
      end
  | _ => None
  end.

(* adapter call: (0) reset | (1 (actions) ()) step | (1 (actions) ((shuffled dict))) *)
Definition dec_ocall (x : sx) : option (ocall Z) :=
  match x with
  | L [A 0%Z] => Some OReset
  | L [A 1%Z; al; L []] => match sxZs al with Some al' => Some (OStep al' None) | None => None end
  | L [A 1%Z; al; L [sh]] =>
      match sxZs al, dec_kvs sh with
      | Some al', Some sh' => Some (OStep al' (Some sh'))
      | _, _ => None
      end
  | _ => None
  end.

(* the input of an adapter play-through: script (with manager kind), action-space sizes,
   discounts, adapter calls *)
Record oinput := { oi_k : mgr; oi_sc : script; oi_nact : list nat; oi_disc : list Z;
                   oi_calls : list (ocall Z) }.

Definition dec_oinput (x : sx) : option oinput :=
  match x with
  | L [xs; na; dc; L cs] =>
      match dec_script xs, sxNats na, sxZs dc, all_some (map dec_ocall cs) with
      | Some (k, sc), Some na', Some dc', Some cs' =>
          Some {| oi_k := k; oi_sc := sc; oi_nact := na'; oi_disc := dc'; oi_calls := cs' |}
      | _, _, _, _ => None
      end
  | _ => None
  end.

Definition osp_model (fixd : bool) (i : oinput) : list (oevent Z Z Z) :=
  fst (os_run_gen (script_sim (oi_sc i)) (fun a => nth a (oi_nact i) O)
                  (fun a => nth a (oi_disc i) 0%Z) fixd (oi_k i)
                  (os_init (ss_init (oi_sc i))) (oi_calls i)).

(* behaviour on the wire: ((event ...) timeout-flag); the model never times out *)
Definition run_osp_gen (fixd : bool) (x : sx) : sx :=
  match dec_oinput x with
  | Some i => L [L (map enc_oevent (osp_model fixd i)); A 0%Z]
  | None => sx_err
  end.
Definition run_osp := run_osp_gen true.
Definition run_osp_prefix := run_osp_gen false.

(* ------------------------------------------------------------------ chk_C15 (OpenSpiel) *)
(* Ghost state of the checker, rebuilt from the recorded traffic only: whether the next step
   must reset, the agents the manager has reported done in this episode (plus the entities
   that never act), the player named last. *)
Record oghost := { og_sr : bool; og_D : list nat; og_cur : option nat }.

Fixpoint zs_eqb (l m : list Z) : bool :=
  match l, m with
  | [], [] => true
  | x :: l', y :: m' => (x =? y)%Z && zs_eqb l' m'
  | _, _ => false
  end.

Fixpoint prefix_kvs (p l : list (nat * Z)) : bool :=
  match p, l with
  | [], _ => true
  | x :: p', y :: l' => kv_eqb x y && prefix_kvs p' l'
  | _ :: _, [] => false
  end.

Definition is_none {X} (o : option X) : bool := match o with None => true | Some _ => false end.
Definition stype_eqb (a b : stype) : bool :=
  match a, b with FIRST, FIRST | MID, MID | LAST, LAST => true | _, _ => false end.

Section ChkOsp.
  Variable sc : script.
  Variable k : mgr.
  Variable nacts : list nat.
  Variable discs : list Z.

  Definition c_order : list nat := corder sc.
  Definition c_nonlearn : list nat := filter (fun a => negb (clearn sc a)) (cagents sc).

  (* every learning agent, and nobody else, has exactly one entry *)
  Definition present {X} (l : list (nat * X)) : bool :=
    let ks := map fst l in
    nodupb ks && forallb (fun a => memb a c_order) ks && forallb (fun a => memb a ks) c_order.

  Definition legal_ok (l : list (nat * list Z)) : bool :=
    forallb (fun al => zs_eqb (snd al) (zrange (nth (fst al) nacts O))) l.

  Definition disc_ok (l : list (nat * Z)) : bool :=
    forallb (fun kv => (snd kv =? nth (fst kv) discs 0)%Z) l.

  Definition rew_ok (mrew : list (nat * Z)) (r : option (list (nat * Z))) : bool :=
    match r with
    | Some r' => prefix_kvs mrew r' && forallb (fun kv => (snd kv =? 0)%Z) (skipn (length mrew) r')
    | None => false
    end.

  (* a call that must reset: explicit reset(), or step() while _should_reset *)
  Definition chk_reset_ev (g : oghost) (e : oevent Z Z Z) : Z * oghost :=
    match ev_calls e with
    | [(CReset, RObs obs)] =>
        match ev_resp e with
        | ATime ts =>
            let cur := ts_cur ts in
            ((if ev_fake e then 6
              else if negb (stype_eqb (ts_type ts) FIRST && is_none (ts_rew ts)
                            && is_none (ts_disc ts)) then 3
              else if negb (present (ts_obs ts) && present (ts_legal ts)
                            && legal_ok (ts_legal ts)) then 1
              else if negb (prefix_kvs obs (ts_obs ts)) then 8
              else if is_turn k && negb (memb cur (map fst obs) && memb cur c_order
                                         && negb (memb cur c_nonlearn)) then 5
              else 0)%Z,
             {| og_sr := false; og_D := c_nonlearn; og_cur := Some cur |})
        | _ => (3%Z, g)
        end
    | _ => (4%Z, g)
    end.

  (* the dict the adapter has to forward; None: the action list is malformed *)
  Definition expected_dict (g : oghost) (al : list Z) : option (list (nat * Z)) :=
    if is_turn k then
      match og_cur g, al with
      | Some c, x :: _ => Some [(c, x)]
      | _, _ => None
      end
    else if Nat.eqb (length al) (length c_order)
         then Some (filter (fun kv => negb (memb (fst kv) (og_D g))) (combine c_order al))
         else None.

  Definition chk_step_ev (g : oghost) (al : list Z) (e : oevent Z Z Z) : Z * oghost :=
    match expected_dict g al with
    | None =>
        (match ev_resp e, ev_calls e with
         | AReject, [] | AError, [] => if ev_fake e then 6%Z else 0%Z
         | _, _ => 9%Z
         end, g)
    | Some exp =>
        if ev_fake e then (6%Z, g)
        else
          match ev_calls e with
          | [(CStep acts _, ROut o)] =>
              let D' := og_D g ++ map fst (filter snd (o_done o)) in
              match ev_resp e with
              | ATime ts =>
                  let cur := ts_cur ts in
                  ((if existsb (fun kv => memb (fst kv) (og_D g)) acts then 2
                    else if match acts with [] => true | _ => false end then 7
                    else if negb (kvs_eqb acts exp) then 8
                    else if negb (stype_eqb (ts_type ts) (if o_all o then LAST else MID)) then 3
                    else if negb (present (ts_obs ts) && present (ts_legal ts)
                                  && legal_ok (ts_legal ts)
                                  && match ts_rew ts with Some r => present r | None => false end
                                  && match ts_disc ts with
                                     | Some d => present d && disc_ok d | None => false end) then 1
                    else if negb (prefix_kvs (o_obs o) (ts_obs ts) && rew_ok (o_rew o) (ts_rew ts))
                         then 8
                    else if is_turn k && negb (o_all o)
                            && negb (negb (memb cur D') && memb cur c_order
                                     && existsb (fun kb => Nat.eqb (fst kb) cur && negb (snd kb))
                                                (o_done o)) then 5
                    else 0)%Z,
                   {| og_sr := o_all o; og_D := D'; og_cur := Some cur |})
              | _ => (3%Z, g)
              end
          | _ => (7%Z, g)
          end
    end.

  Fixpoint chk_osp (g : oghost) (cs : list (ocall Z)) (es : list (oevent Z Z Z)) : Z :=
    match cs, es with
    | [], [] => 0%Z
    | c :: cs', e :: es' =>
        let (code, g') := match c with
                          | OReset => chk_reset_ev g e
                          | OStep al _ => if og_sr g then chk_reset_ev g e else chk_step_ev g al e
                          end in
        if (code =? 0)%Z then chk_osp g' cs' es' else code
    | _, _ => 11%Z
    end.
End ChkOsp.

Definition oghost0 : oghost := {| og_sr := true; og_D := []; og_cur := None |}.

(* 0 when every clause of C15 holds on the recorded play-through, else the clause number:
   1 agents present  2 action for a done agent forwarded  3 step type / rewards / discounts
   4 reset after LAST  5 current player cannot act  6 fake step  7 not exactly one manager step
   8 episode data altered  9 malformed call not refused  10 step budget exceeded  11 shape *)
Definition chk_C15_code (i : oinput) (es : list (oevent Z Z Z)) (timeout : bool) : Z :=
  if timeout then 10%Z
  else chk_osp (oi_sc i) (oi_k i) (oi_nact i) (oi_disc i) oghost0 (oi_calls i) es.

Definition chk_C15 (i : oinput) (es : list (oevent Z Z Z)) (timeout : bool) : bool :=
  (chk_C15_code i es timeout =? 0)%Z.

Definition run_chk_C15 (x : sx) : sx :=
  match x with
  | L [xi; L [L xes; fl]] =>
      match dec_oinput xi, all_some (map dec_oevent xes), sxB fl with
      | Some i, Some es, Some t =>
          let code := chk_C15_code i es t in
          if (code =? 0)%Z then A 1%Z else A (- code)%Z
      | _, _, _ => A (-12)%Z
      end
  | _ => A (-12)%Z
  end.

(* ================================================================== wire: GymWrapper *)
Definition enc_gresp (r : @gresp Z Z) : sx :=
  match r with
  | GObs ob => L [A 0%Z; A ob]
  | GStep ob rw dn tr inf => L [A 1%Z; A ob; A rw; ofB dn; ofB tr; A inf]
  | GReject => L [A 2%Z]
  | GError => L [A 3%Z]
  end.
Definition dec_gresp (x : sx) : option (@gresp Z Z) :=
  match x with
  | L [A 0%Z; A ob] => Some (GObs ob)
  | L [A 1%Z; A ob; A rw; dn; tr; A inf] =>
      match sxB dn, sxB tr with
      | Some dn', Some tr' => Some (GStep ob rw dn' tr' inf)
      | _, _ => None
      end
  | L [A 2%Z] => Some GReject
  | L [A 3%Z] => Some GError
  | _ => None
  end.

Definition dec_gcall (x : sx) : option (@gcall Z) :=
  match x with
  | L [A 0%Z] => Some GCReset
  | L [A 1%Z; A v; L []] => Some (GCStep v None)
  | L [A 1%Z; A v; L [sh]] => option_map (fun l => GCStep v (Some l)) (dec_kvs sh)
  | _ => None
  end.

Record ginput := { gi_k : mgr; gi_sc : script; gi_calls : list (@gcall Z) }.

Definition dec_ginput (x : sx) : option ginput :=
  match x with
  | L [xs; L cs] =>
      match dec_script xs, all_some (map dec_gcall cs) with
      | Some (k, sc), Some cs' => Some {| gi_k := k; gi_sc := sc; gi_calls := cs' |}
      | _, _ => None
      end
  | _ => None
  end.

(* None: the constructor refuses (not exactly one learning agent) *)
Definition gym_model (i : ginput) : option (list (@gresp Z Z * list (call Z * resp Z Z))) :=
  match gym_agent (script_sim (gi_sc i)) with
  | None => None
  | Some a => Some (fst (gym_run (script_sim (gi_sc i)) (gi_k i) a (init (ss_init (gi_sc i)))
                                 (gi_calls i)))
  end.

Definition enc_gbeh (b : option (list (@gresp Z Z * list (call Z * resp Z Z)))) : sx :=
  match b with
  | None => L [A 2%Z]
  | Some l => L [A 0%Z; L (map (fun rc => L [enc_gresp (fst rc); enc_mcalls (snd rc)]) l)]
  end.

Definition dec_gbeh (x : sx) : option (option (list (@gresp Z Z * list (call Z * resp Z Z)))) :=
  match x with
  | L [A 2%Z] => Some None
  | L [A 0%Z; L l] =>
      option_map Some
        (all_some (map (fun y => match y with
                                 | L [r; cs] => match dec_gresp r, dec_mcalls cs with
                                                | Some r', Some cs' => Some (r', cs')
                                                | _, _ => None
                                                end
                                 | _ => None
                                 end) l))
  | _ => None
  end.

Definition run_gym (x : sx) : sx :=
  match dec_ginput x with
  | Some i => enc_gbeh (gym_model i)
  | None => sx_err
  end.

(* the gym adapter returns exactly the single learning agent's entries of what the manager
   answered to exactly the call {agent: action} *)
Definition z_opt_eqb (a b : option Z) : bool :=
  match a, b with Some x, Some y => (x =? y)%Z | None, None => true | _, _ => false end.

Definition chk_gym_ev (a : nat) (c : @gcall Z) (r : @gresp Z Z) (cs : list (call Z * resp Z Z)) : Z :=
  match c, cs with
  | GCReset, [(CReset, mr)] =>
      match mr, r with
      | RObs obs, GObs ob => if z_opt_eqb (alookup a obs) (Some ob) then 0 else 21
      | RObs obs, GError => if is_none (alookup a obs) then 0 else 21
      | RReject, GReject => 0
      | RError, GError => 0
      | ROutOfFuel, GError => 0
      | _, _ => 21
      end
  | GCStep x _, [(CStep acts _, mr)] =>
      if negb (kvs_eqb acts [(a, x)]) then 22
      else
        match mr, r with
        | ROut o, GStep ob rw dn tr inf =>
            if z_opt_eqb (alookup a (o_obs o)) (Some ob) && z_opt_eqb (alookup a (o_rew o)) (Some rw)
               && match alookup a (o_done o) with Some d => Bool.eqb d dn | None => false end
               && negb tr && z_opt_eqb (alookup a (o_info o)) (Some inf) then 0 else 23
        | ROut o, GError =>
            if is_none (alookup a (o_obs o)) || is_none (alookup a (o_rew o))
               || is_none (alookup a (o_done o)) || is_none (alookup a (o_info o)) then 0 else 23
        | RReject, GReject => 0
        | RError, GError => 0
        | ROutOfFuel, GError => 0
        | _, _ => 23
        end
  | _, _ => 24
  end%Z.

Fixpoint chk_gym_hist (a : nat) (cs : list (@gcall Z))
         (rs : list (@gresp Z Z * list (call Z * resp Z Z))) : Z :=
  match cs, rs with
  | [], [] => 0%Z
  | c :: cs', (r, l) :: rs' =>
      let code := chk_gym_ev a c r l in
      if (code =? 0)%Z then chk_gym_hist a cs' rs' else code
  | _, _ => 25%Z
  end.

Definition chk_C15_gym_code (i : ginput)
           (b : option (list (@gresp Z Z * list (call Z * resp Z Z)))) : Z :=
  match corder (gi_sc i), b with
  | [a], Some rs => chk_gym_hist a (gi_calls i) rs
  | [_], None => 26%Z
  | _, None => 0%Z
  | _, Some _ => 26%Z
  end.

Definition chk_C15_gym (i : ginput) b : bool := (chk_C15_gym_code i b =? 0)%Z.

Definition run_chk_C15_gym (x : sx) : sx :=
  match x with
  | L [xi; xb] =>
      match dec_ginput xi, dec_gbeh xb with
      | Some i, Some b =>
          let code := chk_C15_gym_code i b in
          if (code =? 0)%Z then A 1%Z else A (- code)%Z
      | _, _ => A (-12)%Z
      end
  | _ => A (-12)%Z
  end.

(* ================================================================== wire: GymABS *)
(* scripted gym environment: state = number of steps since reset; row t answers step t
   (the last row repeats); the observation echoes the action *)
Record grow := { gw_obs : Z; gw_rew : Z; gw_term : bool; gw_trunc : bool; gw_info : Z }.
Record gscript := { gs_obs0 : Z; gs_info0 : Z; gs_rows : list grow }.

Definition grow0 : grow := {| gw_obs := 0; gw_rew := 0; gw_term := false; gw_trunc := false;
                             gw_info := 0 |}.

Definition script_genv (gs : gscript) : genv nat Z Z Z :=
  {| ge_reset := fun _ => ((gs_obs0 gs, gs_info0 gs), O);
     ge_step := fun t x =>
       let r := nth (Nat.min t (length (gs_rows gs) - 1)) (gs_rows gs) grow0 in
       (((gw_obs r + x)%Z, gw_rew r, gw_term r, gw_trunc r, gw_info r), S t) |}.

Definition dec_grow (x : sx) : option grow :=
  match x with
  | L [A ob; A rw; te; tr; A inf] =>
      match sxB te, sxB tr with
      | Some te', Some tr' => Some {| gw_obs := ob; gw_rew := rw; gw_term := te';
                                      gw_trunc := tr'; gw_info := inf |}
      | _, _ => None
      end
  | _ => None
  end.

Inductive gacall := GAReset | GAStep (acts : list (nat * Z)).

Definition dec_gacall (x : sx) : option gacall :=
  match x with
  | L [A 0%Z] => Some GAReset
  | L [A 1%Z; d] => option_map GAStep (dec_kvs d)
  | _ => None
  end.

Record gainput := { ga_gs : gscript; ga_calls : list gacall }.

Definition dec_gainput (x : sx) : option gainput :=
  match x with
  | L [L [A o0; A i0; L rows]; L cs] =>
      match all_some (map dec_grow rows), all_some (map dec_gacall cs) with
      | Some rows', Some cs' =>
          Some {| ga_gs := {| gs_obs0 := o0; gs_info0 := i0; gs_rows := rows' |}; ga_calls := cs' |}
      | _, _ => None
      end
  | _ => None
  end.

(* what the five getters answer: (get_obs get_reward get_done get_all_done get_info) *)
Record gsnap := { sn_obs : option Z; sn_rew : option Z; sn_done : option bool;
                  sn_all : option bool; sn_info : option Z }.

Definition snap (c : gcache Z Z) : gsnap :=
  {| sn_obs := gabs_get_obs c; sn_rew := gabs_get_reward c; sn_done := gabs_get_done c;
     sn_all := gabs_get_all_done c; sn_info := gabs_get_info c |}.

Fixpoint gabs_run (fixd : bool) (gs : gscript) (e : nat) (c : gcache Z Z) (cs : list gacall)
  : list (bool * gsnap) :=
  match cs with
  | [] => []
  | GAReset :: cs' =>
      let (e', c') := gabs_reset_gen (script_genv gs) fixd e c in
      (true, snap c') :: gabs_run fixd gs e' c' cs'
  | GAStep acts :: cs' =>
      match gabs_step (script_genv gs) e c acts with
      | Some (e', c') => (true, snap c') :: gabs_run fixd gs e' c' cs'
      | None => (false, snap c) :: gabs_run fixd gs e c cs'
      end
  end.

(* the snapshot of the new object, then one (ok, snapshot) per call *)
Definition gabs_model (fixd : bool) (i : gainput) : list (bool * gsnap) :=
  (true, snap gabs_fresh) :: gabs_run fixd (ga_gs i) O gabs_fresh (ga_calls i).

Definition enc_oz (o : option Z) : sx := match o with Some z => L [A z] | None => L [] end.
Definition enc_ob (o : option bool) : sx := match o with Some b => L [ofB b] | None => L [] end.
Definition dec_oz (x : sx) : option (option Z) :=
  match x with L [A z] => Some (Some z) | L [] => Some None | _ => None end.
Definition dec_ob (x : sx) : option (option bool) :=
  match x with L [b] => option_map Some (sxB b) | L [] => Some None | _ => None end.

Definition enc_snap (bs : bool * gsnap) : sx :=
  let s := snd bs in
  L [ofB (fst bs); enc_oz (sn_obs s); enc_oz (sn_rew s); enc_ob (sn_done s); enc_ob (sn_all s);
     enc_oz (sn_info s)].
Definition dec_snap (x : sx) : option (bool * gsnap) :=
  match x with
  | L [ok; o; r; d; a; i] =>
      match sxB ok, dec_oz o, dec_oz r, dec_ob d, dec_ob a, dec_oz i with
      | Some ok', Some o', Some r', Some d', Some a', Some i' =>
          Some (ok', {| sn_obs := o'; sn_rew := r'; sn_done := d'; sn_all := a'; sn_info := i' |})
      | _, _, _, _, _, _ => None
      end
  | _ => None
  end.

Definition run_gymabs_gen (fixd : bool) (x : sx) : sx :=
  match dec_gainput x with
  | Some i => L (map enc_snap (gabs_model fixd i))
  | None => sx_err
  end.
Definition run_gymabs := run_gymabs_gen true.
Definition run_gymabs_prefix := run_gymabs_gen false.

(* after every reset() the getters answer what they answer after reset() on a new object:
   the environment's first observation and info, and no reward / done flag *)
Definition snap_eqb (a b : gsnap) : bool :=
  z_opt_eqb (sn_obs a) (sn_obs b) && z_opt_eqb (sn_rew a) (sn_rew b)
  && match sn_done a, sn_done b with Some x, Some y => Bool.eqb x y | None, None => true
                                     | _, _ => false end
  && match sn_all a, sn_all b with Some x, Some y => Bool.eqb x y | None, None => true
                                   | _, _ => false end
  && z_opt_eqb (sn_info a) (sn_info b).

Definition fresh_reset_snap (gs : gscript) : gsnap :=
  {| sn_obs := Some (gs_obs0 gs); sn_rew := None; sn_done := None; sn_all := None;
     sn_info := Some (gs_info0 gs) |}.

Fixpoint chk_gymabs_hist (gs : gscript) (cs : list gacall) (ss : list (bool * gsnap)) : Z :=
  match cs, ss with
  | [], [] => 0%Z
  | GAReset :: cs', (ok, s) :: ss' =>
      if ok && snap_eqb s (fresh_reset_snap gs) then chk_gymabs_hist gs cs' ss' else 31%Z
  | GAStep _ :: cs', _ :: ss' => chk_gymabs_hist gs cs' ss'
  | _, _ => 32%Z
  end.

Definition chk_gymabs (i : gainput) (ss : list (bool * gsnap)) : bool :=
  match ss with
  | (_, s0) :: ss' =>
      snap_eqb s0 {| sn_obs := None; sn_rew := None; sn_done := None; sn_all := None;
                     sn_info := None |}
      && (chk_gymabs_hist (ga_gs i) (ga_calls i) ss' =? 0)%Z
  | [] => false
  end.

Definition run_chk_gymabs (x : sx) : sx :=
  match x with
  | L [xi; L xs] =>
      match dec_gainput xi, all_some (map dec_snap xs) with
      | Some i, Some ss => if chk_gymabs i ss then A 1%Z else A (-31)%Z
      | _, _ => A (-12)%Z
      end
  | _ => A (-12)%Z
  end.

(* DISPATCH: 1501 => run_osp *)
(* DISPATCH: 1502 => run_chk_C15 *)
(* DISPATCH: 1503 => run_gym *)
(* DISPATCH: 1504 => run_chk_C15_gym *)
(* DISPATCH: 1505 => run_gymabs *)
(* DISPATCH: 1506 => run_chk_gymabs *)
(* DISPATCH: 1511 => run_osp_prefix *)
(* DISPATCH: 1515 => run_gymabs_prefix *)
