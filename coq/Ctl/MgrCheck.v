(* Executable statement of C01 and C07 over a recorded manager history on the scripted
   simulation: (script, calls, behaviour) -> 0 when every clause holds, otherwise the number of
   the first clause that fails.  The same function is applied to the model's own behaviour
   (theorems in Props/) and to the implementation's behaviour (failing-input search).
   It works from the script data and the outputs only: it never calls the manager model. *)
From Coq Require Import ZArith List Bool Arith.
From Abm Require Import Base.Sx Ctl.Managers Ctl.ScriptSim.
Import ListNotations.
Open Scope Z_scope.

Definition kv_eqb (x y : nat * Z) : bool := Nat.eqb (fst x) (fst y) && (snd x =? snd y).
Fixpoint kvs_eqb (l m : list (nat * Z)) : bool :=
  match l, m with
  | [], [] => true
  | x :: l', y :: m' => kv_eqb x y && kvs_eqb l' m'
  | _, _ => false
  end.
Fixpoint nats_eqb (l m : list nat) : bool :=
  match l, m with
  | [], [] => true
  | x :: l', y :: m' => Nat.eqb x y && nats_eqb l' m'
  | _, _ => false
  end.
Fixpoint nodupb (l : list nat) : bool :=
  match l with [] => true | a :: l' => negb (memb a l') && nodupb l' end.
Definition count_kv (x : nat * Z) (l : list (nat * Z)) : nat :=
  length (filter (kv_eqb x) l).
Definition perm_kvs (l m : list (nat * Z)) : bool :=
  Nat.eqb (length l) (length m) &&
  forallb (fun x => Nat.eqb (count_kv x l) (count_kv x m)) l.

Record ghost := {
  g_started : bool; g_ended : bool; g_done : list nat; g_t : nat;
  g_nsteps : nat; g_nreads : nat; g_accr : list Z; g_deliv : list Z;
  g_last : nat;     (* turn-based: position in the cycle of the next agent to consider *)
  g_oop : bool      (* the caller left the protocol (stepped after __all__ / before reset) *)
}.

Definition upd_ghost (g : ghost) started ended dn t ns nr accr deliv last oop : ghost :=
  {| g_started := started; g_ended := ended; g_done := dn; g_t := t; g_nsteps := ns;
     g_nreads := nr; g_accr := accr; g_deliv := deliv; g_last := last; g_oop := oop |}.

Section Chk.
  Variable sc : script.
  Variable k : mgr.

  Definition cagents : list nat := seq 0 (sc_n sc).
  Definition clearn (a : nat) : bool := nth a (sc_learn sc) false.
  Definition corder : list nat := filter clearn cagents.
  Definition pre_done : list nat :=
    match k with MDyn => [] | _ => filter (fun a => negb (clearn a)) cagents end.
  Definition call_in (d : list nat) : bool := forallb (fun a => memb a d) cagents.
  Definition rdone (t a : nat) : bool := nth a (r_done (row_at sc t)) false.

  (* reference walk of the turn-based manager: from cycle position p, skipping agents already
     reported done, reporting newly finished ones, stopping at the first live agent or when
     everybody is done.  Returns the expected keys and the next cycle position. *)
  Fixpoint turn_walk (fuel : nat) (t : nat) (d : list nat) (p : nat) : list nat * nat :=
    match fuel with
    | O => ([], p)
    | S f =>
        let a := nth p corder O in
        let p' := (S p mod length corder)%nat in
        if memb a d then turn_walk f t d p'
        else if rdone t a then
               if call_in (d ++ [a]) then ([a], p')
               else let (r, q) := turn_walk f t (d ++ [a]) p' in (a :: r, q)
             else ([a], p')
    end.

  Fixpoint dyn_walk (t : nat) (d : list nat) (l : list nat) : list nat :=
    match l with
    | [] => []
    | a :: l' =>
        if memb a d then dyn_walk t d l'
        else if rdone t a then
               if call_in (d ++ [a]) then [a] else a :: dyn_walk t (d ++ [a]) l'
             else a :: dyn_walk t d l'
    end.

  Definition segment {X} (l : list X) (from len : nat) : list X := firstn len (skipn from l).

  (* ---- one step output.  The ghost before the call gives the time, the agents already
          reported done, the rewards accrued and delivered so far, the cycle position. ---- *)
  Definition okeys (o : out Z Z) : list nat := map fst (o_obs o).
  Definition g_row (g : ghost) : row := row_at sc (S (g_t g)).
  Definition g_accr' (g : ghost) : list Z :=
    add_lists (g_accr g) (firstn (sc_n sc) (r_acc (g_row g))).
  Definition newly (o : out Z Z) : list nat := map fst (filter snd (o_done o)).
  Definition g_done' (g : ghost) (o : out Z Z) : list nat := g_done g ++ newly o.
  Definition g_deliv' (g : ghost) (o : out Z Z) : list Z :=
    fold_left (fun dl a => set_nth dl a (nth a (g_accr' g) 0)) (okeys o) (g_deliv g).
  Definition g_last' (g : ghost) : nat :=
    match k with
    | MTurn | MTurnPrefix =>
        if r_all (g_row g) then g_last g
        else snd (turn_walk (S (length corder)) (S (g_t g)) (g_done g) (g_last g))
    | _ => g_last g
    end.

  Definition out_ghost (g : ghost) (o : out Z Z) (ns nr : nat) : ghost :=
    upd_ghost g true (o_all o) (g_done' g o) (S (g_t g)) ns nr (g_accr' g) (g_deliv' g o)
              (g_last' g) false.

  (* C01 clauses *)
  Definition chk_c01 (g : ghost) (acts sh : list (nat * Z)) (o : out Z Z)
             (ns nr : nat) (steplog : list (list (nat * Z))) (readlog : list nat) : Z :=
    let keys := okeys o in
    let t := S (g_t g) in
    if existsb (fun kv => memb (fst kv) (g_done g)) acts then 101        (* accepted a done agent *)
    else if negb (Nat.eqb ns (S (g_nsteps g))) then 102                   (* sim.step not called exactly once *)
    else if negb (match nth_error steplog (g_nsteps g) with
                  | Some l => kvs_eqb l sh | None => false end) then 103  (* actions altered *)
    else if negb (match k with MAll => perm_kvs acts sh | _ => kvs_eqb acts sh end) then 103
    else if negb (nats_eqb keys (map fst (o_rew o)) && nats_eqb keys (map fst (o_done o))
                  && nats_eqb keys (map fst (o_info o))) then 104         (* key sets differ *)
    else if negb (nodupb keys) then 105
    else if existsb (fun a => memb a (g_done g)) keys then 106            (* reports a done agent *)
    else if negb (forallb (fun a => Nat.ltb a (sc_n sc)) keys) then 107
    else if negb (forallb (fun kb => Bool.eqb (snd kb) (rdone t (fst kb))) (o_done o)) then 108
    else if negb (forallb (fun kv => snd kv =? Z.of_nat t * 100 + Z.of_nat (fst kv)) (o_obs o)
                  && forallb (fun kv => snd kv =? - (Z.of_nat t * 100 + Z.of_nat (fst kv)))
                             (o_info o)) then 109
    else if negb (forallb (fun kv => snd kv =? nth (fst kv) (g_accr' g) 0 - nth (fst kv) (g_deliv g) 0)
                          (o_rew o)) then 110                             (* reward lost or repeated *)
    else if negb (Nat.eqb nr (g_nreads g + length keys)
                  && nats_eqb (segment readlog (g_nreads g) (length keys)) keys) then 111
    else if negb (Bool.eqb (o_all o) (r_all (g_row g) || call_in (g_done' g o))) then 112   (* __all__ flag *)
    else 0.

  (* C07: who is reported *)
  Definition chk_c07 (g : ghost) (o : out Z Z) : Z :=
    let keys := okeys o in
    let t := S (g_t g) in
    let live_before := filter (fun a => negb (memb a (g_done g))) cagents in
    if r_all (g_row g) then
      (* the simulation finished: every agent not yet reported done is flushed *)
      if negb (nats_eqb keys live_before) then 701 else 0
    else
      match k with
      | MAll => if negb (nats_eqb keys live_before) then 702 else 0
      | MTurn | MTurnPrefix =>
          if negb (nats_eqb keys (fst (turn_walk (S (length corder)) t (g_done g) (g_last g))))
          then 703 else 0
      | MDyn =>
          if negb (nats_eqb keys (dyn_walk t (g_done g) (r_next (g_row g)))) then 704 else 0
      end.

  (* C07 progress: an unfinished episode has a reported agent that can act *)
  Definition chk_c07b (g : ghost) (o : out Z Z) : Z :=
    let t := S (g_t g) in
    if o_all o then 0
    else if existsb (fun kb => negb (snd kb) && negb (memb (fst kb) (g_done' g o))) (o_done o) then 0
    else match k with
         | MDyn => if existsb (fun a => negb (memb a (g_done g)) && negb (rdone t a))
                              (r_next (g_row g)) then 705 else 0
         | _ => 705
         end.

  (* fam selects which family is checked (1 = C01, 7 = C07) *)
  Definition chk_out (fam : Z) (g : ghost) (acts sh : list (nat * Z)) (o : out Z Z)
             (ns nr : nat) (steplog : list (list (nat * Z))) (readlog : list nat) : Z * ghost :=
    ((if fam =? 1 then chk_c01 g acts sh o ns nr steplog readlog
      else if chk_c07 g o =? 0 then chk_c07b g o else chk_c07 g o),
     out_ghost g o ns nr).

  Definition reset_ghost (g : ghost) (ns nr : nat) : ghost :=
    upd_ghost g true false pre_done O ns nr (zeros (sc_n sc)) (zeros (sc_n sc))
              (match k with MTurn | MTurnPrefix => (1 mod length corder)%nat | _ => O end)
              false.

  Definition chk_r01 (g : ghost) (obs : list (nat * Z)) (ns nr : nat) : Z :=
    if negb (Nat.eqb ns (g_nsteps g) && Nat.eqb nr (g_nreads g)) then 120
    else if negb (forallb (fun kv => snd kv =? Z.of_nat (fst kv)) obs) then 121
    else if existsb (fun a => memb a pre_done) (map fst obs) then 122
    else 0.

  Definition chk_r07 (obs : list (nat * Z)) : Z :=
    let keys := map fst obs in
    match k with
    | MAll => if negb (nats_eqb keys corder) then 710 else 0
    | MTurn | MTurnPrefix => if negb (nats_eqb keys (firstn 1 corder)) then 711 else 0
    | MDyn => if negb (nats_eqb keys (r_next (row_at sc O))) then 712 else 0
    end.

  Definition chk_reset (fam : Z) (g : ghost) (obs : list (nat * Z)) (ns nr : nat) : Z * ghost :=
    ((if fam =? 1 then chk_r01 g obs ns nr else chk_r07 obs), reset_ghost g ns nr).

  Fixpoint chk_hist (fam : Z) (g : ghost) (cs : list (call Z))
           (rs : list (resp Z Z * nat * nat)) (steplog : list (list (nat * Z)))
           (readlog : list nat) : Z :=
    match cs, rs with
    | [], [] => 0
    | c :: cs', (r, ns, nr) :: rs' =>
        if g_oop g then 0 else
        match c, r with
        | CReset, RObs obs =>
            let (code, g') := chk_reset fam g obs ns nr in
            if code =? 0 then chk_hist fam g' cs' rs' steplog readlog else code
        | CReset, RError =>
            (* a turn-based manager over a simulation without learning agents *)
            match k, corder with
            | MTurn, [] | MTurnPrefix, [] => 0
            | _, _ => 130
            end
        | CStep acts sh, _ =>
            if negb (g_started g) || g_ended g then 0    (* caller left the protocol: no claim *)
            else
              let bad := existsb (fun kv => memb (fst kv) (g_done g)) acts in
              match r with
              | RReject =>
                  if fam =? 1 then
                    if negb bad then 140                                   (* spurious rejection *)
                    else if negb (Nat.eqb ns (g_nsteps g) && Nat.eqb nr (g_nreads g)) then 141
                    else chk_hist fam g cs' rs' steplog readlog
                  else chk_hist fam g cs' rs' steplog readlog
              | RError =>
                  match k, acts with
                  | MTurn, [] | MTurnPrefix, [] =>
                      if negb (Nat.eqb ns (g_nsteps g) && Nat.eqb nr (g_nreads g)) then 142
                      else chk_hist fam g cs' rs' steplog readlog
                  | _, _ => 143
                  end
              | ROut o =>
                  let (code, g') := chk_out fam g acts sh o ns nr steplog readlog in
                  if code =? 0 then chk_hist fam g' cs' rs' steplog readlog else code
              | _ => 144
              end
        | _, _ => 145
        end
    | _, _ => 146
    end.

  Definition ghost0 : ghost :=
    upd_ghost {| g_started := false; g_ended := false; g_done := []; g_t := O; g_nsteps := O;
                 g_nreads := O; g_accr := []; g_deliv := []; g_last := O; g_oop := false |}
              false false [] O O O [] [] O false.
End Chk.

(* input ((script calls) (records steplog readlog)) -> 1 when all clauses of the family hold,
   otherwise minus the number of the failing clause *)
Definition run_chk_mgr (fam : Z) (x : sx) : sx :=
  match x with
  | L [L [xs; L xcs]; L [L xrs; L xsteps; xreads]] =>
      match dec_script xs, all_some (map dec_call xcs),
            all_some (map (fun r => match r with
                                    | L [xr; a; b] =>
                                        match dec_resp xr, sxNat a, sxNat b with
                                        | Some r', Some a', Some b' => Some (r', a', b')
                                        | _, _, _ => None
                                        end
                                    | _ => None
                                    end) xrs),
            all_some (map dec_kvs xsteps), sxNats xreads with
      | Some (k, sc), Some cs, Some rs, Some steps, Some reads =>
          let code := chk_hist sc k fam (ghost0) cs rs steps reads in
          if code =? 0 then A 1 else A (- code)
      | _, _, _, _, _ => A (-1)
      end
  | _ => A (-1)
  end.

(* DISPATCH: 102 => run_chk_mgr 1 *)
(* DISPATCH: 702 => run_chk_mgr 7 *)
