(* The scripted simulation: an instance of the abstract simulation whose done schedule,
   finish time, nominations and reward accruals are data.  It exists twice: here and as
   harness/stubsim.py (a Python AgentBasedSimulation).  Rewards follow the
   accumulate-and-reset discipline.  No proofs here. *)
From Coq Require Import ZArith List Bool Arith.
From Abm Require Import Base.Sx Ctl.Managers.
Import ListNotations.
Open Scope Z_scope.

Record row := { r_done : list bool; r_all : bool; r_next : list nat; r_acc : list Z }.

Record script := { sc_n : nat; sc_learn : list bool; sc_rows : list row }.

Definition empty_row : row := {| r_done := []; r_all := false; r_next := []; r_acc := [] |}.

(* row t describes the simulation after t steps; beyond the table the last row repeats *)
Definition row_at (sc : script) (t : nat) : row :=
  nth (Nat.min t (length (sc_rows sc) - 1)) (sc_rows sc) empty_row.

Record sst := { s_t : nat; s_pend : list Z; s_steps : list (list (nat * Z)); s_reads : list nat }.

Fixpoint zeros (n : nat) : list Z := match n with O => [] | S k => 0 :: zeros k end.

Fixpoint add_lists (l m : list Z) : list Z :=
  match l, m with
  | x :: l', y :: m' => (x + y) :: add_lists l' m'
  | l, [] => l
  | [], _ => []
  end.

Fixpoint set_nth (l : list Z) (i : nat) (v : Z) : list Z :=
  match l, i with
  | [], _ => []
  | _ :: l', O => v :: l'
  | x :: l', S j => x :: set_nth l' j v
  end.

Section Script.
  Variable sc : script.

  Definition ss_learning (a : nat) : bool := nth a (sc_learn sc) false.
  Definition ss_reset (s : sst) : sst :=
    {| s_t := 0; s_pend := zeros (sc_n sc); s_steps := s_steps s; s_reads := s_reads s |}.
  Definition ss_step (s : sst) (acts : list (nat * Z)) : sst :=
    let t' := S (s_t s) in
    {| s_t := t'; s_pend := add_lists (s_pend s) (r_acc (row_at sc t'));
       s_steps := s_steps s ++ [acts]; s_reads := s_reads s |}.
  Definition ss_obs (s : sst) (a : nat) : Z * sst := (Z.of_nat (s_t s) * 100 + Z.of_nat a, s).
  Definition ss_reward (s : sst) (a : nat) : Z * sst :=
    (nth a (s_pend s) 0,
     {| s_t := s_t s; s_pend := set_nth (s_pend s) a 0; s_steps := s_steps s;
        s_reads := s_reads s ++ [a] |}).
  Definition ss_done (s : sst) (a : nat) : bool := nth a (r_done (row_at sc (s_t s))) false.
  Definition ss_all (s : sst) : bool := r_all (row_at sc (s_t s)).
  Definition ss_info (s : sst) (a : nat) : Z := - (Z.of_nat (s_t s) * 100 + Z.of_nat a).
  Definition ss_next (s : sst) : list nat := r_next (row_at sc (s_t s)).

  Definition ss_init : sst := {| s_t := 0; s_pend := zeros (sc_n sc); s_steps := []; s_reads := [] |}.

  Definition script_sim : simulation sst Z Z Z :=
    {| sim_n := sc_n sc; sim_learning := ss_learning; sim_reset := ss_reset; sim_step := ss_step;
       sim_obs := ss_obs; sim_reward := ss_reward; sim_done := ss_done; sim_all := ss_all;
       sim_info := ss_info; sim_next := ss_next |}.

  Definition ss_do_call := do_call script_sim.

  (* run a history, recording after every call the response and the cumulative numbers of
     sim.step calls and get_reward reads *)
  Fixpoint ss_run (k : mgr) (m : mstate sst) (cs : list (call Z))
    : list (resp Z Z * nat * nat) * mstate sst :=
    match cs with
    | [] => ([], m)
    | c :: cs' =>
        let (r, m1) := ss_do_call k m c in
        let (rs, m2) := ss_run k m1 cs' in
        ((r, length (s_steps (m_sim m1)), length (s_reads (m_sim m1))) :: rs, m2)
    end.
End Script.

(* ---- wire ------------------------------------------------------------------ *)
Definition dec_row (x : sx) : option row :=
  match x with
  | L [d; a; nx; acc] =>
      match sxBs d, sxB a, sxNats nx, sxZs acc with
      | Some d', Some a', Some nx', Some acc' =>
          Some {| r_done := d'; r_all := a'; r_next := nx'; r_acc := acc' |}
      | _, _, _, _ => None
      end
  | _ => None
  end.

Definition dec_script (x : sx) : option (mgr * script) :=
  match x with
  | L [A k; A n; lr; L rows] =>
      match (match k with 0 => Some MAll | 1 => Some MTurn | 2 => Some MDyn | 3 => Some MTurnPrefix
                     | _ => None end),
            sxBs lr, all_some (map dec_row rows) with
      | Some k', Some lr', Some rows' =>
          if (n <? 0) || match rows' with [] => true | _ => false end then None
          else Some (k', {| sc_n := Z.to_nat n; sc_learn := lr'; sc_rows := rows' |})
      | _, _, _ => None
      end
  | _ => None
  end.

Definition dec_kv (x : sx) : option (nat * Z) :=
  match x with
  | L [A a; A v] => if a <? 0 then None else Some (Z.to_nat a, v)
  | _ => None
  end.
Definition dec_kvs (x : sx) : option (list (nat * Z)) :=
  match x with L l => all_some (map dec_kv l) | _ => None end.

Definition dec_call (x : sx) : option (call Z) :=
  match x with
  | L [A 0] => Some CReset
  | L [A 1; a; sh] =>
      match dec_kvs a, dec_kvs sh with
      | Some a', Some sh' => Some (CStep a' sh')
      | _, _ => None
      end
  | _ => None
  end.

Definition enc_kv (kv : nat * Z) : sx := L [ofNat (fst kv); A (snd kv)].
Definition enc_kvs (l : list (nat * Z)) : sx := L (map enc_kv l).
Definition enc_kb (kv : nat * bool) : sx := L [ofNat (fst kv); ofB (snd kv)].

Definition enc_resp (r : resp Z Z) : sx :=
  match r with
  | RObs obs => L [A 0; enc_kvs obs]
  | ROut o => L [A 1; enc_kvs (o_obs o); enc_kvs (o_rew o); L (map enc_kb (o_done o));
                 enc_kvs (o_info o); ofB (o_all o)]
  | RReject => L [A 2]
  | RError => L [A 3]
  | ROutOfFuel => L [A 4]
  end.

Definition dec_kb (x : sx) : option (nat * bool) :=
  match x with
  | L [A a; b] => match sxB b with
                  | Some b' => if a <? 0 then None else Some (Z.to_nat a, b')
                  | None => None
                  end
  | _ => None
  end.

Definition dec_resp (x : sx) : option (resp Z Z) :=
  match x with
  | L [A 0; obs] => option_map RObs (dec_kvs obs)
  | L [A 1; obs; rew; L dn; info; al] =>
      match dec_kvs obs, dec_kvs rew, all_some (map dec_kb dn), dec_kvs info, sxB al with
      | Some o, Some r, Some d, Some i, Some a =>
          Some (ROut {| o_obs := o; o_rew := r; o_done := d; o_info := i; o_all := a |})
      | _, _, _, _, _ => None
      end
  | L [A 2] => Some RReject
  | L [A 3] => Some RError
  | L [A 4] => Some ROutOfFuel
  | _ => None
  end.

(* input (script calls) -> ((resp nsteps nreads) ...) steplog readlog *)
Definition run_managers (x : sx) : sx :=
  match x with
  | L [xs; L xcs] =>
      match dec_script xs, all_some (map dec_call xcs) with
      | Some (k, sc), Some cs =>
          let (rs, m) := ss_run sc k (init (ss_init sc)) cs in
          L [L (map (fun rnn => L [enc_resp (fst (fst rnn)); ofNat (snd (fst rnn)); ofNat (snd rnn)]) rs);
             L (map enc_kvs (s_steps (m_sim m)));
             ofNats (s_reads (m_sim m))]
      | _, _ => sx_err
      end
  | _ => sx_err
  end.

(* DISPATCH: 101 => run_managers *)
