(* Model of abmarl/sim/gridworld/utils.py : generate_maze (Prim-style maze generation from a
   start cell) and the decision procedure for "every passage is connected to the start".
   The numpy array `grid` is a list of rows (list (list Z)) over the PADDED (rows+2) x (cols+2)
   board with the code's values 0 = passage, 1 = wall, 2 = unvisited.  The `while` loop runs on
   explicit fuel; `unvisited_walls[np.random.randint(0, len)]` is an explicit oracle that names
   the chosen CELL (Python's list(set(..)) order is not modelled, the choice is).
   No proofs here (see Proofs/Maze_proofs.v). *)
From Coq Require Import ZArith List Bool.
Import ListNotations.
Open Scope Z_scope.

Definition cell := (Z * Z)%type.
Definition mgrid := list (list Z).

Definition cell_eqb (a b : cell) : bool := (fst a =? fst b) && (snd a =? snd b).
Definition cmem (c : cell) (l : list cell) : bool := existsb (cell_eqb c) l.

Fixpoint lset {T} (l : list T) (n : nat) (v : T) : list T :=
  match l, n with
  | [], _ => []
  | _ :: t, O => v :: t
  | x :: t, S n' => x :: lset t n' v
  end.

(* grid[r, c]; the model never indexes with a negative number (numpy would wrap), the guard
   only makes the function total for the connectivity checker's neighbour lookups *)
Definition gget (g : mgrid) (c : cell) : Z :=
  if (fst c <? 0) || (snd c <? 0) then -1
  else nth (Z.to_nat (snd c)) (nth (Z.to_nat (fst c)) g []) (-1).

Definition gset (g : mgrid) (c : cell) (v : Z) : mgrid :=
  lset g (Z.to_nat (fst c)) (lset (nth (Z.to_nat (fst c)) g []) (Z.to_nat (snd c)) v).

(* the four neighbours in the code's order: up, down, left, right *)
Definition nbrs (c : cell) : list cell :=
  [(fst c - 1, snd c); (fst c + 1, snd c); (fst c, snd c - 1); (fst c, snd c + 1)].

(* neighbor[0] in [0, rows - 1] or neighbor[1] in [0, cols - 1]   (padded sizes) *)
Definition on_border (R C : Z) (c : cell) : bool :=
  (fst c =? 0) || (fst c =? R - 1) || (snd c =? 0) || (snd c =? C - 1).

(* unvisited_neighboring_cells: interior neighbours still 2 are listed and marked 1 *)
Fixpoint unvisited_go (R C : Z) (ns : list cell) (g : mgrid) : list cell * mgrid :=
  match ns with
  | [] => ([], g)
  | n :: ns' =>
      if on_border R C n then unvisited_go R C ns' g
      else if gget g n =? 2 then
        let r := unvisited_go R C ns' (gset g n 1) in (n :: fst r, snd r)
      else unvisited_go R C ns' g
  end.

Definition unvisited_nbrs (R C : Z) (c : cell) (g : mgrid) : list cell * mgrid :=
  unvisited_go R C (nbrs c) g.

(* sum_neighboring_free *)
Definition sum_free (g : mgrid) (c : cell) : Z :=
  fold_right (fun n acc => (if gget g n =? 0 then 1 else 0) + acc) 0 (nbrs c).

(* (up == 2) ^ (down == 2)  or  (left == 2) ^ (right == 2) *)
Definition xor_test (g : mgrid) (c : cell) : bool :=
  xorb (gget g (fst c - 1, snd c) =? 2) (gget g (fst c + 1, snd c) =? 2)
  || xorb (gget g (fst c, snd c - 1) =? 2) (gget g (fst c, snd c + 1) =? 2).

(* list(set(l)) as a duplicate-free list *)
Fixpoint cdedup (l : list cell) : list cell :=
  match l with
  | [] => []
  | x :: t => if cmem x t then cdedup t else x :: cdedup t
  end.

(* list.remove(x): first occurrence *)
Fixpoint cremove (x : cell) (l : list cell) : list cell :=
  match l with
  | [] => []
  | y :: t => if cell_eqb x y then t else y :: cremove x t
  end.

Inductive mres := MOk (g : mgrid) | MFuel | MBad.

(* the while loop; `ch` is the sequence of chosen cells (one per iteration).  MBad: a chosen
   cell is not in the list, or the sequence is too short / too long for the run. *)
Fixpoint maze_loop (fuel : nat) (R C : Z) (g : mgrid) (walls : list cell) (ch : list cell) : mres :=
  match walls with
  | [] => match ch with [] => MOk g | _ => MBad end
  | _ =>
      match fuel with
      | O => MFuel
      | S f =>
          match ch with
          | [] => MBad
          | cur :: ch' =>
              if negb (cmem cur walls) then MBad
              else if xor_test g cur && (sum_free g cur <? 2) then
                let g1 := gset g cur 0 in
                let r := unvisited_nbrs R C cur g1 in
                maze_loop f R C (snd r) (cremove cur (cdedup (walls ++ fst r))) ch'
              else maze_loop f R C g (cremove cur walls) ch'
          end
      end
  end.

(* grid[grid == 2] = 1; return grid[1:-1, 1:-1] *)
Definition finalize (rows cols : Z) (g : mgrid) : mgrid :=
  map (fun row => map (fun v => if v =? 2 then 1 else v) (firstn (Z.to_nat cols) (skipn 1 row)))
      (firstn (Z.to_nat rows) (skipn 1 g)).

Definition maze_fuel (rows cols : Z) : nat := Z.to_nat ((rows + 2) * (cols + 2)).

Definition maze_init (rows cols : Z) (start : cell) : list cell * mgrid :=
  let R := rows + 2 in
  let C := cols + 2 in
  let g0 := repeat (repeat 2 (Z.to_nat C)) (Z.to_nat R) in
  let s := (fst start + 1, snd start + 1) in
  unvisited_nbrs R C s (gset g0 s 0).

(* generate_maze(rows, cols, start) with start given (the placement states always give it) *)
Definition generate_maze (rows cols : Z) (start : cell) (ch : list cell) : mres :=
  let r := maze_init rows cols start in
  match maze_loop (maze_fuel rows cols) (rows + 2) (cols + 2) (snd r) (fst r) ch with
  | MOk g => MOk (finalize rows cols g)
  | e => e
  end.

(* ---- connectivity of the passages of a finished rows x cols maze (used by chk_C13) ------
   breadth-first saturation from the start cell over passage cells; independent of the
   generation above. *)
Definition passage (m : mgrid) (p : cell) : bool := gget m p =? 0.

Definition all_cells (rows cols : Z) : list cell :=
  flat_map (fun r => map (fun c => (Z.of_nat r, Z.of_nat c)) (seq 0 (Z.to_nat cols)))
           (seq 0 (Z.to_nat rows)).

Definition frontier (m : mgrid) (all R : list cell) : list cell :=
  filter (fun p => passage m p && negb (cmem p R) && existsb (fun q => cmem q R) (nbrs p)) all.

Fixpoint saturate (m : mgrid) (all : list cell) (n : nat) (R : list cell) : list cell :=
  match n with
  | O => R
  | S n' => match frontier m all R with
            | [] => R
            | new => saturate m all n' (R ++ new)
            end
  end.

Definition reach_set (m : mgrid) (rows cols : Z) (start : cell) : list cell :=
  let all := all_cells rows cols in saturate m all (length all) [start].

Definition maze_shape_b (m : mgrid) (rows cols : Z) : bool :=
  (Z.of_nat (length m) =? rows)
  && forallb (fun row => (Z.of_nat (length row) =? cols)
                         && forallb (fun v => (v =? 0) || (v =? 1)) row) m.

Definition maze_connected_b (m : mgrid) (rows cols : Z) (start : cell) : bool :=
  passage m start
  && (let rs := reach_set m rows cols start in
      forallb (fun p => implb (passage m p) (cmem p rs)) (all_cells rows cols)).
