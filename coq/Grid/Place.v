(* Model of abmarl/sim/gridworld/state.py : PositionState, TargetBarriersFreePlacementState,
   MazePlacementState (reset, _build_available_positions, _update_available_positions,
   _place_initial_position_agent, _place_variable_position_agent) over Grid.place/Grid.query
   (grid.py, via Grid/Overlap.v) and generate_maze (Grid/Maze.v).

   Agents are indices into the configuration's agent list; `order` is the key order of the
   component's `agents` dict (re-ordered for good by random.shuffle).  The grid is the trace of
   successful Grid.place calls in order (`ps_log`): the content of a cell is the sub-list of the
   agents placed there, in insertion order, an agent's position is the cell of its entry.
   `ravelled_positions_available` is an association list encoding -> list of ravelled cells.
   Every random draw is an explicit argument (record `draws`); an inadmissible draw yields RBad.
   No proofs here (see Proofs/Place_proofs.v). *)
From Coq Require Import ZArith List Bool.
From Abm Require Import Base.Sx Grid.Overlap Grid.Maze.
Import ListNotations.
Open Scope Z_scope.

Record agent := mkAgent { a_enc : Z; a_init : option cell }.
Inductive skind := KPlain | KTarget | KMaze.

Record config := mkConfig {
  c_kind : skind; c_rows : Z; c_cols : Z;
  c_ovraw : otable;                 (* the `overlapping` argument of Grid, before the setter *)
  c_agents : list agent;
  c_noov : bool; c_rand : bool; c_cluster : bool; c_scatter : bool;
  c_target : nat; c_barrier : list Z; c_free : list Z }.

Definition ovl (cfg : config) : otable := ov_symmetrise (c_ovraw cfg).
Definition dummy_agent : agent := mkAgent 0 None.
Definition agent_of (cfg : config) (a : nat) : agent := nth a (c_agents cfg) dummy_agent.
Definition enc (cfg : config) (a : nat) : Z := a_enc (agent_of cfg a).

(* np.ravel_multi_index(p, (rows, cols)) / np.unravel_index(k, (rows, cols)) *)
Definition ravel (cfg : config) (p : cell) : Z := fst p * c_cols cfg + snd p.
Definition unravel (cfg : config) (k : Z) : cell := (k / c_cols cfg, k mod c_cols cfg).
Definition ncells (cfg : config) : Z := c_rows cfg * c_cols cfg.
(* [i for i in range(rows * cols)] *)
Definition cells (cfg : config) : list Z := map Z.of_nat (seq 0 (Z.to_nat (ncells cfg))).
Definition in_grid (cfg : config) (p : cell) : bool :=
  (0 <=? fst p) && (fst p <? c_rows cfg) && (0 <=? snd p) && (snd p <? c_cols cfg).

(* ---- ravelled_positions_available ------------------------------------------------------- *)
Definition avail := list (Z * list Z).

Fixpoint av_get (e : Z) (a : avail) : option (list Z) :=
  match a with
  | [] => None
  | (k, l) :: t => if e =? k then Some l else av_get e t
  end.

(* d[e] = l : replace in place or append *)
Fixpoint av_set (a : avail) (e : Z) (l : list Z) : avail :=
  match a with
  | [] => [(e, l)]
  | (k, l0) :: t => if e =? k then (k, l) :: t else (k, l0) :: av_set t e l
  end.

(* list.remove(x), ValueError swallowed *)
Fixpoint remove_first (x : Z) (l : list Z) : list Z :=
  match l with
  | [] => []
  | y :: t => if x =? y then t else y :: remove_first x t
  end.

(* list.sort(key=...) is stable; reverse=True keeps the original order of equal keys as well
   (CPython reverses, sorts stably, reverses).  `before x y` = x goes in front of y when x
   stood in front of y originally. *)
Fixpoint insert_by (before : Z -> Z -> bool) (x : Z) (l : list Z) : list Z :=
  match l with
  | [] => [x]
  | y :: t => if before x y then x :: y :: t else y :: insert_by before x t
  end.
Definition sort_by (before : Z -> Z -> bool) (l : list Z) : list Z :=
  fold_right (insert_by before) [] l.

(* the sort key np.linalg.norm(unravel(x) - start): modelled by its square *)
Definition dist2 (cfg : config) (start : cell) (k : Z) : Z :=
  let p := unravel cfg k in
  (fst p - fst start) * (fst p - fst start) + (snd p - snd start) * (snd p - snd start).
Definition sort_far_first (cfg : config) (start : cell) (l : list Z) : list Z :=
  sort_by (fun x y => dist2 cfg start y <=? dist2 cfg start x) l.
Definition sort_near_first (cfg : config) (start : cell) (l : list Z) : list Z :=
  sort_by (fun x y => dist2 cfg start x <=? dist2 cfg start y) l.

Definition max_enc (cfg : config) : Z := fold_right Z.max 0 (map a_enc (c_agents cfg)).

(* PositionState._build_available_positions *)
Definition build_plain (cfg : config) : avail :=
  map (fun i => (Z.of_nat i, cells cfg)) (seq 1 (Z.to_nat (max_enc cfg))).

(* the common tail of the two target-based builders: optional sorts, then
   {**{e: barrier for e in barrier_encodings}, **{e: free for e in free_encodings}} *)
Definition build_from (cfg : config) (start : cell) (bl fl : list Z) : avail :=
  let bl' := if c_cluster cfg then sort_far_first cfg start bl else bl in
  let fl' := if c_scatter cfg then sort_near_first cfg start fl else fl in
  fold_left (fun d e => av_set d e fl') (c_free cfg)
            (fold_left (fun d e => av_set d e bl') (c_barrier cfg) []).

Definition build_target (cfg : config) (start : cell) : avail :=
  build_from cfg start (cells cfg) (cells cfg).

(* np.where(maze == v) in row-major order, ravelled *)
Definition maze_cells (cfg : config) (m : mgrid) (v : Z) : list Z :=
  filter (fun k => gget m (unravel cfg k) =? v) (cells cfg).
Definition build_maze (cfg : config) (start : cell) (m : mgrid) : avail :=
  build_from cfg start (maze_cells cfg m 1) (maze_cells cfg m 0).

(* ---- the grid as the trace of placements ------------------------------------------------ *)
Definition plog := list (nat * cell).
Record pstate := mkPs { ps_log : plog; ps_avail : avail }.

Definition occupants (log : plog) (p : cell) : list nat :=
  map fst (filter (fun bp => cell_eqb (snd bp) p) log).

(* Grid.query(agent, p) *)
Definition grid_query (cfg : config) (log : plog) (a : nat) (p : cell) : bool :=
  ov_query (ovl cfg) (enc cfg a) (map (enc cfg) (occupants log p)).

(* _update_available_positions(agent just placed at p) *)
Definition update_available (cfg : config) (av : avail) (e_placed : Z) (p : cell) : avail :=
  map (fun el =>
         if c_noov cfg || negb (ov_allowed (ovl cfg) e_placed (fst el))
         then (fst el, remove_first (ravel cfg p) (snd el)) else el) av.

Inductive rkind := ROk | RReject | RRuntime | RKey | RBad | RFuel.
Inductive pres := POk (s : pstate) | PErr (k : rkind) (s : pstate).

(* assert self.grid.place(agent, p); self._update_available_positions(agent) *)
Definition place_at (cfg : config) (a : nat) (p : cell) (s : pstate) : pres :=
  if grid_query cfg (ps_log s) a p
  then POk (mkPs (ps_log s ++ [(a, p)]) (update_available cfg (ps_avail s) (enc cfg a) p))
  else PErr RReject s.

(* PositionState._place_variable_position_agent: np.random.choice([*avail[enc]], 1) = ch *)
Definition place_random (cfg : config) (ch : Z) (a : nat) (s : pstate) : pres :=
  match av_get (enc cfg a) (ps_avail s) with
  | None => PErr RKey s
  | Some [] => PErr RRuntime s
  | Some l => if memZ ch l then place_at cfg a (unravel cfg ch) s else PErr RBad s
  end.

Fixpoint last_opt (l : list Z) : option Z :=
  match l with
  | [] => None
  | [x] => Some x
  | _ :: t => last_opt t
  end.

Definition sorted_mode (cfg : config) (e : Z) : bool :=
  (memZ e (c_barrier cfg) && c_cluster cfg) || (memZ e (c_free cfg) && c_scatter cfg).

(* Target/Maze _place_variable_position_agent *)
Definition place_variable (cfg : config) (ch : Z) (a : nat) (s : pstate) : pres :=
  if sorted_mode cfg (enc cfg a) then
    match av_get (enc cfg a) (ps_avail s) with
    | None => PErr RKey s
    | Some l => match last_opt l with
                | None => PErr RRuntime s
                | Some k => place_at cfg a (unravel cfg k) s
                end
    end
  else place_random cfg ch a s.

Fixpoint place_all (f : nat -> pstate -> pres) (l : list nat) (s : pstate) : pres :=
  match l with
  | [] => POk s
  | a :: l' => match f a s with POk s' => place_all f l' s' | e => e end
  end.

(* ---- draws ------------------------------------------------------------------------------ *)
Record draws := mkDraws {
  d_shuffle : list nat;      (* key order after random.shuffle (when randomize_placement_order) *)
  d_start : option cell;     (* np.random.randint(0, (rows, cols)) *)
  d_maze : list cell;        (* chosen cells of generate_maze, padded coordinates *)
  d_choice : list Z }.       (* per agent index: the cell np.random.choice returned, or -1 *)

Definition choice_of (d : draws) (a : nat) : Z := nth a (d_choice d) (-1).

Definition memN (x : nat) (l : list nat) : bool := existsb (Nat.eqb x) l.
Fixpoint nodupN (l : list nat) : bool :=
  match l with [] => true | x :: t => negb (memN x t) && nodupN t end.
(* l1 is a permutation of l2 (for duplicate-free l2) *)
Definition perm_b (l1 l2 : list nat) : bool :=
  Nat.eqb (length l1) (length l2) && nodupN l1 && forallb (fun x => memN x l2) l1.

Definition shuffled (cfg : config) (order : list nat) (d : draws) : option (list nat) :=
  if c_rand cfg then (if perm_b (d_shuffle d) order then Some (d_shuffle d) else None)
  else Some order.

Definition has_init (cfg : config) (a : nat) : bool :=
  match a_init (agent_of cfg a) with Some _ => true | None => false end.

(* ---- PositionState.reset ---------------------------------------------------------------- *)
Definition reset_plain (cfg : config) (order : list nat) (d : draws) : list nat * pres :=
  match shuffled cfg order d with
  | None => (order, PErr RBad (mkPs [] []))
  | Some order' =>
      let s0 := mkPs [] (build_plain cfg) in
      (order',
       match place_all (fun a s => match a_init (agent_of cfg a) with
                                   | Some p => place_at cfg a p s
                                   | None => POk s end) order' s0 with
       | POk s1 =>
           place_all (fun a s => match a_init (agent_of cfg a) with
                                 | None => place_random cfg (choice_of d a) a s
                                 | Some _ => POk s end) order' s1
       | e => e
       end)
  end.

(* ---- TargetBarriersFreePlacementState.reset / MazePlacementState.reset ------------------- *)
Definition target_start (cfg : config) (d : draws) : option cell :=
  match a_init (agent_of cfg (c_target cfg)) with
  | Some p => Some p
  | None => match d_start d with
            | Some p => if in_grid cfg p then Some p else None
            | None => None
            end
  end.

Definition cover_b (cfg : config) (order : list nat) : bool :=
  forallb (fun a => memZ (enc cfg a) (c_barrier cfg ++ c_free cfg)) order.

(* the part after _build_available_positions, shared by the two classes *)
Definition place_target_based (cfg : config) (order : list nat) (d : draws) (start : cell)
           (av : avail) : pres :=
  match place_at cfg (c_target cfg) start (mkPs [] av) with
  | POk s1 =>
      match place_all (fun a s => if Nat.eqb a (c_target cfg) then POk s else
                                  match a_init (agent_of cfg a) with
                                  | Some p => place_at cfg a p s
                                  | None => POk s end) order s1 with
      | POk s2 =>
          place_all (fun a s => if Nat.eqb a (c_target cfg) then POk s else
                                match a_init (agent_of cfg a) with
                                | None => place_variable cfg (choice_of d a) a s
                                | Some _ => POk s end) order s2
      | e => e
      end
  | e => e
  end.

(* result: new key order, the maze (when one was generated), the outcome *)
Definition reset_target (cfg : config) (order : list nat) (d : draws)
  : list nat * option mgrid * pres :=
  match shuffled cfg order d with
  | None => (order, None, PErr RBad (mkPs [] []))
  | Some order' =>
      if negb (cover_b cfg order') then (order', None, PErr RReject (mkPs [] []))
      else match target_start cfg d with
           | None => (order', None, PErr RBad (mkPs [] []))
           | Some start =>
               (order', None, place_target_based cfg order' d start (build_target cfg start))
           end
  end.

Definition reset_maze (cfg : config) (order : list nat) (d : draws)
  : list nat * option mgrid * pres :=
  match shuffled cfg order d with
  | None => (order, None, PErr RBad (mkPs [] []))
  | Some order' =>
      if negb (cover_b cfg order') then (order', None, PErr RReject (mkPs [] []))
      else match target_start cfg d with
           | None => (order', None, PErr RBad (mkPs [] []))
           | Some start =>
               match generate_maze (c_rows cfg) (c_cols cfg) start (d_maze d) with
               | MOk m => (order', Some m,
                           place_target_based cfg order' d start (build_maze cfg start m))
               | MFuel => (order', None, PErr RFuel (mkPs [] []))
               | MBad => (order', None, PErr RBad (mkPs [] []))
               end
           end
  end.

Definition reset (cfg : config) (order : list nat) (d : draws) : list nat * option mgrid * pres :=
  match c_kind cfg with
  | KPlain => let r := reset_plain cfg order d in (fst r, None, snd r)
  | KTarget => reset_target cfg order d
  | KMaze => reset_maze cfg order d
  end.

(* ---- observable outcome of one reset ---------------------------------------------------- *)
Record outcome := mkOut {
  o_kind : rkind;
  o_log : plog;                (* successful Grid.place calls, in order *)
  o_cells : list (list nat);   (* content of every cell (row-major), insertion order *)
  o_pos : list cell;           (* agent.position per agent index; only reported on success *)
  o_maze : option mgrid;
  o_order : list nat }.        (* key order of the agents dict after the reset *)

Definition cells_of (cfg : config) (log : plog) : list (list nat) :=
  map (fun k => occupants log (unravel cfg k)) (cells cfg).

Fixpoint pos_lookup (a : nat) (log : plog) : cell :=
  match log with
  | [] => (-1, -1)
  | (b, p) :: t => if Nat.eqb a b then p else pos_lookup a t
  end.
Definition positions_of (cfg : config) (log : plog) : list cell :=
  map (fun a => pos_lookup a log) (seq 0 (length (c_agents cfg))).

Definition res_kind (r : pres) : rkind := match r with POk _ => ROk | PErr k _ => k end.
Definition res_state (r : pres) : pstate := match r with POk s => s | PErr _ s => s end.

Definition outcome_of (cfg : config) (r : list nat * option mgrid * pres) : outcome :=
  let log := ps_log (res_state (snd r)) in
  mkOut (res_kind (snd r)) log (cells_of cfg log)
        (match snd r with POk _ => positions_of cfg log | PErr _ _ => [] end)
        (snd (fst r)) (fst (fst r)).

(* repeated resets on the same object: only the key order is carried over *)
Fixpoint run_resets (cfg : config) (order : list nat) (ds : list draws) : list outcome :=
  match ds with
  | [] => []
  | d :: ds' => let o := outcome_of cfg (reset cfg order d) in o :: run_resets cfg (o_order o) ds'
  end.

(* ================= property checker ======================================================
   Decides the clauses of C13 for ONE reported outcome from the configuration, the key order
   before the reset, the recorded draws and the reported trace / grid / positions / maze.  It
   does not run the placement model: availability is re-derived from its specification
   (initial cells of the encoding minus the cells blocked by the agents placed earlier). *)

Definition is_target (cfg : config) (a : nat) : bool :=
  match c_kind cfg with KPlain => false | _ => Nat.eqb a (c_target cfg) end.

(* the order in which reset handles the agents *)
Definition seq_of (cfg : config) (order : list nat) : list nat :=
  (match c_kind cfg with KPlain => [] | _ => [c_target cfg] end)
  ++ filter (fun a => negb (is_target cfg a) && has_init cfg a) order
  ++ filter (fun a => negb (is_target cfg a) && negb (has_init cfg a)) order.

(* the cell an agent must get: its initial position; the target gets the start cell *)
Definition prescribed (cfg : config) (start : option cell) (a : nat) : option cell :=
  if is_target cfg a then start else a_init (agent_of cfg a).

Definition spec_start (cfg : config) (d : draws) : option cell :=
  match c_kind cfg with KPlain => None | _ => target_start cfg d end.

(* cells an encoding may use at all *)
Definition spec_init (cfg : config) (maze : option mgrid) (e : Z) : list Z :=
  match c_kind cfg with
  | KPlain => if (1 <=? e) && (e <=? max_enc cfg) then cells cfg else []
  | KTarget => if memZ e (c_free cfg) || memZ e (c_barrier cfg) then cells cfg else []
  | KMaze =>
      match maze with
      | None => []
      | Some m => if memZ e (c_free cfg) then maze_cells cfg m 0
                  else if memZ e (c_barrier cfg) then maze_cells cfg m 1 else []
      end
  end.

(* placement bp makes cell k unavailable to encoding e *)
Definition blocks (cfg : config) (e k : Z) (bp : nat * cell) : bool :=
  (ravel cfg (snd bp) =? k)
  && (c_noov cfg || negb (ov_allowed (ovl cfg) (enc cfg (fst bp)) e)).

Definition spec_avail (cfg : config) (maze : option mgrid) (pre : plog) (e : Z) : list Z :=
  filter (fun k => negb (existsb (blocks cfg e k) pre)) (spec_init cfg maze e).

Definition clustered (cfg : config) (e : Z) : bool :=
  match c_kind cfg with KPlain => false | _ => memZ e (c_barrier cfg) && c_cluster cfg end.
Definition scattered (cfg : config) (e : Z) : bool :=
  match c_kind cfg with KPlain => false | _ => memZ e (c_free cfg) && c_scatter cfg end.

Definition may_share (cfg : config) (a b : nat) : bool :=
  ov_allowed (ovl cfg) (enc cfg a) (enc cfg b) && ov_allowed (ovl cfg) (enc cfg b) (enc cfg a).

(* one placement, judged against the placements before it *)
Definition entry_okb (cfg : config) (start : option cell) (maze : option mgrid)
           (pre : plog) (ap : nat * cell) : bool :=
  let a := fst ap in
  let p := snd ap in
  in_grid cfg p
  && forallb (fun bq => implb (cell_eqb (snd bq) p) (may_share cfg a (fst bq))) pre
  && match prescribed cfg start a with
     | Some q => cell_eqb p q
     | None =>
         let av := spec_avail cfg maze pre (enc cfg a) in
         let dd := dist2 cfg (match start with Some s => s | None => (0, 0) end) in
         memZ (ravel cfg p) av
         && (if clustered cfg (enc cfg a) then forallb (fun k => dd (ravel cfg p) <=? dd k) av
             else true)
         && (if scattered cfg (enc cfg a) then forallb (fun k => dd k <=? dd (ravel cfg p)) av
             else true)
     end.

Fixpoint check_log (cfg : config) (start : option cell) (maze : option mgrid)
         (pre rest : plog) : bool :=
  match rest with
  | [] => true
  | ap :: r => entry_okb cfg start maze pre ap && check_log cfg start maze (pre ++ [ap]) r
  end.

Fixpoint list_eqb {T} (eqb : T -> T -> bool) (l m : list T) : bool :=
  match l, m with
  | [], [] => true
  | x :: l', y :: m' => eqb x y && list_eqb eqb l' m'
  | _, _ => false
  end.

(* clause 1: the key order *)
Definition cl_order (cfg : config) (order : list nat) (d : draws) (o : outcome) : bool :=
  if c_rand cfg then list_eqb Nat.eqb (o_order o) (d_shuffle d) && perm_b (o_order o) order
  else list_eqb Nat.eqb (o_order o) order.

Definition covered (cfg : config) (o : outcome) : bool :=
  match c_kind cfg with KPlain => true | _ => cover_b cfg (o_order o) end.

(* clause 2: an agent whose encoding is neither barrier nor free is rejected before anything
   is placed; otherwise the start cell is known *)
Definition cl_cover (cfg : config) (d : draws) (o : outcome) : bool :=
  if covered cfg o then
    match c_kind cfg with KPlain => true
    | _ => match spec_start cfg d with Some _ => true | None => false end end
  else match o_kind o, o_log o, o_maze o with RReject, [], None => true | _, _, _ => false end.

(* clause 3: the maze has the grid's shape, the start is a passage, all passages connected *)
Definition cl_maze (cfg : config) (d : draws) (o : outcome) : bool :=
  match c_kind cfg, covered cfg o, o_maze o, spec_start cfg d with
  | KMaze, true, Some m, Some st =>
      maze_shape_b m (c_rows cfg) (c_cols cfg)
      && maze_connected_b m (c_rows cfg) (c_cols cfg) st
  | KMaze, true, _, _ => false
  | _, _, None, _ => true
  | _, _, Some _, _ => false
  end.

(* clause 4: the agents placed are a prefix of the prescribed handling order *)
Definition cl_trace (cfg : config) (o : outcome) : bool :=
  list_eqb Nat.eqb (map fst (o_log o)) (firstn (length (o_log o)) (seq_of cfg (o_order o))).

(* clause 5: every placement is legal and as the options prescribe *)
Definition cl_entries (cfg : config) (d : draws) (o : outcome) : bool :=
  check_log cfg (spec_start cfg d) (o_maze o) [] (o_log o).

(* clause 6: the grid holds exactly the trace; positions agree (every agent in exactly one
   cell, which is its position) *)
Definition cl_grid (cfg : config) (o : outcome) : bool :=
  list_eqb (list_eqb Nat.eqb) (o_cells o) (cells_of cfg (o_log o))
  && match o_kind o with
     | ROk => list_eqb cell_eqb (o_pos o) (positions_of cfg (o_log o))
              && forallb (fun a => Nat.eqb (length (filter (Nat.eqb a) (map fst (o_log o)))) 1)
                         (seq 0 (length (c_agents cfg)))
     | _ => true
     end.

(* clause 7: with no_overlap_at_reset a freely placed agent is alone; the randomly placed
   target only shares with agents that have an initial position (which override the option) *)
Definition cl_alone (cfg : config) (d : draws) (o : outcome) : bool :=
  if c_noov cfg then
    forallb (fun ap =>
               match prescribed cfg (spec_start cfg d) (fst ap) with
               | None => list_eqb Nat.eqb (occupants (o_log o) (snd ap)) [fst ap]
               | Some _ =>
                   if is_target cfg (fst ap) && negb (has_init cfg (fst ap))
                   then forallb (fun b => Nat.eqb b (fst ap) || has_init cfg b)
                                (occupants (o_log o) (snd ap))
                   else true
               end) (o_log o)
  else true.

(* clause 8: success exactly when everybody is placed; an error names its reason *)
Definition cl_kind (cfg : config) (d : draws) (o : outcome) : bool :=
  let sq := seq_of cfg (o_order o) in
  match o_kind o with
  | ROk => Nat.eqb (length (o_log o)) (length sq)
  | RRuntime =>
      match nth_error sq (length (o_log o)) with
      | Some a => match prescribed cfg (spec_start cfg d) a with
                  | None => match spec_avail cfg (o_maze o) (o_log o) (enc cfg a) with
                            | [] => true | _ => false end
                  | Some _ => false
                  end
      | None => false
      end
  | RReject =>
      negb (covered cfg o)
      || match nth_error sq (length (o_log o)) with
         | Some a => match prescribed cfg (spec_start cfg d) a with
                     | Some q => negb (grid_query cfg (o_log o) a q)
                     | None => false
                     end
         | None => false
         end
  | _ => false
  end.

Definition clauses (cfg : config) (order : list nat) (d : draws) (o : outcome) : list bool :=
  [cl_order cfg order d o; cl_cover cfg d o; cl_maze cfg d o; cl_trace cfg o;
   cl_entries cfg d o; cl_grid cfg o; cl_alone cfg d o; cl_kind cfg d o].

(* when the cover assertion fails nothing else is to be checked *)
Definition chk_reset (cfg : config) (order : list nat) (d : draws) (o : outcome) : bool :=
  if covered cfg o then forallb (fun b => b) (clauses cfg order d o)
  else cl_order cfg order d o && cl_cover cfg d o && cl_grid cfg o.

Fixpoint first_false (n : Z) (l : list bool) : Z :=
  match l with
  | [] => 0
  | true :: t => first_false (n + 1) t
  | false :: _ => n
  end.

Definition chk_reset_code (cfg : config) (order : list nat) (d : draws) (o : outcome) : Z :=
  if covered cfg o then first_false 1 (clauses cfg order d o)
  else first_false 1 [cl_order cfg order d o; cl_cover cfg d o; true; true; true; cl_grid cfg o].

(* the behaviour of a run of resets: every outcome checked against the order left by the
   previous one *)
Fixpoint chk_C13 (cfg : config) (order : list nat) (ds : list draws) (os : list outcome) : bool :=
  match ds, os with
  | [], [] => true
  | d :: ds', o :: os' => chk_reset cfg order d o && chk_C13 cfg (o_order o) ds' os'
  | _, _ => false
  end.

Fixpoint chk_C13_code (cfg : config) (order : list nat) (ds : list draws) (os : list outcome) : Z :=
  match ds, os with
  | [], [] => 0
  | d :: ds', o :: os' =>
      let c := chk_reset_code cfg order d o in
      if c =? 0 then chk_C13_code cfg (o_order o) ds' os' else c
  | _, _ => 99
  end.

(* well-formed configuration (what the constructors and the documented domain guarantee) *)
Fixpoint nodupZ (l : list Z) : bool :=
  match l with [] => true | x :: t => negb (memZ x t) && nodupZ t end.

Definition wf_config (cfg : config) : bool :=
  (0 <? c_rows cfg) && (0 <? c_cols cfg)
  && negb (Nat.eqb (length (c_agents cfg)) 0)
  && forallb (fun ag => (1 <=? a_enc ag)
                        && match a_init ag with Some p => in_grid cfg p | None => true end)
             (c_agents cfg)
  && nodupZ (map fst (c_ovraw cfg))
  && match c_kind cfg with
     | KPlain => true
     | _ => Nat.ltb (c_target cfg) (length (c_agents cfg))
            && forallb (fun e => negb (memZ e (c_free cfg))) (c_barrier cfg)
     end.

Definition order_okb (cfg : config) (order : list nat) : bool :=
  perm_b order (seq 0 (length (c_agents cfg))).

(* ================= wire ================================================================== *)
Definition dec_kind (z : Z) : option skind :=
  match z with 0 => Some KPlain | 1 => Some KTarget | 2 => Some KMaze | _ => None end.

Definition dec_agent (x : sx) : option agent :=
  match x with
  | L [A e] => Some (mkAgent e None)
  | L [A e; A r; A c] => Some (mkAgent e (Some (r, c)))
  | _ => None
  end.

Definition dec_ov (x : sx) : option (Z * list Z) :=
  match x with
  | L [A k; v] => match sxZs v with Some l => Some (k, l) | None => None end
  | _ => None
  end.

Definition dec_list {T} (f : sx -> option T) (x : sx) : option (list T) :=
  match x with L l => all_some (map f l) | A _ => None end.

Definition dec_config (x : sx) : option config :=
  match x with
  | L [A k; A rows; A cols; xov; xag; L [A f1; A f2; A f3; A f4]; xt; xb; xf] =>
      match dec_kind k, dec_list dec_ov xov, dec_list dec_agent xag,
            sxB (A f1), sxB (A f2), sxB (A f3), sxB (A f4), sxNat xt, sxZs xb, sxZs xf with
      | Some kd, Some ov, Some ag, Some b1, Some b2, Some b3, Some b4, Some t, Some bl, Some fl =>
          Some (mkConfig kd rows cols ov ag b1 b2 b3 b4 t bl fl)
      | _, _, _, _, _, _, _, _, _, _ => None
      end
  | _ => None
  end.

Definition dec_optcell (x : sx) : option (option cell) :=
  match x with
  | L [] => Some None
  | L [A r; A c] => Some (Some (r, c))
  | _ => None
  end.

Definition dec_draws (x : sx) : option draws :=
  match x with
  | L [xs; xst; xm; xc] =>
      match sxNats xs, dec_optcell xst, sxPairs xm, sxZs xc with
      | Some s, Some st, Some m, Some c => Some (mkDraws s st m c)
      | _, _, _, _ => None
      end
  | _ => None
  end.

Definition kind_code (k : rkind) : Z :=
  match k with ROk => 0 | RReject => 1 | RRuntime => 2 | RKey => 5 | RBad => 9 | RFuel => 8 end.
Definition dec_rkind (z : Z) : option rkind :=
  match z with 0 => Some ROk | 1 => Some RReject | 2 => Some RRuntime | 5 => Some RKey
          | 9 => Some RBad | 8 => Some RFuel | _ => None end.

Definition enc_entry (ap : nat * cell) : sx := L [ofNat (fst ap); A (fst (snd ap)); A (snd (snd ap))].
Definition dec_entry (x : sx) : option (nat * cell) :=
  match x with
  | L [xa; A r; A c] => match sxNat xa with Some a => Some (a, (r, c)) | None => None end
  | _ => None
  end.

Definition enc_outcome (o : outcome) : sx :=
  L [A (kind_code (o_kind o)); L (map enc_entry (o_log o)); L (map ofNats (o_cells o));
     ofPairs (o_pos o);
     match o_maze o with None => L [] | Some m => L [ofZZs m] end;
     ofNats (o_order o)].

Definition dec_outcome (x : sx) : option outcome :=
  match x with
  | L [A k; xl; xc; xp; xm; xo] =>
      match dec_rkind k, dec_list dec_entry xl, dec_list sxNats xc, sxPairs xp,
            (match xm with
             | L [] => Some None
             | L [m] => match sxZZs m with Some mm => Some (Some mm) | None => None end
             | _ => None end),
            sxNats xo with
      | Some kd, Some l, Some c, Some p, Some m, Some o => Some (mkOut kd l c p m o)
      | _, _, _, _, _, _ => None
      end
  | _ => None
  end.

(* input (config order (draws ...)) -> (outcome ...) *)
Definition run_place (x : sx) : sx :=
  match x with
  | L [xc; xo; xd] =>
      match dec_config xc, sxNats xo, dec_list dec_draws xd with
      | Some cfg, Some order, Some ds =>
          if wf_config cfg && order_okb cfg order
          then L (map enc_outcome (run_resets cfg order ds)) else sx_err
      | _, _, _ => sx_err
      end
  | _ => sx_err
  end.

(* ((config order draws) (outcome ...)) -> 1, or -k for the first failing clause k *)
Definition run_chk_C13 (x : sx) : sx :=
  match x with
  | L [L [xc; xo; xd]; xb] =>
      match dec_config xc, sxNats xo, dec_list dec_draws xd, dec_list dec_outcome xb with
      | Some cfg, Some order, Some ds, Some os =>
          if wf_config cfg && order_okb cfg order then
            (if chk_C13 cfg order ds os then A 1 else A (- (chk_C13_code cfg order ds os)))
          else A (-98)
      | _, _, _, _ => A (-97)
      end
  | _ => A (-97)
  end.

(* generate_maze alone: input (rows cols (sr sc) ((r c) ...)) -> (0 maze connected?) | (8) | (9) *)
Definition run_maze (x : sx) : sx :=
  match x with
  | L [A rows; A cols; L [A sr; A sc]; xm] =>
      match sxPairs xm with
      | Some ch =>
          match generate_maze rows cols (sr, sc) ch with
          | MOk m => L [A 0; ofZZs m; ofB (maze_shape_b m rows cols && maze_connected_b m rows cols (sr, sc))]
          | MFuel => L [A 8]
          | MBad => L [A 9]
          end
      | None => sx_err
      end
  | _ => sx_err
  end.

(* ((rows cols (sr sc) choices) (0 maze flag)) -> 1, or -3 when the reported maze is not a
   grid-shaped 0/1 maze whose passages are all connected to the start *)
Definition run_chk_maze (x : sx) : sx :=
  match x with
  | L [L [A rows; A cols; L [A sr; A sc]; _]; L [A 0; xm; _]] =>
      match sxZZs xm with
      | Some m => if maze_shape_b m rows cols && maze_connected_b m rows cols (sr, sc)
                  then A 1 else A (-3)
      | None => A (-97)
      end
  | _ => A (-97)
  end.

(* DISPATCH: 1301 => run_place *)
(* DISPATCH: 1302 => run_chk_C13 *)
(* DISPATCH: 1303 => run_maze *)
(* DISPATCH: 1304 => run_chk_maze *)
