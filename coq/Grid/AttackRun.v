(* Wire entry point for the attack actors: a grid input (as Grid/Move.v) and a sequence of attack
   operations, each with the attacker's configuration, the action and the recorded random draws.
   The visibility function is Grid/Vis.v's.  No proofs here. *)
From Coq Require Import ZArith List Bool Arith.
From Abm Require Import Base.Sx Grid.Overlap Grid.Grid Grid.Move Grid.Attack Grid.Vis.
Import ListNotations.
Open Scope Z_scope.

Definition dec_acfg (x : sx) : option acfg :=
  match x with
  | L [A r; A st; A acc; A sim; mp; stk] =>
      match sxZs mp, sxB stk with
      | Some mp', Some stk' =>
          Some {| c_range := r; c_strength := st; c_accuracy := acc; c_simul := sim;
                  c_mapping := mp'; c_stacked := stk' |}
      | _, _ => None
      end
  | _ => None
  end.

Definition dec_aaction (x : sx) : option aaction :=
  match x with
  | L [A 0; A n] => Some (ABinary n)
  | L [A 1; l] => option_map AEncoding (sxPairs l)
  | L [A 2; l] => option_map ASelective (sxZs l)
  | L [A 3; cm; l] => match sxB cm, sxZs l with
                      | Some cm', Some l' => Some (ARestricted cm' l')
                      | _, _ => None end
  | _ => None
  end.

Definition dec_oracle (x : sx) : option oracle :=
  match x with
  | L [us; L cs] => match sxZs us, all_some (map sxNats cs) with
                    | Some us', Some cs' => Some {| o_unif := us'; o_choice := cs' |}
                    | _, _ => None end
  | _ => None
  end.

Record aop := { op_att : nat; op_cfg : acfg; op_act : aaction; op_orc : oracle }.

Definition dec_aop (x : sx) : option aop :=
  match x with
  | L [A i; cf; act; orc] =>
      match dec_acfg cf, dec_aaction act, dec_oracle orc with
      | Some cf', Some act', Some orc' =>
          if i <? 0 then None
          else Some {| op_att := Z.to_nat i; op_cfg := cf'; op_act := act'; op_orc := orc' |}
      | _, _, _ => None
      end
  | _ => None
  end.

(* per operation: (status hits leftover-draw-counts) snapshot; -998 = inadmissible recorded draw *)
Fixpoint run_aops (s : gstate) (ops : list aop) : list sx :=
  match ops with
  | [] => []
  | op :: r =>
      match process_attack vis_model s (op_cfg op) (op_att op) (op_orc op) (op_act op) with
      | POk st hits s' o' =>
          L [L [ofB st; ofNats hits; ofNat (length (o_unif o')); ofNat (length (o_choice o'))];
             enc_snapshot s'] :: run_aops s' r
      | PBadOracle => [A (-998)]
      | PErr => [A (-996)]
      end
  end.

Definition run_attacks (x : sx) : sx :=
  match dec_grid_input x with
  | Some (s0, xops) =>
      match all_some (map dec_aop xops) with
      | Some ops => L [enc_snapshot s0; L (run_aops s0 ops)]
      | None => sx_err
      end
  | None => sx_err
  end.

(* DISPATCH: 1101 => run_attacks *)
