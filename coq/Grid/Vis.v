(* The visibility function used by the executable attack / observer models: the mask of
   utils.create_grid_and_mask.  It is C10's integer specification `spec_visible` of the whole
   mask, which Props/P_C10.v (C10_mask_exact, C10_code_meets_spec) proves equal to the transcribed
   eight-case code `mask_fold mask_code` for every range, viewer and agent list:
   vis s att R d = true  iff  no active blocking agent inside the window hides the window cell at
   offset d from the agent att. *)
From Coq Require Import ZArith List Bool.
From Abm Require Import Grid.Grid Grid.Attack.
From Abm Require Grid.Mask.
Open Scope Z_scope.

Definition to_magent (a : arec) : Mask.agent :=
  match a_pos a with
  | Some (r, c) => Mask.mkAgent r c (a_active a) (a_blocking a)
  | None => Mask.mkAgent 0 0 false false
  end.

Definition vis_model : vis_fn := fun s att R d =>
  match att_pos s att with
  | Some v => Mask.spec_visible R v (map to_magent (g_agents s)) d
  | None => true
  end.
