(* The visibility function used by the executable attack / observer models.
   PLACEHOLDER until the mask model of C10 (Grid/Mask.v) is merged: everything is visible, which
   is exact for layouts without blocking agents. *)
From Coq Require Import ZArith List Bool.
From Abm Require Import Grid.Grid Grid.Attack.
Definition vis_model : vis_fn := fun _ _ _ _ => true.
