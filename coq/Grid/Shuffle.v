(* The placement order of the placement states under randomize_placement_order (state.py,
   PositionState.reset and the two subclasses):

       agents = sorted(self.agents.items(), key=id); random.shuffle(agents); self.agents = dict(agents)

   random.shuffle applies to its argument a permutation that is a function of the generator's
   stream and of the length only: the oracle [p] (a list of source indices).  Agents are numbers
   (rank of the id).  [order_prefix] is the code as found before the repair of F15: the list that is
   shuffled is the order left behind by the previous reset.  No proofs here. *)
From Coq Require Import List Arith.
Import ListNotations.

Definition apply_perm (p : list nat) (l : list nat) : list nat := map (fun i => nth i l 0) p.

Fixpoint insert (a : nat) (l : list nat) : list nat :=
  match l with
  | [] => [a]
  | b :: r => if a <=? b then a :: l else b :: insert a r
  end.
Fixpoint isort (l : list nat) : list nat :=
  match l with [] => [] | a :: r => insert a (isort r) end.

(* one reset: the new value of self.agents' key order *)
Definition order_fixed (p : list nat) (cur : list nat) : list nat := apply_perm p (isort cur).
Definition order_prefix (p : list nat) (cur : list nat) : list nat := apply_perm p cur.

(* a history of resets, each with its own shuffle *)
Definition orders_fixed (ps : list (list nat)) (cur : list nat) : list nat :=
  fold_left (fun c p => order_fixed p c) ps cur.
Definition orders_prefix (ps : list (list nat)) (cur : list nat) : list nat :=
  fold_left (fun c p => order_prefix p c) ps cur.
