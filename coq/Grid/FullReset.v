(* Model of the complete reset of a SmartGridWorldSimulation's grid state:
   abmarl/sim/gridworld/smart.py  SmartGridWorldSimulation.reset  (every state component of the set
   `_states`, in the set's iteration order) over abmarl/sim/gridworld/state.py
     PositionState.reset     Grid.reset, agents with an initial position first, then a random
                             available cell for the others      (the model of Grid/Place.v, reused)
     HealthState.reset       agent.health = initial_health, else np.random.uniform(0, 1)
     AmmoState.reset         AmmoAgents: agent.ammo = agent.initial_ammo
     OrientationState.reset  OrientationAgents: initial_orientation if truthy, else
                             np.random.randint(1, 5)
   on the grid state of Grid/Grid.v (gstate / arec; health in ticks of 1/HD).  The components write
   the agents' attributes in place: the previous state is an argument, nothing of it is copied from
   the configuration.

   Randomness: explicit oracle, one stream per call site, each consumed in the order the code
   consumes it (np.random.choice -> the chosen ravelled cell per agent index as in Place.draws;
   np.random.uniform -> ticks of 1/HD, one per agent without initial health in sim.agents order;
   np.random.randint -> one per OrientationAgent without initial orientation in sim.agents order).
   A draw outside its range ([0,1) / {1..4} / the available cells) or a missing draw yields None, as
   does an exception of PositionState (no cell left, refused initial position).

   randomize_placement_order is False here (see design/C08.md: with the option the component keeps
   the shuffled key order across resets).  No proofs in this file (Proofs/FullReset_proofs.v). *)
From Coq Require Import ZArith List Bool Arith.
From Abm Require Import Base.Sx Grid.Overlap Grid.Grid Grid.Move Grid.Play.
From Abm Require Grid.Place.
Import ListNotations.
Open Scope Z_scope.

(* ---- configuration: what the agent objects and the constructor arguments declare ------------- *)
Record fagent := mkFa {
  fa_enc : Z; fa_blocking : bool;
  fa_pos : option cell;              (* initial_position *)
  fa_health : option Z;              (* initial_health, ticks of 1/HD *)
  fa_ammo : option Z;                (* Some m: an AmmoAgent with initial_ammo m *)
  fa_orient : option (option Z) }.   (* Some o: an OrientationAgent with initial_orientation o *)

Inductive scomp := SPos | SHealth | SAmmo | SOrient.
Definition scomp_eqb (a b : scomp) : bool :=
  match a, b with
  | SPos, SPos | SHealth, SHealth | SAmmo, SAmmo | SOrient, SOrient => true
  | _, _ => false
  end.
Definition has (c : scomp) (l : list scomp) : bool := existsb (scomp_eqb c) l.

Record fcfg := mkFc {
  fc_rows : Z; fc_cols : Z;
  fc_ov : otable;                    (* Grid(overlapping=...), before the setter *)
  fc_agents : list fagent;           (* sim.agents order *)
  fc_noov : bool;                    (* no_overlap_at_reset *)
  fc_order : list scomp }.           (* iteration order of the set sim._states *)

Record foracle := mkFo {
  fo_choice : list Z;                (* per agent index: the cell np.random.choice returned, or -1 *)
  fo_unif : list Z;                  (* np.random.uniform(0, 1), in consumption order *)
  fo_randint : list Z }.             (* np.random.randint(1, 5), in consumption order *)

(* for agent in self.agents.values(): agent.<attr> = <value>  -- the values are computed first
   (they never read the agent's current state), then assigned one by one *)
Fixpoint zipw {V} (f : arec -> V -> arec) (l : list arec) (v : list V) : list arec :=
  match l, v with
  | a :: l', x :: v' => f a x :: zipw f l' v'
  | _, _ => l
  end.

Definition set_agents (s : gstate) (ags : list arec) : gstate :=
  {| g_rows := g_rows s; g_cols := g_cols s; g_ov := g_ov s; g_agents := ags;
     g_cells := g_cells s |}.

(* ---- PositionState.reset: the placement model of Grid/Place.v --------------------------------- *)
Definition place_cfg (cfg : fcfg) : Place.config :=
  Place.mkConfig Place.KPlain (fc_rows cfg) (fc_cols cfg) (fc_ov cfg)
    (map (fun fa => Place.mkAgent (fa_enc fa) (fa_pos fa)) (fc_agents cfg))
    (fc_noov cfg) false false false 0%nat [] [].

Definition listing (cfg : fcfg) : list nat := seq 0 (length (fc_agents cfg)).

Definition placement (cfg : fcfg) (orc : foracle) : Place.pres :=
  snd (Place.reset (place_cfg cfg) (listing cfg) (Place.mkDraws [] None [] (fo_choice orc))).

(* Grid._internal after Grid.reset and the successful Grid.place calls of the trace: every cell of
   the grid with the agents placed there, in insertion order (Place.v's reading of its trace) *)
Definition grid_of_log (pc : Place.config) (log : Place.plog) : list (cell * list nat) :=
  map (fun k => (Place.unravel pc k, Place.occupants log (Place.unravel pc k))) (Place.cells pc).

Definition position_reset (cfg : fcfg) (orc : foracle) (g : gstate) : option gstate :=
  match placement cfg orc with
  | Place.POk s =>
      let log := Place.ps_log s in
      Some {| g_rows := g_rows g; g_cols := g_cols g; g_ov := g_ov g;
              g_agents := zipw (fun a p => with_pos a (Some p)) (g_agents g)
                               (Place.positions_of (place_cfg cfg) log);
              g_cells := grid_of_log (place_cfg cfg) log |}
  | Place.PErr _ _ => None
  end.

(* ---- HealthState.reset --------------------------------------------------------------------- *)
Fixpoint health_values (ags : list fagent) (us : list Z) : option (list Z) :=
  match ags with
  | [] => Some []
  | fa :: r =>
      match fa_health fa with
      | Some h => option_map (cons h) (health_values r us)
      | None =>
          match us with
          | u :: us' => if (0 <=? u) && (u <? HD) then option_map (cons u) (health_values r us')
                        else None
          | [] => None
          end
      end
  end.

(* agent.health = value: the setter clamps and sets `active` (Grid.with_health) *)
Definition health_reset (cfg : fcfg) (orc : foracle) (g : gstate) : option gstate :=
  match health_values (fc_agents cfg) (fo_unif orc) with
  | Some hs => Some (set_agents g (zipw with_health (g_agents g) hs))
  | None => None
  end.

(* ---- AmmoState.reset ------------------------------------------------------------------------ *)
(* if isinstance(agent, AmmoAgent): agent.ammo = agent.initial_ammo   (setter: 0 if value < 0) *)
Definition ammo_set (a : arec) (m : option Z) : arec :=
  match m with
  | Some v => with_ammo a (Some (if v <? 0 then 0 else v))
  | None => a
  end.
Definition ammo_reset (cfg : fcfg) (g : gstate) : gstate :=
  set_agents g (zipw ammo_set (g_agents g) (map fa_ammo (fc_agents cfg))).

(* ---- OrientationState.reset ----------------------------------------------------------------- *)
(* the value assigned to each agent: None = not an OrientationAgent (nothing assigned) *)
Fixpoint orient_values (ags : list fagent) (ds : list Z) : option (list (option Z)) :=
  match ags with
  | [] => Some []
  | fa :: r =>
      match fa_orient fa with
      | None => option_map (cons None) (orient_values r ds)
      | Some io =>
          if match io with Some o => negb (o =? 0) | None => false end   (* if agent.initial_orientation: *)
          then option_map (cons io) (orient_values r ds)
          else match ds with
               | d :: ds' => if (1 <=? d) && (d <=? 4)
                             then option_map (cons (Some d)) (orient_values r ds') else None
               | [] => None
               end
      end
  end.
Definition orient_set (a : arec) (v : option Z) : arec :=
  match v with Some o => with_orient a (Some o) | None => a end.
Definition orient_reset (cfg : fcfg) (orc : foracle) (g : gstate) : option gstate :=
  match orient_values (fc_agents cfg) (fo_randint orc) with
  | Some os => Some (set_agents g (zipw orient_set (g_agents g) os))
  | None => None
  end.

(* ---- SmartGridWorldSimulation.reset: for state in self._states: state.reset() ---------------- *)
Definition comp_reset (cfg : fcfg) (orc : foracle) (c : scomp) (g : gstate) : option gstate :=
  match c with
  | SPos => position_reset cfg orc g
  | SHealth => health_reset cfg orc g
  | SAmmo => Some (ammo_reset cfg g)
  | SOrient => orient_reset cfg orc g
  end.

Fixpoint reset_comps (cfg : fcfg) (orc : foracle) (cs : list scomp) (g : gstate) : option gstate :=
  match cs with
  | [] => Some g
  | c :: r => match comp_reset cfg orc c g with
              | Some g' => reset_comps cfg orc r g'
              | None => None
              end
  end.

Definition full_reset (cfg : fcfg) (orc : foracle) (g : gstate) : option gstate :=
  reset_comps cfg orc (fc_order cfg) g.

(* self.rewards = {agent.id: 0 for ...}: by agent index (every agent of the battle model learns) *)
Definition reset_rewards (cfg : fcfg) : list Z := repeat 0 (length (fc_agents cfg)).

(* the simulation object before its first reset: the agents exist, their episode attributes do
   not (no position, no health, no ammunition, no orientation) *)
Definition blank_agent (fa : fagent) : arec :=
  {| a_enc := fa_enc fa; a_pos := None; a_health := 0; a_active := false; a_ammo := None;
     a_orient := None; a_blocking := fa_blocking fa |}.
Definition blank (cfg : fcfg) : gstate :=
  empty_grid (fc_rows cfg) (fc_cols cfg) (fc_ov cfg) (map blank_agent (fc_agents cfg)).

(* ---- well-formed configurations (what the constructors assert) -------------------------------- *)
Definition wf_fagent (fa : fagent) : bool :=
  match fa_health fa with Some h => (0 <? h) && (h <=? HD) | None => true end
  && match fa_orient fa with Some (Some o) => (1 <=? o) && (o <=? 4) | _ => true end.

Definition wf_fcfg (cfg : fcfg) : bool :=
  Place.wf_config (place_cfg cfg)
  && forallb wf_fagent (fc_agents cfg)
  && forallb (fun c => has c (fc_order cfg)) [SPos; SHealth; SAmmo; SOrient].

(* ================= property checker ==========================================================
   Decides the clauses of C08 for the grid state from the configuration, the recorded draws and
   the reported state after the reset.  It does not run the reset model.
     1 the agents are the configured ones (count, encoding, blocking), the grid the configured one
     2 the grid invariant of C03 (Play.ginvb: vitals in range, every active agent inside the
       grid, every cell holds exactly -- as a set, without repetition -- the active agents whose
       position it is, co-occupants may overlap)
     3 every agent is active, health in (0, 1]
     4 health = declared value, else the next uniform draw
     5 ammunition = declared (negative -> 0), none for other agents
     6 orientation = declared value, else the next randint draw, in 1..4; none for other agents
     7 every agent has a position; it is the declared one when one is declared
   A reset that raised (no cell left, refused initial position) is not judged here: the error
   kinds are C13's (Place.chk_C13). *)
Fixpoint chk_header (ags : list fagent) (rs : list arec) : bool :=
  match ags, rs with
  | [], [] => true
  | fa :: ags', a :: rs' =>
      (a_enc a =? fa_enc fa) && Bool.eqb (a_blocking a) (fa_blocking fa) && chk_header ags' rs'
  | _, _ => false
  end.

Fixpoint chk_health (ags : list fagent) (us : list Z) (rs : list arec) : bool :=
  match ags, rs with
  | [], [] => true
  | fa :: ags', a :: rs' =>
      match fa_health fa with
      | Some h => (a_health a =? h) && chk_health ags' us rs'
      | None => match us with
                | u :: us' => (a_health a =? u) && chk_health ags' us' rs'
                | [] => false
                end
      end
  | _, _ => false
  end.

Definition optZ_eqb (x y : option Z) : bool :=
  match x, y with Some a, Some b => a =? b | None, None => true | _, _ => false end.

Fixpoint chk_ammo (ags : list fagent) (rs : list arec) : bool :=
  match ags, rs with
  | [], [] => true
  | fa :: ags', a :: rs' =>
      optZ_eqb (a_ammo a) (match fa_ammo fa with Some m => Some (Z.max m 0) | None => None end)
      && chk_ammo ags' rs'
  | _, _ => false
  end.

Fixpoint chk_orient (ags : list fagent) (ds : list Z) (rs : list arec) : bool :=
  match ags, rs with
  | [], [] => true
  | fa :: ags', a :: rs' =>
      match fa_orient fa with
      | None => optZ_eqb (a_orient a) None && chk_orient ags' ds rs'
      | Some (Some o) =>
          if o =? 0 then
            match ds with
            | d :: ds' => optZ_eqb (a_orient a) (Some d) && (1 <=? d) && (d <=? 4)
                          && chk_orient ags' ds' rs'
            | [] => false
            end
          else optZ_eqb (a_orient a) (Some o) && chk_orient ags' ds rs'
      | Some None =>
          match ds with
          | d :: ds' => optZ_eqb (a_orient a) (Some d) && (1 <=? d) && (d <=? 4)
                        && chk_orient ags' ds' rs'
          | [] => false
          end
      end
  | _, _ => false
  end.

Definition optcell_eqb (x y : option cell) : bool :=
  match x, y with Some p, Some q => cell_eqb p q | None, None => true | _, _ => false end.

Fixpoint chk_pos (ags : list fagent) (rs : list arec) : bool :=
  match ags, rs with
  | [], [] => true
  | fa :: ags', a :: rs' =>
      match a_pos a with
      | Some p => match fa_pos fa with Some q => cell_eqb p q | None => true end
      | None => false
      end && chk_pos ags' rs'
  | _, _ => false
  end.

Definition chk_full_reset_code (cfg : fcfg) (orc : foracle) (r : option gstate) : Z :=
  match r with
  | None => 0
  | Some s =>
      if negb ((g_rows s =? fc_rows cfg) && (g_cols s =? fc_cols cfg)
               && chk_header (fc_agents cfg) (g_agents s)) then 1
      else if negb (ginvb s =? 0) then 2
      else if negb (forallb (fun a => a_active a && (0 <? a_health a) && (a_health a <=? HD))
                            (g_agents s)) then 3
      else if negb (chk_health (fc_agents cfg) (fo_unif orc) (g_agents s)) then 4
      else if negb (chk_ammo (fc_agents cfg) (g_agents s)) then 5
      else if negb (chk_orient (fc_agents cfg) (fo_randint orc) (g_agents s)) then 6
      else if negb (chk_pos (fc_agents cfg) (g_agents s)) then 7
      else 0
  end.
Definition chk_full_reset (cfg : fcfg) (orc : foracle) (r : option gstate) : bool :=
  chk_full_reset_code cfg orc r =? 0.

(* ================= wire ====================================================================
   input   (cfg orc prev)
     cfg   (rows cols ov agents noov order)
     agent (enc blocking (r c)|() (health)|() (ammo)|() ()|(0)|(o))
                                     orientation: () no OrientationAgent, (0) none declared
     order (k ...)                   0 PositionState 1 HealthState 2 AmmoState 3 OrientationState
     orc   (choices uniforms randints)
     prev  snapshot (agents cells) as Grid.enc_snapshot: the state the object is in
   output  (1 snapshot) | (0 kind)   kind: Place.kind_code of the placement, 9 = inadmissible draw *)
Definition dec_fagent (x : sx) : option fagent :=
  match x with
  | L [A e; bl; p; h; am; o] =>
      match sxB bl, dec_optcell p, sxOptZ h, sxOptZ am, sxOptZ o with
      | Some bl', Some p', Some h', Some am', Some o' =>
          Some (mkFa e bl' p' h' am'
                     (match o' with None => None | Some 0 => Some None | Some v => Some (Some v) end))
      | _, _, _, _, _ => None
      end
  | _ => None
  end.

Definition dec_scomp (z : Z) : option scomp :=
  match z with 0 => Some SPos | 1 => Some SHealth | 2 => Some SAmmo | 3 => Some SOrient
          | _ => None end.

Definition dec_fcfg (x : sx) : option fcfg :=
  match x with
  | L [A rows; A cols; ov; L ags; nv; ord] =>
      match dec_ov ov, all_some (map dec_fagent ags), sxB nv, sxZs ord with
      | Some ov', Some ags', Some nv', Some ord' =>
          match all_some (map dec_scomp ord') with
          | Some ord'' => Some (mkFc rows cols ov' ags' nv' ord'')
          | None => None
          end
      | _, _, _, _ => None
      end
  | _ => None
  end.

Definition dec_foracle (x : sx) : option foracle :=
  match x with
  | L [ch; us; ds] =>
      match sxZs ch, sxZs us, sxZs ds with
      | Some ch', Some us', Some ds' => Some (mkFo ch' us' ds')
      | _, _, _ => None
      end
  | _ => None
  end.

Definition fail_code (cfg : fcfg) (orc : foracle) : Z :=
  match placement cfg orc with
  | Place.POk _ => 9
  | Place.PErr k _ => Place.kind_code k
  end.

Definition run_full_reset (x : sx) : sx :=
  match x with
  | L [xc; xo; xp] =>
      match dec_fcfg xc, dec_foracle xo with
      | Some cfg, Some orc =>
          match dec_snapshot (blank cfg) xp with
          | Some prev =>
              match full_reset cfg orc prev with
              | Some s => L [A 1; enc_snapshot s]
              | None => L [A 0; A (fail_code cfg orc)]
              end
          | None => sx_err
          end
      | _, _ => sx_err
      end
  | _ => sx_err
  end.

(* ((cfg orc prev) behaviour) -> 1, or -k for the first failing clause k; -97 malformed *)
Definition run_chk_full_reset (x : sx) : sx :=
  match x with
  | L [L [xc; xo; _]; xb] =>
      match dec_fcfg xc, dec_foracle xo with
      | Some cfg, Some orc =>
          match xb with
          | L [A 0; A _] => A 1
          | L [A 1; snap] =>
              match dec_snapshot (blank cfg) snap with
              | Some s => let c := chk_full_reset_code cfg orc (Some s) in
                          if c =? 0 then A 1 else A (- c)
              | None => A (-1)
              end
          | _ => A (-97)
          end
      | _, _ => A (-97)
      end
  | _ => A (-97)
  end.

(* DISPATCH: 2201 => run_full_reset *)
(* DISPATCH: 2202 => run_chk_full_reset *)
