(* Model of the attack actors of abmarl/sim/gridworld/actor.py over Grid/Grid.v:
   AttackActorBaseComponent.process_action / _basic_criteria / _subset_attackables and the four
   _determine_attack bodies (Binary, EncodingBased, RestrictedSelective, Selective).
   Visibility (the mask of utils.create_grid_and_mask) is a function argument `vis`:
   vis s att R (dr, dc) = true when the window cell at offset (dr, dc) from the attacker is not
   masked.  Random draws are explicit oracle arguments: a stream of uniform draws (ticks of 1/HD)
   and a stream of np.random.choice results (lists of agent indices).  No proofs here. *)
From Coq Require Import ZArith List Bool Arith.
From Abm Require Import Base.Sx Grid.Overlap Grid.Grid.
Import ListNotations.
Open Scope Z_scope.

Definition vis_fn := gstate -> nat -> Z -> cell -> bool.

Record acfg := {                      (* the attacker's configuration and the actor's options *)
  c_range : Z;                        (* attack_range (already resolved from "FULL") *)
  c_strength : Z;                     (* ticks of 1/HD *)
  c_accuracy : Z;                     (* ticks of 1/HD *)
  c_simul : Z;                        (* simultaneous_attacks *)
  c_mapping : list Z;                 (* attack_mapping[attacker.encoding] *)
  c_stacked : bool }.

Record oracle := { o_unif : list Z; o_choice : list (list nat) }.

Inductive ares {X : Type} := AOk (x : X) (o : oracle) | ABadOracle.
Arguments ares : clear implicits.

(* _basic_criteria: the uniform draw is consumed only when the first three tests pass *)
Definition basic_criteria (s : gstate) (cf : acfg) (att : nat) (o : oracle) (v : nat)
  : ares bool :=
  if Nat.eqb v att then AOk false o
  else match agent s v with
       | None => AOk false o
       | Some b =>
           if negb (a_active b) then AOk false o
           else if negb (memZ (a_enc b) (c_mapping cf)) then AOk false o
           else match o_unif o with
                | [] => ABadOracle
                | u :: us =>
                    AOk (negb (c_accuracy cf <? u)) {| o_unif := us; o_choice := o_choice o |}
                end
       end.

(* filter a candidate list (cell dictionary order) by the basic criteria, threading the oracle *)
Fixpoint filter_criteria (s : gstate) (cf : acfg) (att : nat) (o : oracle) (cands : list nat)
  : ares (list nat) :=
  match cands with
  | [] => AOk [] o
  | v :: r =>
      match basic_criteria s cf att o v with
      | ABadOracle => ABadOracle
      | AOk b o1 =>
          match filter_criteria s cf att o1 r with
          | ABadOracle => ABadOracle
          | AOk l o2 => AOk (if b then v :: l else l) o2
          end
      end
  end.

(* window cells in scan order (row-major over the local grid) as offsets from the attacker *)
Definition window (R : Z) : list cell :=
  flat_map (fun dr => map (fun dc => (dr, dc)) (zrange (- R) (R + 1))) (zrange (- R) (R + 1)).

Definition att_pos (s : gstate) (att : nat) : option cell :=
  match agent s att with Some a => a_pos a | None => None end.

(* candidates on the window cell at offset d: the cell dictionary when the cell is inside the
   grid and not masked, nothing otherwise *)
Definition cands_at (vis : vis_fn) (s : gstate) (cf : acfg) (att : nat) (p : cell) (d : cell)
  : list nat :=
  let q := (fst p + fst d, snd p + snd d) in
  if vis s att (c_range cf) d && inside s q then cell_get (g_cells s) q else [].

Fixpoint countn (x : nat) (l : list nat) : nat :=
  match l with [] => O | y :: r => (if Nat.eqb x y then 1 else 0) + countn x r end.
Fixpoint nodupb (l : list nat) : bool :=
  match l with [] => true | a :: r => negb (memn a r) && nodupb r end.

(* np.random.choice(l, size = n, replace): the oracle's answer must be admissible *)
Definition choice_ok (l : list nat) (n : Z) (replace : bool) (ch : list nat) : bool :=
  (Z.of_nat (length ch) =? n) && forallb (fun x => memn x l) ch && (replace || nodupb ch).

(* _subset_attackables (called with a non-empty list only) *)
Definition subset_attackables (cf : acfg) (o : oracle) (l : list nat) (n : Z) : ares (list nat) :=
  if negb (c_stacked cf) && (Z.of_nat (length l) <? n) then AOk l o
  else match o_choice o with
       | [] => ABadOracle
       | ch :: cs =>
           if choice_ok l n (c_stacked cf) ch
           then AOk ch {| o_unif := o_unif o; o_choice := cs |}
           else ABadOracle
       end.

(* ---- BinaryAttackActor ------------------------------------------------------------------- *)
Fixpoint scan_all (vis : vis_fn) (s : gstate) (cf : acfg) (att : nat) (p : cell) (o : oracle)
         (ds : list cell) : ares (list nat) :=
  match ds with
  | [] => AOk [] o
  | d :: r =>
      match filter_criteria s cf att o (cands_at vis s cf att p d) with
      | ABadOracle => ABadOracle
      | AOk l o1 =>
          match scan_all vis s cf att p o1 r with
          | ABadOracle => ABadOracle
          | AOk l' o2 => AOk (l ++ l') o2
          end
      end
  end.

Definition det_binary (vis : vis_fn) (s : gstate) (cf : acfg) (att : nat) (p : cell) (o : oracle)
           (attack : Z) : ares (bool * list nat) :=
  if attack =? 0 then AOk (false, []) o
  else match scan_all vis s cf att p o (window (c_range cf)) with
       | ABadOracle => ABadOracle
       | AOk [] o1 => AOk (true, []) o1
       | AOk l o1 =>
           match subset_attackables cf o1 l attack with
           | ABadOracle => ABadOracle
           | AOk h o2 => AOk (true, h) o2
           end
       end.

(* ---- EncodingBasedAttackActor ------------------------------------------------------------ *)
Fixpoint enc_loop (s : gstate) (cf : acfg) (o : oracle) (attackable : list nat)
         (attack : list (Z * Z)) : ares (list nat) :=
  match attack with
  | [] => AOk [] o
  | (e, num) :: r =>
      let bucket := filter (fun v => enc_of s v =? e) attackable in
      match bucket with
      | [] => enc_loop s cf o attackable r
      | _ =>
          match subset_attackables cf o bucket num with
          | ABadOracle => ABadOracle
          | AOk h o1 =>
              match enc_loop s cf o1 attackable r with
              | ABadOracle => ABadOracle
              | AOk h' o2 => AOk (h ++ h') o2
              end
          end
      end
  end.

Definition det_encoding (vis : vis_fn) (s : gstate) (cf : acfg) (att : nat) (p : cell) (o : oracle)
           (attack : list (Z * Z)) : ares (bool * list nat) :=
  if forallb (fun kv => snd kv =? 0) attack then AOk (false, []) o
  else match scan_all vis s cf att p o (window (c_range cf)) with
       | ABadOracle => ABadOracle
       | AOk l o1 =>
           match enc_loop s cf o1 l attack with
           | ABadOracle => ABadOracle
           | AOk h o2 => AOk (true, h) o2
           end
       end.

(* ---- SelectiveAttackActor ---------------------------------------------------------------- *)
(* attack: one count per window cell, in scan order *)
Fixpoint sel_loop (vis : vis_fn) (s : gstate) (cf : acfg) (att : nat) (p : cell) (o : oracle)
         (ds : list cell) (attack : list Z) : ares (list nat) :=
  match ds, attack with
  | d :: r, n :: ns =>
      if n =? 0 then sel_loop vis s cf att p o r ns
      else
        match filter_criteria s cf att o (cands_at vis s cf att p d) with
        | ABadOracle => ABadOracle
        | AOk [] o1 => sel_loop vis s cf att p o1 r ns
        | AOk l o1 =>
            match subset_attackables cf o1 l n with
            | ABadOracle => ABadOracle
            | AOk h o2 =>
                match sel_loop vis s cf att p o2 r ns with
                | ABadOracle => ABadOracle
                | AOk h' o3 => AOk (h ++ h') o3
                end
            end
        end
  | _, _ => AOk [] o
  end.

Definition det_selective (vis : vis_fn) (s : gstate) (cf : acfg) (att : nat) (p : cell)
           (o : oracle) (attack : list Z) : ares (bool * list nat) :=
  if forallb (fun n => n =? 0) attack then AOk (false, []) o
  else match sel_loop vis s cf att p o (window (c_range cf)) attack with
       | ABadOracle => ABadOracle
       | AOk h o1 => AOk (true, h) o1
       end.

(* ---- RestrictedSelectiveAttackActor ------------------------------------------------------ *)
(* cell id k (1-based, 0 = no attack) -> window offset.  Documented numbering: row by row from
   the top left (row-major).  `colmajor` = the numbering of the code before the repair. *)
Definition cell_of_id (R : Z) (colmajor : bool) (k : Z) : cell :=
  let w := 2 * R + 1 in
  let k0 := k - 1 in
  if colmajor then (k0 mod w - R, k0 / w - R) else (k0 / w - R, k0 mod w - R).

Fixpoint filter_fresh (stacked : bool) (hits : list nat) (l : list (nat * bool)) : list nat :=
  match l with
  | [] => []
  | (v, ok) :: r =>
      if negb ok then filter_fresh stacked hits r
      else if memn v hits && negb stacked then filter_fresh stacked hits r
      else v :: filter_fresh stacked hits r
  end.

(* criteria for every candidate (drawing for each), then the already-attacked test *)
Fixpoint criteria_all (s : gstate) (cf : acfg) (att : nat) (o : oracle) (cands : list nat)
  : ares (list (nat * bool)) :=
  match cands with
  | [] => AOk [] o
  | v :: r =>
      match basic_criteria s cf att o v with
      | ABadOracle => ABadOracle
      | AOk b o1 =>
          match criteria_all s cf att o1 r with
          | ABadOracle => ABadOracle
          | AOk l o2 => AOk ((v, b) :: l) o2
          end
      end
  end.

Fixpoint res_loop (vis : vis_fn) (colmajor : bool) (s : gstate) (cf : acfg) (att : nat) (p : cell)
         (o : oracle) (hits : list nat) (attack : list Z) : ares (list nat) :=
  match attack with
  | [] => AOk hits o
  | k :: ks =>
      if k =? 0 then res_loop vis colmajor s cf att p o hits ks
      else
        let d := cell_of_id (c_range cf) colmajor k in
        match criteria_all s cf att o (cands_at vis s cf att p d) with
        | ABadOracle => ABadOracle
        | AOk l o1 =>
            match filter_fresh (c_stacked cf) hits l with
            | [] => res_loop vis colmajor s cf att p o1 hits ks
            | attackable =>
                match o_choice o1 with
                | [v] :: cs =>
                    if memn v attackable
                    then res_loop vis colmajor s cf att p {| o_unif := o_unif o1; o_choice := cs |}
                                  (hits ++ [v]) ks
                    else ABadOracle
                | _ => ABadOracle
                end
            end
        end
  end.

Definition det_restricted (vis : vis_fn) (colmajor : bool) (s : gstate) (cf : acfg) (att : nat)
           (p : cell) (o : oracle) (attack : list Z) : ares (bool * list nat) :=
  if forallb (fun n => n =? 0) attack then AOk (false, []) o
  else match res_loop vis colmajor s cf att p o [] attack with
       | ABadOracle => ABadOracle
       | AOk h o1 => AOk (true, h) o1
       end.

(* ---- process_action ---------------------------------------------------------------------- *)
Inductive aaction :=
| ABinary (n : Z)
| AEncoding (l : list (Z * Z))
| ASelective (l : list Z)
| ARestricted (colmajor : bool) (l : list Z).

Definition determine (vis : vis_fn) (s : gstate) (cf : acfg) (att : nat) (p : cell) (o : oracle)
           (act : aaction) : ares (bool * list nat) :=
  match act with
  | ABinary n => det_binary vis s cf att p o n
  | AEncoding l => det_encoding vis s cf att p o l
  | ASelective l => det_selective vis s cf att p o l
  | ARestricted cm l => det_restricted vis cm s cf att p o l
  end.

(* the ammunition filter: np.random.choice(attacked, size = ammo, replace = False) *)
Definition submultiset (ch l : list nat) : bool :=
  forallb (fun x => Nat.leb (countn x ch) (countn x l)) ch.

(* health decrement of one hit: skipped when the victim is already dead; removal on death *)
Definition hit (s : gstate) (strength : Z) (v : nat) : gstate :=
  match agent s v with
  | None => s
  | Some b =>
      if negb (a_active b) then s
      else
        let b' := with_health b (a_health b - strength) in
        let s1 := set_agent s v b' in
        if a_active b' then s1
        else match a_pos b' with
             | Some q => match remove s1 v q with Some s2 => s2 | None => s1 end
             | None => s1
             end
  end.

Definition apply_hits (s : gstate) (strength : Z) (hits : list nat) : gstate :=
  fold_left (fun st v => hit st strength v) hits s.

Inductive pres := POk (status : bool) (hits : list nat) (s : gstate) (o : oracle) | PBadOracle | PErr.

Definition process_attack (vis : vis_fn) (s : gstate) (cf : acfg) (att : nat) (o : oracle)
           (act : aaction) : pres :=
  match agent s att with
  | None => PErr
  | Some a =>
      match a_pos a with
      | None => PErr
      | Some p =>
          match determine vis s cf att p o act with
          | ABadOracle => PBadOracle
          | AOk (status, hits) o1 =>
              match a_ammo a with
              | None => POk status hits (apply_hits s (c_strength cf) hits) o1
              | Some am =>
                  let k := Z.of_nat (length hits) in
                  if am <? k then
                    match o_choice o1 with
                    | ch :: cs =>
                        if (Z.of_nat (length ch) =? am) && submultiset ch hits then
                          let s1 := set_agent s att (with_ammo a (Some (Z.max 0 (am - am)))) in
                          POk status ch (apply_hits s1 (c_strength cf) ch)
                              {| o_unif := o_unif o1; o_choice := cs |}
                        else PBadOracle
                    | [] => PBadOracle
                    end
                  else
                    let s1 := set_agent s att (with_ammo a (Some (Z.max 0 (am - k)))) in
                    POk status hits (apply_hits s1 (c_strength cf) hits) o1
              end
          end
      end
  end.
