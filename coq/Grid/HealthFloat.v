(* Binary64 layer of C11/C03: what a hit does to the victim's health, in IEEE-754 binary64 as
   CPython computes it, on the standard library's executable specification of binary64
   (Floats.SpecFloat, precision 53, emax 1024: plain Gallina over Z, no primitive, no axiom).

     attack actor   attacked_agent.health = attacked_agent.health - agent.attack_strength
     agent.py       health.setter:  self._health = min(max(value, 0), 1); self.active = self.health > 0
     attack actor   if not attacked_agent.active: self.grid.remove(attacked_agent, position)

   The integer models of Grid/Attack.v do the same on multiples of 2^-20, where the subtraction is
   exact; here health and strength are ANY two doubles (0.9 - 0.3 - 0.3 - 0.3 = 1.1e-16 > 0).
   A double on the wire is (m e) with value m * 2^e, m odd or 0.   No proofs here. *)
From Coq Require Import ZArith List Bool SpecFloat.
From Abm Require Import Base.Sx.
Import ListNotations.
Open Scope Z_scope.

Definition B64 (m e : Z) : spec_float := binary_normalize 53 1024 m e false.
Definition f_zero : spec_float := S754_zero false.      (* the int 0 of max(value, 0) compares as 0.0 *)
Definition f_one : spec_float := B64 1 0.

(* Python's max(value, 0): the first argument unless the second is greater; min(x, 1) likewise *)
Definition py_max0 (v : spec_float) : spec_float := if SFltb v f_zero then f_zero else v.
Definition py_min1 (v : spec_float) : spec_float := if SFltb f_one v then f_one else v.
Definition set_health (v : spec_float) : spec_float := py_min1 (py_max0 v).
Definition is_active (h : spec_float) : bool := SFltb f_zero h.
Definition hit (h s : spec_float) : spec_float := set_health (SFsub 53 1024 h s).

(* n attacks on one victim: an active victim is hit, a dead one is no target any more.
   A record is (health, active, stored in its grid cell). *)
Fixpoint hits (h s : spec_float) (alive : bool) (n : nat) : list (spec_float * bool * bool) :=
  match n with
  | O => []
  | S k =>
      if alive then
        let h' := hit h s in
        let a' := is_active h' in
        (h', a', a') :: hits h' s a' k
      else (h, false, false) :: hits h s false k
  end.

(* ---- wire ---- *)
Fixpoint strip (m : positive) (e : Z) : positive * Z :=
  match m with xO p => strip p (e + 1) | _ => (m, e) end.
Definition enc_float (f : spec_float) : sx :=
  match f with
  | S754_zero _ => L [A 0; A 0]
  | S754_finite s m e => let (m', e') := strip m e in L [A (if s then Zneg m' else Zpos m'); A e']
  | S754_infinity s => L [A (if s then -2 else 2); A 99999]
  | S754_nan => L [A 3; A 99999]
  end.
Definition enc_rec (r : spec_float * bool * bool) : sx :=
  let '(h, a, g) := r in L [enc_float h; ofB a; ofB g].

(* input (hm he sm se n) : initial health, strength, number of attacks; the victim starts active *)
Definition run_health_float (x : sx) : sx :=
  match x with
  | L [A hm; A he; A sm; A se; A n] =>
      if (n <? 0) || (200 <? n) then sx_err
      else L (map enc_rec (hits (B64 hm he) (B64 sm se) true (Z.to_nat n)))
  | _ => sx_err
  end.

(* ---- checker: the clauses of C11 (and of C03 on health) on an observed sequence ----
   1101f  a hit lowered the health by something else than exactly the strength (clamped to [0,1])
   1102f  active differs from (health > 0)
   1103f  a dead victim is still stored in its cell / a living one is not
   1104f  a dead victim changed                                                         *)
Definition dec_float (x : sx) : option spec_float :=
  match x with
  | L [A m; A e] => Some (B64 m e)
  | _ => None
  end.

(* the same double: structural equality of normalised representations *)
Definition sf_eqb (a b : spec_float) : bool :=
  match a, b with
  | S754_zero _, S754_zero _ => true
  | S754_infinity s1, S754_infinity s2 => Bool.eqb s1 s2
  | S754_nan, S754_nan => true
  | S754_finite s1 m1 e1, S754_finite s2 m2 e2 => Bool.eqb s1 s2 && Pos.eqb m1 m2 && Z.eqb e1 e2
  | _, _ => false
  end.

Fixpoint chk_sem (h s : spec_float) (alive : bool) (recs : list (spec_float * bool * bool)) : Z :=
  match recs with
  | [] => 0
  | (h', a', g') :: r =>
      if alive then
        if negb (sf_eqb h' (hit h s)) then 1101
        else if negb (Bool.eqb a' (is_active h')) then 1102
        else if negb (Bool.eqb g' a') then 1103
        else chk_sem h' s a' r
      else
        if negb (sf_eqb h' h) || a' then 1104
        else if g' then 1103
        else chk_sem h s false r
  end.

Definition dec_rec (x : sx) : option (spec_float * bool * bool) :=
  match x with
  | L [xf; A a; A g] =>
      match dec_float xf with
      | Some h => Some (h, negb (a =? 0), negb (g =? 0))
      | None => None
      end
  | _ => None
  end.

Definition run_chk_health_float (x : sx) : sx :=
  match x with
  | L [L [A hm; A he; A sm; A se; A n]; L recs] =>
      if negb (Z.of_nat (length recs) =? n) then A (-1109)
      else match all_some (map dec_rec recs) with
           | Some rs => let c := chk_sem (B64 hm he) (B64 sm se) true rs in
                        if c =? 0 then A 1 else A (- c)
           | None => A (-1109)
           end
  | _ => A (-1109)
  end.

(* DISPATCH: 1103 => run_health_float *)
(* DISPATCH: 1104 => run_chk_health_float *)
