(* Model of the configuration checks of Abmarl (C19): every property setter / constructor /
   finalize assertion as a function  pyval -> outcome  transcribed from
     abmarl/sim/agent_based_simulation.py   (id, seed, active, agents dict, null points)
     abmarl/sim/gridworld/agent.py          (encoding ... initial_orientation)
     abmarl/sim/gridworld/grid.py           (rows, cols, overlapping setter, query)
     abmarl/sim/gridworld/actor.py:290-306  (attack_mapping)
     abmarl/sim/gridworld/done.py:173-191   (target_mapping of TargetEncodingInactiveDone)
     abmarl/sim/gridworld/state.py:228-267  (barrier_encodings, free_encodings)
   together with the documented domain of each attribute as an independent boolean predicate
   (the dom_ predicates), which is what the property checker uses.  The universe of Python values is
   Spaces/PyVal.v.  No proofs here. *)
From Coq Require Import ZArith QArith List Bool.
From Abm Require Import Base.Sx Spaces.PyVal Spaces.BoxMem Grid.Overlap.
Import ListNotations.
Open Scope Z_scope.

(* ---- Python fragments ------------------------------------------------------------------ *)
Definition is_none (v : pyval) : bool := match v with PNone => true | _ => false end.
Definition type_is_int (v : pyval) : bool := match v with PInt _ => true | _ => false end.
Definition type_is_bool (v : pyval) : bool := match v with PBool _ => true | _ => false end.
Definition type_is_str (v : pyval) : bool := match v with PStr _ => true | _ => false end.
(* type(v) in [int, float] *)
Definition type_in_int_float (v : pyval) : bool :=
  match v with PInt _ | PFloat _ | PFloatX _ => true | _ => false end.

(* comparisons of a Python int/float with a constant (only evaluated after the type test) *)
Definition num_ge (v : pyval) (c : Q) : bool :=          (* c <= v *)
  match v with
  | PInt z => Qle_bool c (inject_Z z)
  | PFloat q => Qle_bool c q
  | PFloatX FPosInf => true
  | _ => false
  end.
Definition num_gt (v : pyval) (c : Q) : bool :=          (* c < v *)
  match v with
  | PInt z => negb (Qle_bool (inject_Z z) c)
  | PFloat q => negb (Qle_bool q c)
  | PFloatX FPosInf => true
  | _ => false
  end.
Definition num_le (v : pyval) (c : Q) : bool :=          (* v <= c *)
  match v with
  | PInt z => Qle_bool (inject_Z z) c
  | PFloat q => Qle_bool q c
  | PFloatX FNegInf => true
  | _ => false
  end.

(* assert a; assert b *)
Definition andthen (a b : outcome) : outcome := match a with Accept => b | _ => a end.
Notation "a ;; b" := (andthen a b) (at level 61, right associativity).

Definition is_marker (c : Z) : bool := (10 <=? c) && (c <=? 30).

(* x in self._encodings_in_sim  (a set of ints: membership is by hash and ==, i.e. by value) *)
Definition enc_member (x : pyval) (encs : list Z) : bool :=
  match num_of x with
  | Some q => existsb (fun e => Qeq_bool q (inject_Z e)) encs
  | None => false
  end.

(* a != b on two hashable values that are numbers (anything else is simply unequal) *)
Definition num_eq (a b : pyval) : bool :=
  match num_of a, num_of b with
  | Some p, Some q => Qeq_bool p q
  | _, _ => false
  end.

(* ---- agent_based_simulation.py ------------------------------------------------------- *)
Definition validate_id (v : pyval) : outcome := assert_ (type_is_str v).
Definition validate_seed (v : pyval) : outcome := assert_ (is_none v || type_is_int v).
Definition validate_active (v : pyval) : outcome := assert_ (type_is_bool v).

(* AgentBasedSimulation.agents setter *)
Fixpoint agents_loop (l : list (pyval * pyval)) : outcome :=
  match l with
  | [] => Accept
  | (k, a) :: r =>
      match a with
      | PAgent id =>
          assert_ (match k with PStr c => c =? id | _ => false end) ;; agents_loop r
      | _ => Reject            (* not an instance of PrincipleAgent *)
      end
  end.
Definition validate_agents (v : pyval) : outcome :=
  match v with PDict l => agents_loop l | _ => Reject end.

(* GridWorldBaseComponent.agents setter (gridworld/base.py:308-316): the same loop, with
   isinstance(agent, GridWorldAgent); there PAgent stands for a GridWorldAgent *)
Definition validate_component_agents (v : pyval) : outcome :=
  match v with PDict l => agents_loop l | _ => Reject end.

(* ---- gridworld/agent.py ------------------------------------------------------------- *)
Definition validate_encoding (v : pyval) : outcome :=
  assert_ (type_is_int v) ;;
  assert_ (negb (py_eq_int v (-2))) ;;
  assert_ (negb (py_eq_int v (-1))) ;;
  assert_ (negb (py_eq_int v 0)).

Definition validate_initial_position (v : pyval) : outcome :=
  if is_none v then Accept else
  match v with
  | PArr dt sh _ =>
      assert_ (zlist_eqb sh [2]) ;;
      assert_ (dtype_eqb dt (DInt 64) || dtype_eqb dt (DFloat 64))
  | _ => Reject
  end.

Definition validate_blocking (v : pyval) : outcome := assert_ (type_is_bool v).

(* value in ['o', 'v', ...]: == against each string; an ndarray with other than one element
   has no truth value *)
Definition validate_render_shape (v : pyval) : outcome :=
  if arr_ambiguous v then RaiseValue
  else assert_ (match v with PStr c => is_marker c | _ => false end).

Definition validate_render_size (v : pyval) : outcome :=
  assert_ (type_is_int v && num_gt v 0).

Definition validate_health (v : pyval) : outcome := assert_ (type_in_int_float v).

Definition validate_initial_health (v : pyval) : outcome :=
  if is_none v then Accept else
  assert_ (type_in_int_float v) ;; assert_ (num_gt v 0 && num_le v 1).

(* (value == "FULL") or (type(value) is int and 0 <= value) *)
Definition range_rule (v : pyval) : outcome :=
  if arr_ambiguous v then RaiseValue
  else assert_ (match v with PStr 1 => true | _ => false end || (type_is_int v && num_ge v 0)).
Definition validate_view_range := range_rule.
Definition validate_move_range := range_rule.
Definition validate_attack_range := range_rule.

Definition unit_rule (v : pyval) : outcome :=
  assert_ (type_in_int_float v) ;; assert_ (num_ge v 0 && num_le v 1).
Definition validate_attack_strength := unit_rule.
Definition validate_attack_accuracy := unit_rule.

Definition validate_simultaneous_attacks (v : pyval) : outcome :=
  assert_ (type_is_int v) ;; assert_ (num_ge v 0).

Definition validate_initial_ammo (v : pyval) : outcome := assert_ (type_is_int v).
Definition validate_ammo (v : pyval) : outcome := assert_ (type_is_int v).

(* value in range(1, 5) *)
Definition validate_orientation (v : pyval) : outcome :=
  if arr_ambiguous v then RaiseValue else assert_ (existsb (py_eq_int v) [1; 2; 3; 4]).
Definition validate_initial_orientation (v : pyval) : outcome :=
  if is_none v then Accept else validate_orientation v.

(* ---- gridworld/grid.py --------------------------------------------------------------- *)
Definition validate_grid_dim (v : pyval) : outcome := assert_ (type_is_int v && num_gt v 0).

Fixpoint set_ints (s : list pyval) : option (list Z) :=   (* all elements of type int *)
  match s with
  | [] => Some []
  | PInt z :: r => match set_ints r with Some zs => Some (z :: zs) | None => None end
  | _ => None
  end.

(* the first loop of the overlapping setter: check types, upgrade ints to sets *)
Fixpoint overlap_loop (l : list (pyval * pyval)) : outcome * otable :=
  match l with
  | [] => (Accept, [])
  | (k, ov) :: r =>
      match k with
      | PInt ndx =>
          match ov with
          | PInt o =>
              match overlap_loop r with
              | (Accept, t) => (Accept, (ndx, [o]) :: t)
              | bad => bad
              end
          | PSet s =>
              match set_ints s with
              | Some zs =>
                  match overlap_loop r with
                  | (Accept, t) => (Accept, (ndx, zs) :: t)
                  | bad => bad
                  end
              | None => (Reject, [])
              end
          | _ => (RaiseType, [])
          end
      | _ => (Reject, [])
      end
  end.

(* Grid.overlapping setter: outcome and the stored table *)
Definition overlap_setter (v : pyval) : outcome * otable :=
  match v with
  | PNone => (Accept, [])
  | PDict l =>
      match overlap_loop l with
      | (Accept, t) => (Accept, ov_symmetrise t)
      | bad => bad
      end
  | _ => (Reject, [])
  end.

(* ---- mapping setters ------------------------------------------------------------------ *)
(* actor.py attack_mapping *)
Fixpoint attack_loop (encs : list Z) (l : list (pyval * pyval)) : outcome :=
  match l with
  | [] => Accept
  | (k, a) :: r =>
      assert_ (enc_member k encs) ;;
      match a with
      | PInt _ => assert_ (enc_member a encs)
      | PSet s => assert_ (forallb (fun e => enc_member e encs) s)
      | _ => RaiseType
      end ;;
      attack_loop encs r
  end.
Definition validate_attack_mapping (encs : list Z) (v : pyval) : outcome :=
  match v with PDict l => attack_loop encs l | _ => Reject end.

(* done.py target_mapping (TargetEncodingInactiveDone) *)
Fixpoint target_loop (encs : list Z) (l : list (pyval * pyval)) : outcome :=
  match l with
  | [] => Accept
  | (k, a) :: r =>
      assert_ (enc_member k encs) ;;
      match a with
      | PInt _ => assert_ (enc_member a encs) ;; assert_ (negb (num_eq a k))
      | PSet s => assert_ (forallb (fun e => enc_member e encs && negb (num_eq e k)) s)
      | _ => RaiseType
      end ;;
      target_loop encs r
  end.
Definition validate_target_mapping (encs : list Z) (v : pyval) : outcome :=
  match v with PDict l => target_loop encs l | _ => Reject end.

(* state.py barrier_encodings / free_encodings (MazePlacementState) *)
Definition encodings_opt_rule (encs : list Z) (v : pyval) : outcome :=
  match v with
  | PNone => Accept
  | PInt _ => assert_ (enc_member v encs)
  | PSet s => assert_ (forallb (fun e => enc_member e encs) s)
  | _ => RaiseType
  end.
Definition validate_barrier_encodings := encodings_opt_rule.
Definition validate_free_encodings := encodings_opt_rule.

(* ---- null points at finalize ----------------------------------------------------------- *)
Inductive nspace := NDiscrete (n : Z) | NBox (B : box).

(* gymnasium Discrete(n).contains (start = 0, dtype int64) *)
Definition discrete_contains (n : Z) (v : pyval) : bool :=
  match v with
  | PInt z | PNpInt z => (0 <=? z) && (z <? n)
  | PBool b => (0 <? n) && ((if b then 1 else 0) <? n)
  | PArr dt [] [q] =>
      is_int_dtype dt && can_cast dt (DInt 64) && Qle_bool 0 q && negb (Qle_bool (inject_Z n) q)
  | _ => false
  end.

Definition space_contains (s : nspace) (v : pyval) : bres :=
  match s with
  | NDiscrete n => BOk (discrete_contains n v)
  | NBox B => box_contains B v
  end.

(* if self.null_action: assert self.null_action in self.action_space *)
Definition validate_null_point (s : nspace) (v : pyval) : outcome :=
  match truthy v with
  | None => RaiseValue
  | Some false => Accept
  | Some true => match space_contains s v with
                 | BOk b => assert_ b
                 | BRaise o => o
                 end
  end.

(* ======================= documented domains (independent of the code) ================== *)
Definition dom_id (v : pyval) : bool := match v with PStr _ => true | _ => false end.
Definition dom_seed (v : pyval) : bool := match v with PNone | PInt _ => true | _ => false end.
Definition dom_bool (v : pyval) : bool := match v with PBool _ => true | _ => false end.
Definition dom_encoding (v : pyval) : bool :=
  match v with PInt z => negb (memZ z [-2; -1; 0]) | _ => false end.
Definition dom_initial_position (v : pyval) : bool :=
  match v with
  | PNone => true
  | PArr dt sh _ => zlist_eqb sh [2] && (dtype_eqb dt (DInt 64) || dtype_eqb dt (DFloat 64))
  | _ => false
  end.
Definition dom_render_shape (v : pyval) : bool :=
  match v with PStr c => (10 <=? c) && (c <=? 30) | _ => false end.
Definition dom_positive_int (v : pyval) : bool := match v with PInt z => 0 <? z | _ => false end.
Definition dom_nonneg_int (v : pyval) : bool := match v with PInt z => 0 <=? z | _ => false end.
Definition dom_int (v : pyval) : bool := match v with PInt _ => true | _ => false end.
Definition dom_number (v : pyval) : bool :=
  match v with PInt _ | PFloat _ | PFloatX _ => true | _ => false end.
(* initial health: None or a Python number in (0, 1] *)
Definition dom_initial_health (v : pyval) : bool :=
  match v with
  | PNone => true
  | PInt z => z =? 1
  | PFloat q => negb (Qle_bool q 0) && Qle_bool q 1
  | _ => false
  end.
(* strengths and accuracies: a Python number in [0, 1] *)
Definition dom_unit (v : pyval) : bool :=
  match v with
  | PInt z => (z =? 0) || (z =? 1)
  | PFloat q => Qle_bool 0 q && Qle_bool q 1
  | _ => false
  end.
(* ranges: "FULL" or an int >= 0 *)
Definition dom_range (v : pyval) : bool :=
  match v with PStr c => c =? 1 | PInt z => 0 <=? z | _ => false end.
(* orientation: numerically one of 1, 2, 3, 4 (Python's == : True, 1.0, numpy scalars and
   one-element numeric arrays equal to 1..4 count) *)
Definition one_value (v : pyval) : option Q :=
  match v with
  | PBool b | PNpBool b => Some (if b then 1%Q else 0%Q)
  | PInt z | PNpInt z => Some (inject_Z z)
  | PFloat q | PNpFloat q => Some q
  | PArr DObj _ _ => None
  | PArr _ _ [q] => Some q
  | _ => None
  end.
Definition dom_orientation (v : pyval) : bool :=
  match one_value v with
  | Some q => Qeq_bool q 1 || Qeq_bool q 2 || Qeq_bool q 3 || Qeq_bool q 4
  | None => false
  end.
Definition dom_initial_orientation (v : pyval) : bool :=
  match v with PNone => true | _ => dom_orientation v end.
(* agents: a dict whose every key is the id of the agent it maps to *)
Definition dom_agents (v : pyval) : bool :=
  match v with
  | PDict l => forallb (fun kv => match kv with
                                  | (PStr c, PAgent id) => c =? id
                                  | _ => false
                                  end) l
  | _ => false
  end.
(* mappings: a dict that mentions only encodings of the simulation (by value) *)
Definition mentions_enc (encs : list Z) (x : pyval) : bool :=
  match x with
  | PBool b | PNpBool b => memZ (if b then 1 else 0) encs
  | PInt z | PNpInt z => memZ z encs
  | PFloat q | PNpFloat q => Qintegral q && memZ (Qtrunc q) encs
  | _ => false
  end.
Definition dom_attack_mapping (encs : list Z) (v : pyval) : bool :=
  match v with
  | PDict l =>
      forallb (fun kv => mentions_enc encs (fst kv) &&
                         match snd kv with
                         | PInt z => memZ z encs
                         | PSet s => forallb (mentions_enc encs) s
                         | _ => false
                         end) l
  | _ => false
  end.
(* same value: both Python numbers and equal *)
Definition same_number (a b : pyval) : bool :=
  match num_of a, num_of b with
  | Some p, Some q => Qeq_bool p q
  | _, _ => false
  end.
Definition dom_target_mapping (encs : list Z) (v : pyval) : bool :=
  match v with
  | PDict l =>
      forallb (fun kv => mentions_enc encs (fst kv) &&
                         match snd kv with
                         | PInt z => memZ z encs && negb (same_number (PInt z) (fst kv))
                         | PSet s => forallb (fun e => mentions_enc encs e &&
                                                       negb (same_number e (fst kv))) s
                         | _ => false
                         end) l
  | _ => false
  end.
Definition dom_encodings_opt (encs : list Z) (v : pyval) : bool :=
  match v with
  | PNone => true
  | PInt z => memZ z encs
  | PSet s => forallb (mentions_enc encs) s
  | _ => false
  end.
(* null point: none supplied (anything Python treats as false -- the package-wide idiom
   `if agent.null_action:`) or a point of the space *)
Definition dom_null_point (s : nspace) (v : pyval) : bool :=
  match truthy v with
  | Some false => true
  | Some true =>
      match s with
      | NDiscrete n => discrete_contains n v   (* gymnasium's Discrete: trusted semantics *)
      | NBox B => box_spec B v
      end
  | None => false
  end.

(* ---- overlap table: specification side ------------------------------------------------
   related v a b: the supplied table says, in either direction, that a and b may overlap *)
Definition val_has (ov : pyval) (b : Z) : bool :=
  match ov with
  | PInt o => o =? b
  | PSet s => existsb (fun e => match e with PInt z => z =? b | _ => false end) s
  | _ => false
  end.
Definition entry_says (kv : pyval * pyval) (a b : Z) : bool :=
  match fst kv with PInt k => (k =? a) && val_has (snd kv) b | _ => false end.
Definition related (v : pyval) (a b : Z) : bool :=
  match v with
  | PDict l => existsb (fun kv => entry_says kv a b || entry_says kv b a) l
  | _ => false
  end.
Definition dom_overlapping (v : pyval) : bool :=
  match v with
  | PNone => true
  | PDict l =>
      forallb (fun kv => match fst kv with PInt _ => true | _ => false end &&
                         match snd kv with
                         | PInt _ => true
                         | PSet s => forallb (fun e => match e with PInt _ => true | _ => false end) s
                         | _ => false
                         end) l
  | _ => false
  end.
(* ints mentioned by the table *)
Definition mentioned (v : pyval) : list Z :=
  match v with
  | PDict l =>
      flat_map (fun kv => match fst kv with PInt k => [k] | _ => [] end ++
                          match snd kv with
                          | PInt o => [o]
                          | PSet s => flat_map (fun e => match e with PInt z => [z] | _ => [] end) s
                          | _ => []
                          end) l
  | _ => []
  end.
(* a Python dict has distinct keys *)
Fixpoint nodupZ (l : list Z) : bool :=
  match l with [] => true | x :: r => negb (memZ x r) && nodupZ r end.
Definition int_keys (v : pyval) : list Z :=
  match v with
  | PDict l => flat_map (fun kv => match fst kv with PInt k => [k] | _ => [] end) l
  | _ => []
  end.

(* ======================= wire ========================================================== *)
Definition dec_nspace (x : sx) : option nspace :=
  match x with
  | L [A 0; A n] => Some (NDiscrete n)
  | L [A 1; xb] => option_map NBox (dec_box xb)
  | _ => None
  end.

Inductive attr :=
| AId | ASeed | AActive | AEncoding | AInitialPosition | ABlocking | ARenderShape | ARenderSize
| AHealth | AInitialHealth | AViewRange | AMoveRange | AAttackRange | AAttackStrength
| AAttackAccuracy | ASimultaneousAttacks | AInitialAmmo | AAmmo | AOrientation
| AInitialOrientation | AAgents | AGridRows | AGridCols
| AAttackMapping (encs : list Z) | ATargetMapping (encs : list Z)
| ABarrierEncodings (encs : list Z) | AFreeEncodings (encs : list Z)
| ANullAction (s : nspace) | ANullObservation (s : nspace)
| AComponentAgents.   (* GridWorldBaseComponent.agents (gridworld/base.py): PAgent = a GridWorldAgent *)

Definition dec_attr (code : Z) (param : sx) : option attr :=
  match code with
  | 1 => Some AId | 2 => Some ASeed | 3 => Some AActive | 4 => Some AEncoding
  | 5 => Some AInitialPosition | 6 => Some ABlocking | 7 => Some ARenderShape
  | 8 => Some ARenderSize | 9 => Some AHealth | 10 => Some AInitialHealth
  | 11 => Some AViewRange | 12 => Some AMoveRange | 13 => Some AAttackRange
  | 14 => Some AAttackStrength | 15 => Some AAttackAccuracy | 16 => Some ASimultaneousAttacks
  | 17 => Some AInitialAmmo | 18 => Some AAmmo | 19 => Some AOrientation
  | 20 => Some AInitialOrientation | 21 => Some AAgents | 22 => Some AGridRows
  | 23 => Some AGridCols
  | 24 => option_map AAttackMapping (sxZs param)
  | 25 => option_map ATargetMapping (sxZs param)
  | 26 => option_map ABarrierEncodings (sxZs param)
  | 27 => option_map AFreeEncodings (sxZs param)
  | 28 => option_map ANullAction (dec_nspace param)
  | 29 => option_map ANullObservation (dec_nspace param)
  | 30 => Some AComponentAgents
  | _ => None
  end.

(* the code's check of attribute a on value v *)
Definition validate (a : attr) (v : pyval) : outcome :=
  match a with
  | AId => validate_id v | ASeed => validate_seed v | AActive => validate_active v
  | AEncoding => validate_encoding v | AInitialPosition => validate_initial_position v
  | ABlocking => validate_blocking v | ARenderShape => validate_render_shape v
  | ARenderSize => validate_render_size v | AHealth => validate_health v
  | AInitialHealth => validate_initial_health v | AViewRange => validate_view_range v
  | AMoveRange => validate_move_range v | AAttackRange => validate_attack_range v
  | AAttackStrength => validate_attack_strength v
  | AAttackAccuracy => validate_attack_accuracy v
  | ASimultaneousAttacks => validate_simultaneous_attacks v
  | AInitialAmmo => validate_initial_ammo v | AAmmo => validate_ammo v
  | AOrientation => validate_orientation v
  | AInitialOrientation => validate_initial_orientation v
  | AAgents => validate_agents v
  | AGridRows | AGridCols => validate_grid_dim v
  | AAttackMapping e => validate_attack_mapping e v
  | ATargetMapping e => validate_target_mapping e v
  | ABarrierEncodings e => validate_barrier_encodings e v
  | AFreeEncodings e => validate_free_encodings e v
  | ANullAction s | ANullObservation s => validate_null_point s v
  | AComponentAgents => validate_component_agents v
  end.

(* the documented domain of attribute a *)
Definition domain (a : attr) (v : pyval) : bool :=
  match a with
  | AId => dom_id v | ASeed => dom_seed v | AActive | ABlocking => dom_bool v
  | AEncoding => dom_encoding v | AInitialPosition => dom_initial_position v
  | ARenderShape => dom_render_shape v
  | ARenderSize | AGridRows | AGridCols => dom_positive_int v
  | AHealth => dom_number v | AInitialHealth => dom_initial_health v
  | AViewRange | AMoveRange | AAttackRange => dom_range v
  | AAttackStrength | AAttackAccuracy => dom_unit v
  | ASimultaneousAttacks => dom_nonneg_int v
  | AInitialAmmo | AAmmo => dom_int v
  | AOrientation => dom_orientation v | AInitialOrientation => dom_initial_orientation v
  | AAgents => dom_agents v
  | AAttackMapping e => dom_attack_mapping e v
  | ATargetMapping e => dom_target_mapping e v
  | ABarrierEncodings e | AFreeEncodings e => dom_encodings_opt e v
  | ANullAction s | ANullObservation s => dom_null_point s v
  | AComponentAgents => dom_agents v
  end.

(* property checker, configuration part: the value was accepted exactly when it lies in the
   documented domain (any exception counts as a rejection) *)
Definition chk_C19_validate (a : attr) (v : pyval) (code : Z) : bool :=
  Bool.eqb (code =? 0) (domain a v).

(* input (attr-code param value) -> (code) *)
Definition run_validate (x : sx) : sx :=
  match x with
  | L [A c; xp; xv] =>
      match dec_attr c xp, dec_py xv with
      | Some a, Some v => L [A (outcome_code (validate a v))]
      | _, _ => sx_err
      end
  | _ => sx_err
  end.

Definition run_chk_validate (x : sx) : sx :=
  match x with
  | L [L [A c; xp; xv]; L [A code]] =>
      match dec_attr c xp, dec_py xv with
      | Some a, Some v => if chk_C19_validate a v code then A 1 else A (-1)
      | _, _ => A (-9)
      end
  | _ => A (-9)
  end.

(* ---- overlap component ------------------------------------------------------------------
   input  (table universe queries): table = a Python value, universe = list of encodings
          covering every int the table mentions, queries = ((a (occupant encodings)) ..)
   output (0 (keys elements) matrix results) when the setter accepts:
            keys/elements = number of keys / of set elements of Grid._overlapping,
            matrix[i][j]  = universe[j] in _overlapping.get(universe[i], {}),
            results[k]    = Grid.query for query k;
          (code) when it raises *)
Definition dec_query (x : sx) : option (Z * list Z) :=
  match x with
  | L [A a; xo] => option_map (fun o => (a, o)) (sxZs xo)
  | _ => None
  end.

Record ov_beh := { ob_counts : Z * Z; ob_matrix : list (list bool); ob_results : list bool }.

Definition overlap_behaviour (v : pyval) (univ : list Z) (qs : list (Z * list Z))
  : outcome * ov_beh :=
  let (o, t) := overlap_setter v in
  (o, {| ob_counts := (Z.of_nat (length t),
                       fold_right Z.add 0 (map (fun kv => Z.of_nat (length (snd kv))) t));
         ob_matrix := map (fun a => map (fun b => ov_allowed t a b) univ) univ;
         ob_results := map (fun q => ov_query t (fst q) (snd q)) qs |}).

Fixpoint bl_eqb (a b : list bool) : bool :=
  match a, b with
  | [], [] => true
  | x :: a', y :: b' => Bool.eqb x y && bl_eqb a' b'
  | _, _ => false
  end.
Fixpoint bll_eqb (a b : list (list bool)) : bool :=
  match a, b with
  | [], [] => true
  | x :: a', y :: b' => bl_eqb x y && bll_eqb a' b'
  | _, _ => false
  end.

Definition transpose_ok (univ : list Z) (m : list (list bool)) : bool :=
  (* m[i][j] = m[j][i] for all i, j *)
  forallb (fun i => forallb (fun j =>
      Bool.eqb (nth j (nth i m []) false) (nth i (nth j m []) false))
    (seq 0 (length univ))) (seq 0 (length univ)).

(* queries (a, [b]) and (b, [a]) got the same answer *)
Definition query_pairs_ok (qs : list (Z * list Z)) (rs : list bool) : bool :=
  let qr := combine qs rs in
  forallb (fun x => forallb (fun y =>
      match snd (fst x), snd (fst y) with
      | [b], [a'] => if (fst (fst x) =? a') && (fst (fst y) =? b)
                     then Bool.eqb (snd x) (snd y) else true
      | _, _ => true
      end) qr) qr.

(* clauses: 1 accepted iff well-formed table; 2 reported relation = either-direction closure
   of the supplied table; 3 reported relation symmetric; 4 query = every occupant related;
   5 single-occupant queries symmetric.  Returns 0 when all hold, else the clause number. *)
Definition chk_C19_overlap (v : pyval) (univ : list Z) (qs : list (Z * list Z))
           (o : outcome) (beh : ov_beh) : Z :=
  if negb (forallb (fun z => memZ z univ) (mentioned v)) then 9
  else if negb (Bool.eqb (accepted o) (dom_overlapping v)) then 1
  else if negb (accepted o) then 0
  else if negb (bll_eqb (ob_matrix beh)
                        (map (fun a => map (fun b => related v a b) univ) univ)) then 2
  else if negb (transpose_ok univ (ob_matrix beh)) then 3
  else if negb (bl_eqb (ob_results beh)
                       (map (fun q => forallb (related v (fst q)) (snd q)) qs)) then 4
  else if negb (query_pairs_ok qs (ob_results beh)) then 5
  else 0.

Definition enc_ov_beh (o : outcome) (b : ov_beh) : sx :=
  match o with
  | Accept => L [A 0; L [A (fst (ob_counts b)); A (snd (ob_counts b))];
                 L (map ofBs (ob_matrix b)); ofBs (ob_results b)]
  | _ => L [A (outcome_code o)]
  end.

Definition dec_ov_beh (x : sx) : option (outcome * ov_beh) :=
  let none := {| ob_counts := (0, 0); ob_matrix := []; ob_results := [] |} in
  match x with
  | L [A 0; L [A nk; A ne]; L xm; xr] =>
      match all_some (map sxBs xm), sxBs xr with
      | Some m, Some r => Some (Accept, {| ob_counts := (nk, ne); ob_matrix := m; ob_results := r |})
      | _, _ => None
      end
  | L [A 1] => Some (Reject, none)
  | L [A 6] => Some (RaiseValue, none)
  | L [A 7] => Some (RaiseType, none)
  | L [A _] => Some (RaiseOther, none)
  | _ => None
  end.

Definition dec_ov_input (x : sx) : option (pyval * list Z * list (Z * list Z)) :=
  match x with
  | L [xv; xu; L xq] =>
      match dec_py xv, sxZs xu, all_some (map dec_query xq) with
      | Some v, Some u, Some qs => if nodupZ (int_keys v) then Some (v, u, qs) else None
      | _, _, _ => None
      end
  | _ => None
  end.

Definition run_overlap (x : sx) : sx :=
  match dec_ov_input x with
  | Some (v, u, qs) => let (o, b) := overlap_behaviour v u qs in enc_ov_beh o b
  | None => sx_err
  end.

Definition run_chk_overlap (x : sx) : sx :=
  match x with
  | L [xi; xb] =>
      match dec_ov_input xi, dec_ov_beh xb with
      | Some (v, u, qs), Some (o, b) =>
          let k := chk_C19_overlap v u qs o b in if k =? 0 then A 1 else A (- k)
      | _, _ => A (-9)
      end
  | _ => A (-9)
  end.

(* DISPATCH: 1901 => run_validate *)
(* DISPATCH: 1902 => run_chk_validate *)
(* DISPATCH: 1903 => run_overlap *)
(* DISPATCH: 1904 => run_chk_overlap *)
