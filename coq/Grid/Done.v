(* Model of abmarl/sim/gridworld/done.py: ActiveDone, TargetAgentOverlapDone,
   TargetAgentInactiveDone, TargetEncodingInactiveDone, OneTeamRemainingDone
   (get_done / get_all_done), plus the custom component the harness registers.
   A population is the list of agents in sim.agents order; an agent is named by its index.
   [None] stands for the KeyError raised by target_mapping[agent.id].
   No proofs here (see Proofs/Done_proofs.v). *)
From Coq Require Import ZArith List Bool.
From Abm Require Import Base.Sx Grid.Overlap Grid.Amap.
Import ListNotations.
Open Scope Z_scope.

Record agent := mkAgent {
  a_enc : Z;                    (* agent.encoding *)
  a_active : bool;              (* agent.active *)
  a_pos : option (Z * Z)        (* agent.position; None when the attribute holds None *)
}.
Definition pop := list agent.

(* np.array_equal on two positions (None only equals None) *)
Definition pos_eqb (p q : option (Z * Z)) : bool :=
  match p, q with
  | Some (r, c), Some (r', c') => (r =? r') && (c =? c')
  | None, None => true
  | _, _ => false
  end.

(* target of an encoding: an int is upgraded to a one-element set by the setter *)
Inductive tgt := TInt (z : Z) | TSet (s : list Z).
Definition tgt_set (t : tgt) : list Z := match t with TInt z => [z] | TSet s => s end.

Definition atmap := list (nat * nat).     (* agent id -> target agent id *)
Definition etmap := list (Z * tgt).       (* encoding -> target encodings *)

Inductive dcomp :=
| DActive
| DOverlap (tm : atmap)
| DTgtInactive (tm : atmap)
| DEncInactive (tm : etmap) (one : bool)
| DOneTeam
| DCustom (row : Z).

(* all([...]) over a list that was built completely first: any exception wins *)
Fixpoint all_list (l : list (option bool)) : option bool :=
  match l with
  | [] => Some true
  | None :: _ => None
  | Some b :: r => match all_list r with Some b' => Some (b && b') | None => None end
  end.

(* ---- ActiveDone ---------------------------------------------------------------------- *)
Definition active_done (p : pop) (i : nat) : option bool :=
  match nth_error p i with Some a => Some (negb (a_active a)) | None => None end.

(* for agent in agents.values(): if agent.active: return False;  return True *)
Fixpoint active_all_done (p : pop) : bool :=
  match p with
  | [] => true
  | a :: r => if a_active a then false else active_all_done r
  end.

(* ---- TargetAgentOverlapDone / TargetAgentInactiveDone -------------------------------- *)
(* self.agents[self.target_mapping[agent.id]] *)
Definition target_of (p : pop) (tm : atmap) (i : nat) : option agent :=
  match am_get Nat.eqb tm i with Some t => nth_error p t | None => None end.

Definition overlap_done (p : pop) (tm : atmap) (i : nat) : option bool :=
  match nth_error p i, target_of p tm i with
  | Some a, Some b => Some (pos_eqb (a_pos a) (a_pos b))
  | _, _ => None
  end.

Definition overlap_all_done (p : pop) (tm : atmap) : option bool :=
  all_list (map (fun kv => overlap_done p tm (fst kv)) tm).

Definition tgtinactive_done (p : pop) (tm : atmap) (i : nat) : option bool :=
  match nth_error p i, target_of p tm i with
  | Some _, Some b => Some (negb (a_active b))
  | _, _ => None
  end.

Definition tgtinactive_all_done (p : pop) (tm : atmap) : option bool :=
  all_list (map (fun kv => tgtinactive_done p tm (fst kv)) tm).

(* ---- TargetEncodingInactiveDone ------------------------------------------------------- *)
(* {agent.encoding for agent in agents.values() if agent.active} *)
Definition active_encodings (p : pop) : list Z :=
  fold_left (fun s a => if a_active a then set_add (a_enc a) s else s) p [].

Definition intersection (a b : list Z) : list Z := filter (fun x => memZ x b) a.

(* False if set.intersection(active_encodings, target_encodings) else True *)
Definition team_done (p : pop) (t : list Z) : bool :=
  match intersection (active_encodings p) t with [] => true | _ :: _ => false end.

Definition enc_done (p : pop) (tm : etmap) (i : nat) : option bool :=
  match nth_error p i with
  | None => None
  | Some a =>
      match am_get Z.eqb tm (a_enc a) with
      | None => Some false
      | Some t => Some (team_done p (tgt_set t))
      end
  end.

Definition enc_all_done (p : pop) (tm : etmap) (one : bool) : bool :=
  let done_encodings := map (fun kv => team_done p (tgt_set (snd kv))) tm in
  if one then existsb (fun b => b) done_encodings else forallb (fun b => b) done_encodings.

(* ---- OneTeamRemainingDone (get_done inherited from ActiveDone) ------------------------- *)
Definition oneteam_all_done (p : pop) : bool := (length (active_encodings p) <=? 1)%nat.

(* ---- the harness's registered custom component (harness/gen_C17.py: TopRowDone) -------- *)
Definition custom_done_agent (row : Z) (a : agent) : bool :=
  match a_pos a with Some (r, _) => r =? row | None => false end.
Definition custom_done (p : pop) (row : Z) (i : nat) : option bool :=
  match nth_error p i with Some a => Some (custom_done_agent row a) | None => None end.
Definition custom_all_done (p : pop) (row : Z) : bool :=
  forallb (fun a => custom_done_agent row a) (filter a_active p).

(* ---- dispatch --------------------------------------------------------------------------- *)
Definition get_done (p : pop) (d : dcomp) (i : nat) : option bool :=
  match d with
  | DActive | DOneTeam => active_done p i
  | DOverlap tm => overlap_done p tm i
  | DTgtInactive tm => tgtinactive_done p tm i
  | DEncInactive tm _ => enc_done p tm i
  | DCustom row => custom_done p row i
  end.

Definition get_all_done (p : pop) (d : dcomp) : option bool :=
  match d with
  | DActive => Some (active_all_done p)
  | DOverlap tm => overlap_all_done p tm
  | DTgtInactive tm => tgtinactive_all_done p tm
  | DEncInactive tm one => Some (enc_all_done p tm one)
  | DOneTeam => Some (oneteam_all_done p)
  | DCustom row => Some (custom_all_done p row)
  end.

(* ==== independent specification, as booleans over the whole population ================== *)
Definition sp_target_ok (p : pop) (tm : atmap) (i : nat) (f : agent -> agent -> bool) : option bool :=
  match nth_error p i with
  | None => None
  | Some a =>
      match find (fun kv => Nat.eqb (fst kv) i) tm with
      | None => None
      | Some kv => match nth_error p (snd kv) with Some b => Some (f a b) | None => None end
      end
  end.

(* no active agent carries one of the encodings t *)
Definition sp_all_inactive (p : pop) (t : list Z) : bool :=
  forallb (fun b => negb (a_active b) || negb (memZ (a_enc b) t)) p.

Definition sp_done (p : pop) (d : dcomp) (i : nat) : option bool :=
  match d with
  | DActive | DOneTeam => option_map (fun a => negb (a_active a)) (nth_error p i)
  | DOverlap tm => sp_target_ok p tm i (fun a b => pos_eqb (a_pos a) (a_pos b))
  | DTgtInactive tm => sp_target_ok p tm i (fun _ b => negb (a_active b))
  | DEncInactive tm _ =>
      option_map (fun a => match find (fun kv => fst kv =? a_enc a) tm with
                           | Some kv => sp_all_inactive p (tgt_set (snd kv))
                           | None => false
                           end) (nth_error p i)
  | DCustom row => option_map (custom_done_agent row) (nth_error p i)
  end.

Definition sp_all_done (p : pop) (d : dcomp) : option bool :=
  match d with
  | DActive => Some (forallb (fun a => negb (a_active a)) p)
  | DOverlap tm =>
      if forallb (fun kv => match sp_done p d (fst kv) with Some _ => true | None => false end) tm
      then Some (forallb (fun kv => match sp_done p d (fst kv) with Some b => b | None => false end) tm)
      else None
  | DTgtInactive tm =>
      if forallb (fun kv => match sp_done p d (fst kv) with Some _ => true | None => false end) tm
      then Some (forallb (fun kv => match sp_done p d (fst kv) with Some b => b | None => false end) tm)
      else None
  | DEncInactive tm one =>
      Some (if one then existsb (fun kv => sp_all_inactive p (tgt_set (snd kv))) tm
            else forallb (fun kv => sp_all_inactive p (tgt_set (snd kv))) tm)
  | DOneTeam =>
      Some (forallb (fun a => forallb (fun b =>
              negb (a_active a) || negb (a_active b) || (a_enc a =? a_enc b)) p) p)
  | DCustom row => Some (forallb (fun a => negb (a_active a) || custom_done_agent row a) p)
  end.

(* ---- wire -------------------------------------------------------------------------------
   agent  (enc active haspos r c)
   comp   (0) | (1 ((i t) ...)) | (2 ((i t) ...)) | (3 one ((enc 0 t) | (enc 1 t1 t2 ...) ...))
          | (4) | (5 row)
   optional boolean: 0 / 1 / -5 (KeyError)                                               *)
Definition dec_agent (x : sx) : option agent :=
  match x with
  | L [A e; xa; A hp; A r; A c] =>
      match sxB xa with
      | Some act => Some (mkAgent e act (if hp =? 0 then None else Some (r, c)))
      | None => None
      end
  | _ => None
  end.
Definition dec_pop (x : sx) : option pop :=
  match x with L l => all_some (map dec_agent l) | A _ => None end.

Definition sxNatPair (x : sx) : option (nat * nat) :=
  match x with
  | L [a; b] => match sxNat a, sxNat b with Some i, Some t => Some (i, t) | _, _ => None end
  | _ => None
  end.
Definition dec_atmap (x : sx) : option atmap :=
  match x with L l => all_some (map sxNatPair l) | A _ => None end.

Definition dec_eentry (x : sx) : option (Z * tgt) :=
  match x with
  | L [A e; A 0; A t] => Some (e, TInt t)
  | L (A e :: A 1 :: ts) =>
      match all_some (map sxZ ts) with Some s => Some (e, TSet s) | None => None end
  | _ => None
  end.
Definition dec_etmap (x : sx) : option etmap :=
  match x with L l => all_some (map dec_eentry l) | A _ => None end.

Definition dec_dcomp (x : sx) : option dcomp :=
  match x with
  | L [A 0] => Some DActive
  | L [A 1; xt] => option_map DOverlap (dec_atmap xt)
  | L [A 2; xt] => option_map DTgtInactive (dec_atmap xt)
  | L [A 3; xo; xt] =>
      match sxB xo, dec_etmap xt with
      | Some one, Some tm => Some (DEncInactive tm one)
      | _, _ => None
      end
  | L [A 4] => Some DOneTeam
  | L [A 5; A row] => Some (DCustom row)
  | _ => None
  end.

Definition enc_ob (o : option bool) : sx :=
  match o with Some true => A 1 | Some false => A 0 | None => A (-5) end.
Definition dec_ob (x : sx) : option (option bool) :=
  match x with A 1 => Some (Some true) | A 0 => Some (Some false) | A (-5) => Some None
             | _ => None end.

Definition ob_eqb (a b : option bool) : bool :=
  match a, b with
  | Some x, Some y => Bool.eqb x y
  | None, None => true
  | _, _ => false
  end.

(* input (pop comp) -> ((get_done of every agent ...) get_all_done) *)
Definition done_behaviour (p : pop) (d : dcomp) : list (option bool) * option bool :=
  (map (get_done p d) (seq 0 (length p)), get_all_done p d).

Definition run_done (x : sx) : sx :=
  match x with
  | L [xp; xd] =>
      match dec_pop xp, dec_dcomp xd with
      | Some p, Some d =>
          let b := done_behaviour p d in L [L (map enc_ob (fst b)); enc_ob (snd b)]
      | _, _ => sx_err
      end
  | _ => sx_err
  end.

(* clause 1: one answer per agent; clause 2: every get_done answer is the documented condition;
   clause 3: get_all_done is the documented condition *)
Definition chk_C17_done (p : pop) (d : dcomp) (b : list (option bool) * option bool) : Z :=
  if negb (length (fst b) =? length p)%nat then -1
  else if negb (forallb (fun iv => ob_eqb (snd iv) (sp_done p d (fst iv)))
                        (combine (seq 0 (length p)) (fst b))) then -2
  else if negb (ob_eqb (snd b) (sp_all_done p d)) then -3
  else 1.

Definition run_chk_C17_done (x : sx) : sx :=
  match x with
  | L [L [xp; xd]; L [L xs; xa]] =>
      match dec_pop xp, dec_dcomp xd, all_some (map dec_ob xs), dec_ob xa with
      | Some p, Some d, Some ds, Some a => A (chk_C17_done p d (ds, a))
      | _, _, _, _ => A (-9)
      end
  | _ => A (-9)
  end.

(* DISPATCH: 1701 => run_done *)
(* DISPATCH: 1702 => run_chk_C17_done *)
