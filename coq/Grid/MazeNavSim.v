(* Third end-to-end model: abmarl/examples/sim/multi_maze_navigation.py, MultiMazeNavigationSim -- a plain
   GridWorldSimulation with MazePlacementState + MoveActor + PositionCenteredEncodingObserver and its
   own reset / step / getters -- as an instance of the abstract `simulation` record of Ctl/Managers.v.
   It is the first instance whose RESET IS COMPUTED by the placement model (Grid/Place.v, KMaze:
   generate_maze around the target, barrier-encoded agents on wall cells, free-encoded agents on
   passage cells) from recorded draws, instead of being read from a start-state oracle.

   Agents (index = listing order of sim.agents) are of two classes:
     MultiMazeNavigationAgent (GridObservingAgent + MovingAgent, move_range 1): the learning agents;
     GridWorldAgent           (the target, the barriers): no action, no observation, no reward entry.
   The simulation has no HealthState: the agents have no `health` attribute at all and `active` keeps
   the value True of the constructor.  In the grid state of Grid/Grid.v such an agent is written with
   a_health = HD, a_active = true, no ammunition, no orientation (n_blank_agent); nothing in this file
   writes anything but a_pos and the cells.

   Components reused, not re-modelled: Grid/Place.v (Place.reset with KMaze = MazePlacementState.reset),
   Grid/FullReset.v (zipw / grid_of_log: the grid and the positions after the placement trace),
   Grid/Move.v (move_free = MoveActor), Grid/Observe.v (obs_centered), Grid/Vis.v (the mask),
   Grid/Done.v (pos_eqb = np.array_equal on positions).
   Rewards are integers in units of 1/100; self.reward is a table by agent index with None = no key
   (only learning agents get a key at reset; get_reward CREATES the key of any agent standing on the
   target's cell).  Randomness: the state carries the stream of reset draws (one Place.draws per
   coming reset: shuffle result, start cell, chosen maze cells, chosen placement cells) and the
   observer's draws.  An exception arm (KeyError of a missing agent / reward key, an agent without
   position, a reset that raises) or a missing / inadmissible recorded draw sets the flag; the
   correspondence run requires the flag to stay clear.  No proofs here (Proofs/MazeNavSim_proofs.v). *)
From Coq Require Import ZArith List Bool Arith.
From Abm Require Import Base.Sx Grid.Overlap Grid.Grid Grid.Move Grid.Attack Grid.Vis Grid.AttackRun
  Grid.Observe Grid.Play Grid.BattleSim Grid.FullReset Ctl.Managers.
From Abm Require Grid.Maze Grid.Place Grid.Done.
Import ListNotations.
Open Scope Z_scope.

(* ---- configuration ----------------------------------------------------------------------------- *)
(* n_view = Some v: a MultiMazeNavigationAgent with view range v (already resolved); None: a plain
   GridWorldAgent *)
Record nagent := { n_blocking : bool; n_view : option Z }.
Record ncfg := {
  nc_place : Place.config;        (* the arguments of MazePlacementState + Grid(rows, cols, overlapping) + the
                                     agents' encodings / initial positions, in sim.agents order *)
  nc_agents : list nagent;        (* the same agents: blocking, class *)
  nc_self : bool                  (* observe_self of the observer *)
}.

Definition n_count (cf : ncfg) : nat := length (nc_agents cf).
(* isinstance(agent, MultiMazeNavigationAgent): the only MovingAgent / GridObservingAgent class here,
   hence also MoveActor._supported_agent, the observer's _supported_agent and is_agent *)
Definition is_nav (cf : ncfg) (i : nat) : bool :=
  match nth_error (nc_agents cf) i with
  | Some a => match n_view a with Some _ => true | None => false end
  | None => false
  end.
Definition n_target (cf : ncfg) : nat := Place.c_target (nc_place cf).

Record nstate := {
  ns_grid : gstate;
  ns_rew : list (option Z);       (* self.reward, units of 1/100, by agent index; None = no key *)
  ns_resets : list Place.draws;   (* oracle: the draws of each coming reset *)
  ns_obsorc : list Z;             (* oracle: observer draws *)
  ns_bad : bool
}.

Definition n_with_grid (st : nstate) (g : gstate) : nstate :=
  {| ns_grid := g; ns_rew := ns_rew st; ns_resets := ns_resets st; ns_obsorc := ns_obsorc st;
     ns_bad := ns_bad st |}.
Definition n_with_rew (st : nstate) (r : list (option Z)) : nstate :=
  {| ns_grid := ns_grid st; ns_rew := r; ns_resets := ns_resets st; ns_obsorc := ns_obsorc st;
     ns_bad := ns_bad st |}.
Definition n_with_obsorc (st : nstate) (o : list Z) : nstate :=
  {| ns_grid := ns_grid st; ns_rew := ns_rew st; ns_resets := ns_resets st; ns_obsorc := o;
     ns_bad := ns_bad st |}.
Definition n_mark_bad (st : nstate) : nstate :=
  {| ns_grid := ns_grid st; ns_rew := ns_rew st; ns_resets := ns_resets st; ns_obsorc := ns_obsorc st;
     ns_bad := true |}.

(* ---- reset: self.position_state.reset(); self.reward = {agent.id: 0 for ... if is_agent(agent)} --- *)
(* the component's agents dict is sim.agents; with randomize_placement_order the shuffle starts from
   the sorted ids, its result is the recorded permutation whatever the order was before *)
Definition n_listing (cf : ncfg) : list nat := seq 0 (length (Place.c_agents (nc_place cf))).

Definition n_placement (cf : ncfg) (d : Place.draws) : list nat * option Maze.mgrid * Place.pres :=
  Place.reset (nc_place cf) (n_listing cf) d.

(* Grid.reset and the successful Grid.place calls of the trace: the cells hold the agents placed there
   in insertion order, every agent's position is the cell of its placement; nothing else is written *)
Definition n_position_reset (cf : ncfg) (d : Place.draws) (g : gstate) : option gstate :=
  match snd (n_placement cf d) with
  | Place.POk s =>
      let log := Place.ps_log s in
      Some {| g_rows := g_rows g; g_cols := g_cols g; g_ov := g_ov g;
              g_agents := zipw (fun a p => with_pos a (Some p)) (g_agents g)
                               (Place.positions_of (nc_place cf) log);
              g_cells := grid_of_log (nc_place cf) log |}
  | Place.PErr _ _ => None
  end.

Definition n_zero (cf : ncfg) : list (option Z) :=
  map (fun a => match n_view a with Some _ => Some 0 | None => None end) (nc_agents cf).

(* a reset that raises (no cell left, refused initial position, uncovered encoding) or finds no /
   an inadmissible draw: flag, the grid is left alone, self.reward is not reached *)
Definition mn_reset (cf : ncfg) (st : nstate) : nstate :=
  match ns_resets st with
  | d :: rest =>
      match n_position_reset cf d (ns_grid st) with
      | Some g => {| ns_grid := g; ns_rew := n_zero cf; ns_resets := rest; ns_obsorc := ns_obsorc st;
                     ns_bad := ns_bad st |}
      | None => {| ns_grid := ns_grid st; ns_rew := ns_rew st; ns_resets := rest;
                   ns_obsorc := ns_obsorc st; ns_bad := true |}
      end
  | [] => {| ns_grid := ns_grid st; ns_rew := ns_rew st; ns_resets := []; ns_obsorc := ns_obsorc st;
             ns_bad := true |}
  end.

(* what the placement component did in the coming reset, as C13 observes it *)
Definition mn_outcome (cf : ncfg) (st : nstate) : option Place.outcome :=
  match ns_resets st with
  | d :: _ => Some (Place.outcome_of (nc_place cf) (n_placement cf d))
  | [] => None
  end.

(* ---- step ------------------------------------------------------------------------------------------
   for agent_id, action in action_dict.items():
       agent = self.agents[agent_id]
       move_result = self.move_actor.process_action(agent, action)
       if not move_result: self.reward[agent_id] -= 0.1
       self.reward[agent_id] -= 0.01                                                                   *)
(* self.reward[i] -= d : KeyError without key *)
Definition n_pay (st : nstate) (i : nat) (d : Z) : nstate :=
  match nth_error (ns_rew st) i with
  | Some (Some x) => n_with_rew st (upd_nth (ns_rew st) i (Some (x - d)))
  | _ => n_mark_bad st
  end.

Definition mn_act_one (cf : ncfg) (st : nstate) (ia : nat * cell) : nstate :=
  let i := fst ia in
  match agent (ns_grid st) i with
  | None => n_mark_bad st                                    (* self.agents[agent_id]: KeyError *)
  | Some _ =>
      if is_nav cf i then                                    (* MoveActor._supported_agent *)
        match move_free (ns_grid st) i (snd ia) with
        | MOk true g' => n_pay (n_with_grid st g') i 1
        | MOk false g' => n_pay (n_pay (n_with_grid st g') i 10) i 1
        | _ => n_mark_bad st                                 (* no position yet: None + array *)
        end
      else n_pay (n_pay st i 10) i 1                         (* process_action returns None *)
  end.

Definition mn_step (cf : ncfg) (st : nstate) (acts : list (nat * cell)) : nstate :=
  fold_left (mn_act_one cf) acts st.

(* ---- getters ------------------------------------------------------------------------------------------ *)
(* np.array_equal(self.agents[agent_id].position, self.position_state.target_agent.position);
   None: unknown id (KeyError) or a position that was never assigned (AttributeError) *)
Definition on_target (cf : ncfg) (g : gstate) (i : nat) : option bool :=
  match agent g i, agent g (n_target cf) with
  | Some a, Some t =>
      match a_pos a, a_pos t with
      | Some _, Some _ => Some (Done.pos_eqb (a_pos a) (a_pos t))
      | _, _ => None
      end
  | _, _ => None
  end.

(* get_done, for every id: a navigating agent, the target itself (always True), a barrier (True only
   when it stands on the target's cell); the record's done getter is a pure boolean: an exception
   reads as False *)
Definition done_on (cf : ncfg) (g : gstate) (i : nat) : bool :=
  match on_target cf g i with Some b => b | None => false end.
Definition mn_done (cf : ncfg) (st : nstate) (i : nat) : bool := done_on cf (ns_grid st) i.

(* all([self.get_done(agent.id) for agent in self.agents.values() if isinstance(agent, MMNAgent)]) *)
Definition mn_all (cf : ncfg) (st : nstate) : bool :=
  forallb (fun i => negb (is_nav cf i) || mn_done cf st i) (seq 0 (n_count cf)).

(* reward = 1 if self.get_done(agent_id) else self.reward[agent_id]; self.reward[agent_id] = 0 *)
Definition mn_reward (cf : ncfg) (st : nstate) (i : nat) : Z * nstate :=
  match on_target cf (ns_grid st) i with
  | Some true =>
      if (i <? length (ns_rew st))%nat then (100, n_with_rew st (upd_nth (ns_rew st) i (Some 0)))
      else (100, n_mark_bad st)                              (* no self.reward before the first reset *)
  | Some false =>
      match nth_error (ns_rew st) i with
      | Some (Some x) => (x, n_with_rew st (upd_nth (ns_rew st) i (Some 0)))
      | _ => (0, n_mark_bad st)                              (* self.reward[agent_id]: KeyError *)
      end
  | None => (0, n_mark_bad st)
  end.

(* the dict copy of self.grid_observer.get_obs(agent): {} for an agent that is not a GridObservingAgent *)
Definition mn_obs (cf : ncfg) (st : nstate) (i : nat) : list (list Z) * nstate :=
  match nth_error (nc_agents cf) i with
  | Some b =>
      match n_view b with
      | None => ([], st)
      | Some v =>
          match obs_centered vis_model (ns_grid st) i v (nc_self cf) (ns_obsorc st) with
          | OOk arr o' => (arr, n_with_obsorc st o')
          | OBad | OErr => ([], n_mark_bad st)
          end
      end
  | None => ([], n_mark_bad st)
  end.

(* the navigating agents are the learning agents; not a DynamicOrderSimulation *)
Definition mazenav_sim (cf : ncfg) : simulation nstate (list (list Z)) unit cell :=
  {| sim_n := n_count cf;
     sim_learning := is_nav cf;
     sim_reset := mn_reset cf;
     sim_step := mn_step cf;
     sim_obs := mn_obs cf;
     sim_reward := mn_reward cf;
     sim_done := mn_done cf;
     sim_all := mn_all cf;
     sim_info := fun _ _ => tt;
     sim_next := fun _ => [] |}.

(* ---- the simulation object before its first reset ---------------------------------------------------- *)
Definition n_blank_agent (e : Z) (bl : bool) : arec :=
  {| a_enc := e; a_pos := None; a_health := HD; a_active := true; a_ammo := None; a_orient := None;
     a_blocking := bl |}.
Fixpoint n_blank_agents (pas : list Place.agent) (nas : list nagent) : list arec :=
  match pas, nas with
  | pa :: pas', na :: nas' => n_blank_agent (Place.a_enc pa) (n_blocking na) :: n_blank_agents pas' nas'
  | _, _ => []
  end.
Definition n_blank (cf : ncfg) : gstate :=
  empty_grid (Place.c_rows (nc_place cf)) (Place.c_cols (nc_place cf)) (Place.c_ovraw (nc_place cf))
             (n_blank_agents (Place.c_agents (nc_place cf)) (nc_agents cf)).
Definition mn_init (cf : ncfg) (resets : list Place.draws) (oo : list Z) : nstate :=
  {| ns_grid := n_blank cf; ns_rew := []; ns_resets := resets; ns_obsorc := oo; ns_bad := false |}.

(* random.seed / np.random.seed: the draw streams of `st` become those of `src` *)
Definition n_reseed (st src : nstate) : nstate :=
  {| ns_grid := ns_grid st; ns_rew := ns_rew st; ns_resets := ns_resets src;
     ns_obsorc := ns_obsorc src; ns_bad := ns_bad st |}.
Definition n_reseed_m (m : mstate nstate) (src : nstate) : mstate nstate :=
  {| m_sim := n_reseed (m_sim m) src; m_done := m_done m; m_ptr := m_ptr m |}.

(* the coming reset has its draws and does not raise *)
Definition n_next_reset_ok (cf : ncfg) (st : nstate) : bool :=
  match ns_resets st with
  | d :: _ => match n_position_reset cf d (ns_grid st) with Some _ => true | None => false end
  | [] => false
  end.

(* well-formed configuration: what the constructors assert (Place.wf_config), a maze placement, one
   class entry per agent *)
Definition wf_ncfg (cf : ncfg) : bool :=
  Place.wf_config (nc_place cf)
  && match Place.c_kind (nc_place cf) with Place.KMaze => true | _ => false end
  && Nat.eqb (length (nc_agents cf)) (length (Place.c_agents (nc_place cf))).

(* ---- the manager run, recording after every call the grid and, for a reset the manager performed,
   the observable outcome of the placement component ------------------------------------------------- *)
Record nrec := { nr_resp : bresp; nr_grid : gstate; nr_out : option Place.outcome }.

Fixpoint mrun_snap (cf : ncfg) (k : mgr) (m : mstate nstate) (cs : list (call cell))
  : list nrec * mstate nstate :=
  match cs with
  | [] => ([], m)
  | c :: cs' =>
      let (r, m1) := do_call (mazenav_sim cf) k m c in
      let o := match c, r with CReset, RObs _ => mn_outcome cf (m_sim m) | _, _ => None end in
      let (rs, m2) := mrun_snap cf k m1 cs' in
      ({| nr_resp := r; nr_grid := ns_grid (m_sim m1); nr_out := o |} :: rs, m2)
  end.

(* ---- executable forms used by the checker ------------------------------------------------------------- *)
Definition optZ_eqb' (x y : option Z) : bool :=
  match x, y with Some a, Some b => a =? b | None, None => true | _, _ => false end.
Definition arec_eqb (a b : arec) : bool :=
  (a_enc a =? a_enc b) && optcell_eqb (a_pos a) (a_pos b) && (a_health a =? a_health b)
  && Bool.eqb (a_active a) (a_active b) && optZ_eqb' (a_ammo a) (a_ammo b)
  && optZ_eqb' (a_orient a) (a_orient b) && Bool.eqb (a_blocking a) (a_blocking b).
Fixpoint arecs_eqb (l m : list arec) : bool :=
  match l, m with
  | [], [] => true
  | a :: l', b :: m' => arec_eqb a b && arecs_eqb l' m'
  | _, _ => false
  end.

(* clause 305: apart from the positions the agents are the configured ones (encoding, blocking; no
   health / ammunition / orientation attribute, active) *)
Definition n_statics_b (cf : ncfg) (g : gstate) : bool :=
  arecs_eqb (map (fun a => with_pos a None) (g_agents g))
            (n_blank_agents (Place.c_agents (nc_place cf)) (nc_agents cf)).

Definition pos_list (g : gstate) : list (option cell) := map a_pos (g_agents g).
Fixpoint optcells_eqb (l : list (option cell)) (m : list cell) : bool :=
  match l, m with
  | [], [] => true
  | Some p :: l', q :: m' => cell_eqb p q && optcells_eqb l' m'
  | _, _ => false
  end.

(* clause 312: a reported done flag is `stands on the target's cell` in the snapshot *)
Definition done_entry_okb (cf : ncfg) (g : gstate) (kv : Z * Z) : bool :=
  (0 <=? fst kv) && (snd kv =? (if done_on cf g (Z.to_nat (fst kv)) then 1 else 0)).
(* clause 313: a reported reward is 1 for an agent on the target's cell, else an accumulated amount
   (never positive: the accumulator starts at 0 and is only charged) *)
Definition rew_entry_okb (cf : ncfg) (g : gstate) (kv : Z * Z) : bool :=
  (0 <=? fst kv) &&
  match on_target cf g (Z.to_nat (fst kv)) with
  | Some true => snd kv =? 100
  | Some false => snd kv <=? 0
  | None => snd kv =? 0
  end.

(* ---- wire ------------------------------------------------------------------------------------------------
   input  (pcfg agents observe_self draws obschoices kind calls)
     pcfg   as Place.dec_config: (2 rows cols ov ((enc) | (enc r c) ...) (noov rand cluster scatter)
                                  target barrier free)
     agents ((blocking) | (blocking view) ...)       second form: a MultiMazeNavigationAgent
     draws  ((shuffle start maze choice) ...)         one per reset, as Place.dec_draws
     kind   0 AllStepManager | 1 TurnBasedManager
     calls  ((0) | (1 acts shuffled) ...)             acts = ((i dr dc) ...)
   output (bad (record ...))   record = (resp snapshot) | (resp snapshot outcome) after a reset the
          manager performed; resp as BattleSim.enc_bresp, snapshot as Grid.enc_snapshot, outcome as
          Place.enc_outcome *)
Definition dec_nagent (x : sx) : option nagent :=
  match x with
  | L [bl] => option_map (fun b => {| n_blocking := b; n_view := None |}) (sxB bl)
  | L [bl; A v] => option_map (fun b => {| n_blocking := b; n_view := Some v |}) (sxB bl)
  | _ => None
  end.

Definition dec_nkv (x : sx) : option (nat * cell) :=
  match x with
  | L [A i; A dr; A dc] => if i <? 0 then None else Some (Z.to_nat i, (dr, dc))
  | _ => None
  end.
Definition dec_nkvs (x : sx) : option (list (nat * cell)) :=
  match x with L l => all_some (map dec_nkv l) | A _ => None end.
Definition dec_ncall (x : sx) : option (call cell) :=
  match x with
  | L [A 0] => Some CReset
  | L [A 1; a; sh] =>
      match dec_nkvs a, dec_nkvs sh with
      | Some a', Some sh' => Some (CStep a' sh')
      | _, _ => None
      end
  | _ => None
  end.

Record nav_input := {
  mi_cfg : ncfg; mi_draws : list Place.draws; mi_init : nstate; mi_kind : mgr;
  mi_calls : list (call cell) }.

Definition dec_nav (x : sx) : option nav_input :=
  match x with
  | L [xpc; L ags; sf; L ds; ocs; A kind; L cs] =>
      match Place.dec_config xpc, all_some (map dec_nagent ags), sxB sf,
            all_some (map Place.dec_draws ds), sxZs ocs, all_some (map dec_ncall cs) with
      | Some pc, Some ags', Some sf', Some ds', Some ocs', Some cs' =>
          let cf := {| nc_place := pc; nc_agents := ags'; nc_self := sf' |} in
          if wf_ncfg cf && ((kind =? 0) || (kind =? 1)) then
            Some {| mi_cfg := cf; mi_draws := ds'; mi_init := mn_init cf ds' ocs';
                    mi_kind := if kind =? 0 then MAll else MTurn; mi_calls := cs' |}
          else None
      | _, _, _, _, _, _ => None
      end
  | _ => None
  end.

Definition nav_records (i : nav_input) : list nrec * mstate nstate :=
  mrun_snap (mi_cfg i) (mi_kind i) (init (mi_init i)) (mi_calls i).

Definition enc_nrec (r : nrec) : sx :=
  L (enc_bresp (nr_resp r) :: enc_snapshot (nr_grid r)
     :: match nr_out r with Some o => [Place.enc_outcome o] | None => [] end).

Definition run_mazenav (x : sx) : sx :=
  match dec_nav x with
  | Some i =>
      let (rs, m) := nav_records i in
      L [ofB (ns_bad (m_sim m)); L (map enc_nrec rs)]
  | None => sx_err
  end.

(* ---- checker: from the input and the recorded behaviour only ----------------------------------------------
   per record: 301-304 ginvb on the snapshot (the C03 invariant), 305 n_statics_b;
   a reset the manager performed: 1301-1308 the clauses of C13's chk_reset on the reported outcome of
   the placement component (key order, encodings covered, maze grid-shaped and connected to the target,
   placement trace a prefix of the handling order, every placement legal -- inside the grid, wall /
   passage cell, prescribed cell, co-occupants may overlap, cluster / scatter --, grid = trace,
   no_overlap_at_reset, success iff everybody placed) against the recorded draws, 310 the reset did
   not succeed or the snapshot's positions are not the outcome's;
   a step that returned an output: 312 done_entry_okb, 313 rew_entry_okb for every reported agent;
   308 the flag is set, 309 malformed record *)
Definition first_bad {X} (f : X -> bool) (l : list X) : bool := negb (forallb f l).

Fixpoint chk_nav_recs (cf : ncfg) (ds : list Place.draws) (cs : list (call cell)) (recs : list sx) : Z :=
  let pc := nc_place cf in
  match cs, recs with
  | [], [] => 0
  | c :: cs', L (xr :: snap :: xo) :: recs' =>
      match dec_start (Place.c_rows pc) (Place.c_cols pc) (Place.c_ovraw pc) snap with
      | Some g =>
          let c1 := ginvb g in
          if negb (c1 =? 0) then c1
          else if negb (n_statics_b cf g) then 305
          else
            match c, xr, xo with
            | CReset, L [A 0; _], [xo1] =>
                match Place.dec_outcome xo1, ds with
                | Some o, d :: ds' =>
                    if negb (Place.chk_reset pc (n_listing cf) d o)
                    then 1300 + Place.chk_reset_code pc (n_listing cf) d o
                    else if negb (match Place.o_kind o with Place.ROk => true | _ => false end
                                  && optcells_eqb (pos_list g) (Place.o_pos o)) then 310
                    else chk_nav_recs cf ds' cs' recs'
                | _, _ => 309
                end
            | CReset, L [A 3], [] => chk_nav_recs cf ds cs' recs'
            | CStep _ _, L [A 1; _; xrew; xdone; _], [] =>
                match sxPairs xrew, sxPairs xdone with
                | Some rews, Some dones =>
                    if first_bad (done_entry_okb cf g) dones then 312
                    else if first_bad (rew_entry_okb cf g) rews then 313
                    else chk_nav_recs cf ds cs' recs'
                | _, _ => 309
                end
            | CStep _ _, L [A 2], [] | CStep _ _, L [A 3], [] | CStep _ _, L [A 4], [] =>
                chk_nav_recs cf ds cs' recs'
            | _, _, _ => 309
            end
      | None => 309
      end
  | _, _ => 309
  end.

Definition run_chk_mazenav (x : sx) : sx :=
  match x with
  | L [xin; L [A bad; L recs]] =>
      match dec_nav xin with
      | Some i =>
          if negb (bad =? 0) then A (-308)
          else let c := chk_nav_recs (mi_cfg i) (mi_draws i) (mi_calls i) recs in
               if c =? 0 then A 1 else A (- c)
      | None => A (-309)
      end
  | _ => A (-309)
  end.

(* DISPATCH: 2401 => run_mazenav *)
(* DISPATCH: 2402 => run_chk_mazenav *)
