(* Admissible oracles for the attack actors of Grid/Attack.v (property C02, "every action of the
   declared space is processed without error", for EVERY admissible sequence of random answers).

   Grid/Attack.v threads a finite oracle {o_unif; o_choice} through the code and answers ABadOracle
   where a recorded draw is missing or violates numpy's contract.  To say "the oracle answers every
   request the code makes, whatever the request is" the read pattern of a call is made explicit as
   a decision tree (`otree`): a node per np.random.uniform() and per np.random.choice(...) call,
   children indexed by the answer.  `run_tree` consumes a Grid/Attack.v oracle along a tree exactly
   as the model does; t_basic ... t_process are the trees of the model's functions, written in the
   same shape with `tbind` for sequencing (Proofs/AttackAdm_proofs.v proves, for every oracle,
   f ... o = run_tree (t_f ...) o).  On a tree:
     adm t o       the oracle is ADMISSIBLE for the call: along the run every uniform read finds a
                   value (any integer) and every choice read finds an answer that numpy could have
                   given for the request presented at that read (req_ok);
     bad_read t o  some read along the run finds the oracle dry or an answer numpy cannot give;
     satp t P      on EVERY path of admissible answers every request is one numpy accepts (req_pre:
                   population not empty, size >= 0, size <= population without replacement), has an
                   admissible answer, and the value returned at the end satisfies P.
   Also: responders (functions answering any request, any read index) and the transcript `play` of
   a call against a responder.  No proofs here. *)
From Coq Require Import ZArith List Bool Arith.
From Abm Require Import Base.Sx Grid.Overlap Grid.Grid Grid.Attack.
Import ListNotations.
Open Scope Z_scope.

(* ---- np.random.choice requests ------------------------------------------------------------------- *)
Inductive creq :=
| RChoice (l : list nat) (n : Z) (replace : bool)  (* np.random.choice(l, size=n, replace=replace) *)
| ROne (l : list nat)                              (* np.random.choice(l) *)
| RSample (l : list nat) (n : Z).                  (* np.random.choice(l, size=n, replace=False),
                                                      l may name an agent several times *)

(* the answers numpy can give (the tests Grid/Attack.v applies to a recorded answer) *)
Definition req_ok (r : creq) (ch : list nat) : bool :=
  match r with
  | RChoice l n replace => choice_ok l n replace ch
  | ROne l => match ch with [v] => memn v l | _ => false end
  | RSample l n => (Z.of_nat (length ch) =? n) && submultiset ch l
  end.

(* the requests numpy accepts (it raises ValueError on an empty population, a negative size, and
   on size > population when drawing without replacement) *)
Definition req_pre (r : creq) : Prop :=
  match r with
  | RChoice l n replace => l <> [] /\ 0 <= n /\ (replace = false -> n <= Z.of_nat (length l))
  | ROne l => l <> []
  | RSample l n => l <> [] /\ 0 <= n <= Z.of_nat (length l)
  end.

(* ---- read patterns -------------------------------------------------------------------------------- *)
Inductive otree (X : Type) :=
| TRet (x : X)
| TUnif (k : Z -> otree X)                       (* u = np.random.uniform(), in ticks of 1/HD *)
| TChoice (r : creq) (k : list nat -> otree X).  (* ch = np.random.choice(...) *)
Arguments TRet {X} x.
Arguments TUnif {X} k.
Arguments TChoice {X} r k.

Fixpoint tbind {X Y : Type} (t : otree X) (f : X -> otree Y) : otree Y :=
  match t with
  | TRet x => f x
  | TUnif k => TUnif (fun u => tbind (k u) f)
  | TChoice r k => TChoice r (fun ch => tbind (k ch) f)
  end.

Definition pop_unif (o : oracle) (us : list Z) : oracle := {| o_unif := us; o_choice := o_choice o |}.
Definition pop_choice (o : oracle) (cs : list (list nat)) : oracle := {| o_unif := o_unif o; o_choice := cs |}.

(* consuming a Grid/Attack.v oracle along a tree *)
Fixpoint run_tree {X : Type} (t : otree X) (o : oracle) : ares X :=
  match t with
  | TRet x => AOk x o
  | TUnif k => match o_unif o with
               | [] => ABadOracle
               | u :: us => run_tree (k u) (pop_unif o us)
               end
  | TChoice r k => match o_choice o with
                   | [] => ABadOracle
                   | ch :: cs => if req_ok r ch then run_tree (k ch) (pop_choice o cs) else ABadOracle
                   end
  end.

(* the oracle is admissible for the call: every read along the run is answered, every choice
   answer is one numpy can give for the request presented at that read *)
Fixpoint adm {X : Type} (t : otree X) (o : oracle) : Prop :=
  match t with
  | TRet _ => True
  | TUnif k => match o_unif o with
               | [] => False
               | u :: us => adm (k u) (pop_unif o us)
               end
  | TChoice r k => match o_choice o with
                   | [] => False
                   | ch :: cs => req_ok r ch = true /\ adm (k ch) (pop_choice o cs)
                   end
  end.

(* some read along the run finds the oracle dry, or an answer numpy cannot give *)
Fixpoint bad_read {X : Type} (t : otree X) (o : oracle) : Prop :=
  match t with
  | TRet _ => False
  | TUnif k => match o_unif o with
               | [] => True
               | u :: us => bad_read (k u) (pop_unif o us)
               end
  | TChoice r k => match o_choice o with
                   | [] => True
                   | ch :: cs => req_ok r ch = false \/
                                 (req_ok r ch = true /\ bad_read (k ch) (pop_choice o cs))
                   end
  end.

(* every request on every path of admissible answers is acceptable and answerable; P at the end *)
Fixpoint satp {X : Type} (t : otree X) (P : X -> Prop) : Prop :=
  match t with
  | TRet x => P x
  | TUnif k => forall u, satp (k u) P
  | TChoice r k => req_pre r /\ (exists ch, req_ok r ch = true) /\
                   forall ch, req_ok r ch = true -> satp (k ch) P
  end.
Definition sat {X : Type} (t : otree X) : Prop := satp t (fun _ => True).

(* ---- the trees of Grid/Attack.v's functions (same shape, same order of reads) -------------------- *)
Definition t_basic (s : gstate) (cf : acfg) (att v : nat) : otree bool :=
  if Nat.eqb v att then TRet false
  else match agent s v with
       | None => TRet false
       | Some b =>
           if negb (a_active b) then TRet false
           else if negb (memZ (a_enc b) (c_mapping cf)) then TRet false
           else TUnif (fun u => TRet (negb (c_accuracy cf <? u)))
       end.

Fixpoint t_filter (s : gstate) (cf : acfg) (att : nat) (cands : list nat) : otree (list nat) :=
  match cands with
  | [] => TRet []
  | v :: r => tbind (t_basic s cf att v) (fun b =>
              tbind (t_filter s cf att r) (fun l => TRet (if b then v :: l else l)))
  end.

Definition t_subset (cf : acfg) (l : list nat) (n : Z) : otree (list nat) :=
  if negb (c_stacked cf) && (Z.of_nat (length l) <? n) then TRet l
  else TChoice (RChoice l n (c_stacked cf)) (fun ch => TRet ch).

Fixpoint t_scan (vis : vis_fn) (s : gstate) (cf : acfg) (att : nat) (p : cell) (ds : list cell)
  : otree (list nat) :=
  match ds with
  | [] => TRet []
  | d :: r => tbind (t_filter s cf att (cands_at vis s cf att p d)) (fun l =>
              tbind (t_scan vis s cf att p r) (fun l' => TRet (l ++ l')))
  end.

Definition t_binary (vis : vis_fn) (s : gstate) (cf : acfg) (att : nat) (p : cell) (attack : Z)
  : otree (bool * list nat) :=
  if attack =? 0 then TRet (false, [])
  else tbind (t_scan vis s cf att p (window (c_range cf))) (fun l =>
       match l with
       | [] => TRet (true, [])
       | _ => tbind (t_subset cf l attack) (fun h => TRet (true, h))
       end).

Fixpoint t_enc_loop (s : gstate) (cf : acfg) (attackable : list nat) (attack : list (Z * Z))
  : otree (list nat) :=
  match attack with
  | [] => TRet []
  | (e, num) :: r =>
      let bucket := filter (fun v => enc_of s v =? e) attackable in
      match bucket with
      | [] => t_enc_loop s cf attackable r
      | _ => tbind (t_subset cf bucket num) (fun h =>
             tbind (t_enc_loop s cf attackable r) (fun h' => TRet (h ++ h')))
      end
  end.

Definition t_encoding (vis : vis_fn) (s : gstate) (cf : acfg) (att : nat) (p : cell)
           (attack : list (Z * Z)) : otree (bool * list nat) :=
  if forallb (fun kv => snd kv =? 0) attack then TRet (false, [])
  else tbind (t_scan vis s cf att p (window (c_range cf))) (fun l =>
       tbind (t_enc_loop s cf l attack) (fun h => TRet (true, h))).

Fixpoint t_sel_loop (vis : vis_fn) (s : gstate) (cf : acfg) (att : nat) (p : cell)
         (ds : list cell) (attack : list Z) : otree (list nat) :=
  match ds, attack with
  | d :: r, n :: ns =>
      if n =? 0 then t_sel_loop vis s cf att p r ns
      else tbind (t_filter s cf att (cands_at vis s cf att p d)) (fun l =>
           match l with
           | [] => t_sel_loop vis s cf att p r ns
           | _ => tbind (t_subset cf l n) (fun h =>
                  tbind (t_sel_loop vis s cf att p r ns) (fun h' => TRet (h ++ h')))
           end)
  | _, _ => TRet []
  end.

Definition t_selective (vis : vis_fn) (s : gstate) (cf : acfg) (att : nat) (p : cell)
           (attack : list Z) : otree (bool * list nat) :=
  if forallb (fun n => n =? 0) attack then TRet (false, [])
  else tbind (t_sel_loop vis s cf att p (window (c_range cf)) attack) (fun h => TRet (true, h)).

Fixpoint t_criteria_all (s : gstate) (cf : acfg) (att : nat) (cands : list nat)
  : otree (list (nat * bool)) :=
  match cands with
  | [] => TRet []
  | v :: r => tbind (t_basic s cf att v) (fun b =>
              tbind (t_criteria_all s cf att r) (fun l => TRet ((v, b) :: l)))
  end.

Fixpoint t_res_loop (vis : vis_fn) (colmajor : bool) (s : gstate) (cf : acfg) (att : nat) (p : cell)
         (hits : list nat) (attack : list Z) : otree (list nat) :=
  match attack with
  | [] => TRet hits
  | k :: ks =>
      if k =? 0 then t_res_loop vis colmajor s cf att p hits ks
      else
        let d := cell_of_id (c_range cf) colmajor k in
        tbind (t_criteria_all s cf att (cands_at vis s cf att p d)) (fun l =>
        match filter_fresh (c_stacked cf) hits l with
        | [] => t_res_loop vis colmajor s cf att p hits ks
        | attackable =>
            TChoice (ROne attackable) (fun ch =>
              match ch with
              | [v] => t_res_loop vis colmajor s cf att p (hits ++ [v]) ks
              | _ => TRet hits          (* not an answer to np.random.choice(l): never reached *)
              end)
        end)
  end.

Definition t_restricted (vis : vis_fn) (colmajor : bool) (s : gstate) (cf : acfg) (att : nat)
           (p : cell) (attack : list Z) : otree (bool * list nat) :=
  if forallb (fun n => n =? 0) attack then TRet (false, [])
  else tbind (t_res_loop vis colmajor s cf att p [] attack) (fun h => TRet (true, h)).

Definition t_determine (vis : vis_fn) (s : gstate) (cf : acfg) (att : nat) (p : cell)
           (act : aaction) : otree (bool * list nat) :=
  match act with
  | ABinary n => t_binary vis s cf att p n
  | AEncoding l => t_encoding vis s cf att p l
  | ASelective l => t_selective vis s cf att p l
  | ARestricted cm l => t_restricted vis cm s cf att p l
  end.

(* process_action for the placed attacker `a` standing at p: status, hit list, state afterwards *)
Definition t_process (vis : vis_fn) (s : gstate) (cf : acfg) (att : nat) (a : arec) (p : cell)
           (act : aaction) : otree (bool * list nat * gstate) :=
  tbind (t_determine vis s cf att p act) (fun sh =>
    let status := fst sh in
    let hits := snd sh in
    match a_ammo a with
    | None => TRet (status, hits, apply_hits s (c_strength cf) hits)
    | Some am =>
        let k := Z.of_nat (length hits) in
        if am <? k then
          TChoice (RSample hits am) (fun ch =>
            let s1 := set_agent s att (with_ammo a (Some (Z.max 0 (am - am)))) in
            TRet (status, ch, apply_hits s1 (c_strength cf) ch))
        else
          let s1 := set_agent s att (with_ammo a (Some (Z.max 0 (am - k)))) in
          TRet (status, hits, apply_hits s1 (c_strength cf) hits)
    end).

Definition pres_of (r : ares (bool * list nat * gstate)) : pres :=
  match r with
  | AOk (status, hits, s') o' => POk status hits s' o'
  | ABadOracle => PBadOracle
  end.

(* ---- responders: an oracle as a function of the request ------------------------------------------ *)
(* r_unif i: the answer to the i-th uniform read; r_choice j r: the answer to request r when it is
   the j-th choice read *)
Record responder := { r_unif : nat -> Z; r_choice : nat -> creq -> list nat }.

(* whatever the request and the read index: if numpy accepts it and can answer it, the responder
   gives one of numpy's answers (nothing is asked of it on other requests) *)
Definition responsive (rc : responder) : Prop :=
  forall j r, req_pre r -> (exists ch, req_ok r ch = true) -> req_ok r (r_choice rc j r) = true.

(* the call against a responder: the value returned and the transcript of the answers given *)
Fixpoint play {X : Type} (t : otree X) (rc : responder) (i j : nat) : X * (list Z * list (list nat)) :=
  match t with
  | TRet x => (x, ([], []))
  | TUnif k =>
      let u := r_unif rc i in
      let '(x, (us, cs)) := play (k u) rc (S i) j in (x, (u :: us, cs))
  | TChoice r k =>
      let ch := r_choice rc j r in
      let '(x, (us, cs)) := play (k ch) rc i (S j) in (x, (us, ch :: cs))
  end.
