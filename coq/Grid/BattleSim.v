(* End-to-end model: a complete grid-world simulation as an instance of the abstract `simulation`
   record of Ctl/Managers.v.  It transcribes abmarl/examples/sim/team_battle_example.py
   (TeamBattleSim: a SmartGridWorldSimulation with MoveActor + BinaryAttackActor and its own
   `step`) together with the SmartGridWorldSimulation getters of abmarl/sim/gridworld/smart.py
   (get_obs through the PositionCenteredEncodingObserver, read-and-reset get_reward, get_done /
   get_all_done through ActiveDone or OneTeamRemainingDone, get_info = {}).

   The pieces are the existing component models: Grid/Grid.v (state), Grid/Attack.v
   (process_attack with the binary actor), Grid/Move.v (move_free = MoveActor), Grid/Observe.v
   (obs_centered), Grid/Done.v (get_done, get_all_done), Grid/Vis.v (the mask).

   Rewards are integers in units of 1/100 (the example uses 1, 0.1 and 0.01).
   Randomness: the state carries the oracle streams -- uniform draws and np.random.choice answers
   of the attack actor (Attack.oracle), np.random.choice answers of the observer (encodings) -- and
   the stream of start states: `reset` installs the next given start state (what the state
   components produced; the placement logic itself is C13).  A draw that is missing or not
   admissible, or an error arm of a component (agent without a position ...), sets the flag
   bs_bad and leaves the grid alone; the correspondence run requires the flag to stay false.
   No proofs here (Proofs/BattleSim_proofs.v). *)
From Coq Require Import ZArith List Bool Arith.
From Abm Require Import Base.Sx Grid.Overlap Grid.Grid Grid.Move Grid.Attack Grid.Vis Grid.AttackRun
  Grid.Observe Grid.Play Ctl.Managers.
From Abm Require Grid.Done.
Import ListNotations.
Open Scope Z_scope.

(* ---- configuration: per agent the attack parameters and the view range -------------------- *)
Record bagent := { b_att : acfg; b_view : Z }.
Record bcfg := {
  bc_agents : list bagent;        (* in sim.agents order *)
  bc_self : bool;                 (* observe_self of the observer *)
  bc_oneteam : bool               (* done component: OneTeamRemainingDone (true) / ActiveDone *)
}.

(* one agent's action: {"move": array([dr, dc]), "attack": k} *)
Record bact := { ba_move : cell; ba_attack : Z }.

Record bstate := {
  bs_grid : gstate;
  bs_rew : list Z;                (* self.rewards, units of 1/100, by agent index *)
  bs_starts : list gstate;        (* oracle: the state after each coming reset *)
  bs_orc : oracle;                (* oracle: attack actor draws *)
  bs_obsorc : list Z;             (* oracle: observer draws *)
  bs_bad : bool
}.

Definition with_grid (st : bstate) (g : gstate) (r : list Z) (o : oracle) : bstate :=
  {| bs_grid := g; bs_rew := r; bs_starts := bs_starts st; bs_orc := o;
     bs_obsorc := bs_obsorc st; bs_bad := bs_bad st |}.
Definition with_rew (st : bstate) (r : list Z) : bstate :=
  {| bs_grid := bs_grid st; bs_rew := r; bs_starts := bs_starts st; bs_orc := bs_orc st;
     bs_obsorc := bs_obsorc st; bs_bad := bs_bad st |}.
Definition with_obsorc (st : bstate) (o : list Z) : bstate :=
  {| bs_grid := bs_grid st; bs_rew := bs_rew st; bs_starts := bs_starts st; bs_orc := bs_orc st;
     bs_obsorc := o; bs_bad := bs_bad st |}.
Definition mark_bad (st : bstate) : bstate :=
  {| bs_grid := bs_grid st; bs_rew := bs_rew st; bs_starts := bs_starts st; bs_orc := bs_orc st;
     bs_obsorc := bs_obsorc st; bs_bad := true |}.

(* self.rewards[i] += d *)
Definition radd (r : list Z) (i : nat) (d : Z) : list Z :=
  match nth_error r i with Some x => upd_nth r i (x + d) | None => r end.

(* ---- TeamBattleSim.step ------------------------------------------------------------------- *)
(* for attacked_agent in attacked_agents:
       if not attacked_agent.active: rewards[attacked] -= 1; rewards[attacker] += 1
   evaluated after process_action returned, i.e. in the state g' *)
Definition death_rewards (g' : gstate) (i : nat) (hits : list nat) (r : list Z) : list Z :=
  fold_left (fun r' v => match agent g' v with
                         | Some b => if a_active b then r' else radd (radd r' v (-100)) i 100
                         | None => r'
                         end) hits r.

(* first loop body *)
Definition attack_one (cf : bcfg) (st : bstate) (ia : nat * bact) : bstate :=
  let i := fst ia in
  match agent (bs_grid st) i, nth_error (bc_agents cf) i with
  | Some a, Some b =>
      if a_active a then
        match process_attack vis_model (bs_grid st) (b_att b) i (bs_orc st)
                             (ABinary (ba_attack (snd ia))) with
        | POk status hits g' o' =>
            let r := bs_rew st in
            let r' := if status then                         (* attack was attempted *)
                        match hits with
                        | [] => radd r i (-10)               (* attack failed *)
                        | _ => death_rewards g' i hits r
                        end
                      else r in
            with_grid st g' r' o'
        | PBadOracle | PErr => mark_bad st
        end
      else st
  | _, _ => mark_bad st                                      (* self.agents[agent_id]: KeyError *)
  end.

(* second loop body *)
Definition move_one (st : bstate) (ia : nat * bact) : bstate :=
  let i := fst ia in
  match agent (bs_grid st) i with
  | Some a =>
      if a_active a then
        match move_free (bs_grid st) i (ba_move (snd ia)) with
        | MOk b g' => with_grid st g' (if b then bs_rew st else radd (bs_rew st) i (-10)) (bs_orc st)
        | _ => mark_bad st
        end
      else st
  | None => mark_bad st
  end.

(* third loop body *)
Definition entropy_one (st : bstate) (ia : nat * bact) : bstate :=
  with_rew st (radd (bs_rew st) (fst ia) (-1)).

Definition bs_step (cf : bcfg) (st : bstate) (acts : list (nat * bact)) : bstate :=
  let st1 := fold_left (attack_one cf) acts st in
  let st2 := fold_left move_one acts st1 in
  fold_left entropy_one acts st2.

(* ---- the tree as found (findings/C02-binary-attack-ndarray) ---------------------------------------
   BinaryAttackActor._determine_attack returns the ndarray of np.random.choice unchanged (the other
   three actors copy it into a list; the ammunition filter ends with .tolist()), and the step above
   tests `if not attacked_agents`: the truth value of an array with two or more elements raises
   ValueError.  The returned value is that ndarray exactly when the number of hits equals the number
   of attacks asked for (fewer candidates than attacks, not stacked: the candidate list itself is
   returned; ammunition filter: a list shorter than the request).  The exception ends the step: the
   attack has been applied, no reward is booked, nobody moves.  Modelled as the flag. *)
Definition truth_value_raises (n : Z) (hits : list nat) : bool :=
  (Z.of_nat (length hits) =? n) && (2 <=? n).

Definition attack_one_prefix (cf : bcfg) (st : bstate) (ia : nat * bact) : bstate :=
  if bs_bad st then st
  else
    match agent (bs_grid st) (fst ia), nth_error (bc_agents cf) (fst ia) with
    | Some a, Some b =>
        if a_active a then
          match process_attack vis_model (bs_grid st) (b_att b) (fst ia) (bs_orc st)
                               (ABinary (ba_attack (snd ia))) with
          | POk true hits g' o' =>
              if truth_value_raises (ba_attack (snd ia)) hits
              then mark_bad (with_grid st g' (bs_rew st) o')
              else attack_one cf st ia
          | _ => attack_one cf st ia
          end
        else st
    | _, _ => mark_bad st
    end.

Definition bs_step_prefix (cf : bcfg) (st : bstate) (acts : list (nat * bact)) : bstate :=
  let st1 := fold_left (attack_one_prefix cf) acts st in
  if bs_bad st1 then st1
  else fold_left entropy_one acts (fold_left move_one acts st1).

(* ---- SmartGridWorldSimulation.reset: every state component, then rewards = 0 ---------------- *)
Definition bs_reset (cf : bcfg) (st : bstate) : bstate :=
  let zero := repeat 0 (length (bc_agents cf)) in
  match bs_starts st with
  | g0 :: rest =>
      {| bs_grid := g0; bs_rew := zero; bs_starts := rest; bs_orc := bs_orc st;
         bs_obsorc := bs_obsorc st; bs_bad := bs_bad st |}
  | [] =>
      {| bs_grid := bs_grid st; bs_rew := zero; bs_starts := []; bs_orc := bs_orc st;
         bs_obsorc := bs_obsorc st; bs_bad := true |}
  end.

(* ---- getters -------------------------------------------------------------------------------- *)
Definition bs_obs (cf : bcfg) (st : bstate) (i : nat) : list (list Z) * bstate :=
  match nth_error (bc_agents cf) i with
  | Some b =>
      match obs_centered vis_model (bs_grid st) i (b_view b) (bc_self cf) (bs_obsorc st) with
      | OOk arr o' => (arr, with_obsorc st o')
      | OBad | OErr => ([], mark_bad st)
      end
  | None => ([], mark_bad st)
  end.

(* reward = self.rewards[agent_id]; self.rewards[agent_id] = 0; return reward *)
Definition bs_reward (st : bstate) (i : nat) : Z * bstate :=
  match nth_error (bs_rew st) i with
  | Some x => (x, with_rew st (upd_nth (bs_rew st) i 0))
  | None => (0, mark_bad st)
  end.

Definition to_pop (g : gstate) : Done.pop :=
  map (fun a => Done.mkAgent (a_enc a) (a_active a) (a_pos a)) (g_agents g).
Definition bs_dcomp (cf : bcfg) : Done.dcomp := if bc_oneteam cf then Done.DOneTeam else Done.DActive.

(* any(done.get_done(agent) for done in self._dones) with the single done component *)
Definition bs_done (cf : bcfg) (st : bstate) (i : nat) : bool :=
  match Done.get_done (to_pop (bs_grid st)) (bs_dcomp cf) i with Some b => b | None => false end.
Definition bs_all (cf : bcfg) (st : bstate) : bool :=
  match Done.get_all_done (to_pop (bs_grid st)) (bs_dcomp cf) with Some b => b | None => false end.

(* every agent of the example is a learning agent; it is not a DynamicOrderSimulation *)
Definition battle_sim (cf : bcfg) : simulation bstate (list (list Z)) unit bact :=
  {| sim_n := length (bc_agents cf);
     sim_learning := fun _ => true;
     sim_reset := bs_reset cf;
     sim_step := bs_step cf;
     sim_obs := bs_obs cf;
     sim_reward := bs_reward;
     sim_done := bs_done cf;
     sim_all := bs_all cf;
     sim_info := fun _ _ => tt;
     sim_next := fun _ => [] |}.

(* the manager run, recording the grid after every call *)
Definition bresp := resp (list (list Z)) unit.
Fixpoint run_snap (cf : bcfg) (k : mgr) (m : mstate bstate) (cs : list (call bact))
  : list (bresp * gstate) * mstate bstate :=
  match cs with
  | [] => ([], m)
  | c :: cs' =>
      let (r, m1) := do_call (battle_sim cf) k m c in
      let (rs, m2) := run_snap cf k m1 cs' in ((r, bs_grid (m_sim m1)) :: rs, m2)
  end.

(* the simulation object before its first reset *)
Definition bs_init (rows cols : Z) (ov : otable) (starts : list gstate) (o : oracle) (oo : list Z)
  : bstate :=
  {| bs_grid := empty_grid rows cols ov []; bs_rew := []; bs_starts := starts; bs_orc := o;
     bs_obsorc := oo; bs_bad := false |}.

(* ---- wire ----------------------------------------------------------------------------------
   input  (rows cols ov cfg starts unif choices obschoices kind calls)
     cfg    (((range strength accuracy simul mapping stacked) view) ...) observe_self oneteam
     starts (snapshot ...)             snapshot = (agents cells) as Grid.enc_snapshot
     kind   0 AllStepManager | 1 TurnBasedManager
     calls  ((0) | (1 acts shuffled) ...)   acts = ((i dr dc attack) ...)
   output (bad ((resp snapshot) ...))
     resp   (0 obs) | (1 obs rewards dones all) | (2) reject | (3) error | (4)
     obs    ((i rows-of-the-array) ...)                                                     *)
Definition dec_bagent (x : sx) : option bagent :=
  match x with
  | L [cf; A v] => option_map (fun c => {| b_att := c; b_view := v |}) (dec_acfg cf)
  | _ => None
  end.
Definition dec_bcfg (x : sx) : option bcfg :=
  match x with
  | L [L ags; sf; ot] =>
      match all_some (map dec_bagent ags), sxB sf, sxB ot with
      | Some ags', Some sf', Some ot' =>
          Some {| bc_agents := ags'; bc_self := sf'; bc_oneteam := ot' |}
      | _, _, _ => None
      end
  | _ => None
  end.

Definition dec_start (rows cols : Z) (ov : otable) (x : sx) : option gstate :=
  let s0 := empty_grid rows cols ov [] in
  match x with
  | L [L ags; L cs] =>
      match all_some (map dec_arec ags), all_some (map sxNats cs) with
      | Some ags', Some cs' =>
          if Nat.eqb (length cs') (length (all_cells s0))
          then Some {| g_rows := rows; g_cols := cols; g_ov := g_ov s0; g_agents := ags';
                       g_cells := zip_cells (all_cells s0) cs' |}
          else None
      | _, _ => None
      end
  | _ => None
  end.

Definition dec_bkv (x : sx) : option (nat * bact) :=
  match x with
  | L [A i; A dr; A dc; A k] =>
      if i <? 0 then None else Some (Z.to_nat i, {| ba_move := (dr, dc); ba_attack := k |})
  | _ => None
  end.
Definition dec_bkvs (x : sx) : option (list (nat * bact)) :=
  match x with L l => all_some (map dec_bkv l) | A _ => None end.
Definition dec_bcall (x : sx) : option (call bact) :=
  match x with
  | L [A 0] => Some CReset
  | L [A 1; a; sh] =>
      match dec_bkvs a, dec_bkvs sh with
      | Some a', Some sh' => Some (CStep a' sh')
      | _, _ => None
      end
  | _ => None
  end.

Definition enc_kobs (kv : nat * list (list Z)) : sx := L [ofNat (fst kv); ofZZs (snd kv)].
Definition enc_kz (kv : nat * Z) : sx := L [ofNat (fst kv); A (snd kv)].
Definition enc_kbool (kv : nat * bool) : sx := L [ofNat (fst kv); ofB (snd kv)].
Definition enc_bresp (r : bresp) : sx :=
  match r with
  | RObs obs => L [A 0; L (map enc_kobs obs)]
  | ROut o => L [A 1; L (map enc_kobs (o_obs o)); L (map enc_kz (o_rew o));
                 L (map enc_kbool (o_done o)); ofB (o_all o)]
  | RReject => L [A 2]
  | RError => L [A 3]
  | ROutOfFuel => L [A 4]
  end.

Record e2e_input := {
  ei_rows : Z; ei_cols : Z; ei_ov : otable; ei_cfg : bcfg; ei_init : bstate; ei_kind : mgr;
  ei_calls : list (call bact) }.

Definition dec_e2e (x : sx) : option e2e_input :=
  match x with
  | L [A rows; A cols; ov; cf; L sts; us; L chs; ocs; A kind; L cs] =>
      match dec_ov ov with
      | Some ov' =>
          match dec_bcfg cf, all_some (map (dec_start rows cols ov') sts), sxZs us,
                all_some (map sxNats chs), sxZs ocs, all_some (map dec_bcall cs) with
          | Some cf', Some sts', Some us', Some chs', Some ocs', Some cs' =>
              if (rows <=? 0) || (cols <=? 0) || negb ((kind =? 0) || (kind =? 1)) then None
              else Some {| ei_rows := rows; ei_cols := cols; ei_ov := ov'; ei_cfg := cf';
                           ei_init := bs_init rows cols ov' sts'
                                              {| o_unif := us'; o_choice := chs' |} ocs';
                           ei_kind := if kind =? 0 then MAll else MTurn;
                           ei_calls := cs' |}
          | _, _, _, _, _, _ => None
          end
      | None => None
      end
  | _ => None
  end.

Definition e2e_records (i : e2e_input) : list (bresp * gstate) * mstate bstate :=
  run_snap (ei_cfg i) (ei_kind i) (init (ei_init i)) (ei_calls i).

Definition enc_record (rg : bresp * gstate) : sx := L [enc_bresp (fst rg); enc_snapshot (snd rg)].

Definition run_e2e (x : sx) : sx :=
  match dec_e2e x with
  | Some i =>
      let (rs, m) := e2e_records i in
      L [ofB (bs_bad (m_sim m)); L (map enc_record rs)]
  | None => sx_err
  end.

(* ---- checker: the C03 invariant on every recorded snapshot, from the behaviour only ---------
   clauses 301-304 as ginvb (Grid/Play.v), 309 malformed record, 308 the bad flag is set *)
Fixpoint chk_e2e_snaps (rows cols : Z) (ov : otable) (recs : list sx) : Z :=
  match recs with
  | [] => 0
  | L [_; snap] :: r =>
      match dec_start rows cols ov snap with
      | Some s' => let c := ginvb s' in if c =? 0 then chk_e2e_snaps rows cols ov r else c
      | None => 309
      end
  | _ => 309
  end.

Definition run_chk_e2e (x : sx) : sx :=
  match x with
  | L [xin; L [A bad; L recs]] =>
      match dec_e2e xin with
      | Some i =>
          if negb (bad =? 0) then A (-308)
          else let c := chk_e2e_snaps (ei_rows i) (ei_cols i) (ei_ov i) recs in
               if c =? 0 then A 1 else A (- c)
      | None => A (-309)
      end
  | _ => A (-309)
  end.

(* DISPATCH: 2101 => run_e2e *)
(* DISPATCH: 2102 => run_chk_e2e *)
