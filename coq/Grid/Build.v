(* Model of the simulation builders of abmarl/sim/gridworld/base.py:
   build_sim, build_sim_from_grid, build_sim_from_array, build_sim_from_file, _build_sim,
   and of the part of PositionState.reset that puts agents on their initial positions.
   An array entry / registry key is an int or a string (list of code points); an agent is a
   record (id, encoding, class, initial position); `agents` is a Python dict id -> agent
   (association list in insertion order, Grid/Amap.v).  No proofs here (Proofs/Build_proofs.v). *)
From Coq Require Import ZArith List Bool.
From Abm Require Import Base.Sx Grid.Amap.
Import ListNotations.
Open Scope Z_scope.

Inductive cellv := CI (z : Z) | CS (s : list Z).

Fixpoint zlist_eqb (a b : list Z) : bool :=
  match a, b with
  | [], [] => true
  | x :: a', y :: b' => (x =? y) && zlist_eqb a' b'
  | _, _ => false
  end.

Definition cellv_eqb (a b : cellv) : bool :=
  match a, b with
  | CI x, CI y => x =? y
  | CS s, CS t => zlist_eqb s t
  | _, _ => false
  end.

Record bagent := mkB {
  b_id : Z;
  b_enc : Z;
  b_cls : Z;                       (* which agent class the registry function instantiates *)
  b_ipos : option (Z * Z)          (* initial_position *)
}.
Definition agents := list (Z * bagent).
Definition oreg := list (cellv * (nat -> bagent)).    (* object_registry: char -> (n -> agent) *)

Definition set_ipos (a : bagent) (r c : nat) : bagent :=
  mkB (b_id a) (b_enc a) (b_cls a) (Some (Z.of_nat r, Z.of_nat c)).

Inductive bres := BOk (rows cols : nat) (ags : agents) | BErr (code : Z).

(* 0, '.', '_' as tested by the current code; '0' is what the documentation also reserves
   ("Zeros, periods, and underscores are reserved for empty space") and what the repaired
   check tests in addition (findings/C18-reserved-zero.patch) *)
Definition reserved_prefix : list cellv := [CI 0; CS [46]; CS [95]].
Definition reserved : list cellv := [CI 0; CS [48]; CS [46]; CS [95]].

(* ---- the scan ------------------------------------------------------------------------------ *)
Definition bstate := (agents * list (cellv * nat))%type.     (* agents, ndx *)

(* if char in object_registry:
     try: n = ndx[char]  except KeyError: ndx[char] = 0; n = 0
     agent = object_registry[char](n); agent.initial_position = np.array([r, c])
     agents[agent.id] = agent; ndx[char] += 1                                             *)
Definition scan_cell (reg : oreg) (st : bstate) (r c : nat) (ch : cellv) : bstate :=
  match am_get cellv_eqb reg ch with
  | None => st
  | Some f =>
      let n := match am_get cellv_eqb (snd st) ch with Some n => n | None => O end in
      let ag := set_ipos (f n) r c in
      (am_set Z.eqb (fst st) (b_id ag) ag, am_set cellv_eqb (snd st) ch (S n))
  end.

Fixpoint scan_row (reg : oreg) (st : bstate) (r c : nat) (row : list cellv) : bstate :=
  match row with
  | [] => st
  | ch :: rest => scan_row reg (scan_cell reg st r c ch) r (S c) rest
  end.

Fixpoint scan_rows (reg : oreg) (st : bstate) (r : nat) (rows : list (list cellv)) : bstate :=
  match rows with
  | [] => st
  | row :: rest => scan_rows reg (scan_row reg st r 0 row) (S r) rest
  end.

(* _build_sim: Grid(rows, cols) asserts positive sizes, then the simulation's `agents` setter
   asserts that every key is its agent's id *)
Definition build_core (rows cols : nat) (ags : agents) : bres :=
  if (Nat.eqb rows 0 || Nat.eqb cols 0)%bool then BErr 1
  else if forallb (fun kv => fst kv =? b_id (snd kv)) ags then BOk rows cols ags
  else BErr 1.

Definition has_reserved (resv : list cellv) (reg : oreg) : bool :=
  existsb (fun k => am_mem cellv_eqb reg k) resv.

Definition start (extra : option agents) : agents :=
  match extra with Some e => e | None => [] end.

Definition ncols {T} (arr : list (list T)) : nat :=
  match arr with [] => O | r :: _ => length r end.

Definition build_array_with (resv : list cellv) (arr : list (list cellv)) (reg : oreg)
           (extra : option agents) : bres :=
  if has_reserved resv reg then BErr 1
  else
    let st := scan_rows reg (start extra, []) 0 arr in
    build_core (length arr) (ncols arr) (fst st).

Definition build_array := build_array_with reserved.
Definition build_array_prefix := build_array_with reserved_prefix.

(* build_sim(rows, cols, agents=...) *)
Definition build_direct (rows cols : nat) (ags : agents) : bres := build_core rows cols ags.

(* ---- text files ----------------------------------------------------------------------------- *)
(* str.split(sep): always at least one piece *)
Fixpoint split_on (sep : Z) (t : list Z) : list (list Z) :=
  match t with
  | [] => [[]]
  | ch :: r =>
      if ch =? sep then [] :: split_on sep r
      else match split_on sep r with
           | p :: ps => (ch :: p) :: ps
           | [] => [[ch]]
           end
  end.

Fixpoint drop_last_empty (l : list (list Z)) : list (list Z) :=
  match l with
  | [] => []
  | [[]] => []
  | x :: r => x :: drop_last_empty r
  end.

(* str.splitlines() for texts whose only line boundary is '\n' *)
Definition splitlines (t : list Z) : list (list Z) := drop_last_empty (split_on 10 t).

Definition tokens (line : list Z) : list cellv := map CS (split_on 32 line).

(* for row, line in enumerate(lines): chars = line.split(' '); assert len(chars) == cols; ... *)
Fixpoint file_rows (reg : oreg) (st : bstate) (r cols : nat) (lines : list (list Z)) : option bstate :=
  match lines with
  | [] => Some st
  | line :: rest =>
      let chars := tokens line in
      if Nat.eqb (length chars) cols
      then file_rows reg (scan_row reg st r 0 chars) (S r) cols rest
      else None
  end.

Definition build_file_with (resv : list cellv) (text : list Z) (reg : oreg)
           (extra : option agents) : bres :=
  if has_reserved resv reg then BErr 1
  else
    let lines := splitlines text in
    match lines with
    | [] => BErr 3                                  (* lines[0]: IndexError *)
    | l0 :: _ =>
        let cols := length (split_on 32 l0) in
        match file_rows reg (start extra, []) 0 cols lines with
        | None => BErr 1
        | Some st => build_core (length lines) cols (fst st)
        end
    end.

Definition build_file := build_file_with reserved.
Definition build_file_prefix := build_file_with reserved_prefix.

Definition parse_file (text : list Z) : list (list cellv) := map tokens (splitlines text).

(* the text that holds the characters of an array of strings: entries separated by one space,
   every row terminated by a newline *)
Fixpoint join_sp (row : list (list Z)) : list Z :=
  match row with
  | [] => []
  | [s] => s
  | s :: rest => s ++ 32 :: join_sp rest
  end.
Definition unparse (arr : list (list (list Z))) : list Z :=
  concat (map (fun row => join_sp row ++ [10]) arr).

(* ---- grids ----------------------------------------------------------------------------------- *)
Definition gcell := option agents.       (* grid[r, c]: None or a dict id -> agent *)

Definition ipos_is (a : bagent) (r c : nat) : bool :=
  match b_ipos a with
  | Some (x, y) => (x =? Z.of_nat r) && (y =? Z.of_nat c)
  | None => false
  end.

(* if grid[r, c] is not None: agents.update(grid[r, c]); assert initial positions == [r, c] *)
Definition grid_cell (st : agents) (r c : nat) (cell : gcell) : option agents :=
  match cell with
  | None => Some st
  | Some d =>
      if forallb (fun kv => ipos_is (snd kv) r c) d then Some (am_update Z.eqb st d) else None
  end.

Fixpoint grid_row (st : agents) (r c : nat) (row : list gcell) : option agents :=
  match row with
  | [] => Some st
  | cell :: rest =>
      match grid_cell st r c cell with
      | Some st' => grid_row st' r (S c) rest
      | None => None
      end
  end.

Fixpoint grid_rows (st : agents) (r : nat) (rows : list (list gcell)) : option agents :=
  match rows with
  | [] => Some st
  | row :: rest =>
      match grid_row st r 0 row with
      | Some st' => grid_rows st' (S r) rest
      | None => None
      end
  end.

Definition build_grid (g : list (list gcell)) (extra : option agents) : bres :=
  match grid_rows (start extra) 0 g with
  | None => BErr 1
  | Some ags => build_core (length g) (ncols g) ags
  end.

(* ---- PositionState.reset for the agents that have an initial position -------------------------
   grid.reset(); for agent in agents.values(): if agent.initial_position is not None:
   assert grid.place(agent, agent.initial_position)  -- with no overlapping table a cell that
   holds somebody is not available.  Agents without an initial position are placed afterwards
   at random (C13) and never take a cell from the others.                                        *)
Definition pair_eqb (a b : Z * Z) : bool := (fst a =? fst b) && (snd a =? snd b).

Fixpoint place18 (placed : list (Z * Z)) (l : list bagent) : bool :=
  match l with
  | [] => true
  | a :: r =>
      match b_ipos a with
      | Some cell => if existsb (pair_eqb cell) placed then false else place18 (cell :: placed) r
      | None => place18 placed r
      end
  end.

(* positions after reset of the agents with an initial position (None for the others);
   Err 6: max() of an empty sequence in _build_available_positions *)
Definition reset18 (ags : agents) : option (list (option (Z * Z))) + Z :=
  match ags with
  | [] => inr 6
  | _ => if place18 [] (map snd ags) then inl (Some (map (fun kv => b_ipos (snd kv)) ags))
         else inl None
  end.

(* ==== independent specification ================================================================= *)
(* cells in reading order *)
Fixpoint row_cells (r c : nat) (row : list cellv) : list (nat * nat * cellv) :=
  match row with
  | [] => []
  | ch :: rest => (r, c, ch) :: row_cells r (S c) rest
  end.
Fixpoint arr_cells (r : nat) (rows : list (list cellv)) : list (nat * nat * cellv) :=
  match rows with
  | [] => []
  | row :: rest => row_cells r 0 row ++ arr_cells (S r) rest
  end.

Definition count_ch (ch : cellv) (cells : list (nat * nat * cellv)) : nat :=
  length (filter (fun x => cellv_eqb ch (snd x)) cells).

(* the j-th cell in reading order holds the (rank j)-th occurrence of its character *)
Definition rank (cells : list (nat * nat * cellv)) (j : nat) (ch : cellv) : nat :=
  count_ch ch (firstn j cells).

Definition registered (reg : oreg) (ch : cellv) : option (nat -> bagent) :=
  match find (fun kv => cellv_eqb ch (fst kv)) reg with Some kv => Some (snd kv) | None => None end.

Definition layout_spec (reg : oreg) (cells : list (nat * nat * cellv)) : list bagent :=
  flat_map (fun j =>
              match nth_error cells j with
              | Some (r, c, ch) =>
                  match registered reg ch with
                  | Some f => [set_ipos (f (rank cells j ch)) r c]
                  | None => []
                  end
              | None => []
              end) (seq 0 (length cells)).

Definition keyed (l : list bagent) : agents := map (fun a => (b_id a, a)) l.

(* markers documented as empty space *)
Definition markers : list cellv := [CI 0; CS [48]; CS [46]; CS [95]].

Definition markers_registered (reg : oreg) : bool :=
  existsb (fun m => existsb (fun kv => cellv_eqb m (fst kv)) reg) markers.

Definition spec_build (arr : list (list cellv)) (reg : oreg) (extra : option agents) : bres :=
  if markers_registered reg then BErr 1
  else if (Nat.eqb (length arr) 0 || Nat.eqb (ncols arr) 0)%bool then BErr 1
  else
    let ags := am_update Z.eqb (start extra) (keyed (layout_spec reg (arr_cells 0 arr))) in
    if forallb (fun kv => fst kv =? b_id (snd kv)) ags then BOk (length arr) (ncols arr) ags
    else BErr 1.

(* the grid that holds the layout's agents: every registered cell holds its one agent, numbered
   by the occurrences of its character before it in reading order ([pre] = the cells before) *)
Fixpoint grid_of_row (reg : oreg) (pre : list (nat * nat * cellv)) (r c : nat) (row : list cellv)
  : list gcell :=
  match row with
  | [] => []
  | ch :: rest =>
      match registered reg ch with
      | Some f => Some (keyed [set_ipos (f (count_ch ch pre)) r c])
      | None => None
      end :: grid_of_row reg (pre ++ [(r, c, ch)]) r (S c) rest
  end.
Fixpoint grid_of_rows (reg : oreg) (pre : list (nat * nat * cellv)) (r : nat)
         (rows : list (list cellv)) : list (list gcell) :=
  match rows with
  | [] => []
  | row :: rest =>
      grid_of_row reg pre r 0 row :: grid_of_rows reg (pre ++ row_cells r 0 row) (S r) rest
  end.
Definition grid_of_array (arr : list (list cellv)) (reg : oreg) : list (list gcell) :=
  grid_of_rows reg [] 0 arr.

Definition rectangular {T} (arr : list (list T)) : bool :=
  forallb (fun row => Nat.eqb (length row) (ncols arr)) arr.

(* two agents with initial positions share a cell *)
Fixpoint clash_spec (l : list bagent) : bool :=
  match l with
  | [] => false
  | a :: r =>
      match b_ipos a with
      | Some cell => existsb (fun b => match b_ipos b with
                                       | Some cell' => pair_eqb cell' cell
                                       | None => false end) r
      | None => false
      end || clash_spec r
  end.

Definition spec_reset (ags : agents) : option (list (option (Z * Z))) + Z :=
  match ags with
  | [] => inr 6
  | _ => if clash_spec (map snd ags) then inl None
         else inl (Some (map (fun kv => b_ipos (snd kv)) ags))
  end.

(* can the array be written as a text file: every entry a string without blank or newline,
   at least one column *)
Definition clean_token (ch : cellv) : bool :=
  match ch with
  | CS s => forallb (fun z => negb (z =? 32) && negb (z =? 10)) s
  | CI _ => false
  end.
Definition file_able (arr : list (list cellv)) : bool :=
  negb (Nat.eqb (length arr) 0) &&
  forallb (fun row => forallb clean_token row && negb (Nat.eqb (length row) 0)) arr.
Definition str_of (ch : cellv) : list Z := match ch with CS s => s | CI _ => [] end.

(* ---- wire -------------------------------------------------------------------------------------
   cell     (0 z) | (1 c1 c2 ...)
   registry ((key idkind base enc cls) ...)   f n = agent(id = base*100 + n | base*100 |
                                               base*100 + n mod 2, encoding enc, class cls)
   extras   (0) | (1 ((key id enc cls haspos r c) ...))
   result   (-1 code) | (0 rows cols ((id enc cls haspos r c) ...) reset)
   reset    (-1 6) | (0) refused | (1 ((haspos r c) ...))                                    *)
Definition dec_cell (x : sx) : option cellv :=
  match x with
  | L [A 0; A z] => Some (CI z)
  | L (A 1 :: s) => option_map CS (all_some (map sxZ s))
  | _ => None
  end.

Definition mk_regfun (kind base enc cls : Z) : nat -> bagent :=
  fun n => mkB (if kind =? 0 then base * 100 + Z.of_nat n
                else if kind =? 1 then base * 100
                else base * 100 + Z.of_nat (Nat.modulo n 2)) enc cls None.

Definition dec_regentry (x : sx) : option (cellv * (nat -> bagent)) :=
  match x with
  | L [k; A kind; A base; A enc; A cls] =>
      match dec_cell k with Some ch => Some (ch, mk_regfun kind base enc cls) | None => None end
  | _ => None
  end.
Definition dec_reg (x : sx) : option oreg :=
  match x with L l => all_some (map dec_regentry l) | A _ => None end.

Definition dec_ipos (hp r c : Z) : option (Z * Z) := if hp =? 0 then None else Some (r, c).

Definition dec_extra_entry (x : sx) : option (Z * bagent) :=
  match x with
  | L [A k; A id; A enc; A cls; A hp; A r; A c] => Some (k, mkB id enc cls (dec_ipos hp r c))
  | _ => None
  end.
Definition dec_extra (x : sx) : option (option agents) :=
  match x with
  | L [A 0] => Some None
  | L [A 1; L l] => option_map Some (all_some (map dec_extra_entry l))
  | _ => None
  end.

Definition dec_array (x : sx) : option (list (list cellv)) :=
  match x with
  | L rows => all_some (map (fun r => match r with
                                      | L cs => all_some (map dec_cell cs)
                                      | A _ => None end) rows)
  | A _ => None
  end.

Definition enc_ipos (p : option (Z * Z)) : list sx :=
  match p with Some (r, c) => [A 1; A r; A c] | None => [A 0; A 0; A 0] end.
Definition enc_bagent (kv : Z * bagent) : sx :=
  L ([A (fst kv); A (b_enc (snd kv)); A (b_cls (snd kv))] ++ enc_ipos (b_ipos (snd kv))).
Definition enc_reset (r : option (list (option (Z * Z))) + Z) : sx :=
  match r with
  | inr c => L [A (-1); A c]
  | inl None => L [A 0]
  | inl (Some ps) => L [A 1; L (map (fun p => L (enc_ipos p)) ps)]
  end.
Definition enc_bres (reset : agents -> option (list (option (Z * Z))) + Z) (b : bres) : sx :=
  match b with
  | BErr c => L [A (-1); A c]
  | BOk rows cols ags =>
      L [A 0; ofNat rows; ofNat cols; L (map enc_bagent ags); enc_reset (reset ags)]
  end.

Definition layout_agents (arr : list (list cellv)) (reg : oreg) : agents :=
  keyed (layout_spec reg (arr_cells 0 arr)).

(* the four builders on one layout: array, file (when the array can be written as text, else
   the marker (-2)), grid holding the layout's agents, direct build from the agent dictionary
   (both (-2) when the registry is invalid: there is no layout then) *)
Definition four_builders (resv : list cellv) (arr : list (list cellv)) (reg : oreg)
           (extra : option agents) : list sx :=
  [ enc_bres reset18 (build_array_with resv arr reg extra);
    (if file_able arr
     then enc_bres reset18 (build_file_with resv (unparse (map (map str_of) arr)) reg extra)
     else L [A (-2)]);
    (if markers_registered reg then L [A (-2)]
     else enc_bres reset18 (build_grid (grid_of_array arr reg) extra));
    (if markers_registered reg then L [A (-2)]
     else enc_bres reset18 (build_direct (length arr) (ncols arr)
                                         (am_update Z.eqb (start extra) (layout_agents arr reg)))) ].

Definition run_builders_with (resv : list cellv) (x : sx) : sx :=
  match x with
  | L [xa; xr; xe] =>
      match dec_array xa, dec_reg xr, dec_extra xe with
      | Some arr, Some reg, Some extra =>
          if rectangular arr then L (four_builders resv arr reg extra) else sx_err
      | _, _, _ => sx_err
      end
  | _ => sx_err
  end.
Definition run_builders := run_builders_with reserved.
Definition run_builders_prefix := run_builders_with reserved_prefix.

(* a raw text through build_sim_from_file *)
Definition run_file (x : sx) : sx :=
  match x with
  | L [xt; xr; xe] =>
      match sxZs xt, dec_reg xr, dec_extra xe with
      | Some text, Some reg, Some extra => enc_bres reset18 (build_file text reg extra)
      | _, _, _ => sx_err
      end
  | _ => sx_err
  end.

(* an explicit grid (cells: (0) for None, (1 (entry ...)) for a dict) through build_sim_from_grid *)
Definition dec_gcell (x : sx) : option gcell :=
  match x with
  | L [A 0] => Some None
  | L [A 1; L l] => option_map Some (all_some (map dec_extra_entry l))
  | _ => None
  end.
Definition dec_grid (x : sx) : option (list (list gcell)) :=
  match x with
  | L rows => all_some (map (fun r => match r with
                                      | L cs => all_some (map dec_gcell cs)
                                      | A _ => None end) rows)
  | A _ => None
  end.
Definition run_grid (x : sx) : sx :=
  match x with
  | L [xg; xe] =>
      match dec_grid xg, dec_extra xe with
      | Some g, Some extra =>
          if rectangular g && negb (Nat.eqb (length g) 0) && negb (Nat.eqb (ncols g) 0)
          then enc_bres reset18 (build_grid g extra) else sx_err
      | _, _ => sx_err
      end
  | _ => sx_err
  end.

(* ---- checker ---------------------------------------------------------------------------------
   clause 1: build_sim_from_array = the specification (one agent per registered character,
             numbered per character in reading order, at its cell; markers never registered;
             extras kept unless a layout agent has the same id; grid size = array shape)
   clause 2/3/4: the file / grid / direct builder gives that same simulation
   (the post-reset positions are part of each result: every agent with an initial position
    stands on it, or the reset is refused because two initial positions coincide)             *)
Definition chk_C18 (arr : list (list cellv)) (reg : oreg) (extra : option agents)
           (b : list sx) : Z :=
  let want := enc_bres spec_reset (spec_build arr reg extra) in
  match b with
  | [ba; bf; bg; bd] =>
      if negb (sx_eqb ba want) then -1
      else if negb (if file_able arr then sx_eqb bf want else sx_eqb bf (L [A (-2)])) then -2
      else if negb (sx_eqb bg (if markers_registered reg then L [A (-2)] else want)) then -3
      else if negb (sx_eqb bd (if markers_registered reg then L [A (-2)] else want)) then -4
      else 1
  | _ => -9
  end.

Definition run_chk_C18 (x : sx) : sx :=
  match x with
  | L [L [xa; xr; xe]; L b] =>
      match dec_array xa, dec_reg xr, dec_extra xe with
      | Some arr, Some reg, Some extra => A (chk_C18 arr reg extra b)
      | _, _, _ => A (-9)
      end
  | _ => A (-9)
  end.

(* a text file: no line at all -> IndexError; lines with different numbers of entries ->
   AssertionError; otherwise the simulation of the array of its entries *)
Definition chk_C18_file (text : list Z) (reg : oreg) (extra : option agents) (b : sx) : Z :=
  let arr := parse_file text in
  let want :=
      if markers_registered reg then L [A (-1); A 1]
      else if Nat.eqb (length arr) 0 then L [A (-1); A 3]
      else if negb (rectangular arr) then L [A (-1); A 1]
      else enc_bres spec_reset (spec_build arr reg extra) in
  if sx_eqb b want then 1 else -5.

Definition run_chk_C18_file (x : sx) : sx :=
  match x with
  | L [L [xt; xr; xe]; b] =>
      match sxZs xt, dec_reg xr, dec_extra xe with
      | Some text, Some reg, Some extra => A (chk_C18_file text reg extra b)
      | _, _, _ => A (-9)
      end
  | _ => A (-9)
  end.

(* an explicit grid: refused when some agent's initial position is not its cell, otherwise the
   direct build from extras updated with the cells' dictionaries in reading order *)
Definition grid_items (g : list (list gcell)) : agents :=
  concat (map (fun row => concat (map (fun cell => match cell with Some d => d | None => [] end) row)) g).

Fixpoint grid_pos_ok_row (r c : nat) (row : list gcell) : bool :=
  match row with
  | [] => true
  | cell :: rest =>
      match cell with Some d => forallb (fun kv => ipos_is (snd kv) r c) d | None => true end
      && grid_pos_ok_row r (S c) rest
  end.
Fixpoint grid_pos_ok (r : nat) (g : list (list gcell)) : bool :=
  match g with
  | [] => true
  | row :: rest => grid_pos_ok_row r 0 row && grid_pos_ok (S r) rest
  end.

Definition spec_grid (g : list (list gcell)) (extra : option agents) : bres :=
  if grid_pos_ok 0 g
  then build_direct (length g) (ncols g) (am_update Z.eqb (start extra) (grid_items g))
  else BErr 1.

Definition chk_C18_grid (g : list (list gcell)) (extra : option agents) (b : sx) : Z :=
  if sx_eqb b (enc_bres spec_reset (spec_grid g extra)) then 1 else -6.

Definition run_chk_C18_grid (x : sx) : sx :=
  match x with
  | L [L [xg; xe]; b] =>
      match dec_grid xg, dec_extra xe with
      | Some g, Some extra => A (chk_C18_grid g extra b)
      | _, _ => A (-9)
      end
  | _ => A (-9)
  end.

(* DISPATCH: 1801 => run_builders *)
(* DISPATCH: 1804 => run_chk_C18_file *)
(* DISPATCH: 1806 => run_chk_C18_grid *)
(* DISPATCH: 1802 => run_chk_C18 *)
(* DISPATCH: 1803 => run_file *)
(* DISPATCH: 1805 => run_grid *)
(* DISPATCH: 1807 => run_builders_prefix *)
