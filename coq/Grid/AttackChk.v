(* Executable statement of C11 for one recorded attack: (state before, attacker, configuration,
   action, returned status and hits, state after) -> 0 or the number of the first failing clause.
   It works from the agents' positions and vitals and the visibility function only; it never
   calls the attack model.  No proofs here. *)
From Coq Require Import ZArith List Bool Arith.
From Abm Require Import Base.Sx Grid.Overlap Grid.Grid Grid.Move Grid.Attack Grid.Vis Grid.AttackRun.
Import ListNotations.
Open Scope Z_scope.

Section Chk.
  Variable vis : vis_fn.
  Variable s s' : gstate.
  Variable cf : acfg.
  Variable att : nat.
  Variable act : aaction.

  Definition R := c_range cf.
  Definition apos : cell := match att_pos s att with Some p => p | None => (0, 0) end.
  Definition offset_of (v : nat) : option cell :=
    match agent s v with
    | Some b => match a_pos b with
                | Some q => Some (fst q - fst apos, snd q - snd apos)
                | None => None end
    | None => None
    end.
  Definition in_window (d : cell) : bool :=
    (- R <=? fst d) && (fst d <=? R) && (- R <=? snd d) && (snd d <=? R).

  (* eligible: another, active agent whose encoding the mapping allows, inside the window on a
     cell that is not masked *)
  Definition eligible (v : nat) : bool :=
    negb (Nat.eqb v att) &&
    match agent s v, offset_of v with
    | Some b, Some d => a_active b && memZ (a_enc b) (c_mapping cf) && in_window d && vis s att R d
    | _, _ => false
    end.

  Definition agent_ids : list nat := seq 0 (length (g_agents s)).
  Definition eligible_at (d : cell) : list nat :=
    filter (fun v => eligible v && match offset_of v with
                                   | Some d' => cell_eqb d d' | None => false end) agent_ids.
  Definition eligible_all : list nat := filter eligible agent_ids.

  (* window index of an offset in scan order *)
  Definition widx (d : cell) : nat := Z.to_nat ((fst d + R) * (2 * R + 1) + (snd d + R)).

  (* how many attacks the action directs at the window cell d (cell-directed actors) *)
  Definition aimed_at (d : cell) : Z :=
    match act with
    | ASelective l => nth (widx d) l 0
    | ARestricted cm l =>
        Z.of_nat (length (filter (fun k => negb (k =? 0) && cell_eqb (cell_of_id R cm k) d) l))
    | _ => 0
    end.

  Definition attempted : bool :=
    match act with
    | ABinary n => negb (n =? 0)
    | AEncoding l => negb (forallb (fun kv => snd kv =? 0) l)
    | ASelective l | ARestricted _ l => negb (forallb (fun n => n =? 0) l)
    end.

  Definition zmin (a b : Z) := Z.min a b.
  Definition sumZ (l : list Z) : Z := fold_right Z.add 0 l.
  Definition lenZ {X} (l : list X) : Z := Z.of_nat (length l).

  (* number of hits before the ammunition filter when accuracy is 1 *)
  Definition expected_full : Z :=
    let per (avail req : Z) : Z :=
      if c_stacked cf then (if 0 <? avail then req else 0) else zmin req avail in
    match act with
    | ABinary n => per (lenZ eligible_all) n
    | AEncoding l =>
        sumZ (map (fun kv => per (lenZ (filter (fun v => enc_of s v =? fst kv) eligible_all)) (snd kv)) l)
    | ASelective _ | ARestricted _ _ =>
        sumZ (map (fun d => per (lenZ (eligible_at d)) (aimed_at d)) (window R))
    end.

  Definition hits_at (hits : list nat) (d : cell) : Z :=
    lenZ (filter (fun v => match offset_of v with Some d' => cell_eqb d d' | None => false end) hits).

  Definition limits_ok (hits : list nat) : bool :=
    match act with
    | ABinary n => lenZ hits <=? n
    | AEncoding l =>
        forallb (fun kv => lenZ (filter (fun v => enc_of s v =? fst kv) hits) <=? snd kv) l
        && forallb (fun v => existsb (fun kv => enc_of s v =? fst kv) l) hits
    | ASelective _ => forallb (fun d => hits_at hits d <=? aimed_at d) (window R)
    | ARestricted _ l =>
        forallb (fun d => hits_at hits d <=? aimed_at d) (window R)
        && (lenZ hits <=? lenZ (filter (fun k => negb (k =? 0)) l))
    end.

  Definition cell_directed : bool :=
    match act with ASelective _ | ARestricted _ _ => true | _ => false end.

  (* vitals and frame *)
  Definition agent_after_ok (hits : list nat) (v : nat) (b b' : arec) : bool :=
    let m := Z.of_nat (countn v hits) in
    let h' := if a_active b then Z.max 0 (a_health b - c_strength cf * m) else a_health b in
    (a_enc b' =? a_enc b) && optcell_eqb (a_pos b') (a_pos b) && optZ_eqb (a_orient b') (a_orient b)
    && Bool.eqb (a_blocking b') (a_blocking b)
    && (a_health b' =? h') && Bool.eqb (a_active b') (if a_active b then 0 <? h' else false)
    && (if Nat.eqb v att then
          match a_ammo b, a_ammo b' with
          | Some am, Some am' => (am' =? am - lenZ hits) && (0 <=? am') && (lenZ hits <=? am)
          | None, None => true
          | _, _ => false
          end
        else optZ_eqb (a_ammo b') (a_ammo b)).

  Fixpoint agents_after_ok (hits : list nat) (k : nat) (l l' : list arec) : bool :=
    match l, l' with
    | [], [] => true
    | b :: r, b' :: r' => agent_after_ok hits k b b' && agents_after_ok hits (S k) r r'
    | _, _ => false
    end.

  (* clause numbers: 1111 status, 1101 a hit is not eligible (or not on a targeted cell),
     1102 limit exceeded, 1103 an agent hit twice without stacked attacks, 1104 an available
     eligible target was skipped at full accuracy (or too many hits), 1105/1106/1107 ammunition,
     health/active, frame (reported together as 1106), 1108 cells inconsistent with positions *)
  Definition chk_attack (status : bool) (hits : list nat) : Z :=
    if negb (Bool.eqb status attempted) then 1111
    else if negb attempted && negb (match hits with [] => true | _ => false end) then 1111
    else if negb (forallb eligible hits) then 1101
    else if cell_directed &&
            negb (forallb (fun v => match offset_of v with
                                    | Some d => 0 <? aimed_at d | None => false end) hits) then 1101
    else if negb (limits_ok hits) then 1102
    else if negb (c_stacked cf) && negb (nodupb hits) then 1103
    else if (c_accuracy cf =? HD) && attempted &&
            negb (lenZ hits =? match (match agent s att with Some a => a_ammo a | None => None end) with
                               | Some am => zmin expected_full am
                               | None => expected_full end) then 1104
    else if negb (agents_after_ok hits O (g_agents s) (g_agents s')) then 1106
    else if negb (cells_consistent s') then 1108
    else 0.
End Chk.

Fixpoint chk_aops (s0 s : gstate) (ops : list aop) (recs : list sx) : Z :=
  match ops, recs with
  | [], [] => 0
  | op :: ops', L [L (st :: hs :: _); snap] :: recs' =>
      match sxB st, sxNats hs, dec_snapshot s0 snap with
      | Some st', Some hs', Some s' =>
          let c := chk_attack vis_model s s' (op_cfg op) (op_att op) (op_act op) st' hs' in
          if c =? 0 then chk_aops s0 s' ops' recs' else c
      | _, _, _ => 1109
      end
  | _, _ => 1109
  end.

(* input ((rows cols ov agents ops) (snapshot0 records)) -> 1 | -clause *)
Definition run_chk_C11 (x : sx) : sx :=
  match x with
  | L [xin; L [snap0; L recs]] =>
      match dec_grid_input xin with
      | Some (s0, xops) =>
          match all_some (map dec_aop xops), dec_snapshot s0 snap0 with
          | Some ops, Some s0' =>
              if negb (cells_consistent s0') then A (-1108)
              else let c := chk_aops s0 s0' ops recs in if c =? 0 then A 1 else A (- c)
          | _, _ => A (-1109)
          end
      | None => A (-1109)
      end
  | _ => A (-1109)
  end.

(* DISPATCH: 1102 => run_chk_C11 *)
