(* Binary64 layer of C10: the eight direction cases of create_grid_and_mask (Grid/Mask.v,
   `shadow`) evaluated with IEEE-754 binary64 arithmetic in the code's operation order.

   Two instances of the same transcription:
     mask_float / mask_float_prefix     Coq's primitive floats (PrimFloat: hardware binary64,
                                        the arithmetic CPython/numpy use)
     mask_sfloat / mask_sfloat_prefix   the standard library's executable specification of
                                        binary64 (Floats.SpecFloat, prec 53, emax 1024): plain
                                        Gallina over Z, so theorems about it are closed under
                                        the global context
   `_prefix` = evaluation order of the unrepaired code  (x_diff +- .5) / (y_diff +- .5) * t ;
   the main models follow the repaired order  (x_diff +- .5) * t / (y_diff +- .5)  (finding F6).
   This file is not extracted.  No proofs here (see Proofs/MaskFloat_proofs.v). *)
From Coq Require Import ZArith List Bool PrimFloat Uint63 SpecFloat.
From Abm Require Import Base.Sx Grid.Mask.
Import ListNotations.
Open Scope Z_scope.

(* ---- primitive floats ---------------------------------------------------------------- *)
(* an int (numpy int64 / Python int) converted to binary64; exact below 2^53 *)
Definition fZ (z : Z) : float :=
  match z with
  | Z0 => PrimFloat.of_uint63 (Uint63.of_Z 0)
  | Zpos _ => PrimFloat.of_uint63 (Uint63.of_Z z)
  | Zneg p => PrimFloat.opp (PrimFloat.of_uint63 (Uint63.of_Z (Zpos p)))
  end.

(* r_diff + 0.5  and  r_diff - 0.5 *)
Definition hfF (x s : Z) : float :=
  if s >? 0 then PrimFloat.add (fZ x) 0.5%float else PrimFloat.sub (fZ x) 0.5%float.

Definition rayF (n d : float) (t : Z) : float := PrimFloat.div (PrimFloat.mul n (fZ t)) d.
Definition rayF_prefix (n d : float) (t : Z) : float := PrimFloat.mul (PrimFloat.div n d) (fZ t).
Definition ltF_l (v : float) (x : Z) : bool := PrimFloat.ltb v (fZ x).
Definition ltF_r (x : Z) (v : float) : bool := PrimFloat.ltb (fZ x) v.

Definition mask_float : Z -> cell -> cell -> bool := shadow hfF rayF ltF_l ltF_r.
Definition mask_float_prefix : Z -> cell -> cell -> bool := shadow hfF rayF_prefix ltF_l ltF_r.

(* ---- SpecFloat binary64 -------------------------------------------------------------- *)
Definition sZ (z : Z) : spec_float := binary_normalize 53 1024 z 0 false.
Definition s_half : spec_float := binary_normalize 53 1024 1 (-1) false.

Definition hfS (x s : Z) : spec_float :=
  if s >? 0 then SFadd 53 1024 (sZ x) s_half else SFsub 53 1024 (sZ x) s_half.

Definition rayS (n d : spec_float) (t : Z) : spec_float :=
  SFdiv 53 1024 (SFmul 53 1024 n (sZ t)) d.
Definition rayS_prefix (n d : spec_float) (t : Z) : spec_float :=
  SFmul 53 1024 (SFdiv 53 1024 n d) (sZ t).
Definition ltS_l (v : spec_float) (x : Z) : bool := SFltb v (sZ x).
Definition ltS_r (x : Z) (v : spec_float) : bool := SFltb (sZ x) v.

Definition mask_sfloat : Z -> cell -> cell -> bool := shadow hfS rayS ltS_l ltS_r.
Definition mask_sfloat_prefix : Z -> cell -> cell -> bool := shadow hfS rayS_prefix ltS_l ltS_r.

(* ---- the layout of finding F6: range 15, viewer at the centre of a 31 x 31 grid, one
   blocking agent at offset (-8, -6); the centre of cell (-15, -13) lies exactly on the ray
   through the corner (-7.5, -6.5) *)
Definition f6_layout : layout :=
  mkLayout 15 31 31 0 [mkAgent 15 15 true false; mkAgent 7 9 true true].
