(* Observation histories for C09: the same observer objects observe a sequence of states (the viewer
   moves between observations).  The observer models are state-less, so a history is checked state
   by state: these wrappers map the single-state entry points of Grid/Observe.v over a list. *)
From Coq Require Import ZArith List Bool.
From Abm Require Import Base.Sx Grid.Observe.
Import ListNotations.
Open Scope Z_scope.

Definition run_observe_seq (x : sx) : sx :=
  match x with
  | L cases => L (map run_observe cases)
  | A _ => sx_err
  end.

(* input ((case ...) (behaviour ...)) -> 1 | first failing verdict *)
Fixpoint chk_seq (cs bs : list sx) : sx :=
  match cs, bs with
  | [], [] => A 1
  | c :: cs', b :: bs' =>
      match run_chk_C09 (L [c; b]) with
      | A 1 => chk_seq cs' bs'
      | v => v
      end
  | _, _ => A (-1)
  end.

Definition run_chk_C09_seq (x : sx) : sx :=
  match x with
  | L [L cases; L behs] => chk_seq cases behs
  | _ => A (-1)
  end.

(* DISPATCH: 903 => run_observe_seq *)
(* DISPATCH: 904 => run_chk_C09_seq *)
