(* Model of abmarl/sim/gridworld/smart.py (SmartGridWorldSimulation: component resolution by
   class or registry name, reset through all state components, any() over done components,
   key-wise merge over observers, read-and-reset rewards) and of registry.py (name -> class
   finite map, register).  The state components are modelled for agents that carry their
   initial values (no random placement, see C13).  The `step` of the concrete subclass is the
   scripted one of harness/gen_C17.py.  No proofs here (see Proofs/Smart_proofs.v). *)
From Coq Require Import ZArith List Bool.
From Abm Require Import Base.Sx Grid.Overlap Grid.Amap Grid.Done.
Import ListNotations.
Open Scope Z_scope.

(* ---- agents: a static part (constructor arguments) and a dynamic part (episode state) ---- *)
Record sstatic := mkT {
  t_enc : Z;
  t_learn : bool;                 (* is_agent: acting and observing *)
  t_ipos : Z * Z;                 (* initial_position *)
  t_ihealth : Z;                  (* initial_health in ticks of 1/1024 *)
  t_iammo : option Z;             (* AmmoAgent: initial_ammo *)
  t_iorient : option Z            (* OrientationAgent: initial_orientation *)
}.
Record sdyn := mkD {
  d_active : bool;
  d_pos : option (Z * Z);
  d_health : Z;
  d_ammo : Z;
  d_orient : Z
}.
Definition sagent := (sstatic * sdyn)%type.
Definition to_agent (s : sagent) : agent := mkAgent (t_enc (fst s)) (d_active (snd s)) (d_pos (snd s)).
Definition to_pop (p : list sagent) : pop := map to_agent p.

Definition upd_dyn (f : sstatic -> sdyn -> sdyn) (p : list sagent) : list sagent :=
  map (fun s => (fst s, f (fst s) (snd s))) p.

(* ---- state components --------------------------------------------------------------------- *)
Inductive scomp := SPos | SHealth | SAmmo | SOrient.
Definition scomp_eqb (a b : scomp) : bool :=
  match a, b with
  | SPos, SPos | SHealth, SHealth | SAmmo, SAmmo | SOrient, SOrient => true
  | _, _ => false
  end.

Definition pos2_eqb (a b : Z * Z) : bool := (fst a =? fst b) && (snd a =? snd b).

(* PositionState.reset when every agent has an initial position: grid.reset(), then
   `assert grid.place(agent, agent.initial_position)` in agents order; Grid.query looks at the
   agents already in the cell.  [placed] = what the grid holds so far (cell, encoding). *)
Fixpoint place_all (t : otable) (placed : list ((Z * Z) * Z)) (l : list sagent) : bool :=
  match l with
  | [] => true
  | s :: r =>
      let cell := t_ipos (fst s) in
      let occ := map snd (filter (fun pe => pos2_eqb (fst pe) cell) placed) in
      if ov_query t (t_enc (fst s)) occ
      then place_all t (placed ++ [(cell, t_enc (fst s))]) r
      else false
  end.

Definition reset_pos (t : otable) (p : list sagent) : option (list sagent) :=
  if place_all t [] p
  then Some (upd_dyn (fun st d => mkD (d_active d) (Some (t_ipos st)) (d_health d) (d_ammo d)
                                      (d_orient d)) p)
  else None.

(* agent.health = v : clamps to [0,1] and sets active := health > 0 *)
Definition clamp (h : Z) : Z := Z.min (Z.max h 0) 1024.
Definition reset_health (p : list sagent) : list sagent :=
  upd_dyn (fun st d => let h := clamp (t_ihealth st) in
                       mkD (h >? 0) (d_pos d) h (d_ammo d) (d_orient d)) p.

Definition reset_ammo (p : list sagent) : list sagent :=
  upd_dyn (fun st d => match t_iammo st with
                       | Some a => mkD (d_active d) (d_pos d) (d_health d) a (d_orient d)
                       | None => d
                       end) p.

Definition reset_orient (p : list sagent) : list sagent :=
  upd_dyn (fun st d => match t_iorient st with
                       | Some o => mkD (d_active d) (d_pos d) (d_health d) (d_ammo d) o
                       | None => d
                       end) p.

Definition reset_comp (t : otable) (c : scomp) (p : list sagent) : option (list sagent) :=
  match c with
  | SPos => reset_pos t p
  | SHealth => Some (reset_health p)
  | SAmmo => Some (reset_ammo p)
  | SOrient => Some (reset_orient p)
  end.

(* for state in self._states: state.reset() *)
Fixpoint reset_all (t : otable) (ss : list scomp) (p : list sagent) : option (list sagent) :=
  match ss with
  | [] => Some p
  | c :: r => match reset_comp t c p with Some p' => reset_all t r p' | None => None end
  end.

(* ---- registry and component resolution ----------------------------------------------------
   classes: done 0..5 (5 = the harness's TopRowDone), state 10..13, observer 20..25
   (25 = the harness's custom observer); a component's registry name is its class name, here
   the same number.                                                                          *)
Inductive ckind := KDone | KState | KObserver.
Definition class_kind (c : Z) : option ckind :=
  if (0 <=? c) && (c <=? 5) then Some KDone
  else if (10 <=? c) && (c <=? 13) then Some KState
  else if (20 <=? c) && (c <=? 25) then Some KObserver
  else None.
Definition ckind_eqb (a b : ckind) : bool :=
  match a, b with KDone, KDone | KState, KState | KObserver, KObserver => true | _, _ => false end.

Record registry := mkReg { r_done : list (Z * Z); r_state : list (Z * Z); r_obs : list (Z * Z) }.
Definition reg_of (r : registry) (k : ckind) : list (Z * Z) :=
  match k with KDone => r_done r | KState => r_state r | KObserver => r_obs r end.

Definition builtin_registry : registry :=
  mkReg (map (fun c => (c, c)) [0; 1; 2; 3; 4])
        (map (fun c => (c, c)) [10; 11; 12; 13])
        (map (fun c => (c, c)) [20; 21; 22; 23; 24]).

(* register(component): registry[type][component.__name__] = component; None = TypeError *)
Definition register (r : registry) (c : Z) : option registry :=
  match class_kind c with
  | Some KDone => Some (mkReg (am_set Z.eqb (r_done r) c c) (r_state r) (r_obs r))
  | Some KState => Some (mkReg (r_done r) (am_set Z.eqb (r_state r) c c) (r_obs r))
  | Some KObserver => Some (mkReg (r_done r) (r_state r) (am_set Z.eqb (r_obs r) c c))
  | None => None
  end.

Inductive res (T : Type) := Ok (x : T) | Err (code : Z).
Arguments Ok {T} x.
Arguments Err {T} code.

Inductive cref := ByName (n : Z) | ByClass (c : Z).

(* str: `assert name in registry[kind]`; otherwise issubclass(c, Base) or ValueError *)
Definition resolve (r : registry) (k : ckind) (x : cref) : res Z :=
  match x with
  | ByName n => match am_get Z.eqb (reg_of r k) n with Some c => Ok c | None => Err 1 end
  | ByClass c =>
      match class_kind c with
      | Some k' => if ckind_eqb k k' then Ok c else Err 6
      | None => Err 6
      end
  end.

Fixpoint resolve_all (rs : ckind -> cref -> res Z) (k : ckind) (xs : list cref) : res (list Z) :=
  match xs with
  | [] => Ok []
  | x :: rest =>
      match rs k x with
      | Err c => Err c
      | Ok c => match resolve_all rs k rest with Ok cs => Ok (c :: cs) | Err e => Err e end
      end
  end.

(* the shared keyword arguments every component receives *)
Inductive tmap := TMNone | TMAgent (m : atmap) | TMEnc (m : etmap).
Record kwargs := mkKw { k_tm : tmap; k_one : option bool; k_row : Z }.

Definition encodings_in_sim (sts : list sstatic) : list Z := map t_enc sts.

(* the target_mapping setters (done.py:78-88, 119-129, 173-191) *)
Definition valid_atm (n : nat) (m : atmap) : bool :=
  forallb (fun kv => (fst kv <? n)%nat && (snd kv <? n)%nat) m.
Definition valid_etm (encs : list Z) (m : etmap) : bool :=
  forallb (fun kv => memZ (fst kv) encs &&
                     forallb (fun te => memZ te encs && negb (te =? fst kv)) (tgt_set (snd kv))) m.

Definition mk_done (kw : kwargs) (sts : list sstatic) (c : Z) : res dcomp :=
  let one := match k_one kw with Some b => b | None => true end in
  if c =? 0 then Ok DActive
  else if c =? 4 then Ok DOneTeam
  else if c =? 5 then Ok (DCustom (k_row kw))
  else if (c =? 1) || (c =? 2) then
    match k_tm kw with
    | TMAgent m => if valid_atm (length sts) m
                   then Ok (if c =? 1 then DOverlap m else DTgtInactive m) else Err 1
    | TMEnc [] => Ok (if c =? 1 then DOverlap [] else DTgtInactive [])
    | _ => Err 1
    end
  else if c =? 3 then
    match k_tm kw with
    | TMEnc m => if valid_etm (encodings_in_sim sts) m then Ok (DEncInactive m one) else Err 1
    | TMAgent [] => Ok (DEncInactive [] one)
    | _ => Err 1
    end
  else Err 6.

Fixpoint mk_dones (kw : kwargs) (sts : list sstatic) (cs : list Z) : res (list dcomp) :=
  match cs with
  | [] => Ok []
  | c :: r =>
      match mk_done kw sts c with
      | Err e => Err e
      | Ok d => match mk_dones kw sts r with Ok ds => Ok (d :: ds) | Err e => Err e end
      end
  end.

Definition state_of_class (c : Z) : option scomp :=
  if c =? 10 then Some SPos else if c =? 11 then Some SHealth
  else if c =? 12 then Some SAmmo else if c =? 13 then Some SOrient else None.

Record cfg := mkCfg {
  c_table : otable;                       (* Grid.overlapping after the setter *)
  c_states : option (list scomp);         (* None: attribute _states never created *)
  c_has_obs : bool;
  c_dones : option (list dcomp)
}.

(* SmartGridWorldSimulation.__init__: states, then observers, then dones; `if states:` skips
   None and the empty set *)
Definition smart_init_with (r : ckind -> cref -> res Z) (t : otable) (sts : list sstatic)
           (kw : kwargs) (states observers dones : list cref) : res cfg :=
  match (match states with
         | [] => Ok None
         | _ => match resolve_all r KState states with
                | Ok cs => match all_some (map state_of_class cs) with
                           | Some ss => Ok (Some ss) | None => Err 6 end
                | Err e => Err e
                end
         end) with
  | Err e => Err e
  | Ok ss =>
      match (match observers with
             | [] => Ok false
             | _ => match resolve_all r KObserver observers with Ok _ => Ok true | Err e => Err e end
             end) with
      | Err e => Err e
      | Ok ho =>
          match (match dones with
                 | [] => Ok None
                 | _ => match resolve_all r KDone dones with
                        | Ok cs => match mk_dones kw sts cs with
                                   | Ok ds => Ok (Some ds) | Err e => Err e end
                        | Err e => Err e
                        end
                 end) with
          | Err e => Err e
          | Ok ds => Ok (mkCfg (ov_symmetrise t) ss ho ds)
          end
      end
  end.

Definition smart_init (r : registry) := smart_init_with (resolve r).

(* ---- the running simulation ----------------------------------------------------------------- *)
Record smart := mkSm {
  m_pop : list sagent;
  m_rew : option (list (nat * Z))         (* None: attribute `rewards` not yet created *)
}.

Definition obsdict := list (Z * list Z).  (* channel key -> value (flattened) *)

Record act := mkAct { ac_i : nat; ac_amt : Z; ac_active : bool; ac_pos : option (Z * Z) }.

Inductive op :=
| OReset
| OStep (acts : list act)
| OReward (i : nat)
| ODone (i : nat)
| OAllDone
| OObs (i : nat) (outs : list obsdict).   (* what each observer returned, in iteration order *)

(* any(f(x) for x in xs): lazy, stops at the first True; None = an exception got out *)
Fixpoint any_lazy {T} (f : T -> option bool) (l : list T) : option bool :=
  match l with
  | [] => Some false
  | x :: r =>
      match f x with
      | Some true => Some true
      | Some false => any_lazy f r
      | None => None
      end
  end.

Definition smart_get_done (ds : list dcomp) (p : pop) (i : nat) : option bool :=
  any_lazy (fun d => get_done p d i) ds.
Definition smart_get_all_done (ds : list dcomp) (p : pop) : option bool :=
  any_lazy (fun d => get_all_done p d) ds.

(* {k: v for observer in observers for k, v in observer.get_obs(agent).items()} *)
Definition merge_obs (outs : list obsdict) : obsdict :=
  fold_left (fun acc o => am_update Z.eqb acc o) outs [].

Definition learn_indices (p : list sagent) : list nat :=
  map fst (filter (fun ia => t_learn (fst (snd ia))) (combine (seq 0 (length p)) p)).

(* self.rewards = {agent.id: 0 for agent in agents.values() if is_agent(agent)} *)
Definition zero_rewards (p : list sagent) : list (nat * Z) := map (fun i => (i, 0)) (learn_indices p).

Fixpoint upd_nth {T} (l : list T) (i : nat) (f : T -> T) : list T :=
  match l, i with
  | [], _ => []
  | x :: r, O => f x :: r
  | x :: r, S j => x :: upd_nth r j f
  end.

Definition set_act (a : act) (d : sdyn) : sdyn :=
  mkD (ac_active a) (ac_pos a) (d_health d) (d_ammo d) (d_orient d).

Definition apply_act_pop (p : list sagent) (a : act) : list sagent :=
  upd_nth p (ac_i a) (fun s => (fst s, set_act a (snd s))).

Definition is_learner (p : list sagent) (i : nat) : bool :=
  match nth_error p i with Some s => t_learn (fst s) | None => false end.

(* the scripted subclass: for id, a in action_dict.items():
     if is_agent(agent): self.rewards[id] += a.amount
     agent.active = a.active; agent.position = a.position                                 *)
Definition step_one (st : list sagent * list (nat * Z)) (a : act) : list sagent * list (nat * Z) :=
  let (p, r) := st in
  let r' := if is_learner p (ac_i a)
            then am_set Nat.eqb r (ac_i a)
                        (match am_get Nat.eqb r (ac_i a) with Some v => v | None => 0 end + ac_amt a)
            else r in
  (apply_act_pop p a, r').

Definition sx_errc (c : Z) : sx := L [A (-1); A c].
Definition enc_pos (p : option (Z * Z)) : list sx :=
  match p with Some (r, c) => [A 1; A r; A c] | None => [A 0; A 0; A 0] end.
Definition enc_dyn (d : sdyn) : sx :=
  L (ofB (d_active d) :: enc_pos (d_pos d) ++ [A (d_health d); A (d_ammo d); A (d_orient d)]).
Definition enc_rewards (r : list (nat * Z)) : sx := L (map (fun kv => L [ofNat (fst kv); A (snd kv)]) r).
Definition enc_obsdict (o : obsdict) : sx := L (map (fun kv => L [A (fst kv); ofZs (snd kv)]) o).
Definition enc_ob2 (tag : Z) (o : option bool) : sx :=
  match o with Some b => L [A tag; ofB b] | None => sx_errc 5 end.

Definition do_op (c : cfg) (m : smart) (o : op) : smart * sx :=
  match o with
  | OReset =>
      match c_states c with
      | None => (m, sx_errc 1)
      | Some ss =>
          match reset_all (c_table c) ss (m_pop m) with
          | None => (m, sx_errc 1)
          | Some p' =>
              let r := zero_rewards p' in
              (mkSm p' (Some r), L [A 0; L (map (fun s => enc_dyn (snd s)) p'); enc_rewards r])
          end
      end
  | OStep acts =>
      match m_rew m with
      | None => (m, sx_errc 2)
      | Some r =>
          let (p', r') := fold_left step_one acts (m_pop m, r) in
          (mkSm p' (Some r'), L [A 1])
      end
  | OReward i =>
      match m_rew m with
      | None => (m, sx_errc 3)
      | Some r =>
          match am_get Nat.eqb r i with
          | None => (m, sx_errc 5)
          | Some v => (mkSm (m_pop m) (Some (am_set Nat.eqb r i 0)), L [A 2; A v])
          end
      end
  | ODone i =>
      match c_dones c with
      | None => (m, sx_errc 1)
      | Some ds =>
          match nth_error (m_pop m) i with
          | None => (m, sx_errc 5)
          | Some _ => (m, enc_ob2 3 (smart_get_done ds (to_pop (m_pop m)) i))
          end
      end
  | OAllDone =>
      match c_dones c with
      | None => (m, sx_errc 1)
      | Some ds => (m, enc_ob2 4 (smart_get_all_done ds (to_pop (m_pop m))))
      end
  | OObs i outs =>
      if c_has_obs c
      then match nth_error (m_pop m) i with
           | None => (m, sx_errc 5)
           | Some _ => (m, L [A 5; enc_obsdict (merge_obs outs)])
           end
      else (m, sx_errc 1)
  end.

Fixpoint run_ops (c : cfg) (m : smart) (ops : list op) : list sx :=
  match ops with
  | [] => []
  | o :: r => let (m', out) := do_op c m o in out :: run_ops c m' r
  end.

(* ==== independent specification of a run ======================================================
   rewards from the history of events, reset field by field, done as "some component's
   documented condition", observation as "first-seen key order, last provider's value".       *)
Inductive event := EReset | EAcc (i : nat) (z : Z) | ERead (i : nat).

(* most recent event first: what agent i has been given since its last read / the last reset *)
Fixpoint accrued (h : list event) (i : nat) : Z :=
  match h with
  | [] => 0
  | EReset :: _ => 0
  | ERead j :: r => if Nat.eqb j i then 0 else accrued r i
  | EAcc j z :: r => if Nat.eqb j i then accrued r i + z else accrued r i
  end.
Definition was_reset (h : list event) : bool :=
  existsb (fun e => match e with EReset => true | _ => false end) h.

Definition has (c : scomp) (ss : list scomp) : bool := existsb (scomp_eqb c) ss.

Definition expected_dyn (ss : list scomp) (st : sstatic) (d : sdyn) : sdyn :=
  let h := if has SHealth ss then clamp (t_ihealth st) else d_health d in
  mkD (if has SHealth ss then h >? 0 else d_active d)
      (if has SPos ss then Some (t_ipos st) else d_pos d)
      h
      (if has SAmmo ss then match t_iammo st with Some a => a | None => d_ammo d end else d_ammo d)
      (if has SOrient ss then match t_iorient st with Some o => o | None => d_orient d end
       else d_orient d).

(* a later agent finds its initial cell held by an earlier agent it may not overlap *)
Fixpoint conflict_spec (t : otable) (p : list sagent) : bool :=
  match p with
  | [] => false
  | s :: r =>
      existsb (fun s' => pos2_eqb (t_ipos (fst s)) (t_ipos (fst s')) &&
                         negb (ov_allowed t (t_enc (fst s')) (t_enc (fst s)))) r
      || conflict_spec t r
  end.

Definition is_some {T} (o : option T) : bool := match o with Some _ => true | None => false end.
Definition is_true (o : option bool) : bool := match o with Some true => true | _ => false end.

Fixpoint last_val (k : Z) (l : obsdict) : option (list Z) :=
  match l with
  | [] => None
  | (k', v) :: r =>
      match last_val k r with
      | Some v' => Some v'
      | None => if k =? k' then Some v else None
      end
  end.

Fixpoint dedup (seen : list Z) (l : list Z) : list Z :=
  match l with
  | [] => []
  | k :: r => if memZ k seen then dedup seen r else k :: dedup (seen ++ [k]) r
  end.

Definition spec_merge (outs : list obsdict) : obsdict :=
  let all := concat outs in
  map (fun k => (k, match last_val k all with Some v => v | None => [] end))
      (dedup [] (map fst all)).

Definition distinct_keys (outs : list obsdict) : bool :=
  let ks := map fst (concat outs) in
  (length (dedup [] ks) =? length ks)%nat.

Fixpoint push_acts (p : list sagent) (acts : list act) (h : list event) : list event :=
  match acts with
  | [] => h
  | a :: r =>
      push_acts (apply_act_pop p a) r
                (if is_learner p (ac_i a) then EAcc (ac_i a) (ac_amt a) :: h else h)
  end.

(* expected answer (None: unconstrained by the property), next population, next history,
   and whether the rest of the run is still constrained *)
Definition spec_op (c : cfg) (p : list sagent) (h : list event) (o : op)
  : option sx * list sagent * list event * bool :=
  match o with
  | OReset =>
      match c_states c with
      | None => (Some (sx_errc 1), p, h, true)
      | Some ss =>
          if has SPos ss && conflict_spec (c_table c) p then (Some (sx_errc 1), p, h, false)
          else
            let p' := upd_dyn (expected_dyn ss) p in
            (Some (L [A 0; L (map (fun s => enc_dyn (snd s)) p');
                      L (map (fun i => L [ofNat i; A 0]) (learn_indices p))]),
             p', EReset :: h, true)
      end
  | OStep acts =>
      if was_reset h
      then (Some (L [A 1]), fold_left apply_act_pop acts p, push_acts p acts h, true)
      else (Some (sx_errc 2), p, h, true)
  | OReward i =>
      if negb (was_reset h) then (Some (sx_errc 3), p, h, true)
      else if negb (is_learner p i) then (Some (sx_errc 5), p, h, true)
      else (Some (L [A 2; A (accrued h i)]), p, ERead i :: h, true)
  | ODone i =>
      match c_dones c with
      | None => (Some (sx_errc 1), p, h, true)
      | Some ds =>
          match nth_error p i with
          | None => (Some (sx_errc 5), p, h, true)
          | Some _ =>
              let vals := map (fun d => sp_done (to_pop p) d i) ds in
              if forallb is_some vals
              then (Some (L [A 3; ofB (existsb is_true vals)]), p, h, true)
              else (None, p, h, true)
          end
      end
  | OAllDone =>
      match c_dones c with
      | None => (Some (sx_errc 1), p, h, true)
      | Some ds =>
          let vals := map (fun d => sp_all_done (to_pop p) d) ds in
          if forallb is_some vals
          then (Some (L [A 4; ofB (existsb is_true vals)]), p, h, true)
          else (None, p, h, true)
      end
  | OObs i outs =>
      if c_has_obs c
      then match nth_error p i with
           | None => (Some (sx_errc 5), p, h, true)
           | Some _ => (Some (L [A 5; enc_obsdict (spec_merge outs)]), p, h, true)
           end
      else (Some (sx_errc 1), p, h, true)
  end.

(* state of the model after a list of operations, and the specification's view of it *)
Definition model_state (c : cfg) (m : smart) (ops : list op) : smart :=
  fold_left (fun m o => fst (do_op c m o)) ops m.

(* population and event history (most recent first) after a list of operations *)
Fixpoint spec_state (c : cfg) (p : list sagent) (h : list event) (ops : list op)
  : list sagent * list event :=
  match ops with
  | [] => (p, h)
  | o :: r => match spec_op c p h o with (_, p', h', _) => spec_state c p' h' r end
  end.

Definition op_tag (o : op) : Z :=
  match o with OReset => 0 | OStep _ => 1 | OReward _ => 2 | ODone _ => 3 | OAllDone => 4
             | OObs _ _ => 5 end.

(* clause -(10+tag): the answer to an operation of that kind is not the specified one;
   clause -(20+tag) for OObs: channels with pairwise distinct keys are not simply appended;
   clause -2: number of answers differs from the number of operations *)
Fixpoint chk_ops (c : cfg) (p : list sagent) (h : list event) (ops : list op) (outs : list sx) : Z :=
  match ops, outs with
  | [], [] => 1
  | o :: ops', out :: outs' =>
      match spec_op c p h o with
      | (e, p', h', go) =>
          if match e with Some x => negb (sx_eqb x out) | None => false end then - (10 + op_tag o)
          else if match o with
                  | OObs _ oo => c_has_obs c && distinct_keys oo &&
                                 negb (sx_eqb out (L [A 5; enc_obsdict (concat oo)])) &&
                                 negb (sx_eqb out (sx_errc 5))
                  | _ => false
                  end then -25
          else if go then chk_ops c p' h' ops' outs' else 1
      end
  | _, _ => -2
  end.

(* ---- wire -------------------------------------------------------------------------------------
   input  (agents table rows cols spec ops)
     agent  (enc learn ir ic ihealth (iammo)? (iorient)?  active haspos r c health ammo orient)
     table  ((enc (e1 e2 ...)) ...)       the `overlapping` keyword, before the Grid setter
     spec   (custom_registered (ref ...) (ref ...) (ref ...) (tmap (one)? row))
            ref = (0 name) | (1 class);  tmap = (0) | (1 ((i t) ...)) | (2 (entry ...))
     ops    (0) | (1 ((i amt active haspos r c) ...)) | (2 i) | (3 i) | (4)
            | (5 i (((k (v ...)) ...) ...))
   output (-1 code) when the constructor fails, else (0 (answer ...))                        *)
Definition dec_sagent (x : sx) : option sagent :=
  match x with
  | L [A e; xl; A ir; A ic; A ih; xia; xio; xa; A hp; A r; A c; A hl; A am; A orr] =>
      match sxB xl, sxOptZ xia, sxOptZ xio, sxB xa with
      | Some l, Some ia, Some io, Some a =>
          Some (mkT e l (ir, ic) ih ia io,
                mkD a (if hp =? 0 then None else Some (r, c)) hl am orr)
      | _, _, _, _ => None
      end
  | _ => None
  end.

Definition dec_table (x : sx) : option otable :=
  match x with
  | L l => all_some (map (fun y => match y with
                                   | L [A k; s] => match sxZs s with Some s' => Some (k, s') | None => None end
                                   | _ => None end) l)
  | A _ => None
  end.

Definition dec_cref (x : sx) : option cref :=
  match x with
  | L [A 0; A n] => Some (ByName n)
  | L [A 1; A c] => Some (ByClass c)
  | _ => None
  end.
Definition dec_crefs (x : sx) : option (list cref) :=
  match x with L l => all_some (map dec_cref l) | A _ => None end.

Definition dec_tmap (x : sx) : option tmap :=
  match x with
  | L [A 0] => Some TMNone
  | L [A 1; m] => option_map TMAgent (dec_atmap m)
  | L [A 2; m] => option_map TMEnc (dec_etmap m)
  | _ => None
  end.

Definition dec_kwargs (x : sx) : option kwargs :=
  match x with
  | L [xt; xo; A row] =>
      match dec_tmap xt, (match xo with
                          | L [] => Some None
                          | L [b] => option_map Some (sxB b)
                          | _ => None end) with
      | Some t, Some o => Some (mkKw t o row)
      | _, _ => None
      end
  | _ => None
  end.

Definition dec_act (x : sx) : option act :=
  match x with
  | L [xi; A amt; xa; A hp; A r; A c] =>
      match sxNat xi, sxB xa with
      | Some i, Some a => Some (mkAct i amt a (if hp =? 0 then None else Some (r, c)))
      | _, _ => None
      end
  | _ => None
  end.

Definition dec_obsdict (x : sx) : option obsdict :=
  match x with
  | L l => all_some (map (fun y => match y with
                                   | L [A k; v] => match sxZs v with Some v' => Some (k, v') | None => None end
                                   | _ => None end) l)
  | A _ => None
  end.

Definition dec_op (x : sx) : option op :=
  match x with
  | L [A 0] => Some OReset
  | L [A 1; L l] => option_map OStep (all_some (map dec_act l))
  | L [A 2; xi] => option_map OReward (sxNat xi)
  | L [A 3; xi] => option_map ODone (sxNat xi)
  | L [A 4] => Some OAllDone
  | L [A 5; xi; L l] =>
      match sxNat xi, all_some (map dec_obsdict l) with
      | Some i, Some outs => Some (OObs i outs)
      | _, _ => None
      end
  | _ => None
  end.

Record sinput := mkIn {
  i_pop : list sagent; i_table : otable; i_custom : bool; i_kw : kwargs;
  i_states : list cref; i_observers : list cref; i_dones : list cref; i_ops : list op
}.

Definition dec_sinput (x : sx) : option sinput :=
  match x with
  | L [L xa; xt; _; _; L [xc; xs; xo; xd; xk]; L xops] =>
      match all_some (map dec_sagent xa), dec_table xt, sxB xc, dec_crefs xs, dec_crefs xo,
            dec_crefs xd, dec_kwargs xk, all_some (map dec_op xops) with
      | Some p, Some t, Some cu, Some ss, Some oo, Some dd, Some kw, Some ops =>
          Some (mkIn p t cu kw ss oo dd ops)
      | _, _, _, _, _, _, _, _ => None
      end
  | _ => None
  end.

Definition the_registry (custom : bool) : registry :=
  if custom
  then match register builtin_registry 5 with
       | Some r => match register r 25 with Some r' => r' | None => r end
       | None => builtin_registry
       end
  else builtin_registry.

Definition init_of (i : sinput) : res cfg :=
  smart_init (the_registry (i_custom i)) (i_table i) (map fst (i_pop i)) (i_kw i)
             (i_states i) (i_observers i) (i_dones i).

(* documented resolution: a name stands for the registered class of that name (built-in, or
   the custom ones once registered); a class stands for itself when it is of the right kind *)
Definition spec_resolve (custom : bool) (k : ckind) (x : cref) : res Z :=
  match x with
  | ByName n =>
      match class_kind n with
      | Some k' => if ckind_eqb k k' && (custom || negb ((n =? 5) || (n =? 25))) then Ok n else Err 1
      | None => Err 1
      end
  | ByClass c =>
      match class_kind c with
      | Some k' => if ckind_eqb k k' then Ok c else Err 6
      | None => Err 6
      end
  end.

Definition spec_init_of (i : sinput) : res cfg :=
  smart_init_with (spec_resolve (i_custom i)) (i_table i) (map fst (i_pop i)) (i_kw i)
                  (i_states i) (i_observers i) (i_dones i).

Definition smart_behaviour (i : sinput) : sx :=
  match init_of i with
  | Err e => sx_errc e
  | Ok c => L [A 0; L (run_ops c (mkSm (i_pop i) None) (i_ops i))]
  end.

Definition run_smart (x : sx) : sx :=
  match dec_sinput x with Some i => smart_behaviour i | None => sx_err end.

(* clause -1: the constructor's outcome (accepted / which error) is not the specified one *)
Definition chk_C17_smart (i : sinput) (b : sx) : Z :=
  match spec_init_of i, b with
  | Err e, _ => if sx_eqb b (sx_errc e) then 1 else -1
  | Ok c, L [A 0; L outs] => chk_ops c (i_pop i) [] (i_ops i) outs
  | Ok _, _ => -1
  end.

Definition run_chk_C17_smart (x : sx) : sx :=
  match x with
  | L [xi; b] => match dec_sinput xi with Some i => A (chk_C17_smart i b) | None => A (-9) end
  | _ => A (-9)
  end.

(* DISPATCH: 1703 => run_smart *)
(* DISPATCH: 1704 => run_chk_C17_smart *)
