(* Python dict as an association list in insertion order (helper of C17/C18):
   d[k] = v replaces the value in place when the key is present (the stored key object is
   kept) and appends otherwise; d.update(e) does that for every item of e in e's order.
   No proofs here (see Proofs/Amap_proofs.v). *)
From Coq Require Import List Bool.
Import ListNotations.

Section Amap.
  Context {K V : Type} (eqb : K -> K -> bool).

  Fixpoint am_get (m : list (K * V)) (k : K) : option V :=
    match m with
    | [] => None
    | (k', v) :: r => if eqb k k' then Some v else am_get r k
    end.

  Fixpoint am_set (m : list (K * V)) (k : K) (v : V) : list (K * V) :=
    match m with
    | [] => [(k, v)]
    | (k', v') :: r => if eqb k k' then (k', v) :: r else (k', v') :: am_set r k v
    end.

  Definition am_update (m e : list (K * V)) : list (K * V) :=
    fold_left (fun acc kv => am_set acc (fst kv) (snd kv)) e m.

  (* the value the last item with key k carries *)
  Fixpoint am_last (k : K) (l : list (K * V)) : option V :=
    match l with
    | [] => None
    | (k', v) :: r =>
        match am_last k r with
        | Some v' => Some v'
        | None => if eqb k k' then Some v else None
        end
    end.

  Definition am_mem (m : list (K * V)) (k : K) : bool :=
    match am_get m k with Some _ => true | None => false end.
End Amap.
