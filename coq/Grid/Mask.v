(* Model of abmarl/sim/gridworld/utils.py : create_grid_and_mask (the mask part, lines 45-115),
   after the repair of finding F6 (findings/C10-float-ray.patch): every ray function is
   evaluated as  (x_diff +- 0.5) * t / (y_diff +- 0.5) ;  the order of the unrepaired code,
   (x_diff +- 0.5) / (y_diff +- 0.5) * t , is kept as the `_prefix` variants.

   The eight direction cases are transcribed once, in `shadow`, over an abstract number type
   (section variables), and instantiated here with exact rationals (`mask_code`) and in
   Grid/MaskFloat.v with binary64.  `hidden` is the independent integer specification of
   the documented rule.  No proofs here (see Proofs/Mask_proofs.v). *)
From Coq Require Import ZArith List Bool QArith.
From Abm Require Import Base.Sx.
Import ListNotations.
Open Scope Z_scope.

(* a cell offset (row, column) relative to the viewing agent *)
Definition cell := (Z * Z)%type.

Definition cell_eqb (p q : cell) : bool := (fst p =? fst q) && (snd p =? snd q).

(* -mask_range <= r_diff <= mask_range and -mask_range <= c_diff <= mask_range *)
Definition in_window (R : Z) (p : cell) : bool :=
  (- R <=? fst p) && (fst p <=? R) && (- R <=? snd p) && (snd p <=? R).

(* x in range(a, b)  and  x in range(a, b, -1) *)
Definition rng_up (a b x : Z) : bool := (a <=? x) && (x <? b).
Definition rng_dn (a b x : Z) : bool := (b <? x) && (x <=? a).

(* ------------------------------------------------------------------------------------
   The eight direction cases of the code, lines 52-115.  [shadow R (r_diff, c_diff) (r, c)]
   is true when the loops of the case selected by (r_diff, c_diff) execute
   `mask[r + R, c + R] = 0`:  (r, c) is produced by the two `range`s, is not skipped by the
   `continue`, and passes the chained comparison.
     hf x s      the number  x + s * 0.5   (s = 1 or -1)
     ray n d t   the value of the lambda body  n / d * t  (in the evaluation order of the
                 instance); as in the code, the lambda re-evaluates  x_diff +- 0.5  at every call
     lt_l v x    v < x      lt_r x v    x < v     (x an integer loop variable)          *)
Section Shadow.
  Context {T : Type}.
  Variable hf : Z -> Z -> T.
  Variable ray : T -> T -> Z -> T.
  Variable lt_l : T -> Z -> bool.
  Variable lt_r : Z -> T -> bool.

  (* lower(t) < x < upper(t) *)
  Definition btw (lower upper : Z -> T) (t x : Z) : bool :=
    lt_l (lower t) x && lt_r x (upper t).

  Definition shadow (R : Z) (b q : cell) : bool :=
    let '(r_diff, c_diff) := b in
    let '(r, c) := q in
    let other := (c =? c_diff) && (r =? r_diff) in
    if (c_diff >? 0) && (r_diff =? 0) then          (* other is to the right of agent *)
      let upper := fun t => ray (hf r_diff 1) (hf c_diff (-1)) t in
      let lower := fun t => ray (hf r_diff (-1)) (hf c_diff (-1)) t in
      rng_up c_diff (R + 1) c && rng_up (- R) (R + 1) r && negb other && btw lower upper c r
    else if (c_diff >? 0) && (r_diff >? 0) then     (* below-right *)
      let upper := fun t => ray (hf r_diff 1) (hf c_diff (-1)) t in
      let lower := fun t => ray (hf r_diff (-1)) (hf c_diff 1) t in
      rng_up c_diff (R + 1) c && rng_up r_diff (R + 1) r && negb other && btw lower upper c r
    else if (c_diff =? 0) && (r_diff >? 0) then     (* below *)
      let left := fun t => ray (hf c_diff (-1)) (hf r_diff (-1)) t in
      let right := fun t => ray (hf c_diff 1) (hf r_diff (-1)) t in
      rng_up (- R) (R + 1) c && rng_up r_diff (R + 1) r && negb other && btw left right r c
    else if (c_diff <? 0) && (r_diff >? 0) then     (* below-left *)
      let upper := fun t => ray (hf r_diff 1) (hf c_diff 1) t in
      let lower := fun t => ray (hf r_diff (-1)) (hf c_diff (-1)) t in
      rng_dn c_diff (- R - 1) c && rng_up r_diff (R + 1) r && negb other && btw lower upper c r
    else if (c_diff <? 0) && (r_diff =? 0) then     (* left *)
      let upper := fun t => ray (hf r_diff 1) (hf c_diff 1) t in
      let lower := fun t => ray (hf r_diff (-1)) (hf c_diff 1) t in
      rng_dn c_diff (- R - 1) c && rng_up (- R) (R + 1) r && negb other && btw lower upper c r
    else if (c_diff <? 0) && (r_diff <? 0) then     (* above-left *)
      let upper := fun t => ray (hf r_diff 1) (hf c_diff (-1)) t in
      let lower := fun t => ray (hf r_diff (-1)) (hf c_diff 1) t in
      rng_dn c_diff (- R - 1) c && rng_dn r_diff (- R - 1) r && negb other && btw lower upper c r
    else if (c_diff =? 0) && (r_diff <? 0) then     (* above *)
      let left := fun t => ray (hf c_diff (-1)) (hf r_diff 1) t in
      let right := fun t => ray (hf c_diff 1) (hf r_diff 1) t in
      rng_up (- R) (R + 1) c && rng_dn r_diff (- R - 1) r && negb other && btw left right r c
    else if (c_diff >? 0) && (r_diff <? 0) then     (* above-right *)
      let upper := fun t => ray (hf r_diff 1) (hf c_diff 1) t in
      let lower := fun t => ray (hf r_diff (-1)) (hf c_diff (-1)) t in
      rng_up c_diff (R + 1) c && rng_dn r_diff (- R - 1) r && negb other && btw lower upper c r
    else false.                                     (* (0, 0): no case applies *)
End Shadow.

(* ---- exact rational instance --------------------------------------------------------- *)
Definition hfQ (x s : Z) : Q := Qmake (2 * x + s) 2.
Definition Qltb (x y : Q) : bool := negb (Qle_bool y x).
Definition ltQ_l (v : Q) (x : Z) : bool := Qltb v (inject_Z x).
Definition ltQ_r (x : Z) (v : Q) : bool := Qltb (inject_Z x) v.
(* repaired order: multiply, then divide *)
Definition rayQ (n d : Q) (t : Z) : Q := (n * inject_Z t / d)%Q.
(* order of the unrepaired code: divide, then multiply *)
Definition rayQ_prefix (n d : Q) (t : Z) : Q := (n / d * inject_Z t)%Q.

Definition mask_code : Z -> cell -> cell -> bool := shadow hfQ rayQ ltQ_l ltQ_r.
Definition mask_code_prefix : Z -> cell -> cell -> bool := shadow hfQ rayQ_prefix ltQ_l ltQ_r.

(* ---- the specification: integers only ------------------------------------------------
   Coordinates doubled: the viewer's centre is (0,0), the blocker's cell has centre 2b and
   corners 2b + (+-1, +-1).  *)
Definition cross (u w : cell) : Z := fst u * snd w - snd u * fst w.

(* the two outermost corners of the blocker's cell as seen from the viewer's centre *)
Definition corners (b : cell) : cell * cell :=
  let '(br, bc) := b in
  let sr := Z.sgn br in
  let sc := Z.sgn bc in
  if sr =? 0 then ((1, 2 * bc - sc), (-1, 2 * bc - sc))
  else if sc =? 0 then ((2 * br - sr, 1), (2 * br - sr, -1))
  else ((2 * br + sr, 2 * bc - sc), (2 * br - sr, 2 * bc + sc)).

(* q strictly inside the cone spanned by the rays through k1 and k2 *)
Definition inner (k1 k2 q : cell) : bool :=
  let s := Z.sgn (cross k1 k2) in
  negb (s =? 0) && (Z.sgn (cross k1 q) =? s) && (Z.sgn (cross k2 q) =? - s).

(* q at least as far as b along every non-zero component of b's direction *)
Definition behind (b q : cell) : bool :=
  (Z.sgn (fst b) * fst b <=? Z.sgn (fst b) * fst q) &&
  (Z.sgn (snd b) * snd b <=? Z.sgn (snd b) * snd q).

Definition hidden (b q : cell) : bool :=
  negb (cell_eqb b (0, 0)) && negb (cell_eqb q b) && behind b q &&
  inner (fst (corners b)) (snd (corners b)) q.

(* ---- agents, the loop over agents.values() -------------------------------------------- *)
Record agent := mkAgent { a_r : Z; a_c : Z; a_active : bool; a_blocking : bool }.

Definition off (a : agent) (v : cell) : cell := (a_r a - fst v, a_c a - snd v).

Definition zrange (lo hi : Z) : list Z :=
  map (fun i => lo + Z.of_nat i) (seq 0 (Z.to_nat (hi - lo + 1))).

(* all cells of the window *)
Definition cells (R : Z) : list cell :=
  flat_map (fun r => map (fun c => (r, c)) (zrange (- R) R)) (zrange (- R) R).

Definition matrix := list (list bool).      (* true = 1 = visible *)

Definition tab (R : Z) (f : cell -> bool) : matrix :=
  map (fun r => map (fun c => f (r, c)) (zrange (- R) R)) (zrange (- R) R).

(* mask[r + R, c + R] *)
Definition get (R : Z) (m : matrix) (q : cell) : bool :=
  nth (Z.to_nat (snd q + R)) (nth (Z.to_nat (fst q + R)) m []) true.

(* the assignments `mask[...] = 0` of one blocker *)
Definition zero_where (R : Z) (f : cell -> bool) (m : matrix) : matrix :=
  tab R (fun q => if f q then false else get R m q).

Section Fold.
  Variable code : Z -> cell -> cell -> bool.

  (* body of `for other in agents.values()` *)
  Definition mask_step (R : Z) (v : cell) (m : matrix) (a : agent) : matrix :=
    if a_active a && a_blocking a then
      let b := off a v in
      if in_window R b then zero_where R (code R b) m else m
    else m.

  Definition mask_fold (R : Z) (v : cell) (ags : list agent) : matrix :=
    fold_left (mask_step R v) ags (tab R (fun _ => true)).
End Fold.

Definition relevant (R : Z) (v : cell) (a : agent) : bool :=
  a_active a && a_blocking a && in_window R (off a v).

(* specification of the whole mask *)
Definition spec_visible (R : Z) (v : cell) (ags : list agent) (q : cell) : bool :=
  negb (existsb (fun a => relevant R v a && hidden (off a v) q) ags).

(* ---- the eight symmetries of the square ---------------------------------------------- *)
Record d4 := mkD4 { d_t : bool; d_fr : bool; d_fc : bool }.   (* transpose, then flip rows, cols *)

Definition act (s : d4) (p : cell) : cell :=
  let p1 := if d_t s then (snd p, fst p) else p in
  ((if d_fr s then - fst p1 else fst p1), (if d_fc s then - snd p1 else snd p1)).

Definition d4_all : list d4 :=
  [mkD4 false false false; mkD4 true false false; mkD4 false true false; mkD4 true true false;
   mkD4 false false true; mkD4 true false true; mkD4 false true true; mkD4 true true true].

(* composition: act (d4_comp s u) p = act s (act u p) *)
Definition d4_comp (s u : d4) : d4 :=
  mkD4 (xorb (d_t s) (d_t u))
       (xorb (d_fr s) (if d_t s then d_fc u else d_fr u))
       (xorb (d_fc s) (if d_t s then d_fr u else d_fc u)).

Definition refl_rows : d4 := mkD4 false true false.
Definition transp : d4 := mkD4 true false false.

(* a layout: range, grid shape, index of the viewer, all agents (absolute positions) *)
Record layout := mkLayout { l_R : Z; l_rows : Z; l_cols : Z; l_v : nat; l_ags : list agent }.

(* absolute positions under a symmetry of the whole grid *)
Definition act_abs (s : d4) (rows cols : Z) (p : cell) : cell :=
  let '(p1, rows1, cols1) := if d_t s then ((snd p, fst p), cols, rows) else (p, rows, cols) in
  ((if d_fr s then rows1 - 1 - fst p1 else fst p1),
   (if d_fc s then cols1 - 1 - snd p1 else snd p1)).

Definition xf_agent (s : d4) (rows cols : Z) (a : agent) : agent :=
  let p := act_abs s rows cols (a_r a, a_c a) in
  mkAgent (fst p) (snd p) (a_active a) (a_blocking a).

Definition xf_layout (s : d4) (l : layout) : layout :=
  mkLayout (l_R l)
           (if d_t s then l_cols l else l_rows l) (if d_t s then l_rows l else l_cols l)
           (l_v l) (map (xf_agent s (l_rows l) (l_cols l)) (l_ags l)).

Definition viewer (l : layout) : option cell :=
  match nth_error (l_ags l) (l_v l) with Some a => Some (a_r a, a_c a) | None => None end.

(* create_grid_and_mask(agents[v], grid, R, agents)[1], for a given arithmetic of the cases *)
Definition mask_of_with (code : Z -> cell -> cell -> bool) (l : layout) : option matrix :=
  match viewer l with
  | Some v => Some (mask_fold code (l_R l) v (l_ags l))
  | None => None
  end.

(* the behaviour observed by the harness: the masks of the eight transformed layouts *)
Definition masks8_with (code : Z -> cell -> cell -> bool) (l : layout) : option (list matrix) :=
  all_some (map (fun s => mask_of_with code (xf_layout s l)) d4_all).

Definition mask_of : layout -> option matrix := mask_of_with mask_code.
Definition masks8 : layout -> option (list matrix) := masks8_with mask_code.

(* ---- exhaustive agreement of an arithmetic with the specification on a window (used by
   Grid/MaskFloat.v) ---------------------------------------------------------------------
   For every blocker offset b in [-N,N]^2 and every cell q of the window that is `behind` b
   (the only cells a direction case can reach), the decision of `f` equals `hidden b q`. *)
Definition lo_of (N x : Z) : Z := if x >? 0 then x else - N.
Definition hi_of (N x : Z) : Z := if x <? 0 then x else N.

Definition behind_cells (N : Z) (b : cell) : list cell :=
  flat_map (fun r => map (fun c => (r, c)) (zrange (lo_of N (snd b)) (hi_of N (snd b))))
           (zrange (lo_of N (fst b)) (hi_of N (fst b))).

Definition agree_all (f : Z -> cell -> cell -> bool) (N : Z) : bool :=
  forallb (fun b => forallb (fun q => Bool.eqb (f N b q) (hidden b q)) (behind_cells N b))
          (cells N).

(* the (blocker, cell) pairs of the window on which f and the specification differ *)
Definition disagreements (f : Z -> cell -> cell -> bool) (N : Z) : list (cell * cell) :=
  flat_map (fun b => map (fun q => (b, q))
                         (filter (fun q => negb (Bool.eqb (f N b q) (hidden b q)))
                                 (behind_cells N b)))
           (cells N).

(* ---- checker -------------------------------------------------------------------------
   Decides the property from the layout and the reported masks only (integer specification
   `hidden`; the rational model is not consulted).  Clauses:
     1  eight masks, each (2R+1) x (2R+1), entries 0/1
     2  every cell reported hidden (0) lies in the shadow of an active blocking agent within range
     3  every cell in such a shadow is reported hidden
     4  the mask of the transformed layout is the transformed mask                      *)
Definition shape_ok (R : Z) (m : list (list Z)) : bool :=
  (Z.of_nat (length m) =? 2 * R + 1) &&
  forallb (fun row => (Z.of_nat (length row) =? 2 * R + 1) &&
                      forallb (fun x => (x =? 0) || (x =? 1)) row) m.

Definition to_matrix (m : list (list Z)) : matrix := map (map (fun x => negb (x =? 0))) m.

Fixpoint forallb2 {X Y} (f : X -> Y -> bool) (l : list X) (m : list Y) : bool :=
  match l, m with
  | [], [] => true
  | x :: l', y :: m' => f x y && forallb2 f l' m'
  | _, _ => false
  end.

Definition chk_C10 (l : layout) (ms : list (list (list Z))) : Z :=
  let R := l_R l in
  match viewer l with
  | None => -1
  | Some v0 =>
    if negb ((length ms =? 8)%nat && forallb (shape_ok R) ms) then -1
    else
      let bs := map to_matrix ms in
      let per (f : layout -> cell -> matrix -> cell -> bool) :=
        forallb2 (fun s m =>
                    let l' := xf_layout s l in
                    match viewer l' with
                    | Some v => forallb (f l' v m) (cells R)
                    | None => false
                    end) d4_all bs in
      if negb (per (fun l' v m q => get R m q || negb (spec_visible R v (l_ags l') q))) then -2
      else if negb (per (fun l' v m q => negb (get R m q) || spec_visible R v (l_ags l') q)) then -3
      else
        let m0 := hd [] bs in
        if negb (forallb2 (fun s m => forallb (fun q => Bool.eqb (get R m (act s q)) (get R m0 q))
                                              (cells R)) d4_all bs) then -4
        else 1
  end.

(* ---- wire ----------------------------------------------------------------------------
   input   (R rows cols v ((r c active blocking) ...))     v = index of the viewing agent
   output  (mask_0 ... mask_7), mask_k = mask of the layout transformed by d4_all[k],
           a mask is a list of rows of 0/1 (1 = visible), entry [r + R][c + R]          *)
Definition dec_agent (x : sx) : option agent :=
  match x with
  | L [A r; A c; xa; xb] =>
      match sxB xa, sxB xb with
      | Some a, Some b => Some (mkAgent r c a b)
      | _, _ => None
      end
  | _ => None
  end.

Definition dec_layout (x : sx) : option layout :=
  match x with
  | L [A R; A rows; A cols; xv; L xs] =>
      match sxNat xv, all_some (map dec_agent xs) with
      | Some v, Some ags =>
          if (0 <=? R) && (R <=? 64) && (0 <? rows) && (0 <? cols) && (v <? length ags)%nat
          then Some (mkLayout R rows cols v ags) else None
      | _, _ => None
      end
  | _ => None
  end.

Definition of_matrix (m : matrix) : list (list Z) :=
  map (map (fun x : bool => if x then 1 else 0)) m.

Definition enc_matrix (m : matrix) : sx := ofZZs (of_matrix m).

Definition run_mask (x : sx) : sx :=
  match dec_layout x with
  | Some l => match masks8 l with Some ms => L (map enc_matrix ms) | None => sx_err end
  | None => sx_err
  end.

Definition run_chk_C10 (x : sx) : sx :=
  match x with
  | L [xi; L xms] =>
      match dec_layout xi with
      | Some l =>
          match all_some (map sxZZs xms) with
          | Some ms => A (chk_C10 l ms)
          | None => A (-1)
          end
      | None => sx_err
      end
  | _ => sx_err
  end.

(* DISPATCH: 1001 => run_mask *)
(* DISPATCH: 1002 => run_chk_C10 *)
