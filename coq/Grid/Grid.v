(* Model of the grid-world state shared by the grid components:
   abmarl/sim/gridworld/grid.py (Grid._internal, query, place, remove) and the per-agent
   mutable state of abmarl/sim/gridworld/agent.py (position, health/active, ammo, orientation).
   Both bookkeeping structures of the code are explicit: the cell dictionaries AND
   agent.position, so a missed remove/place pairing is expressible.  Agents are indices in the
   listing order of sim.agents; a cell dictionary is the list of agent indices in insertion
   order.  Health is counted in ticks of 1/HD (HD = 2^20).  No proofs here. *)
From Coq Require Import ZArith List Bool Arith.
From Abm Require Import Base.Sx Grid.Overlap.
Import ListNotations.
Open Scope Z_scope.

Definition cell := (Z * Z)%type.
Definition cell_eqb (p q : cell) : bool := (fst p =? fst q) && (snd p =? snd q).

Definition HD : Z := 1048576.

Record arec := {
  a_enc : Z; a_pos : option cell; a_health : Z; a_active : bool;
  a_ammo : option Z; a_orient : option Z; a_blocking : bool }.

Record gstate := {
  g_rows : Z; g_cols : Z; g_ov : otable; g_agents : list arec;
  g_cells : list (cell * list nat) }.

Definition memn (a : nat) (l : list nat) : bool := existsb (Nat.eqb a) l.

(* cell dictionaries: an association list in which the first binding of a key counts; a cell
   without binding holds the empty dict (Grid.reset stores {} everywhere) *)
Fixpoint cell_get (cs : list (cell * list nat)) (p : cell) : list nat :=
  match cs with
  | [] => []
  | (q, l) :: cs' => if cell_eqb p q then l else cell_get cs' p
  end.
Definition cell_set (cs : list (cell * list nat)) (p : cell) (l : list nat) := (p, l) :: cs.

Definition inside (s : gstate) (p : cell) : bool :=
  (0 <=? fst p) && (fst p <? g_rows s) && (0 <=? snd p) && (snd p <? g_cols s).

Definition agent (s : gstate) (i : nat) : option arec := nth_error (g_agents s) i.
Definition enc_of (s : gstate) (i : nat) : Z :=
  match agent s i with Some a => a_enc a | None => 0 end.

Fixpoint upd_nth {X} (l : list X) (i : nat) (x : X) : list X :=
  match l, i with
  | [], _ => []
  | _ :: l', O => x :: l'
  | y :: l', S j => y :: upd_nth l' j x
  end.

Definition set_agent (s : gstate) (i : nat) (a : arec) : gstate :=
  {| g_rows := g_rows s; g_cols := g_cols s; g_ov := g_ov s;
     g_agents := upd_nth (g_agents s) i a; g_cells := g_cells s |}.
Definition set_cells (s : gstate) (cs : list (cell * list nat)) : gstate :=
  {| g_rows := g_rows s; g_cols := g_cols s; g_ov := g_ov s;
     g_agents := g_agents s; g_cells := cs |}.

Definition with_pos (a : arec) (p : option cell) : arec :=
  {| a_enc := a_enc a; a_pos := p; a_health := a_health a; a_active := a_active a;
     a_ammo := a_ammo a; a_orient := a_orient a; a_blocking := a_blocking a |}.
Definition with_orient (a : arec) (o : option Z) : arec :=
  {| a_enc := a_enc a; a_pos := a_pos a; a_health := a_health a; a_active := a_active a;
     a_ammo := a_ammo a; a_orient := o; a_blocking := a_blocking a |}.
Definition with_ammo (a : arec) (m : option Z) : arec :=
  {| a_enc := a_enc a; a_pos := a_pos a; a_health := a_health a; a_active := a_active a;
     a_ammo := m; a_orient := a_orient a; a_blocking := a_blocking a |}.
(* the health setter: clamp to [0,1], active := health > 0 *)
Definition with_health (a : arec) (h : Z) : arec :=
  let h' := Z.min (Z.max h 0) HD in
  {| a_enc := a_enc a; a_pos := a_pos a; a_health := h'; a_active := 0 <? h';
     a_ammo := a_ammo a; a_orient := a_orient a; a_blocking := a_blocking a |}.

(* Grid.query(agent i, p) *)
Definition query (s : gstate) (i : nat) (p : cell) : bool :=
  ov_query (g_ov s) (enc_of s i) (map (enc_of s) (cell_get (g_cells s) p)).

(* dict[id] = agent : keeps the position of an existing key, appends a new one *)
Definition dict_add (l : list nat) (i : nat) : list nat := if memn i l then l else l ++ [i].
Definition dict_del (l : list nat) (i : nat) : list nat := filter (fun j => negb (Nat.eqb j i)) l.

(* Grid.place: (success, state) *)
Definition place (s : gstate) (i : nat) (p : cell) : bool * gstate :=
  match agent s i with
  | None => (false, s)
  | Some a =>
      if query s i p then
        (true, set_agent (set_cells s (cell_set (g_cells s) p (dict_add (cell_get (g_cells s) p) i)))
                         i (with_pos a (Some p)))
      else (false, s)
  end.

(* Grid.remove: None = KeyError *)
Definition remove (s : gstate) (i : nat) (p : cell) : option gstate :=
  if memn i (cell_get (g_cells s) p)
  then Some (set_cells s (cell_set (g_cells s) p (dict_del (cell_get (g_cells s) p) i)))
  else None.

(* Grid(rows, cols, overlapping) followed by Grid.reset *)
Definition empty_grid (rows cols : Z) (ov : otable) (ags : list arec) : gstate :=
  {| g_rows := rows; g_cols := cols; g_ov := ov_symmetrise ov; g_agents := ags; g_cells := [] |}.

(* ---- ranges and snapshots ---------------------------------------------------------------- *)
Fixpoint zrange_from (lo : Z) (n : nat) : list Z :=
  match n with O => [] | S k => lo :: zrange_from (lo + 1) k end.
Definition zrange (lo hi : Z) : list Z := zrange_from lo (Z.to_nat (hi - lo)).   (* [lo, hi) *)

Definition all_cells (s : gstate) : list cell :=
  flat_map (fun r => map (fun c => (r, c)) (zrange 0 (g_cols s))) (zrange 0 (g_rows s)).

(* wire: agent = (enc (r c)|() health active (ammo)|() (orient)|() blocking) *)
Definition enc_optcell (p : option cell) : sx :=
  match p with Some (r, c) => L [A r; A c] | None => L [] end.
Definition enc_arec (a : arec) : sx :=
  L [A (a_enc a); enc_optcell (a_pos a); A (a_health a); ofB (a_active a);
     ofOptZ (a_ammo a); ofOptZ (a_orient a); ofB (a_blocking a)].
Definition dec_optcell (x : sx) : option (option cell) :=
  match x with L [A r; A c] => Some (Some (r, c)) | L [] => Some None | _ => None end.
Definition dec_arec (x : sx) : option arec :=
  match x with
  | L [A e; p; A h; act; am; o; bl] =>
      match dec_optcell p, sxB act, sxOptZ am, sxOptZ o, sxB bl with
      | Some p', Some act', Some am', Some o', Some bl' =>
          Some {| a_enc := e; a_pos := p'; a_health := h; a_active := act'; a_ammo := am';
                  a_orient := o'; a_blocking := bl' |}
      | _, _, _, _, _ => None
      end
  | _ => None
  end.
Definition dec_ov (x : sx) : option otable :=
  match x with
  | L l => all_some (map (fun kv => match kv with
                                     | L [A k; vs] => option_map (fun v => (k, v)) (sxZs vs)
                                     | _ => None end) l)
  | _ => None
  end.

(* cells in row-major order, each cell's ids sorted is done by the harness side; here the
   insertion order is emitted *)
Definition enc_cells (s : gstate) : sx :=
  L (map (fun p => ofNats (cell_get (g_cells s) p)) (all_cells s)).
Definition enc_snapshot (s : gstate) : sx :=
  L [L (map enc_arec (g_agents s)); enc_cells s].
