(* Model of Grid.overlapping (setter: symmetric closure) and the availability test of
   Grid.query (abmarl/sim/gridworld/grid.py).  A Python dict {enc: set(enc)} is an association
   list in insertion order, a set is a duplicate-free list.  No proofs here. *)
From Coq Require Import ZArith List Bool.
Import ListNotations.
Open Scope Z_scope.

Definition memZ (x : Z) (l : list Z) : bool := existsb (Z.eqb x) l.

Definition otable := list (Z * list Z).

Fixpoint ov_lookup (k : Z) (t : otable) : option (list Z) :=
  match t with
  | [] => None
  | (k', s) :: t' => if k =? k' then Some s else ov_lookup k t'
  end.

Definition set_add (x : Z) (s : list Z) : list Z := if memZ x s then s else s ++ [x].

(* symmetric_value[k].add(v), creating the key when absent *)
Fixpoint ov_add_edge (t : otable) (k v : Z) : otable :=
  match t with
  | [] => [(k, [v])]
  | (k', s) :: t' => if k =? k' then (k', set_add v s) :: t' else (k', s) :: ov_add_edge t' k v
  end.

(* the setter: deep copy, then for every (ndx, set) and every o in set: sym[o].add(ndx) *)
Definition ov_symmetrise (t : otable) : otable :=
  fold_left (fun sym kv => fold_left (fun sym' o => ov_add_edge sym' o (fst kv)) (snd kv) sym) t t.

(* `other.encoding in self._overlapping[agent.encoding]`, KeyError -> False *)
Definition ov_allowed (t : otable) (a b : Z) : bool :=
  match ov_lookup a t with Some s => memZ b s | None => false end.

(* Grid.query for an agent of encoding a on a cell whose occupants have encodings occ *)
Definition ov_query (t : otable) (a : Z) (occ : list Z) : bool :=
  match occ with
  | [] => true
  | _ => forallb (ov_allowed t a) occ
  end.
