(* C02: the action channels the seven actors of abmarl/sim/gridworld/actor.py DECLARE
   (actor.py __init__ of the move actors, _assign_space of the attack actors), as points/spaces of
   Spaces/Space.v, their null points, and how a point of a declared channel is handed to the actor
   models of Grid/Move.v and Grid/Attack.v.  Also the null points of the communication wrapper
   (communication_wrapper.py __init__).  No proofs here. *)
From Coq Require Import ZArith List Bool Arith.
From Abm Require Import Base.Sx Spaces.Space Grid.Overlap Grid.Grid Grid.Move Grid.Attack.
Import ListNotations.
Open Scope Z_scope.

(* ---- move actors ------------------------------------------------------------------------------ *)
(* MoveActor: Box(-move_range, move_range, (2,), int); null action np.zeros((2,)) *)
Definition move_space (R : Z) : space := BoxI [(- R, R); (- R, R)].
Definition move_null : point := PV [0; 0].
Definition move_of_point (p : point) : option cell :=
  match p with PV [dr; dc] => Some (dr, dc) | _ => None end.

(* CrossMoveActor / DriftMoveActor: Discrete(5); null action 0 *)
Definition cross_space : space := Discrete 5.
Definition cross_null : point := PI 0.
Definition cross_of_point (p : point) : option Z := match p with PI z => Some z | _ => None end.

(* "FULL" is replaced by max(rows, cols) - 1 before the space is assigned *)
Definition resolve_range (s : gstate) (r : option Z) : Z :=
  match r with Some v => v | None => Z.max (g_rows s) (g_cols s) - 1 end.

(* ---- attack actors ---------------------------------------------------------------------------- *)
Inductive akind := KBinary | KEncoding | KSelective | KRestricted.

(* number of cells of the local grid *)
Definition ncells (R : Z) : Z := (2 * R + 1) * (2 * R + 1).

(* _assign_space.  simultaneous_attacks = c_simul, attack_range = c_range (resolved),
   attack_mapping[agent.encoding] = c_mapping (the Dict's keys, in the mapping's order) *)
Definition attack_space (k : akind) (cf : acfg) : space :=
  match k with
  | KBinary => Discrete (c_simul cf + 1)
  | KEncoding => Dict (map (fun _ => Discrete (c_simul cf + 1)) (c_mapping cf))
  | KSelective => BoxI (repeat (0, c_simul cf) (Z.to_nat (ncells (c_range cf))))
  | KRestricted => MultiDiscrete (repeat (ncells (c_range cf) + 1) (Z.to_nat (c_simul cf)))
  end.

Definition attack_null (k : akind) (cf : acfg) : point :=
  match k with
  | KBinary => PI 0
  | KEncoding => PT (map (fun _ => PI 0) (c_mapping cf))
  | KSelective => PV (repeat 0 (Z.to_nat (ncells (c_range cf))))
  | KRestricted => PV (repeat 0 (Z.to_nat (c_simul cf)))
  end.

Definition pi_val (p : point) : option Z := match p with PI z => Some z | _ => None end.

(* the value the actor's _determine_attack receives for a point of its channel *)
Definition attack_of_point (k : akind) (cf : acfg) (p : point) : option aaction :=
  match k, p with
  | KBinary, PI n => Some (ABinary n)
  | KEncoding, PT ps =>
      match all_some (map pi_val ps) with
      | Some vs => Some (AEncoding (combine (c_mapping cf) vs))
      | None => None
      end
  | KSelective, PV v => Some (ASelective v)
  | KRestricted, PV v => Some (ARestricted false v)
  | _, _ => None
  end.

(* an agent that both moves and attacks: Dict(move: ..., attack: ...) (gym_utils.make_dict) *)
Definition both_space (ms as_ : space) : space := Dict [ms; as_].
Definition both_null (mn an : point) : point := PT [mn; an].

(* ---- communication wrapper -------------------------------------------------------------------- *)
(* observation space Dict(obs: inner, message_buffer: Dict(other: Discrete(2))), action space
   Dict(action: inner, send: Dict(other: Discrete(2)), receive: Dict(other: Discrete(2))) for k
   other agents *)
Definition flags_space (k : nat) : space := Dict (repeat (Discrete 2) k).
Definition comm_obs_space (inner : space) (k : nat) : space := Dict [inner; flags_space k].
Definition comm_act_space (inner : space) (k : nat) : space :=
  Dict [inner; flags_space k; flags_space k].
Definition no_flags (k : nat) : point := PT (repeat (PI 0) k).
(* the wrapped agents' null points: the inner null point with nothing sent, received or waiting *)
Definition comm_null_obs (p : point) (k : nat) : point := PT [p; no_flags k].
Definition comm_null_act (p : point) (k : nat) : point := PT [p; no_flags k; no_flags k].
(* the code before the repair copied the inner agent's null points unchanged *)
Definition comm_null_obs_prefix (p : point) (k : nat) : point := p.
Definition comm_null_act_prefix (p : point) (k : nat) : point := p.
