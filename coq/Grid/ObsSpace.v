(* The observation spaces and null observations the five built-in observers of
   abmarl/sim/gridworld/observer.py DECLARE in their constructors, transcribed over Spaces/Space.v:

     AbsoluteEncodingObserver (lines 76-86)
         Box(-2, max_encoding, (rows, cols), int)            null  -2 * ones((rows, cols))
     PositionCenteredEncodingObserver (171-182), R = the resolved view_range
         Box(-2, max_encoding, (2R+1, 2R+1), int)            null  -2 * ones((2R+1, 2R+1))
     StackedPositionCenteredEncodingObserver (271-285)
         Box(-2, len(agents), (2R+1, 2R+1, number_of_encodings), int)
                                                             null  -2 * ones(same shape)
     AbsolutePositionObserver (353-358)
         Box([0, 0], [rows - 1, cols - 1], int)              null  zeros((2,))
     AmmoObserver (391-397)
         Box(0, agent.initial_ammo, shape=(1,), int)         null  0

   with max_encoding = max(self._encodings_in_sim) = the largest encoding over sim.agents (the same
   number as the stacked observer's number_of_encodings, Grid/Observe.v).
   A multi-dimensional Box is the integer box BoxI of Spaces/Space.v with one (low, high) pair per
   component, FLATTENED IN C ORDER (row-major), as everywhere in Spaces/*; a point of it is the
   row-major flattening of the array: concat of the rows, and for the (2R+1, 2R+1, E) array the
   concat of the rows' concatenated cells (index ((r * (2R+1)) + c) * E + e).  Membership of the
   flattened point fixes the number of components; the two- and three-dimensional shape is stated
   separately with Observe_proofs.shape.  Z.to_nat of a product of dimensions occurs in these
   SPECIFICATIONS only (never extracted, never computed on data).  No proofs here. *)
From Coq Require Import ZArith List Bool Arith.
From Abm Require Import Base.Sx Spaces.Space Grid.Overlap Grid.Grid Grid.Move Grid.Attack Grid.Vis
  Grid.Observe.
Import ListNotations.
Open Scope Z_scope.

(* Box(lo, hi, shape) with n = product of shape;  v * ones(shape) *)
Definition box_const (lo hi n : Z) : space := BoxI (repeat (lo, hi) (Z.to_nat n)).
Definition const_point (v n : Z) : point := PV (repeat v (Z.to_nat n)).

(* row-major flattening of a 2-d and of a 3-d array *)
Definition flat2 (m : list (list Z)) : point := PV (concat m).
Definition flat3 (m : list (list (list Z))) : point := PV (concat (map (@concat Z) m)).

(* max(self._encodings_in_sim);  len(self.agents) *)
Definition max_encoding (s : gstate) : Z := number_of_encodings s.
Definition n_agents (s : gstate) : Z := Z.of_nat (length (g_agents s)).

Definition abs_space (s : gstate) : space := box_const (-2) (max_encoding s) (g_rows s * g_cols s).
Definition abs_null (s : gstate) : point := const_point (-2) (g_rows s * g_cols s).

Definition cent_space (s : gstate) (R : Z) : space :=
  box_const (-2) (max_encoding s) ((2 * R + 1) * (2 * R + 1)).
Definition cent_null (R : Z) : point := const_point (-2) ((2 * R + 1) * (2 * R + 1)).

Definition stk_space (s : gstate) (R : Z) : space :=
  box_const (-2) (n_agents s) ((2 * R + 1) * (2 * R + 1) * number_of_encodings s).
Definition stk_null (s : gstate) (R : Z) : point :=
  const_point (-2) ((2 * R + 1) * (2 * R + 1) * number_of_encodings s).

Definition pos_space (s : gstate) : space := BoxI [(0, g_rows s - 1); (0, g_cols s - 1)].
Definition pos_point (p : cell) : point := PV [fst p; snd p].
Definition pos_null : point := PV [0; 0].

Definition ammo_space (initial_ammo : Z) : space := BoxI [(0, initial_ammo)].
Definition ammo_point (m : Z) : point := PV [m].
Definition ammo_null : point := PV [0].
