(* Model of the three move actors of abmarl/sim/gridworld/actor.py
   (MoveActor, CrossMoveActor, DriftMoveActor.process_action) over Grid/Grid.v, the independent
   specification can_move (from agent positions only) and the executable checker of C12.
   No proofs here. *)
From Coq Require Import ZArith List Bool Arith.
From Abm Require Import Base.Sx Grid.Overlap Grid.Grid.
Import ListNotations.
Open Scope Z_scope.

Inductive mres := MOk (b : bool) (s : gstate) | MReject | MKeyErr | MTypeErr.

(* the shared body of MoveActor / CrossMoveActor.process_action for offset d *)
Definition move_by (s : gstate) (i : nat) (d : cell) : mres :=
  match agent s i with
  | None => MKeyErr
  | Some a =>
      match a_pos a with
      | None => MTypeErr                       (* None + array *)
      | Some from =>
          let to := (fst from + fst d, snd from + snd d) in
          if inside s to then
            if cell_eqb to from then MOk true s
            else if query s i to then
                   match remove s i from with
                   | None => MKeyErr
                   | Some s1 => MOk true (snd (place s1 i to))   (* place's result is ignored *)
                   end
                 else MOk false s
          else MOk false s
      end
  end.

Definition move_free (s : gstate) (i : nat) (d : cell) : mres := move_by s i d.

(* CrossMoveActor.grid_action: 0 stay, 1 left, 2 down, 3 right, 4 up; anything else: assert *)
Definition grid_action (ca : Z) : option cell :=
  match ca with
  | 0 => Some (0, 0) | 1 => Some (0, -1) | 2 => Some (1, 0) | 3 => Some (0, 1) | 4 => Some (-1, 0)
  | _ => None
  end.

Definition move_cross (s : gstate) (i : nat) (ca : Z) : mres :=
  match grid_action ca with
  | None => MReject
  | Some d => move_by s i d
  end.

(* DriftMoveActor.process_action *)
Definition move_drift (s : gstate) (i : nat) (ca : Z) : mres :=
  match agent s i with
  | None => MKeyErr
  | Some a0 =>
      match a_orient a0 with
      | None => MTypeErr                       (* not an OrientationAgent *)
      | Some o0 =>
          let drift (s' : gstate) := move_cross s' i o0 in
          if ca =? 0 then drift s
          else
            match move_cross s i ca with
            | MOk true s1 =>
                (* agent.orientation = cross_action (the setter asserts 1..4; ca is in 1..4 here) *)
                match agent s1 i with
                | Some a1 => MOk true (set_agent s1 i (with_orient a1 (Some ca)))
                | None => MKeyErr
                end
            | MOk false s1 => drift s1
            | e => e
            end
      end
  end.

(* ---- independent specification, from agent positions only --------------------------------- *)
Definition pos_eqb (p : option cell) (q : cell) : bool :=
  match p with Some p' => cell_eqb p' q | None => false end.

(* indices of the active agents other than i standing on q *)
Fixpoint others_at (ags : list arec) (k : nat) (i : nat) (q : cell) : list nat :=
  match ags with
  | [] => []
  | a :: r => (if a_active a && pos_eqb (a_pos a) q && negb (Nat.eqb k i) then [k] else [])
              ++ others_at r (S k) i q
  end.

Definition can_move (s : gstate) (i : nat) (d : cell) : bool :=
  match agent s i with
  | Some a =>
      match a_pos a with
      | Some from =>
          let to := (fst from + fst d, snd from + snd d) in
          inside s to &&
          (cell_eqb to from ||
           forallb (fun j => ov_allowed (g_ov s) (a_enc a) (enc_of s j)) (others_at (g_agents s) O i to))
      | None => false
      end
  | None => false
  end.

(* ---- wire ------------------------------------------------------------------------------- *)
Inductive mop := OFree (i : nat) (d : cell) | OCross (i : nat) (ca : Z) | ODrift (i : nat) (ca : Z).

Definition dec_mop (x : sx) : option mop :=
  match x with
  | L [A 0; A i; A a; A b] => if i <? 0 then None else Some (OFree (Z.to_nat i) (a, b))
  | L [A 1; A i; A a] => if i <? 0 then None else Some (OCross (Z.to_nat i) a)
  | L [A 2; A i; A a] => if i <? 0 then None else Some (ODrift (Z.to_nat i) a)
  | _ => None
  end.

Definition do_mop (s : gstate) (o : mop) : mres :=
  match o with
  | OFree i d => move_free s i d
  | OCross i ca => move_cross s i ca
  | ODrift i ca => move_drift s i ca
  end.

(* initial state: agents are placed one after the other with Grid.place on their intended
   position (a failed placement leaves the agent without position) *)
Fixpoint place_all (s : gstate) (k : nat) (ps : list (option cell)) : gstate :=
  match ps with
  | [] => s
  | None :: r => place_all s (S k) r
  | Some p :: r => place_all (snd (place s k p)) (S k) r
  end.

Definition init_state (rows cols : Z) (ov : otable) (ags : list arec) : gstate :=
  place_all (empty_grid rows cols ov (map (fun a => with_pos a None) ags)) O (map a_pos ags).

Definition dec_grid_input (x : sx) : option (gstate * list sx) :=
  match x with
  | L [A rows; A cols; ov; L ags; L ops] =>
      match dec_ov ov, all_some (map dec_arec ags) with
      | Some ov', Some ags' =>
          if (rows <=? 0) || (cols <=? 0) then None else Some (init_state rows cols ov' ags', ops)
      | _, _ => None
      end
  | _ => None
  end.

Definition enc_mres (r : mres) : sx :=
  match r with
  | MOk b _ => ofB b
  | MReject => L [A (-1); A 1]
  | MKeyErr => L [A (-1); A 5]
  | MTypeErr => L [A (-1); A 7]
  end.

Fixpoint run_mops (s : gstate) (ops : list mop) : list sx :=
  match ops with
  | [] => []
  | o :: r =>
      let res := do_mop s o in
      let s' := match res with MOk _ s1 => s1 | _ => s end in
      L [enc_mres res; enc_snapshot s'] :: run_mops s' r
  end.

(* input (rows cols ov agents ops) -> (snapshot0 ((result snapshot) ...)) *)
Definition run_moves (x : sx) : sx :=
  match dec_grid_input x with
  | Some (s0, xops) =>
      match all_some (map dec_mop xops) with
      | Some ops => L [enc_snapshot s0; L (run_mops s0 ops)]
      | None => sx_err
      end
  | None => sx_err
  end.

(* ---- checker: every transition of the recorded behaviour against can_move ------------------ *)
(* A snapshot is decoded into a gstate whose cells are the recorded ones. *)
Fixpoint zip_cells (ps : list cell) (ls : list (list nat)) : list (cell * list nat) :=
  match ps, ls with
  | p :: ps', l :: ls' => (p, l) :: zip_cells ps' ls'
  | _, _ => []
  end.

Definition dec_snapshot (s0 : gstate) (x : sx) : option gstate :=
  match x with
  | L [L ags; L cs] =>
      match all_some (map dec_arec ags), all_some (map sxNats cs) with
      | Some ags', Some cs' =>
          if Nat.eqb (length cs') (length (all_cells s0)) && Nat.eqb (length ags') (length (g_agents s0))
          then Some {| g_rows := g_rows s0; g_cols := g_cols s0; g_ov := g_ov s0; g_agents := ags';
                       g_cells := zip_cells (all_cells s0) cs' |}
          else None
      | _, _ => None
      end
  | _ => None
  end.

Definition optcell_eqb (p q : option cell) : bool :=
  match p, q with Some a, Some b => cell_eqb a b | None, None => true | _, _ => false end.
Definition optZ_eqb (p q : option Z) : bool :=
  match p, q with Some a, Some b => a =? b | None, None => true | _, _ => false end.
Definition arec_eqb (a b : arec) : bool :=
  (a_enc a =? a_enc b) && optcell_eqb (a_pos a) (a_pos b) && (a_health a =? a_health b)
  && Bool.eqb (a_active a) (a_active b) && optZ_eqb (a_ammo a) (a_ammo b)
  && optZ_eqb (a_orient a) (a_orient b) && Bool.eqb (a_blocking a) (a_blocking b).

Fixpoint arecs_eqb (l m : list arec) : bool :=
  match l, m with
  | [], [] => true
  | a :: l', b :: m' => arec_eqb a b && arecs_eqb l' m'
  | _, _ => false
  end.

(* the cell dictionaries agree with the agents' positions: cell p holds exactly (as a set,
   without repetition) the active agents positioned at p *)
Fixpoint nodupn (l : list nat) : bool :=
  match l with [] => true | a :: r => negb (memn a r) && nodupn r end.
Fixpoint at_cell (ags : list arec) (k : nat) (q : cell) : list nat :=
  match ags with
  | [] => []
  | a :: r => (if a_active a && pos_eqb (a_pos a) q then [k] else []) ++ at_cell r (S k) q
  end.
Definition same_set (l m : list nat) : bool :=
  forallb (fun x => memn x m) l && forallb (fun x => memn x l) m.
Definition cells_consistent (s : gstate) : bool :=
  forallb (fun p => nodupn (cell_get (g_cells s) p)
                    && same_set (cell_get (g_cells s) p) (at_cell (g_agents s) O p)) (all_cells s).

(* expected agents after a successful move of i by d (orientation o' if given) *)
Definition moved (s : gstate) (i : nat) (d : cell) (o' : option Z) : list arec :=
  match agent s i with
  | Some a =>
      match a_pos a with
      | Some from =>
          let a1 := with_pos a (Some (fst from + fst d, snd from + snd d)) in
          upd_nth (g_agents s) i (match o' with Some o => with_orient a1 (Some o) | None => a1 end)
      | None => g_agents s
      end
  | None => g_agents s
  end.

(* clause numbers: 1201 result differs from can_move, 1202 agents after the op are not the
   expected ones (mover displaced by exactly d / nothing changed / another agent changed),
   1203 cell dictionaries inconsistent with the positions, 1204 malformed record,
   1205 an error where the specification expects a result *)
Definition placed (s : gstate) (i : nat) : bool :=
  match agent s i with
  | Some a => match a_pos a with Some _ => a_active a | None => false end
  | None => false
  end.
Definition mop_agent (o : mop) : nat :=
  match o with OFree i _ | OCross i _ | ODrift i _ => i end.

Definition chk_mop (s s' : gstate) (o : mop) (res : sx) : Z :=
  if negb (placed s (mop_agent o)) then 0 else     (* no claim for agents that are not in the grid *)
  let expect (b : bool) (ags : list arec) : Z :=
    match sxB res with
    | None => 1205
    | Some b' =>
        if negb (Bool.eqb b b') then 1201
        else if negb (arecs_eqb (g_agents s') ags) then 1202
        else if negb (cells_consistent s') then 1203
        else 0
    end in
  match o with
  | OFree i d =>
      if can_move s i d then expect true (moved s i d None) else expect false (g_agents s)
  | OCross i ca =>
      match grid_action ca with
      | Some d => if can_move s i d then expect true (moved s i d None) else expect false (g_agents s)
      | None => if sx_eqb res (L [A (-1); A 1]) && arecs_eqb (g_agents s') (g_agents s) then 0 else 1205
      end
  | ODrift i ca =>
      match grid_action ca, agent s i with
      | Some d, Some a =>
          match a_orient a with
          | Some o0 =>
              if negb (ca =? 0) && can_move s i d then expect true (moved s i d (Some ca))
              else match grid_action o0 with
                   | Some d0 => if can_move s i d0 then expect true (moved s i d0 None)
                                else expect false (g_agents s)
                   | None => 1204
                   end
          | None => 1204
          end
      | None, _ => if sx_eqb res (L [A (-1); A 1]) && arecs_eqb (g_agents s') (g_agents s) then 0 else 1205
      | _, None => 1204
      end
  end.

Fixpoint chk_mops (s0 : gstate) (s : gstate) (ops : list mop) (recs : list sx) : Z :=
  match ops, recs with
  | [], [] => 0
  | o :: ops', L [res; snap] :: recs' =>
      match dec_snapshot s0 snap with
      | Some s' => let c := chk_mop s s' o res in
                   if c =? 0 then chk_mops s0 s' ops' recs' else c
      | None => 1204
      end
  | _, _ => 1204
  end.

(* input ((rows cols ov agents ops) (snapshot0 records)) -> 1 | -clause *)
Definition run_chk_C12 (x : sx) : sx :=
  match x with
  | L [xin; L [snap0; L recs]] =>
      match dec_grid_input xin with
      | Some (s0, xops) =>
          match all_some (map dec_mop xops), dec_snapshot s0 snap0 with
          | Some ops, Some s0' =>
              (* the initial snapshot must be consistent too; the agents' starting state is the
                 recorded one *)
              if negb (cells_consistent s0') then A (-1203)
              else let c := chk_mops s0 s0' ops recs in if c =? 0 then A 1 else A (- c)
          | _, _ => A (-1204)
          end
      | None => A (-1204)
      end
  | _ => A (-1204)
  end.

(* DISPATCH: 1201 => run_moves *)
(* DISPATCH: 1202 => run_chk_C12 *)
