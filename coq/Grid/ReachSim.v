(* Second end-to-end model: abmarl/examples/sim/reach_the_target.py, ReachTheTargetSim -- a plain
   GridWorldSimulation (not a smart one) with its own reset / step / getters -- as an instance of
   the abstract `simulation` record of Ctl/Managers.v.

   Agents (index = listing order of sim.agents) are of three classes:
     BarrierAgent  (GridWorldAgent, blocking, encoding 1): not a learning agent, no action, no
                   observation, no reward entry;
     TargetAgent   (AttackingAgent + GridObservingAgent, id 'target'): attacks cells
                   (SelectiveAttackActor), is done when it is the only learning agent left;
     RunningAgent  (MovingAgent + GridObservingAgent): moves (MoveActor), is done when inactive or
                   when it stands on the target's cell; on reaching the target it gets +1, is removed
                   from the grid and set inactive WITH ITS HEALTH UNCHANGED (so `active = (health > 0)`
                   does not hold in this simulation; `health = 0 -> inactive` does).
   Components reused, not re-modelled: Grid/Grid.v (state, Grid.remove), Grid/Attack.v
   (process_attack with ASelective), Grid/Move.v (move_free), Grid/Observe.v (obs_centered),
   Grid/Done.v (ActiveDone; TargetDone is TargetAgentOverlapDone with the one target, except for the
   target itself), Grid/Vis.v (the mask).  The simulation state is the record of the first instance
   (Grid/BattleSim.v: grid, rewards in units of 1/100 by agent index, oracle streams for the attack
   draws, the observer draws and the state after each coming reset, the flag) and so are the
   read-and-reset get_reward and the wire codecs.
   An exception arm (KeyError of a missing action key / reward entry / Grid.remove, an agent without
   position ...) or a missing / inadmissible recorded draw sets the flag; the correspondence run
   requires the flag to stay clear.  No proofs here (Proofs/ReachSim_proofs.v). *)
From Coq Require Import ZArith List Bool Arith.
From Abm Require Import Base.Sx Grid.Overlap Grid.Grid Grid.Move Grid.Attack Grid.Vis Grid.AttackRun
  Grid.Observe Grid.Play Grid.BattleSim Ctl.Managers.
From Abm Require Grid.Done.
Import ListNotations.
Open Scope Z_scope.

(* ---- configuration ----------------------------------------------------------------------------- *)
Inductive rkind := KBarrier | KTarget (att : acfg) | KRunner.
Record ragent := { r_kind : rkind; r_view : Z }.      (* r_view: view_range, already resolved *)
Record rcfg := {
  rc_agents : list ragent;        (* in sim.agents order *)
  rc_target : nat;                (* self.target = self.agents['target'] *)
  rc_self : bool                  (* observe_self of the observer *)
}.

Definition kind_of (cf : rcfg) (i : nat) : option rkind := option_map r_kind (nth_error (rc_agents cf) i).
(* isinstance(agent, RunningAgent) -- the example's only MovingAgent class *)
Definition is_runner (cf : rcfg) (i : nat) : bool :=
  match kind_of cf i with Some KRunner => true | _ => false end.
(* is_agent(agent): observing and acting *)
Definition is_learning (cf : rcfg) (i : nat) : bool :=
  match kind_of cf i with Some KRunner | Some (KTarget _) => true | _ => false end.

(* one agent's action dictionary: {"move": array([dr, dc])} or {"attack": (2R+1)x(2R+1) array},
   the array flattened row by row *)
Inductive ract := RMove (d : cell) | RAttack (l : list Z).

Definition rstate := bstate.

(* agent.active = False  (the plain PrincipleAgent setter: nothing else changes) *)
Definition with_active (a : arec) (b : bool) : arec :=
  {| a_enc := a_enc a; a_pos := a_pos a; a_health := a_health a; a_active := b;
     a_ammo := a_ammo a; a_orient := a_orient a; a_blocking := a_blocking a |}.

(* ---- ReachTheTargetSim.step, first loop ---------------------------------------------------------- *)
(* for attacked_agent in attacked_agents:
       if not attacked_agent.active: rewards[attacked.id] -= 1; rewards[attacker] += 1
   evaluated after process_action returned (state g'); a victim without reward entry (not a
   learning agent) is a KeyError: flag *)
Definition r_death_rewards (cf : rcfg) (g' : gstate) (i : nat) (hits : list nat) (rb : list Z * bool)
  : list Z * bool :=
  fold_left (fun rb' v => match agent g' v with
                          | Some b => if a_active b then rb'
                                      else if is_learning cf v
                                           then (radd (radd (fst rb') v (-100)) i 100, snd rb')
                                           else (fst rb', true)
                          | None => rb'
                          end) hits rb.

Definition r_attack_one (cf : rcfg) (st : rstate) (ia : nat * ract) : rstate :=
  let i := fst ia in
  match agent (bs_grid st) i, kind_of cf i with
  | Some a, Some k =>
      if a_active a then
        match k with
        | KTarget att =>                                     (* _supported_agent: AttackingAgent *)
            match snd ia with
            | RAttack l =>
                match process_attack vis_model (bs_grid st) att i (bs_orc st) (ASelective l) with
                | POk status hits g' o' =>
                    let r := bs_rew st in
                    let rb := if status then                 (* attack was attempted *)
                                match hits with
                                | [] => (radd r i (-10), false)          (* attack failed *)
                                | _ => r_death_rewards cf g' i hits (r, false)
                                end
                              else (r, false) in
                    let st' := with_grid st g' (fst rb) o' in
                    if snd rb then mark_bad st' else st'
                | PBadOracle | PErr => mark_bad st
                end
            | RMove _ => mark_bad st                         (* action_dict['attack']: KeyError *)
            end
        | _ => st                                            (* process_action returns False, [] *)
        end
      else st
  | _, _ => mark_bad st                                      (* self.agents[agent_id]: KeyError *)
  end.

(* ---- second loop ---------------------------------------------------------------------------------- *)
(* TargetDone.get_done(agent): False for the target itself, else
   np.array_equal(agent.position, self.target.position) *)
Definition target_done (cf : rcfg) (g : gstate) (i : nat) : option bool :=
  if Nat.eqb i (rc_target cf) then Some false
  else Done.get_done (to_pop g) (Done.DOverlap [(i, rc_target cf)]) i.

(* if self.target_done.get_done(agent):
       self.rewards[agent_id] += 1; self.grid.remove(agent, agent.position); agent.active = False *)
Definition reach_one (cf : rcfg) (st : rstate) (i : nat) : rstate :=
  match target_done cf (bs_grid st) i with
  | Some true =>
      let st1 := with_rew st (radd (bs_rew st) i 100) in
      match agent (bs_grid st) i with
      | Some a =>
          match a_pos a with
          | Some q =>
              match remove (bs_grid st) i q with
              | Some g1 => with_grid st1 (set_agent g1 i (with_active a false)) (bs_rew st1) (bs_orc st1)
              | None => mark_bad st1                         (* del cell[agent.id]: KeyError *)
              end
          | None => mark_bad st1
          end
      | None => mark_bad st1
      end
  | Some false => st
  | None => mark_bad st
  end.

(* the move itself: if agent.active: move_result = ...; if not move_result: rewards -= 0.1 *)
Definition r_try_move (st : rstate) (i : nat) (x : ract) : rstate :=
  match x with
  | RMove d =>
      match move_free (bs_grid st) i d with
      | MOk ok g' => with_grid st g' (if ok then bs_rew st else radd (bs_rew st) i (-10)) (bs_orc st)
      | _ => mark_bad st
      end
  | RAttack _ => mark_bad st                                 (* action_dict['move']: KeyError *)
  end.

(* The loop body with the repair of findings/C02-reach-dead-runner: the target test is made for a
   runner that is (still) active only.  [as_found = true] is the tree as found: the test is made
   for every MovingAgent in the action dictionary, also one that was shot in the first loop. *)
Definition r_move_gen (as_found : bool) (cf : rcfg) (st : rstate) (ia : nat * ract) : rstate :=
  let i := fst ia in
  match agent (bs_grid st) i, kind_of cf i with
  | Some a, Some KRunner =>                                  (* isinstance(agent, MovingAgent) *)
      if a_active a then reach_one cf (r_try_move st i (snd ia)) i
      else if as_found then reach_one cf st i else st
  | Some _, Some _ => st
  | _, _ => mark_bad st
  end.
Definition r_move_one := r_move_gen false.

(* ---- third loop: entropy penalty for the runners --------------------------------------------------- *)
Definition r_entropy_one (cf : rcfg) (st : rstate) (ia : nat * ract) : rstate :=
  match kind_of cf (fst ia) with
  | Some KRunner => with_rew st (radd (bs_rew st) (fst ia) (-1))
  | Some _ => st
  | None => mark_bad st
  end.

Definition rs_step (cf : rcfg) (st : rstate) (acts : list (nat * ract)) : rstate :=
  let st1 := fold_left (r_attack_one cf) acts st in
  let st2 := fold_left (r_move_one cf) acts st1 in
  fold_left (r_entropy_one cf) acts st2.

(* the tree as found; an exception ends the step *)
Definition r_move_one_prefix (cf : rcfg) (st : rstate) (ia : nat * ract) : rstate :=
  if bs_bad st then st else r_move_gen true cf st ia.
Definition rs_step_prefix (cf : rcfg) (st : rstate) (acts : list (nat * ract)) : rstate :=
  let st1 := fold_left (r_attack_one cf) acts st in
  let st2 := fold_left (r_move_one_prefix cf) acts st1 in
  if bs_bad st2 then st2 else fold_left (r_entropy_one cf) acts st2.

(* ---- reset: health_state.reset, position_state.reset, rewards = {learning agents: 0} --------------- *)
Definition rs_reset (cf : rcfg) (st : rstate) : rstate :=
  let zero := repeat 0 (length (rc_agents cf)) in
  match bs_starts st with
  | g0 :: rest =>
      {| bs_grid := g0; bs_rew := zero; bs_starts := rest; bs_orc := bs_orc st;
         bs_obsorc := bs_obsorc st; bs_bad := bs_bad st |}
  | [] =>
      {| bs_grid := bs_grid st; bs_rew := zero; bs_starts := []; bs_orc := bs_orc st;
         bs_obsorc := bs_obsorc st; bs_bad := true |}
  end.

(* ---- getters ------------------------------------------------------------------------------------------ *)
(* {**self.grid_observer.get_obs(agent)}: {} for an agent that is not a GridObservingAgent *)
Definition rs_obs (cf : rcfg) (st : rstate) (i : nat) : list (list Z) * rstate :=
  match nth_error (rc_agents cf) i with
  | Some b =>
      match r_kind b with
      | KBarrier => ([], st)
      | _ =>
          match obs_centered vis_model (bs_grid st) i (r_view b) (rc_self cf) (bs_obsorc st) with
          | OOk arr o' => (arr, with_obsorc st o')
          | OBad | OErr => ([], mark_bad st)
          end
      end
  | None => ([], mark_bad st)
  end.

(* reward = self.rewards[agent_id]; self.rewards[agent_id] = 0: an entry exists for learning agents *)
Definition rs_reward (cf : rcfg) (st : rstate) (i : nat) : Z * rstate :=
  if is_learning cf i then bs_reward st i else (0, mark_bad st).

(* OnlyAgentLeftDone._agents_remaining() <= 1 *)
Definition agents_remaining (cf : rcfg) (g : gstate) : nat :=
  length (filter (fun i => match agent g i with
                           | Some a => a_active a && is_learning cf i
                           | None => false
                           end) (seq 0 (length (g_agents g)))).
Definition only_left (cf : rcfg) (g : gstate) : bool := (agents_remaining cf g <=? 1)%nat.

Definition ob (o : option bool) : bool := match o with Some b => b | None => false end.

(* get_done by agent class; an agent of neither class falls off the if/elif: None *)
Definition rs_done (cf : rcfg) (st : rstate) (i : nat) : bool :=
  match kind_of cf i with
  | Some KRunner =>
      ob (Done.get_done (to_pop (bs_grid st)) Done.DActive i) || ob (target_done cf (bs_grid st) i)
  | Some (KTarget _) => only_left cf (bs_grid st)
  | _ => false
  end.
Definition rs_all (cf : rcfg) (st : rstate) : bool := only_left cf (bs_grid st).

(* the target and the runners are learning agents, the barriers are not; not a
   DynamicOrderSimulation *)
Definition reach_sim (cf : rcfg) : simulation rstate (list (list Z)) unit ract :=
  {| sim_n := length (rc_agents cf);
     sim_learning := is_learning cf;
     sim_reset := rs_reset cf;
     sim_step := rs_step cf;
     sim_obs := rs_obs cf;
     sim_reward := rs_reward cf;
     sim_done := rs_done cf;
     sim_all := rs_all cf;
     sim_info := fun _ _ => tt;
     sim_next := fun _ => [] |}.

Definition reach_sim_prefix (cf : rcfg) : simulation rstate (list (list Z)) unit ract :=
  {| sim_n := length (rc_agents cf);
     sim_learning := is_learning cf;
     sim_reset := rs_reset cf;
     sim_step := rs_step_prefix cf;
     sim_obs := rs_obs cf;
     sim_reward := rs_reward cf;
     sim_done := rs_done cf;
     sim_all := rs_all cf;
     sim_info := fun _ _ => tt;
     sim_next := fun _ => [] |}.

(* the manager run over any simulation on rstate, recording the grid after every call *)
Fixpoint rrun_snap (Sm : simulation rstate (list (list Z)) unit ract) (k : mgr) (m : mstate rstate)
         (cs : list (call ract)) : list (bresp * gstate) * mstate rstate :=
  match cs with
  | [] => ([], m)
  | c :: cs' =>
      let (r, m1) := do_call Sm k m c in
      let (rs, m2) := rrun_snap Sm k m1 cs' in ((r, bs_grid (m_sim m1)) :: rs, m2)
  end.

(* ---- the invariant of this simulation as a boolean over a snapshot --------------------------------------
   The C03 invariant with `active = (health > 0)` weakened to `health = 0 -> inactive`: forget the
   health of the inactive agents (zh) and apply the C03 test ginvb; the health that was forgotten
   must lie in [0, 1].  Clause numbers as ginvb (301 vitals, 302 active agent without a cell inside
   the grid, 303 cells vs positions, 304 illegal co-occupancy). *)
Definition with_h0 (a : arec) : arec :=
  {| a_enc := a_enc a; a_pos := a_pos a; a_health := 0; a_active := a_active a;
     a_ammo := a_ammo a; a_orient := a_orient a; a_blocking := a_blocking a |}.
Definition zha (a : arec) : arec := if a_active a then a else with_h0 a.
Definition zh (s : gstate) : gstate :=
  {| g_rows := g_rows s; g_cols := g_cols s; g_ov := g_ov s; g_agents := map zha (g_agents s);
     g_cells := g_cells s |}.

Definition hb_b (a : arec) : bool := (0 <=? a_health a) && (a_health a <=? HD).
Definition rinvb (s : gstate) : Z :=
  if negb (forallb hb_b (g_agents s)) then 301 else ginvb (zh s).

(* an active agent standing where the target stands *)
Definition on_target (cf : rcfg) (g : gstate) (i : nat) : bool :=
  match agent g i, agent g (rc_target cf) with
  | Some a, Some t => a_active a && Done.pos_eqb (a_pos a) (a_pos t)
  | _, _ => false
  end.
Definition pos_of (g : gstate) (i : nat) : option cell :=
  match agent g i with Some a => a_pos a | None => None end.

(* clause 311: across a step no runner ARRIVES on the target's cell and stays active -- a runner
   that is active on the target's cell after the step stood there, active, before it (placed there
   by reset, it has not acted since) *)
Definition arrival_okb (cf : rcfg) (g g' : gstate) : bool :=
  forallb (fun i => negb (is_runner cf i && on_target cf g' i)
                    || (on_target cf g i && optcell_eqb (pos_of g i) (pos_of g' i)))
          (seq 0 (length (g_agents g'))).

(* the simulation object before its first reset: bs_init of the first instance *)

(* ---- wire ------------------------------------------------------------------------------------------------
   input  (rows cols ov cfg starts unif choices obschoices kind calls)
     cfg    ((agent ...) target observe_self)
            agent = (0 view) barrier | (1 view (range strength accuracy simul mapping stacked)) target
                  | (2 view) runner
     starts (snapshot ...)             snapshot = (agents cells) as Grid.enc_snapshot
     kind   0 AllStepManager | 1 TurnBasedManager
     calls  ((0) | (1 acts shuffled) ...)   acts = ((i 0 dr dc) | (i 1 (attack-array row by row)) ...)
   output (bad ((resp snapshot) ...))       resp as the first instance (BattleSim.enc_bresp)        *)
Definition dec_ragent (x : sx) : option ragent :=
  match x with
  | L [A 0; A v] => Some {| r_kind := KBarrier; r_view := v |}
  | L [A 1; A v; c] => option_map (fun c' => {| r_kind := KTarget c'; r_view := v |}) (dec_acfg c)
  | L [A 2; A v] => Some {| r_kind := KRunner; r_view := v |}
  | _ => None
  end.
Definition dec_rcfg (x : sx) : option rcfg :=
  match x with
  | L [L ags; A t; sf] =>
      match all_some (map dec_ragent ags), sxB sf with
      | Some ags', Some sf' =>
          if t <? 0 then None
          else Some {| rc_agents := ags'; rc_target := Z.to_nat t; rc_self := sf' |}
      | _, _ => None
      end
  | _ => None
  end.

Definition dec_rkv (x : sx) : option (nat * ract) :=
  match x with
  | L [A i; A 0; A dr; A dc] => if i <? 0 then None else Some (Z.to_nat i, RMove (dr, dc))
  | L [A i; A 1; l] => if i <? 0 then None else option_map (fun l' => (Z.to_nat i, RAttack l')) (sxZs l)
  | _ => None
  end.
Definition dec_rkvs (x : sx) : option (list (nat * ract)) :=
  match x with L l => all_some (map dec_rkv l) | A _ => None end.
Definition dec_rcall (x : sx) : option (call ract) :=
  match x with
  | L [A 0] => Some CReset
  | L [A 1; a; sh] =>
      match dec_rkvs a, dec_rkvs sh with
      | Some a', Some sh' => Some (CStep a' sh')
      | _, _ => None
      end
  | _ => None
  end.

Record reach_input := {
  ri_rows : Z; ri_cols : Z; ri_ov : otable; ri_cfg : rcfg; ri_init : rstate; ri_kind : mgr;
  ri_calls : list (call ract) }.

Definition dec_reach (x : sx) : option reach_input :=
  match x with
  | L [A rows; A cols; ov; cf; L sts; us; L chs; ocs; A kind; L cs] =>
      match dec_ov ov with
      | Some ov' =>
          match dec_rcfg cf, all_some (map (dec_start rows cols ov') sts), sxZs us,
                all_some (map sxNats chs), sxZs ocs, all_some (map dec_rcall cs) with
          | Some cf', Some sts', Some us', Some chs', Some ocs', Some cs' =>
              if (rows <=? 0) || (cols <=? 0) || negb ((kind =? 0) || (kind =? 1)) then None
              else Some {| ri_rows := rows; ri_cols := cols; ri_ov := ov'; ri_cfg := cf';
                           ri_init := bs_init rows cols ov' sts'
                                              {| o_unif := us'; o_choice := chs' |} ocs';
                           ri_kind := if kind =? 0 then MAll else MTurn;
                           ri_calls := cs' |}
          | _, _, _, _, _, _ => None
          end
      | None => None
      end
  | _ => None
  end.

Definition reach_records (Sm : rcfg -> simulation rstate (list (list Z)) unit ract) (i : reach_input)
  : list (bresp * gstate) * mstate rstate :=
  rrun_snap (Sm (ri_cfg i)) (ri_kind i) (init (ri_init i)) (ri_calls i).

Definition run_reach_gen (Sm : rcfg -> simulation rstate (list (list Z)) unit ract) (x : sx) : sx :=
  match dec_reach x with
  | Some i =>
      let (rs, m) := reach_records Sm i in
      L [ofB (bs_bad (m_sim m)); L (map enc_record rs)]
  | None => sx_err
  end.
Definition run_reach : sx -> sx := run_reach_gen reach_sim.
Definition run_reach_prefix : sx -> sx := run_reach_gen reach_sim_prefix.

(* ---- checker: from the input and the recorded behaviour only ----------------------------------------------
   per record: 301-304 rinvb on the snapshot, 311 arrival_okb against the previous snapshot when the
   call is a step; 308 the flag is set (the model took an exception arm / the implementation raised
   something other than the managers' documented refusals), 309 malformed record *)
Fixpoint chk_reach_recs (cf : rcfg) (rows cols : Z) (ov : otable) (prev : gstate)
         (cs : list (call ract)) (recs : list sx) : Z :=
  match cs, recs with
  | [], [] => 0
  | c :: cs', L [_; snap] :: r =>
      match dec_start rows cols ov snap with
      | Some g =>
          let c1 := rinvb g in
          if negb (c1 =? 0) then c1
          else if match c with CStep _ _ => negb (arrival_okb cf prev g) | CReset => false end then 311
          else chk_reach_recs cf rows cols ov g cs' r
      | None => 309
      end
  | _, _ => 309
  end.

Definition run_chk_reach (x : sx) : sx :=
  match x with
  | L [xin; L [A bad; L recs]] =>
      match dec_reach xin with
      | Some i =>
          if negb (bad =? 0) then A (-308)
          else let c := chk_reach_recs (ri_cfg i) (ri_rows i) (ri_cols i) (ri_ov i)
                                       (bs_grid (ri_init i)) (ri_calls i) recs in
               if c =? 0 then A 1 else A (- c)
      | None => A (-309)
      end
  | _ => A (-309)
  end.

(* DISPATCH: 2301 => run_reach *)
(* DISPATCH: 2302 => run_chk_reach *)
