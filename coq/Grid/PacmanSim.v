(* Fifth end-to-end model: abmarl/examples/sim/pacman.py, PacmanSimSimple -- a SmartGridWorldSimulation
   (PositionState, OrientationState, HealthState; AbsoluteEncodingObserver) whose `step` moves pacman
   AND five scripted baddies with the DriftMoveActor, teleports agents between the tunnel ends
   (9,0) <-> (9,18) with Grid.remove / Grid.place directly, lets pacman eat food by overlap and kills
   pacman outside any attack actor -- as an instance of the abstract `simulation` record of
   Ctl/Managers.v.

   Agents are indices in the listing order of sim.agents; their classes are the configuration:
   WallAgent, FoodAgent (GridWorldAgents: not learning), PacmanAgent, BaddieAgent (moving, orientation,
   observing: learning agents).  Rewards are integers in units of 1/100 (the reward scheme is part of
   the configuration).  `reset` installs the next recorded start state (the board fixes every
   position, the health of walls and baddies and every orientation are drawn: the draws are in the
   recorded state) and sets step_count = 0.  An exception arm sets the flag ps_bad and keeps the
   state the object has at that point.

   The model is the step WITH the repair of findings/C03-pacman-blocked-teleport (the teleport asks
   Grid.query for the destination before it removes the agent); `pm_step_prefix` is the tree as
   found (remove, then place with the result ignored).  No proofs here (Proofs/PacmanSim_proofs.v). *)
From Coq Require Import ZArith List Bool Arith.
From Abm Require Import Base.Sx Grid.Overlap Grid.Grid Grid.Move Grid.Vis Grid.Observe Grid.Play
  Grid.BattleSim Ctl.Managers.
Import ListNotations.
Open Scope Z_scope.

(* ---- configuration ------------------------------------------------------------------------------ *)
Inductive pkind := KWall | KFood | KPac (view : Z) | KBad (view : Z).

Record pcfg := {
  pc_kinds : list pkind;            (* class of every agent, in sim.agents order *)
  pc_pac : nat;                     (* self.agents['pacman'] *)
  pc_bad : list (option nat);       (* self.agents['baddie_0'] ... ['baddie_4']; None: no such id *)
  pc_bad_move : Z; pc_entropy : Z; pc_eat : Z; pc_die : Z      (* reward_scheme, units of 1/100 *)
}.

Definition kind_of (cf : pcfg) (i : nat) : pkind := nth i (pc_kinds cf) KWall.
Definition is_food (k : pkind) : bool := match k with KFood => true | _ => false end.
Definition is_baddie (k : pkind) : bool := match k with KBad _ => true | _ => false end.
(* is_agent: observing or acting *)
Definition p_learning (cf : pcfg) (i : nat) : bool :=
  match nth_error (pc_kinds cf) i with Some (KPac _) | Some (KBad _) => true | _ => false end.

Record pstate := {
  ps_grid : gstate;
  ps_rew : list Z;                  (* self.rewards by agent index (entries of learning agents are used) *)
  ps_count : Z;                     (* self.step_count *)
  ps_starts : list gstate;          (* oracle: the state after each coming reset *)
  ps_obsorc : list Z;               (* oracle: np.random.choice answers of the observer *)
  ps_bad : bool
}.

Definition mk (st : pstate) (g : gstate) (r : list Z) (c : Z) : pstate :=
  {| ps_grid := g; ps_rew := r; ps_count := c; ps_starts := ps_starts st; ps_obsorc := ps_obsorc st;
     ps_bad := ps_bad st |}.
Definition p_mark_bad (st : pstate) : pstate :=
  {| ps_grid := ps_grid st; ps_rew := ps_rew st; ps_count := ps_count st; ps_starts := ps_starts st;
     ps_obsorc := ps_obsorc st; ps_bad := true |}.
Definition p_with_obsorc (st : pstate) (o : list Z) : pstate :=
  {| ps_grid := ps_grid st; ps_rew := ps_rew st; ps_count := ps_count st; ps_starts := ps_starts st;
     ps_obsorc := o; ps_bad := ps_bad st |}.

(* ---- the corridor teleportation ------------------------------------------------------------------
   if np.array_equal(agent.position, [9, 0]):  grid.remove(agent, (9, 0));  grid.place(agent, (9, 18))
   elif np.array_equal(agent.position, [9, 18]): grid.remove(agent, (9, 18)); grid.place(agent, (9, 0))
   tres: TOk = went through, TErr = an exception (KeyError of remove, IndexError of a cell outside the
   grid, no position) with the state the object is left in. *)
Definition tunnel_a : cell := (9, 0).
Definition tunnel_b : cell := (9, 18).

Inductive tres := TOk (g : gstate) | TErr (g : gstate).

(* the tree as found: the result of place is ignored *)
Definition tele_found (g : gstate) (i : nat) (from to : cell) : tres :=
  match remove g i from with
  | None => TErr g                                        (* KeyError *)
  | Some g1 => if inside g1 to then TOk (snd (place g1 i to)) else TErr g1     (* IndexError *)
  end.

(* the repair: if self.grid.query(agent, to): remove; place *)
Definition tele_fixed (g : gstate) (i : nat) (from to : cell) : tres :=
  if inside g to then
    if query g i to then
      match remove g i from with
      | None => TErr g
      | Some g1 => TOk (snd (place g1 i to))
      end
    else TOk g
  else TErr g.

Definition teleport (fixed : bool) (g : gstate) (i : nat) : tres :=
  match agent g i with
  | Some a =>
      match a_pos a with
      | Some p =>
          let tele := if fixed then tele_fixed else tele_found in
          if cell_eqb p tunnel_a then tele g i tunnel_a tunnel_b
          else if cell_eqb p tunnel_b then tele g i tunnel_b tunnel_a
          else TOk g
      | None => TErr g
      end
  | None => TErr g
  end.

(* ---- the overlap loops ------------------------------------------------------------------------------
   for agent in candidate_agents.copy().values():
       if agent.id == self.pacman.id: continue
       if isinstance(agent, FoodAgent):        (first loop only)
           rewards['pacman'] += eat_food; grid.remove(agent, pacman.position); agent.health = 0
       elif isinstance(agent, BaddieAgent):
           rewards['pacman'] += die; pacman.health = 0; grid.remove(pacman, pacman.position); return *)
Inductive lres := LGo (g : gstate) (r : list Z) | LDead (g : gstate) (r : list Z)
                | LBad (g : gstate) (r : list Z).

(* tuple(self.pacman.position), read at every use *)
Definition pac_pos (cf : pcfg) (g : gstate) : option cell :=
  match agent g (pc_pac cf) with Some a => a_pos a | None => None end.

Fixpoint overlap_loop (cf : pcfg) (eat : bool) (cands : list nat) (g : gstate) (r : list Z) : lres :=
  match cands with
  | [] => LGo g r
  | j :: rest =>
      if Nat.eqb j (pc_pac cf) then overlap_loop cf eat rest g r
      else if eat && is_food (kind_of cf j) then
        let r1 := radd r (pc_pac cf) (pc_eat cf) in
        match pac_pos cf g with
        | None => LBad g r1
        | Some q =>
            match remove g j q with
            | None => LBad g r1
            | Some g1 =>
                match agent g1 j with
                | Some a => overlap_loop cf eat rest (set_agent g1 j (with_health a 0)) r1
                | None => LBad g1 r1
                end
            end
        end
      else if is_baddie (kind_of cf j) then
        let r1 := radd r (pc_pac cf) (pc_die cf) in
        match agent g (pc_pac cf) with
        | Some a =>
            let g1 := set_agent g (pc_pac cf) (with_health a 0) in
            match a_pos a with
            | Some q =>
                match remove g1 (pc_pac cf) q with
                | Some g2 => LDead g2 r1
                | None => LBad g1 r1
                end
            | None => LBad g1 r1
            end
        | None => LBad g r1
        end
      else overlap_loop cf eat rest g r
  end.

(* candidate_agents = self.grid[pacman.position]: None = no position / a cell outside the array *)
Definition pac_cell (cf : pcfg) (g : gstate) : option cell :=
  match agent g (pc_pac cf) with
  | Some a => match a_pos a with Some p => if inside g p then Some p else None | None => None end
  | None => None
  end.

(* ---- the baddies' script: the `move` entry of baddie_0 .. baddie_4 -------------------------------- *)
Definition script01 (c : Z) : Z * Z :=
  let m := c mod 10 in
  if m =? 0 then (3, 1) else if m =? 3 then (2, 2) else if m =? 5 then (1, 3)
  else if m =? 8 then (4, 4) else (0, 0).
Definition script34 (c : Z) : Z * Z :=
  let m := c mod 14 in
  if m =? 0 then (3, 1) else if m =? 3 then (2, 2) else if m =? 7 then (1, 3)
  else if m =? 9 then (4, 4) else if m =? 11 then (1, 3) else if m =? 12 then (4, 4) else (0, 0).

(* None: self.agents['baddie_2'].orientation raises *)
Definition script2 (cf : pcfg) (g : gstate) (c : Z) : option Z :=
  if c mod 13 =? 0 then
    match nth 2 (pc_bad cf) None with
    | Some b2 =>
        match agent g b2 with
        | Some a => match a_orient a with Some o => Some (if o =? 3 then 1 else 3) | None => None end
        | None => None
        end
    | None => None
    end
  else Some 0.

Definition script (cf : pcfg) (g : gstate) (c : Z) : option (list Z) :=
  match script2 cf g c with
  | Some m2 => Some [fst (script01 c); snd (script01 c); m2; fst (script34 c); snd (script34 c)]
  | None => None
  end.

(* for agent_id, action in action_dict.items(): process_action (result unused); teleport *)
Fixpoint baddies_loop (fixed : bool) (cf : pcfg) (k : nat) (moves : list Z) (g : gstate) : tres :=
  match moves with
  | [] => TOk g
  | mv :: rest =>
      match nth k (pc_bad cf) None with
      | None => TErr g                                   (* self.agents[agent_id]: KeyError *)
      | Some b =>
          match move_drift g b mv with
          | MOk _ g1 =>
              match teleport fixed g1 b with
              | TOk g2 => baddies_loop fixed cf (S k) rest g2
              | TErr g2 => TErr g2
              end
          | _ => TErr g
          end
      end
  end.

(* action_dict['pacman']['move'] *)
Fixpoint assoc {X} (l : list (nat * X)) (i : nat) : option X :=
  match l with
  | [] => None
  | (k, x) :: r => if Nat.eqb k i then Some x else assoc r i
  end.

(* ---- PacmanSimSimple.step -------------------------------------------------------------------------- *)
Definition pm_step_gen (fixed : bool) (cf : pcfg) (st : pstate) (acts : list (nat * Z)) : pstate :=
  let pac := pc_pac cf in
  let c := ps_count st in
  match assoc acts pac with
  | None => p_mark_bad st                                (* KeyError: 'pacman' *)
  | Some ca =>
      match move_drift (ps_grid st) pac ca with
      | MOk b g1 =>
          let r1 := radd (ps_rew st) pac (if b then pc_entropy cf else pc_bad_move cf) in
          match teleport fixed g1 pac with
          | TErr g2 => p_mark_bad (mk st g2 r1 c)
          | TOk g2 =>
              match pac_cell cf g2 with
              | None => p_mark_bad (mk st g2 r1 c)
              | Some p =>
                  match overlap_loop cf true (cell_get (g_cells g2) p) g2 r1 with
                  | LBad g3 r3 => p_mark_bad (mk st g3 r3 c)
                  | LDead g3 r3 => mk st g3 r3 c         (* return: the baddies do not move *)
                  | LGo g3 r3 =>
                      match script cf g3 c with
                      | None => p_mark_bad (mk st g3 r3 c)
                      | Some moves =>
                          match baddies_loop fixed cf 0 moves g3 with
                          | TErr g4 => p_mark_bad (mk st g4 r3 c)
                          | TOk g4 =>
                              match pac_cell cf g4 with
                              | None => p_mark_bad (mk st g4 r3 c)
                              | Some p' =>
                                  match overlap_loop cf false (cell_get (g_cells g4) p') g4 r3 with
                                  | LBad g5 r5 => p_mark_bad (mk st g5 r5 c)
                                  | LDead g5 r5 => mk st g5 r5 c
                                  | LGo g5 r5 => mk st g5 r5 (c + 1)      (* self.step_count += 1 *)
                                  end
                              end
                          end
                      end
                  end
              end
          end
      | _ => p_mark_bad st                               (* the move actor raised *)
      end
  end.

Definition pm_step := pm_step_gen true.
Definition pm_step_prefix := pm_step_gen false.          (* the tree as found *)

(* ---- reset: every state component, rewards = 0, step_count = 0 ---------------------------------- *)
Definition pm_reset (cf : pcfg) (st : pstate) : pstate :=
  let zero := repeat 0 (length (pc_kinds cf)) in
  match ps_starts st with
  | g0 :: rest =>
      {| ps_grid := g0; ps_rew := zero; ps_count := 0; ps_starts := rest;
         ps_obsorc := ps_obsorc st; ps_bad := ps_bad st |}
  | [] =>
      {| ps_grid := ps_grid st; ps_rew := zero; ps_count := 0; ps_starts := [];
         ps_obsorc := ps_obsorc st; ps_bad := true |}
  end.

(* ---- getters ---------------------------------------------------------------------------------------- *)
(* the AbsoluteEncodingObserver for a GridObservingAgent; {} for the others *)
Definition pm_obs (cf : pcfg) (st : pstate) (i : nat) : list (list Z) * pstate :=
  match nth_error (pc_kinds cf) i with
  | Some (KPac v) | Some (KBad v) =>
      match obs_absolute vis_model (ps_grid st) i v (ps_obsorc st) with
      | OOk arr o' => (arr, p_with_obsorc st o')
      | OBad | OErr => ([], p_mark_bad st)
      end
  | Some _ => ([], st)
  | None => ([], p_mark_bad st)
  end.

(* reward = self.rewards[agent_id]; self.rewards[agent_id] = 0; return reward *)
Definition pm_reward (cf : pcfg) (st : pstate) (i : nat) : Z * pstate :=
  if p_learning cf i then
    match nth_error (ps_rew st) i with
    | Some x => (x, mk st (ps_grid st) (upd_nth (ps_rew st) i 0) (ps_count st))
    | None => (0, p_mark_bad st)
    end
  else (0, p_mark_bad st).

(* get_all_done: not pacman.active, or no FoodAgent among self.agents (eaten food stays a FoodAgent) *)
Definition pm_all (cf : pcfg) (st : pstate) : bool :=
  match agent (ps_grid st) (pc_pac cf) with
  | Some a => if a_active a then negb (existsb is_food (pc_kinds cf)) else true
  | None => false
  end.
(* get_done(agent_id) = get_all_done() *)
Definition pm_done (cf : pcfg) (st : pstate) (_ : nat) : bool := pm_all cf st.

Definition pacman_sim_gen (fixed : bool) (cf : pcfg) : simulation pstate (list (list Z)) unit Z :=
  {| sim_n := length (pc_kinds cf);
     sim_learning := p_learning cf;
     sim_reset := pm_reset cf;
     sim_step := pm_step_gen fixed cf;
     sim_obs := pm_obs cf;
     sim_reward := pm_reward cf;
     sim_done := pm_done cf;
     sim_all := pm_all cf;
     sim_info := fun _ _ => tt;
     sim_next := fun _ => [] |}.
Definition pacman_sim := pacman_sim_gen true.
Definition pacman_sim_prefix := pacman_sim_gen false.

(* the manager run, recording grid and step_count after every call *)
Fixpoint prun_snap (Sm : simulation pstate (list (list Z)) unit Z) (k : mgr) (m : mstate pstate)
         (cs : list (call Z)) : list (bresp * (gstate * Z)) * mstate pstate :=
  match cs with
  | [] => ([], m)
  | c :: cs' =>
      let (r, m1) := do_call Sm k m c in
      let (rs, m2) := prun_snap Sm k m1 cs' in
      ((r, (ps_grid (m_sim m1), ps_count (m_sim m1))) :: rs, m2)
  end.

Definition pm_init (rows cols : Z) (ov : otable) (starts : list gstate) (oo : list Z) : pstate :=
  {| ps_grid := empty_grid rows cols ov []; ps_rew := []; ps_count := 0; ps_starts := starts;
     ps_obsorc := oo; ps_bad := false |}.

(* ---- wire -------------------------------------------------------------------------------------------
   input  (rows cols ov cfg starts obschoices kind calls)
     cfg    (kinds pac (b0 b1 b2 b3 b4) (bad_move entropy eat_food die))
            kinds = ((k view) ...)  k: 0 wall 1 food 2 pacman 3 baddie;  b = index or -1
     starts (snapshot ...)      kind 0 AllStepManager | 1 TurnBasedManager
     calls  ((0) | (1 acts shuffled) ...)   acts = ((i move) ...)
   output (bad ((resp snapshot step_count) ...))                                                  *)
Definition dec_pkind (x : sx) : option pkind :=
  match x with
  | L [A 0; A _] => Some KWall
  | L [A 1; A _] => Some KFood
  | L [A 2; A v] => Some (KPac v)
  | L [A 3; A v] => Some (KBad v)
  | _ => None
  end.
Definition dec_optidx (x : sx) : option (option nat) :=
  match x with A i => Some (if i <? 0 then None else Some (Z.to_nat i)) | _ => None end.
Definition dec_pcfg (x : sx) : option pcfg :=
  match x with
  | L [L ks; A pac; L bs; L [A bm; A en; A ea; A di]] =>
      match all_some (map dec_pkind ks), all_some (map dec_optidx bs) with
      | Some ks', Some bs' =>
          if pac <? 0 then None
          else Some {| pc_kinds := ks'; pc_pac := Z.to_nat pac; pc_bad := bs';
                       pc_bad_move := bm; pc_entropy := en; pc_eat := ea; pc_die := di |}
      | _, _ => None
      end
  | _ => None
  end.

Definition dec_pkv (x : sx) : option (nat * Z) :=
  match x with
  | L [A i; A mv] => if i <? 0 then None else Some (Z.to_nat i, mv)
  | _ => None
  end.
Definition dec_pkvs (x : sx) : option (list (nat * Z)) :=
  match x with L l => all_some (map dec_pkv l) | A _ => None end.
Definition dec_pcall (x : sx) : option (call Z) :=
  match x with
  | L [A 0] => Some CReset
  | L [A 1; a; sh] =>
      match dec_pkvs a, dec_pkvs sh with
      | Some a', Some sh' => Some (CStep a' sh')
      | _, _ => None
      end
  | _ => None
  end.

Record pac_input := {
  pi_rows : Z; pi_cols : Z; pi_ov : otable; pi_cfg : pcfg; pi_init : pstate; pi_kind : mgr;
  pi_calls : list (call Z) }.

Definition dec_pacman (x : sx) : option pac_input :=
  match x with
  | L [A rows; A cols; ov; cf; L sts; ocs; A kind; L cs] =>
      match dec_ov ov with
      | Some ov' =>
          match dec_pcfg cf, all_some (map (dec_start rows cols ov') sts), sxZs ocs,
                all_some (map dec_pcall cs) with
          | Some cf', Some sts', Some ocs', Some cs' =>
              if (rows <=? 0) || (cols <=? 0) || negb ((kind =? 0) || (kind =? 1)) then None
              else Some {| pi_rows := rows; pi_cols := cols; pi_ov := ov'; pi_cfg := cf';
                           pi_init := pm_init rows cols ov' sts' ocs';
                           pi_kind := if kind =? 0 then MAll else MTurn;
                           pi_calls := cs' |}
          | _, _, _, _ => None
          end
      | None => None
      end
  | _ => None
  end.

Definition pac_records (Sm : pcfg -> simulation pstate (list (list Z)) unit Z) (i : pac_input)
  : list (bresp * (gstate * Z)) * mstate pstate :=
  prun_snap (Sm (pi_cfg i)) (pi_kind i) (init (pi_init i)) (pi_calls i).

Definition enc_precord (rg : bresp * (gstate * Z)) : sx :=
  L [enc_bresp (fst rg); enc_snapshot (fst (snd rg)); A (snd (snd rg))].

Definition run_pacman_gen (Sm : pcfg -> simulation pstate (list (list Z)) unit Z) (x : sx) : sx :=
  match dec_pacman x with
  | Some i =>
      let (rs, m) := pac_records Sm i in
      L [ofB (ps_bad (m_sim m)); L (map enc_precord rs)]
  | None => sx_err
  end.
Definition run_pacman : sx -> sx := run_pacman_gen pacman_sim.
Definition run_pacman_prefix : sx -> sx := run_pacman_gen pacman_sim_prefix.

(* ---- checker: from the input and the recorded behaviour only -------------------------------------------
   per record: 301-304 ginvb on the snapshot (vitals incl. orientation in 1..4; every active agent has a
   cell inside the grid; every cell holds exactly the active agents positioned there, inactive agents in
   none; no two agents in one cell whose encodings may not overlap under the board's table);
   2611 after a step: pacman is active and shares its cell with a baddie (the second overlap loop left
        it alive);
   2612 after a step that pacman started alive: step_count is not (old + 1 if pacman is still active,
        old if it died);
   2613 after a reset: step_count is not 0;
   308 the flag (an exception escaped from a manager call other than the documented refusals);
   309 malformed. *)
Definition pac_active (cf : pcfg) (g : gstate) : bool :=
  match agent g (pc_pac cf) with Some a => a_active a | None => false end.

Definition shares_b (cf : pcfg) (g : gstate) : bool :=
  match pac_cell cf g with
  | Some p => pac_active cf g
              && existsb (fun j => negb (Nat.eqb j (pc_pac cf)) && is_baddie (kind_of cf j))
                         (cell_get (g_cells g) p)
  | None => false
  end.

(* prev: active flag of pacman and step_count in the previous record (None before the first one) *)
Definition chk_prec (cf : pcfg) (prev : option (bool * Z)) (tag : Z) (g : gstate) (c : Z) : Z :=
  let c0 := ginvb g in
  if negb (c0 =? 0) then c0
  else if tag =? 0 then (if c =? 0 then 0 else 2613)
  else if tag =? 1 then
    if shares_b cf g then 2611
    else match prev with
         | Some (true, c') => if c =? (if pac_active cf g then c' + 1 else c') then 0 else 2612
         | _ => 0
         end
  else 0.

Fixpoint chk_precs (rows cols : Z) (ov : otable) (cf : pcfg) (prev : option (bool * Z))
         (recs : list sx) : Z :=
  match recs with
  | [] => 0
  | L [L (A tag :: _); snap; A c] :: r =>
      match dec_start rows cols ov snap with
      | Some g =>
          let k := chk_prec cf prev tag g c in
          if k =? 0 then chk_precs rows cols ov cf (Some (pac_active cf g, c)) r else k
      | None => 309
      end
  | _ => 309
  end.

Definition run_chk_pacman (x : sx) : sx :=
  match x with
  | L [xin; L [A bad; L recs]] =>
      match dec_pacman xin with
      | Some i =>
          if negb (bad =? 0) then A (-308)
          else let c := chk_precs (pi_rows i) (pi_cols i) (pi_ov i) (pi_cfg i) None recs in
               if c =? 0 then A 1 else A (- c)
      | None => A (-309)
      end
  | _ => A (-309)
  end.

(* DISPATCH: 2601 => run_pacman *)
(* DISPATCH: 2602 => run_chk_pacman *)
