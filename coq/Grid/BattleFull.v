(* The end-to-end simulation of Grid/BattleSim.v with its reset computed instead of given:
   battle_full_sim is battle_sim (TeamBattleSim.step, the smart simulation's getters) whose
   `sim_reset` is SmartGridWorldSimulation.reset as modelled in Grid/FullReset.v -- every state
   component on the grid the previous episode left behind, then the rewards cleared.

   The state is BattleSim's bstate (its start-state stream stays unused) plus the stream of reset
   oracles: one foracle (placement choices, uniform draws, randint draws) per coming reset.  A
   reset that finds no oracle, an inadmissible draw, or raises (no cell left, refused initial
   position) sets bs_bad and leaves the grid alone.
   `reseed` is "seed the generators again": the used object's draw streams are replaced by those
   of another state; nothing else of it is touched.  No proofs here (Proofs/BattleFull_proofs.v). *)
From Coq Require Import ZArith List Bool Arith.
From Abm Require Import Base.Sx Grid.Overlap Grid.Grid Grid.Attack Grid.BattleSim Grid.FullReset
  Ctl.Managers.
Import ListNotations.
Open Scope Z_scope.

Record bfcfg := { bf_battle : bcfg; bf_states : fcfg }.
Record bfstate := { bf_core : bstate; bf_resets : list foracle }.

Definition with_core (st : bfstate) (c : bstate) : bfstate :=
  {| bf_core := c; bf_resets := bf_resets st |}.

(* for state in self._states: state.reset();  self.rewards = {id: 0 ...} *)
Definition bf_reset (cf : bfcfg) (st : bfstate) : bfstate :=
  let c := bf_core st in
  let zero := reset_rewards (bf_states cf) in
  match bf_resets st with
  | o :: rest =>
      match full_reset (bf_states cf) o (bs_grid c) with
      | Some g =>
          {| bf_core := {| bs_grid := g; bs_rew := zero; bs_starts := bs_starts c;
                           bs_orc := bs_orc c; bs_obsorc := bs_obsorc c; bs_bad := bs_bad c |};
             bf_resets := rest |}
      | None =>
          {| bf_core := {| bs_grid := bs_grid c; bs_rew := zero; bs_starts := bs_starts c;
                           bs_orc := bs_orc c; bs_obsorc := bs_obsorc c; bs_bad := true |};
             bf_resets := rest |}
      end
  | [] =>
      {| bf_core := {| bs_grid := bs_grid c; bs_rew := zero; bs_starts := bs_starts c;
                       bs_orc := bs_orc c; bs_obsorc := bs_obsorc c; bs_bad := true |};
         bf_resets := [] |}
  end.

Definition bf_step (cf : bfcfg) (st : bfstate) (acts : list (nat * bact)) : bfstate :=
  with_core st (bs_step (bf_battle cf) (bf_core st) acts).
Definition bf_obs (cf : bfcfg) (st : bfstate) (i : nat) : list (list Z) * bfstate :=
  let r := bs_obs (bf_battle cf) (bf_core st) i in (fst r, with_core st (snd r)).
Definition bf_reward (st : bfstate) (i : nat) : Z * bfstate :=
  let r := bs_reward (bf_core st) i in (fst r, with_core st (snd r)).

Definition battle_full_sim (cf : bfcfg) : simulation bfstate (list (list Z)) unit bact :=
  {| sim_n := length (bc_agents (bf_battle cf));
     sim_learning := fun _ => true;
     sim_reset := bf_reset cf;
     sim_step := bf_step cf;
     sim_obs := bf_obs cf;
     sim_reward := bf_reward;
     sim_done := fun st => bs_done (bf_battle cf) (bf_core st);
     sim_all := fun st => bs_all (bf_battle cf) (bf_core st);
     sim_info := fun _ _ => tt;
     sim_next := fun _ => [] |}.

(* the simulation object before its first reset *)
Definition bf_init (cf : bfcfg) (resets : list foracle) (o : oracle) (oo : list Z) : bfstate :=
  {| bf_core := {| bs_grid := blank (bf_states cf); bs_rew := []; bs_starts := []; bs_orc := o;
                   bs_obsorc := oo; bs_bad := false |};
     bf_resets := resets |}.

(* random.seed / np.random.seed: the draw streams of `st` become those of `src` *)
Definition reseed (st src : bfstate) : bfstate :=
  {| bf_core := {| bs_grid := bs_grid (bf_core st); bs_rew := bs_rew (bf_core st);
                   bs_starts := bs_starts (bf_core src); bs_orc := bs_orc (bf_core src);
                   bs_obsorc := bs_obsorc (bf_core src); bs_bad := bs_bad (bf_core st) |};
     bf_resets := bf_resets src |}.
Definition reseed_m (m : mstate bfstate) (src : bfstate) : mstate bfstate :=
  {| m_sim := reseed (m_sim m) src; m_done := m_done m; m_ptr := m_ptr m |}.

(* the coming reset has its draws and does not raise *)
Definition next_reset_ok (cf : bfcfg) (st : bfstate) : bool :=
  match bf_resets st with
  | o :: _ => match full_reset (bf_states cf) o (bs_grid (bf_core st)) with
              | Some _ => true | None => false end
  | [] => false
  end.
