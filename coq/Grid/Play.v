(* Interleaved play on the grid model: any sequence of move and attack operations by any agents,
   and the executable form ginvb of the consistency invariant of C03 evaluated on a state
   snapshot.  No proofs here. *)
From Coq Require Import ZArith List Bool Arith.
From Abm Require Import Base.Sx Grid.Overlap Grid.Grid Grid.Move Grid.Attack Grid.Vis Grid.AttackRun.
Import ListNotations.
Open Scope Z_scope.

Inductive pop := PMove (o : mop) | PAttack (a : aop).

Definition dec_pop (x : sx) : option pop :=
  match x with
  | L [A 0; m] => option_map PMove (dec_mop m)
  | L [A 1; a] => option_map PAttack (dec_aop a)
  | _ => None
  end.

(* the state after an operation; an operation that fails with an error leaves the state alone *)
Definition do_pop (vis : vis_fn) (s : gstate) (o : pop) : gstate :=
  match o with
  | PMove m => match do_mop s m with MOk _ s' => s' | _ => s end
  | PAttack a =>
      match process_attack vis s (op_cfg a) (op_att a) (op_orc a) (op_act a) with
      | POk _ _ s' _ => s'
      | _ => s
      end
  end.

Definition play (vis : vis_fn) (s : gstate) (ops : list pop) : gstate :=
  fold_left (do_pop vis) ops s.

Fixpoint run_pops (s : gstate) (ops : list pop) : list sx :=
  match ops with
  | [] => []
  | o :: r =>
      let res :=
        match o with
        | PMove m => enc_mres (do_mop s m)
        | PAttack a =>
            match process_attack vis_model s (op_cfg a) (op_att a) (op_orc a) (op_act a) with
            | POk st hits _ o' => L [ofB st; ofNats hits; ofNat (length (o_unif o')); ofNat (length (o_choice o'))]
            | PBadOracle => A (-998)
            | PErr => A (-996)
            end
        end in
      let s' := do_pop vis_model s o in
      L [res; enc_snapshot s'] :: run_pops s' r
  end.

Definition run_play (x : sx) : sx :=
  match dec_grid_input x with
  | Some (s0, xops) =>
      match all_some (map dec_pop xops) with
      | Some ops => L [enc_snapshot s0; L (run_pops s0 ops)]
      | None => sx_err
      end
  | None => sx_err
  end.

(* ---- the invariant as a boolean over a snapshot ------------------------------------------------ *)
Definition vitals_b (a : arec) : bool :=
  (0 <=? a_health a) && (a_health a <=? HD) && Bool.eqb (a_active a) (0 <? a_health a)
  && match a_ammo a with Some m => 0 <=? m | None => true end
  && match a_orient a with Some o => (1 <=? o) && (o <=? 4) | None => true end.

Definition placed_b (s : gstate) (a : arec) : bool :=
  negb (a_active a) || match a_pos a with Some p => inside s p | None => false end.

Fixpoint pairwise {X} (f : X -> X -> bool) (l : list X) : bool :=
  match l with [] => true | x :: r => forallb (f x) r && pairwise f r end.

Definition overlap_b (s : gstate) : bool :=
  forallb (fun p => pairwise (fun i j => ov_allowed (g_ov s) (enc_of s i) (enc_of s j)
                                          && ov_allowed (g_ov s) (enc_of s j) (enc_of s i))
                             (cell_get (g_cells s) p)) (all_cells s).

(* clause numbers: 301 vitals, 302 an active agent without a cell inside the grid,
   303 cell dictionaries and positions disagree (ghost, missing or duplicated agent),
   304 two agents share a cell although their encodings may not overlap *)
Definition ginvb (s : gstate) : Z :=
  if negb (forallb vitals_b (g_agents s)) then 301
  else if negb (forallb (placed_b s) (g_agents s)) then 302
  else if negb (cells_consistent s) then 303
  else if negb (overlap_b s) then 304
  else 0.

Fixpoint chk_snaps (s0 : gstate) (recs : list sx) : Z :=
  match recs with
  | [] => 0
  | L [_; snap] :: r =>
      match dec_snapshot s0 snap with
      | Some s' => let c := ginvb s' in if c =? 0 then chk_snaps s0 r else c
      | None => 309
      end
  | _ => 309
  end.

(* input ((rows cols ov agents ops) (snapshot0 records)) -> 1 | -clause *)
Definition run_chk_C03 (x : sx) : sx :=
  match x with
  | L [xin; L [snap0; L recs]] =>
      match dec_grid_input xin with
      | Some (s0, _) =>
          match dec_snapshot s0 snap0 with
          | Some s0' =>
              let c := ginvb s0' in
              if negb (c =? 0) then A (- c)
              else let c' := chk_snaps s0 recs in if c' =? 0 then A 1 else A (- c')
          | None => A (-309)
          end
      | None => A (-309)
      end
  | _ => A (-309)
  end.

(* DISPATCH: 301 => run_play *)
(* DISPATCH: 302 => run_chk_C03 *)
