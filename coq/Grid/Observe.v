(* Model of the five built-in observers of abmarl/sim/gridworld/observer.py over Grid/Grid.v:
   AbsoluteEncodingObserver, PositionCenteredEncodingObserver (observe_self on/off),
   StackedPositionCenteredEncodingObserver, AbsolutePositionObserver, AmmoObserver (get_obs), and
   of the local-window copy of utils.create_grid_and_mask (lines 31-43: r_lower, r_upper, c_lower,
   c_upper and the shifted slice assignment).  numpy arrays are lists of rows; `a[lo:hi]` and
   `a[lo:hi] = src` are the generic list operations `slice` / `slice_set` below (for equal shapes,
   which is the only case numpy accepts without broadcasting, they are numpy's semantics).
   The mask of create_grid_and_mask is the function argument `vis` (Grid/Attack.v's vis_fn):
   mask[r, c] = vis s viewer R (r - R, c - R).  np.random.choice is an oracle: the list of the
   chosen encodings in scan order; each is checked to be an element of the list it was drawn from.
   Second part: the independent per-cell specification computed from the agents' POSITIONS only
   (never from the cell dictionaries) and the executable checker chk_C09.  No proofs here. *)
From Coq Require Import ZArith List Bool Arith.
From Abm Require Import Base.Sx Grid.Overlap Grid.Grid Grid.Move Grid.Attack Grid.Vis.
Import ListNotations.
Open Scope Z_scope.

(* ---- numpy-style arrays as lists ----------------------------------------------------------- *)
Definition get {X} (l : list X) (k : Z) : option X :=
  if k <? 0 then None else nth_error l (Z.to_nat k).
Definition get2 {X} (m : list (list X)) (i j : Z) : option X :=
  match get m i with Some row => get row j | None => None end.

(* np.full((h, w), x) *)
Definition full {X} (h w : Z) (x : X) : list (list X) :=
  repeat (repeat x (Z.to_nat w)) (Z.to_nat h).

(* a[lo:hi] for 0 <= lo *)
Definition slice {X} (l : list X) (lo hi : Z) : list X :=
  firstn (Z.to_nat (hi - lo)) (skipn (Z.to_nat lo) l).
(* a[lo:hi] = src *)
Definition slice_set {X} (dst : list X) (lo hi : Z) (src : list X) : list X :=
  firstn (Z.to_nat lo) dst ++ src ++ skipn (Z.to_nat hi) dst.
(* a[r0:r1, c0:c1] *)
Definition slice2 {X} (m : list (list X)) (r0 r1 c0 c1 : Z) : list (list X) :=
  map (fun row => slice row c0 c1) (slice m r0 r1).
(* a[r0:r1, c0:c1] = src : row k of the destination block receives row k of src *)
Definition slice_set2 {X} (dst : list (list X)) (r0 r1 c0 c1 : Z) (src : list (list X))
  : list (list X) :=
  slice_set dst r0 r1
    (map (fun ds => slice_set (fst ds) c0 c1 (snd ds)) (combine (slice dst r0 r1) src)).

(* grid._internal as an array of cell dictionaries *)
Definition grid_matrix (s : gstate) : list (list (list nat)) :=
  map (fun r => map (fun c => cell_get (g_cells s) (r, c)) (zrange 0 (g_cols s)))
      (zrange 0 (g_rows s)).

(* ---- utils.create_grid_and_mask, lines 31-43 ------------------------------------------------ *)
Record bounds := { r_lower : Z; r_upper : Z; c_lower : Z; c_upper : Z }.

Definition slice_bounds (s : gstate) (p : cell) (R : Z) : bounds :=
  {| r_lower := Z.max 0 (fst p - R);
     r_upper := Z.min (g_rows s - 1) (fst p + R) + 1;
     c_lower := Z.max 0 (snd p - R);
     c_upper := Z.min (g_cols s - 1) (snd p + R) + 1 |}.

(* local_grid = np.empty((2R+1, 2R+1), dtype=object)   -- every entry None
   local_grid[(r_lower+R-r):(r_upper+R-r), (c_lower+R-c):(c_upper+R-c)]
       = grid[r_lower:r_upper, c_lower:c_upper]
   None = outside the grid, Some d = the cell dictionary d *)
Definition local_window (s : gstate) (p : cell) (R : Z) : list (list (option (list nat))) :=
  let b := slice_bounds s p R in
  let r := fst p in let c := snd p in
  slice_set2 (full (2 * R + 1) (2 * R + 1) None)
             (r_lower b + R - r) (r_upper b + R - r) (c_lower b + R - c) (c_upper b + R - c)
             (map (map Some) (slice2 (grid_matrix s) (r_lower b) (r_upper b) (c_lower b) (c_upper b))).

(* ---- the oracle ------------------------------------------------------------------------------ *)
Inductive ores (X : Type) := OOk (x : X) (o : list Z) | OBad | OErr.
Arguments OOk {X}. Arguments OBad {X}. Arguments OErr {X}.

(* np.random.choice(l) for a non-empty list of encodings *)
Definition np_choice (l : list Z) (o : list Z) : ores Z :=
  match o with
  | e :: o' => if memZ e l then OOk e o' else OBad
  | [] => OBad
  end.

(* for r in range(2R+1): for c in range(2R+1): out[r, c] = f r c local_grid[r, c]
   with the oracle threaded in scan order *)
Fixpoint conv_row {X} (f : Z -> Z -> X -> list Z -> ores Z) (r c : Z) (row : list X) (o : list Z)
  : ores (list Z) :=
  match row with
  | [] => OOk [] o
  | x :: row' =>
      match f r c x o with
      | OOk v o1 =>
          match conv_row f r (c + 1) row' o1 with
          | OOk vs o2 => OOk (v :: vs) o2
          | OBad => OBad | OErr => OErr
          end
      | OBad => OBad | OErr => OErr
      end
  end.

Fixpoint conv_rows {X} (f : Z -> Z -> X -> list Z -> ores Z) (r : Z) (m : list (list X))
         (o : list Z) : ores (list (list Z)) :=
  match m with
  | [] => OOk [] o
  | row :: m' =>
      match conv_row f r 0 row o with
      | OOk vs o1 =>
          match conv_rows f (r + 1) m' o1 with
          | OOk vss o2 => OOk (vs :: vss) o2
          | OBad => OBad | OErr => OErr
          end
      | OBad => OBad | OErr => OErr
      end
  end.

(* the same double loop without random draws *)
Fixpoint mapi_row {X Y} (f : Z -> Z -> X -> Y) (r c : Z) (row : list X) : list Y :=
  match row with [] => [] | x :: row' => f r c x :: mapi_row f r (c + 1) row' end.
Fixpoint mapi_rows {X Y} (f : Z -> Z -> X -> Y) (r : Z) (m : list (list X)) : list (list Y) :=
  match m with [] => [] | row :: m' => mapi_row f r 0 row :: mapi_rows f (r + 1) m' end.

(* ---- PositionCenteredEncodingObserver.get_obs, lines 229-255 ---------------------------------- *)
Definition cent_cell (vis : vis_fn) (s : gstate) (i : nat) (R : Z) (observe_self : bool)
           (r c : Z) (x : option (list nat)) (o : list Z) : ores Z :=
  if vis s i R (r - R, c - R) then                      (* mask[r, c]: we can see this cell *)
    match x with
    | None => OOk (-1) o                                (* out of bounds *)
    | Some [] => OOk 0 o                                (* in bounds, empty *)
    | Some cand =>
        if observe_self then np_choice (map (enc_of s) cand) o
        else
          match map (enc_of s) (filter (fun j => negb (Nat.eqb j i)) cand) with
          | [] => OOk 0 o
          | choices => np_choice choices o
          end
    end
  else OOk (-2) o.

(* ---- AbsoluteEncodingObserver.get_obs, lines 122-142 (the convolution) ------------------------ *)
Definition abs_cell (vis : vis_fn) (s : gstate) (i : nat) (R : Z)
           (r c : Z) (x : option (list nat)) (o : list Z) : ores Z :=
  if vis s i R (r - R, c - R) then
    match x with
    | None => OOk 0 o                                   (* `continue`: np.zeros; cropped later *)
    | Some [] => OOk 0 o
    | Some cand =>
        if memn i cand then OOk (-1) o                  (* prioritise observing yourself *)
        else np_choice (map (enc_of s) cand) o
    end
  else OOk (-2) o.

(* lines 144-154: obs = -2 * ones((rows, cols));
   obs[r_lower:r_upper, c_lower:c_upper] =
       convolved[(r_lower+R-r):(r_upper+R-r), (c_lower+R-c):(c_upper+R-c)] *)
Definition abs_embed (s : gstate) (p : cell) (R : Z) (conv : list (list Z)) : list (list Z) :=
  let b := slice_bounds s p R in
  let r := fst p in let c := snd p in
  slice_set2 (full (g_rows s) (g_cols s) (-2))
             (r_lower b) (r_upper b) (c_lower b) (c_upper b)
             (slice2 conv (r_lower b + R - r) (r_upper b + R - r)
                          (c_lower b + R - c) (c_upper b + R - c)).

(* ---- StackedPositionCenteredEncodingObserver.get_obs, lines 320-340 --------------------------- *)
(* number_of_encodings = max([agent.encoding for agent in agents.values()]) *)
Definition number_of_encodings (s : gstate) : Z :=
  match map a_enc (g_agents s) with
  | [] => 0
  | e :: es => fold_left Z.max es e
  end.

Definition stk_cell (vis : vis_fn) (s : gstate) (i : nat) (R : Z) (e : Z)
           (r c : Z) (x : option (list nat)) : Z :=
  if vis s i R (r - R, c - R) then
    match x with
    | None => -1
    | Some [] => 0
    | Some cand => Z.of_nat (length (filter (fun j => enc_of s j =? e + 1) cand))
    end
  else -2.

(* ---- get_obs ---------------------------------------------------------------------------------- *)
(* The viewer's position is agent.position whether or not the agent is still in the grid (a dead
   agent keeps it).  A viewer without position, outside the grid or with a negative range cannot
   be constructed through the package (Grid.place, the view_range setter): OErr, outside the
   model. *)
Definition viewer_pos (s : gstate) (i : nat) (R : Z) : option cell :=
  match agent s i with
  | Some a =>
      match a_pos a with
      | Some p => if inside s p && (0 <=? R) then Some p else None
      | None => None
      end
  | None => None
  end.

Definition obs_window (s : gstate) (i : nat) (R : Z) : option (list (list (option (list nat)))) :=
  match viewer_pos s i R with Some p => Some (local_window s p R) | None => None end.

Definition obs_centered (vis : vis_fn) (s : gstate) (i : nat) (R : Z) (observe_self : bool)
           (o : list Z) : ores (list (list Z)) :=
  match viewer_pos s i R with
  | Some p => conv_rows (cent_cell vis s i R observe_self) 0 (local_window s p R) o
  | None => OErr
  end.

Definition abs_convolved (vis : vis_fn) (s : gstate) (i : nat) (R : Z) (o : list Z)
  : ores (list (list Z)) :=
  match viewer_pos s i R with
  | Some p => conv_rows (abs_cell vis s i R) 0 (local_window s p R) o
  | None => OErr
  end.

Definition obs_absolute (vis : vis_fn) (s : gstate) (i : nat) (R : Z) (o : list Z)
  : ores (list (list Z)) :=
  match viewer_pos s i R with
  | Some p =>
      match abs_convolved vis s i R o with
      | OOk conv o' => OOk (abs_embed s p R conv) o'
      | OBad => OBad | OErr => OErr
      end
  | None => OErr
  end.

(* obs[r, c, encoding] *)
Definition obs_stacked (vis : vis_fn) (s : gstate) (i : nat) (R : Z)
  : option (list (list (list Z))) :=
  match viewer_pos s i R with
  | Some p =>
      Some (mapi_rows (fun r c x => map (fun e => stk_cell vis s i R e r c x)
                                        (zrange 0 (number_of_encodings s)))
                      0 (local_window s p R))
  | None => None
  end.

(* AbsolutePositionObserver: agent.position;  AmmoObserver: agent.ammo, {} for agents without *)
Definition obs_position (s : gstate) (i : nat) : option cell :=
  match agent s i with Some a => a_pos a | None => None end.
Definition obs_ammo (s : gstate) (i : nat) : option Z :=
  match agent s i with Some a => a_ammo a | None => None end.

(* view_range == "FULL" (wire: a negative number) -> max(rows, cols) - 1, in every __init__ *)
Definition resolve_range (s : gstate) (rg : Z) : Z :=
  if rg <? 0 then Z.max (g_rows s) (g_cols s) - 1 else rg.

(* =============================================================================================
   Independent specification: what a cell must show, from the agents' positions only.
   ============================================================================================= *)
(* active agents positioned at q: Move.at_cell; the same without the viewer: Move.others_at *)
Definition occupants (s : gstate) (q : cell) : list nat := at_cell (g_agents s) O q.
Definition occupants_but (s : gstate) (i : nat) (q : cell) : list nat :=
  others_at (g_agents s) O i q.

Definition one_of (s : gstate) (occ : list nat) (v : Z) : bool :=
  match occ with
  | [] => v =? 0
  | _ => memZ v (map (enc_of s) occ)
  end.

(* centred views: window cell at offset d from the viewer at p *)
Definition cent_spec (vis : vis_fn) (s : gstate) (i : nat) (p : cell) (R : Z) (observe_self : bool)
           (d : cell) (v : Z) : bool :=
  let q := (fst p + fst d, snd p + snd d) in
  if negb (vis s i R d) then v =? -2
  else if negb (inside s q) then v =? -1
  else one_of s (if observe_self then occupants s q else occupants_but s i q) v.

Definition count_enc (s : gstate) (occ : list nat) (e : Z) : Z :=
  Z.of_nat (length (filter (fun j => enc_of s j =? e) occ)).

(* stacked view: layer e (0-based) counts the occupants of encoding e + 1 *)
Definition stk_spec (vis : vis_fn) (s : gstate) (i : nat) (p : cell) (R : Z)
           (d : cell) (e : Z) (v : Z) : bool :=
  let q := (fst p + fst d, snd p + snd d) in
  if negb (vis s i R d) then v =? -2
  else if negb (inside s q) then v =? -1
  else v =? count_enc s (occupants s q) (e + 1).

Definition in_range (R : Z) (d : cell) : bool :=
  (- R <=? fst d) && (fst d <=? R) && (- R <=? snd d) && (snd d <=? R).

(* absolute view: absolute cell q *)
Definition abs_spec (vis : vis_fn) (s : gstate) (i : nat) (p : cell) (R : Z) (q : cell) (v : Z)
  : bool :=
  let d := (fst q - fst p, snd q - snd p) in
  if negb (in_range R d) then v =? -2
  else if negb (vis s i R d) then v =? -2
  else if memn i (occupants s q) then v =? -1
  else one_of s (occupants s q) v.

(* the local window itself: outside -> None, inside -> the occupants, as a set without repetition *)
Definition win_spec (s : gstate) (p : cell) (d : cell) (x : option (list nat)) : bool :=
  let q := (fst p + fst d, snd p + snd d) in
  match x with
  | None => negb (inside s q)
  | Some l => inside s q && nodupn l && same_set l (occupants s q)
  end.

(* every encoding is a legal one (the encoding setter refuses -2, -1 and 0) *)
Definition encs_okb (s : gstate) : bool :=
  forallb (fun a => negb (a_enc a =? -2) && negb (a_enc a =? -1) && negb (a_enc a =? 0))
          (g_agents s).

(* ---- checker on decoded data ------------------------------------------------------------------ *)
Definition shape_ok {X} (m : list (list X)) (h w : Z) : bool :=
  (Z.of_nat (length m) =? h) && forallb (fun row => Z.of_nat (length row) =? w) m.

(* all (row index, column index, value) of an array satisfy f *)
Fixpoint all_row {X} (f : Z -> Z -> X -> bool) (r c : Z) (row : list X) : bool :=
  match row with [] => true | x :: row' => f r c x && all_row f r (c + 1) row' end.
Fixpoint all_rows {X} (f : Z -> Z -> X -> bool) (r : Z) (m : list (list X)) : bool :=
  match m with [] => true | row :: m' => all_row f r 0 row && all_rows f (r + 1) m' end.

Fixpoint all_layers (f : Z -> Z -> bool) (e : Z) (l : list Z) : bool :=
  match l with [] => true | v :: l' => f e v && all_layers f (e + 1) l' end.

Definition chk_centered (vis : vis_fn) (s : gstate) (i : nat) (R : Z) (observe_self : bool)
           (arr : list (list Z)) : bool :=
  match viewer_pos s i R with
  | Some p =>
      shape_ok arr (2 * R + 1) (2 * R + 1)
      && all_rows (fun r c v => cent_spec vis s i p R observe_self (r - R, c - R) v) 0 arr
  | None => false
  end.

Definition chk_stacked (vis : vis_fn) (s : gstate) (i : nat) (R : Z) (arr : list (list (list Z)))
  : bool :=
  match viewer_pos s i R with
  | Some p =>
      shape_ok arr (2 * R + 1) (2 * R + 1)
      && all_rows (fun r c l =>
                     (Z.of_nat (length l) =? Z.max 0 (number_of_encodings s))
                     && all_layers (fun e v => stk_spec vis s i p R (r - R, c - R) e v) 0 l) 0 arr
  | None => false
  end.

Definition chk_absolute (vis : vis_fn) (s : gstate) (i : nat) (R : Z) (arr : list (list Z)) : bool :=
  match viewer_pos s i R with
  | Some p =>
      shape_ok arr (g_rows s) (g_cols s)
      && all_rows (fun r c v => abs_spec vis s i p R (r, c) v) 0 arr
  | None => false
  end.

Definition chk_window (s : gstate) (i : nat) (R : Z) (w : list (list (option (list nat)))) : bool :=
  match viewer_pos s i R with
  | Some p =>
      shape_ok w (2 * R + 1) (2 * R + 1)
      && all_rows (fun r c x => win_spec s p (r - R, c - R) x) 0 w
  | None => false
  end.

Definition chk_position (s : gstate) (i : nat) (v : option cell) : bool :=
  match agent s i with Some a => optcell_eqb v (a_pos a) | None => false end.
Definition chk_ammo (s : gstate) (i : nat) (v : option Z) : bool :=
  match agent s i with Some a => optZ_eqb v (a_ammo a) | None => false end.

(* =============================================================================================
   Wire.
   input  (rows cols ov agents (kills request ...)),   kills = agent indices that die after the
          placement (health := 0 through the setter, removed from their cell, position kept)
   request (viewer kind range(-1 = FULL) (chosen encodings ...))
          kind 0 absolute, 1 centred observe_self, 2 centred not observe_self, 3 stacked,
               4 position, 5 ammo, 6 the local window of create_grid_and_mask
   output (snapshot (observation ...))
   ============================================================================================= *)
Record oreq := { q_viewer : nat; q_kind : Z; q_range : Z; q_oracle : list Z }.

Definition dec_oreq (x : sx) : option oreq :=
  match x with
  | L [A i; A k; A rg; o] =>
      match sxZs o with
      | Some o' => if i <? 0 then None
                   else Some {| q_viewer := Z.to_nat i; q_kind := k; q_range := rg; q_oracle := o' |}
      | None => None
      end
  | _ => None
  end.

Definition obs_state (s0 : gstate) (kills : list nat) : gstate := apply_hits s0 HD kills.

Definition dec_obs_input (x : sx) : option (gstate * gstate * list oreq) :=
  match dec_grid_input x with
  | Some (s0, xkills :: xreqs) =>
      match sxNats xkills, all_some (map dec_oreq xreqs) with
      | Some kills, Some reqs => Some (s0, obs_state s0 kills, reqs)
      | _, _ => None
      end
  | _ => None
  end.

Definition enc_wcell (x : option (list nat)) : sx :=
  match x with None => A (-1) | Some l => ofNats l end.
Definition dec_wcell (x : sx) : option (option (list nat)) :=
  match x with
  | A (-1) => Some None
  | A _ => None
  | L _ => option_map Some (sxNats x)
  end.

Definition enc_ores (r : ores (list (list Z))) : sx :=
  match r with
  | OOk arr [] => ofZZs arr
  | OOk _ _ => A (-998)                 (* recorded draws left over *)
  | OBad => A (-998)                    (* inadmissible or missing recorded draw *)
  | OErr => A (-996)
  end.

Definition run_oreq (vis : vis_fn) (s : gstate) (q : oreq) : sx :=
  let i := q_viewer q in
  let R := resolve_range s (q_range q) in
  match q_kind q with
  | 0 => enc_ores (obs_absolute vis s i R (q_oracle q))
  | 1 => enc_ores (obs_centered vis s i R true (q_oracle q))
  | 2 => enc_ores (obs_centered vis s i R false (q_oracle q))
  | 3 => match obs_stacked vis s i R with
         | Some arr => L (map ofZZs arr)
         | None => A (-996)
         end
  | 4 => enc_optcell (obs_position s i)
  | 5 => ofOptZ (obs_ammo s i)
  | 6 => match obs_window s i R with
         | Some w => L (map (fun row => L (map enc_wcell row)) w)
         | None => A (-996)
         end
  | _ => sx_err
  end.

Definition run_observe (x : sx) : sx :=
  match dec_obs_input x with
  | Some (_, s, reqs) => L [enc_snapshot s; L (map (run_oreq vis_model s) reqs)]
  | None => sx_err
  end.

Definition sxZZZs (x : sx) : option (list (list (list Z))) :=
  match x with L l => all_some (map sxZZs l) | A _ => None end.
Definition dec_win (x : sx) : option (list (list (option (list nat)))) :=
  match x with
  | L rows => all_some (map (fun r => match r with
                                      | L cs => all_some (map dec_wcell cs)
                                      | A _ => None end) rows)
  | A _ => None
  end.

(* clause numbers: 1 malformed record, 2 the recorded layout is not a consistent grid state
   (cell dictionaries vs positions, illegal encoding), 3 centred view, 4 stacked view,
   5 absolute view, 6 position, 7 ammunition, 8 local window *)
Definition chk_oreq (vis : vis_fn) (s : gstate) (q : oreq) (beh : sx) : Z :=
  let i := q_viewer q in
  let R := resolve_range s (q_range q) in
  match q_kind q with
  | 0 => match sxZZs beh with
         | Some arr => if chk_absolute vis s i R arr then 0 else 5
         | None => 1 end
  | 1 => match sxZZs beh with
         | Some arr => if chk_centered vis s i R true arr then 0 else 3
         | None => 1 end
  | 2 => match sxZZs beh with
         | Some arr => if chk_centered vis s i R false arr then 0 else 3
         | None => 1 end
  | 3 => match sxZZZs beh with
         | Some arr => if chk_stacked vis s i R arr then 0 else 4
         | None => 1 end
  | 4 => match dec_optcell beh with
         | Some v => if chk_position s i v then 0 else 6
         | None => 1 end
  | 5 => match sxOptZ beh with
         | Some v => if chk_ammo s i v then 0 else 7
         | None => 1 end
  | 6 => match dec_win beh with
         | Some w => if chk_window s i R w then 0 else 8
         | None => 1 end
  | _ => 1
  end.

Fixpoint chk_oreqs (vis : vis_fn) (s : gstate) (qs : list oreq) (behs : list sx) : Z :=
  match qs, behs with
  | [], [] => 0
  | q :: qs', b :: behs' =>
      let c := chk_oreq vis s q b in if c =? 0 then chk_oreqs vis s qs' behs' else c
  | _, _ => 1
  end.

(* The state the observations are judged against is the one the implementation recorded (its
   agents' positions, activity, ammunition); clause 2 demands that this record is a consistent
   grid state.  Only g_agents, g_rows, g_cols of it are used by the specification. *)
Definition run_chk_C09 (x : sx) : sx :=
  match x with
  | L [xin; L [snap; L behs]] =>
      match dec_obs_input xin with
      | Some (s0, _, reqs) =>
          match dec_snapshot s0 snap with
          | Some s =>
              if negb (cells_consistent s && encs_okb s) then A (-2)
              else let c := chk_oreqs vis_model s reqs behs in if c =? 0 then A 1 else A (- c)
          | None => A (-1)
          end
      | None => A (-1)
      end
  | _ => A (-1)
  end.

(* DISPATCH: 901 => run_observe *)
(* DISPATCH: 902 => run_chk_C09 *)
