(* C08, composition: the reset facts of the layers compose.
   1. Managers respect every congruence of the simulation below (run_rel: generalises
      Reset_proofs.run_congr from `eq` to any `sim_congr` relation), hence an episode after reset
      is the same from any two manager states whose simulations reset into related states.
   2. Every packaged wrapper lifts a congruence of the simulation below to a congruence of the
      wrapped simulation (super_congr, comm_congr, sar_congr), and its reset maps ANY two wrapper
      states whose inner states reset into related states to related wrapper states
      (super_reset_rel, comm_reset_rel, sar_reset_rel): flags and tables are cleared.
   3. Hence used-versus-fresh for manager-over-wrapper(s)-over-simulation, every depth obtained
      by applying the layer lemmas in sequence. *)
From Coq Require Import ZArith List Bool Arith Lia.
From Abm Require Import Base.Sx Spaces.Space Spaces.Flatten Ctl.Managers Ctl.ScriptSim Ctl.Super Ctl.Comms
     Ctl.Wrappers Ctl.Stack.
From Abm Require Import Proofs.Managers_proofs Proofs.Reset_proofs.
Import ListNotations.
Close Scope Z_scope.

(* ---------------------------------------------------------------------------------------- *)
(* 1. managers over a congruence                                                              *)

Section Rel.
  Context {St Obs Info Act : Type}.
  Variable Sim : simulation St Obs Info Act.
  Variable R : St -> St -> Prop.
  Hypothesis C : sim_congr Sim R.

  Lemma thread_rel {X} (g : St -> nat -> X * St) :
    (forall s1 s2 a, R s1 s2 -> fst (g s1 a) = fst (g s2 a) /\ R (snd (g s1 a)) (snd (g s2 a))) ->
    forall l s1 s2, R s1 s2 ->
      fst (thread g s1 l) = fst (thread g s2 l) /\ R (snd (thread g s1 l)) (snd (thread g s2 l)).
  Proof.
    intros Hg. induction l as [|a l IH]; intros s1 s2 H; cbn [thread]; [split; [reflexivity|exact H]|].
    destruct (Hg s1 s2 a H) as [E1 R1].
    destruct (g s1 a) as [x1 t1], (g s2 a) as [x2 t2]. cbn [fst snd] in *.
    destruct (IH t1 t2 R1) as [E2 R2].
    destruct (thread g t1 l) as [r1 u1], (thread g t2 l) as [r2 u2]. cbn [fst snd] in *.
    split; [congruence|exact R2].
  Qed.

  Lemma thread_obs_rel l s1 s2 : R s1 s2 ->
    fst (thread (sim_obs Sim) s1 l) = fst (thread (sim_obs Sim) s2 l) /\
    R (snd (thread (sim_obs Sim) s1 l)) (snd (thread (sim_obs Sim) s2 l)).
  Proof. apply thread_rel. intros; apply (cg_obs _ _ C); assumption. Qed.

  Lemma thread_rew_rel l s1 s2 : R s1 s2 ->
    fst (thread (sim_reward Sim) s1 l) = fst (thread (sim_reward Sim) s2 l) /\
    R (snd (thread (sim_reward Sim) s1 l)) (snd (thread (sim_reward Sim) s2 l)).
  Proof. apply thread_rel. intros; apply (cg_reward _ _ C); assumption. Qed.

  Lemma add_report_rel s1 s2 a o : R s1 s2 ->
    fst (add_report Sim s1 a o) = fst (add_report Sim s2 a o) /\
    R (snd (add_report Sim s1 a o)) (snd (add_report Sim s2 a o)).
  Proof.
    intros H. unfold add_report.
    destruct (cg_obs _ _ C s1 s2 a H) as [E1 R1].
    destruct (sim_obs Sim s1 a) as [ob1 t1], (sim_obs Sim s2 a) as [ob2 t2]. cbn [fst snd] in *.
    destruct (cg_reward _ _ C t1 t2 a R1) as [E2 R2].
    destruct (sim_reward Sim t1 a) as [r1 u1], (sim_reward Sim t2 a) as [r2 u2]. cbn [fst snd] in *.
    rewrite (cg_done _ _ C u1 u2 a R2), (cg_info _ _ C u1 u2 a R2). subst. split; [reflexivity|exact R2].
  Qed.

  Lemma flush_rel d l : forall s1 s2 o, R s1 s2 ->
    fst (flush Sim s1 d l o) = fst (flush Sim s2 d l o) /\
    R (snd (flush Sim s1 d l o)) (snd (flush Sim s2 d l o)).
  Proof.
    induction l as [|a l IH]; intros s1 s2 o H; cbn [flush]; [split; [reflexivity|exact H]|].
    destruct (memb a d); [apply IH, H|].
    destruct (add_report_rel s1 s2 a o H) as [E1 R1].
    destruct (add_report Sim s1 a o) as [o1 t1], (add_report Sim s2 a o) as [o2 t2].
    cbn [fst snd] in *. subst o2. apply IH, R1.
  Qed.

  Definition sres_rel (r1 r2 : @sres St Obs Info) : Prop :=
    match r1, r2 with
    | SOk o1 s1 d1 p1, SOk o2 s2 d2 p2 => o1 = o2 /\ R s1 s2 /\ d1 = d2 /\ p1 = p2
    | SFuel, SFuel => True
    | _, _ => False
    end.

  Lemma turn_search_rel fuel : forall s1 s2 d p o, R s1 s2 ->
    sres_rel (turn_search Sim fuel s1 d p o) (turn_search Sim fuel s2 d p o).
  Proof.
    induction fuel as [|fuel IH]; intros s1 s2 d p o H; cbn [turn_search]; [exact I|].
    destruct (memb _ d); [apply IH, H|].
    rewrite (cg_done _ _ C s1 s2 _ H).
    destruct (add_report_rel s1 s2 (nth p (order Sim) 0%nat) o H) as [E1 R1].
    destruct (add_report Sim s1 _ o) as [o1 t1], (add_report Sim s2 _ o) as [o2 t2].
    cbn [fst snd] in *. subst o2.
    destruct (sim_done Sim s2 _).
    - destruct (all_in Sim _); [cbn; auto|apply IH, R1].
    - cbn. auto.
  Qed.

  Lemma dyn_loop_rel l : forall s1 s2 d o, R s1 s2 ->
    fst (fst (dyn_loop Sim s1 d l o)) = fst (fst (dyn_loop Sim s2 d l o)) /\
    R (snd (fst (dyn_loop Sim s1 d l o))) (snd (fst (dyn_loop Sim s2 d l o))) /\
    snd (dyn_loop Sim s1 d l o) = snd (dyn_loop Sim s2 d l o).
  Proof.
    induction l as [|a l IH]; intros s1 s2 d o H; cbn [dyn_loop]; [cbn; auto|].
    destruct (memb a d); [apply IH, H|].
    rewrite (cg_done _ _ C s1 s2 a H).
    destruct (add_report_rel s1 s2 a o H) as [E1 R1].
    destruct (add_report Sim s1 a o) as [o1 t1], (add_report Sim s2 a o) as [o2 t2].
    cbn [fst snd] in *. subst o2.
    destruct (sim_done Sim s2 a).
    - destruct (all_in Sim _); [cbn; auto|apply IH, R1].
    - apply IH, R1.
  Qed.

  (* every call is a function of the mrel-class *)
  Lemma do_call_rel k m1 m2 c : mrel R k m1 m2 ->
    fst (do_call Sim k m1 c) = fst (do_call Sim k m2 c) /\
    mrel R k (snd (do_call Sim k m1 c)) (snd (do_call Sim k m2 c)).
  Proof.
    intros (E1 & E2 & E3). destruct m1 as [s1 d1 p1], m2 as [s2 d2 p2]. cbn [m_sim m_done m_ptr] in *.
    subst d2.
    assert (TS : forall ck acts,
      fst (turn_step_gen Sim ck {| m_sim := s1; m_done := d1; m_ptr := p1 |} acts) =
      fst (turn_step_gen Sim ck {| m_sim := s2; m_done := d1; m_ptr := p1 |} acts) /\
      R (m_sim (snd (turn_step_gen Sim ck {| m_sim := s1; m_done := d1; m_ptr := p1 |} acts)))
        (m_sim (snd (turn_step_gen Sim ck {| m_sim := s2; m_done := d1; m_ptr := p1 |} acts))) /\
      m_done (snd (turn_step_gen Sim ck {| m_sim := s1; m_done := d1; m_ptr := p1 |} acts)) =
      m_done (snd (turn_step_gen Sim ck {| m_sim := s2; m_done := d1; m_ptr := p1 |} acts)) /\
      m_ptr (snd (turn_step_gen Sim ck {| m_sim := s1; m_done := d1; m_ptr := p1 |} acts)) =
      m_ptr (snd (turn_step_gen Sim ck {| m_sim := s2; m_done := d1; m_ptr := p1 |} acts))).
    { intros ck acts. unfold turn_step_gen. destruct acts as [|[a0 x0] acts']; [cbn; auto|].
      cbn [m_sim m_done m_ptr].
      destruct (if ck then _ else _); [cbn; auto|].
      pose proof (cg_step _ _ C s1 s2 ((a0, x0) :: acts') E1) as RS.
      rewrite (cg_all _ _ C _ _ RS).
      destruct (sim_all Sim (sim_step Sim s2 _)).
      - destruct (flush_rel d1 (agents Sim) _ _ (empty_out true) RS) as [F1 F2].
        destruct (flush Sim (sim_step Sim s1 _) _ _ _) as [o1 t1],
                 (flush Sim (sim_step Sim s2 _) _ _ _) as [o2 t2].
        cbn [fst snd m_sim m_done m_ptr] in *. subst o2. auto.
      - pose proof (turn_search_rel (S (length (order Sim))) _ _ d1 p1 (empty_out false) RS) as T.
        destruct (turn_search Sim _ (sim_step Sim s1 _) _ _ _) as [o1 t1 e1 q1|],
                 (turn_search Sim _ (sim_step Sim s2 _) _ _ _) as [o2 t2 e2 q2|];
          cbn [sres_rel] in T; try contradiction.
        + destruct T as (-> & T2 & -> & ->). cbn. auto.
        + cbn. auto. }
    destruct k; cbn [do_call].
    - (* all-step *)
      destruct c as [|acts sh].
      + unfold all_reset. cbn [m_sim m_ptr].
        pose proof (cg_reset _ _ C s1 s2 E1) as RS.
        destruct (thread_obs_rel (filter (fun a => negb (memb a (nonlearning Sim))) (agents Sim)) _ _ RS)
          as [T1 T2].
        destruct (thread (sim_obs Sim) (sim_reset Sim s1) _) as [ob1 t1],
                 (thread (sim_obs Sim) (sim_reset Sim s2) _) as [ob2 t2].
        cbn [fst snd] in *. subst ob2. repeat split; auto.
      + unfold all_step. cbn [m_sim m_done m_ptr].
        destruct (existsb _ acts); [cbn; repeat split; auto|].
        pose proof (cg_step _ _ C s1 s2 sh E1) as RS.
        destruct (thread_obs_rel (filter (fun a => negb (memb a d1)) (agents Sim)) _ _ RS) as [T1 T2].
        destruct (thread (sim_obs Sim) (sim_step Sim s1 sh) _) as [ob1 t1],
                 (thread (sim_obs Sim) (sim_step Sim s2 sh) _) as [ob2 t2].
        cbn [fst snd] in *. subst ob2.
        destruct (thread_rew_rel (filter (fun a => negb (memb a d1)) (agents Sim)) _ _ T2) as [U1 U2].
        destruct (thread (sim_reward Sim) t1 _) as [rw1 u1], (thread (sim_reward Sim) t2 _) as [rw2 u2].
        cbn [fst snd] in *. subst rw2.
        assert (ED : map (fun a => (a, sim_done Sim u1 a)) (filter (fun a => negb (memb a d1)) (agents Sim)) =
                     map (fun a => (a, sim_done Sim u2 a)) (filter (fun a => negb (memb a d1)) (agents Sim))).
        { apply map_ext. intros a. rewrite (cg_done _ _ C u1 u2 a U2). reflexivity. }
        assert (EI : map (fun a => (a, sim_info Sim u1 a)) (filter (fun a => negb (memb a d1)) (agents Sim)) =
                     map (fun a => (a, sim_info Sim u2 a)) (filter (fun a => negb (memb a d1)) (agents Sim))).
        { apply map_ext. intros a. rewrite (cg_info _ _ C u1 u2 a U2). reflexivity. }
        rewrite ED, EI, (cg_all _ _ C u1 u2 U2). cbn. repeat split; auto.
    - (* turn-based *)
      subst p2. destruct c as [|acts sh].
      + unfold turn_reset. destruct (order Sim) as [|a0 r]; [cbn; repeat split; auto|].
        cbn [m_sim m_ptr].
        pose proof (cg_reset _ _ C s1 s2 E1) as RS.
        destruct (cg_obs _ _ C _ _ (nth 0 (a0 :: r) a0) RS) as [T1 T2].
        destruct (sim_obs Sim (sim_reset Sim s1) _) as [ob1 t1],
                 (sim_obs Sim (sim_reset Sim s2) _) as [ob2 t2].
        cbn [fst snd] in *. subst ob2. repeat split; auto.
      + unfold turn_step. destruct (TS true acts) as (T1 & T2 & T3 & T4).
        split; [exact T1|]. repeat split; assumption.
    - (* dynamic order *)
      destruct c as [|acts sh].
      + unfold dyn_reset. cbn [m_sim m_ptr].
        pose proof (cg_reset _ _ C s1 s2 E1) as RS.
        rewrite (cg_next _ _ C _ _ RS).
        destruct (thread_obs_rel (sim_next Sim (sim_reset Sim s2)) _ _ RS) as [T1 T2].
        destruct (thread (sim_obs Sim) (sim_reset Sim s1) _) as [ob1 t1],
                 (thread (sim_obs Sim) (sim_reset Sim s2) _) as [ob2 t2].
        cbn [fst snd] in *. subst ob2. repeat split; auto.
      + unfold dyn_step. cbn [m_sim m_done m_ptr].
        destruct (existsb _ acts); [cbn; repeat split; auto|].
        pose proof (cg_step _ _ C s1 s2 acts E1) as RS.
        rewrite (cg_all _ _ C _ _ RS), (cg_next _ _ C _ _ RS).
        destruct (sim_all Sim (sim_step Sim s2 acts)).
        * destruct (flush_rel d1 (agents Sim) _ _ (empty_out true) RS) as [F1 F2].
          destruct (flush Sim (sim_step Sim s1 acts) _ _ _) as [o1 t1],
                   (flush Sim (sim_step Sim s2 acts) _ _ _) as [o2 t2].
          cbn [fst snd] in *. subst o2. repeat split; auto.
        * destruct (dyn_loop_rel (sim_next Sim (sim_step Sim s2 acts)) _ _ d1 (empty_out false) RS)
            as (F1 & F2 & F3).
          destruct (dyn_loop Sim (sim_step Sim s1 acts) _ _ _) as [[o1 t1] e1],
                   (dyn_loop Sim (sim_step Sim s2 acts) _ _ _) as [[o2 t2] e2].
          cbn [fst snd] in *. subst o2 e2. repeat split; auto.
    - (* turn-based before the repair *)
      subst p2. destruct c as [|acts sh].
      + unfold turn_reset_prefix. destruct (order Sim) as [|a0 r]; [cbn; repeat split; auto|].
        cbn [m_sim m_ptr].
        pose proof (cg_reset _ _ C s1 s2 E1) as RS.
        destruct (cg_obs _ _ C _ _ (nth p1 (a0 :: r) a0) RS) as [T1 T2].
        destruct (sim_obs Sim (sim_reset Sim s1) _) as [ob1 t1],
                 (sim_obs Sim (sim_reset Sim s2) _) as [ob2 t2].
        cbn [fst snd] in *. subst ob2. repeat split; auto.
      + unfold turn_step_prefix. destruct (TS false acts) as (T1 & T2 & T3 & T4).
        split; [exact T1|]. repeat split; assumption.
  Qed.

  Theorem run_rel k cs : forall m1 m2, mrel R k m1 m2 ->
    fst (run Sim k m1 cs) = fst (run Sim k m2 cs) /\
    mrel R k (snd (run Sim k m1 cs)) (snd (run Sim k m2 cs)).
  Proof.
    induction cs as [|c r IH]; intros m1 m2 E; cbn [run]; [split; [reflexivity|exact E]|].
    destruct (do_call_rel k m1 m2 c E) as [Er Em].
    destruct (do_call Sim k m1 c) as [r1 n1], (do_call Sim k m2 c) as [r2 n2]. cbn [fst snd] in *.
    destruct (IH n1 n2 Em) as [I1 I2].
    destruct (run Sim k n1 r) as [rs1 f1], (run Sim k n2 r) as [rs2 f2]. cbn [fst snd] in *.
    split; [congruence|exact I2].
  Qed.

  (* reset forgets done_agents and the turn pointer; what is left is the simulation's reset *)
  Theorem reset_rel k m1 m2 : mgr_ok Sim k ->
    R (sim_reset Sim (m_sim m1)) (sim_reset Sim (m_sim m2)) ->
    fst (do_call Sim k m1 CReset) = fst (do_call Sim k m2 CReset) /\
    mrel R k (snd (do_call Sim k m1 CReset)) (snd (do_call Sim k m2 CReset)).
  Proof.
    intros [Nk Ho] RS. destruct k; cbn [do_call]; try congruence.
    - unfold all_reset.
      destruct (thread_obs_rel (filter (fun a => negb (memb a (nonlearning Sim))) (agents Sim)) _ _ RS)
        as [T1 T2].
      destruct (thread (sim_obs Sim) (sim_reset Sim (m_sim m1)) _) as [ob1 t1],
               (thread (sim_obs Sim) (sim_reset Sim (m_sim m2)) _) as [ob2 t2].
      cbn [fst snd] in *. subst ob2. repeat split; auto.
    - unfold turn_reset. destruct (order Sim) as [|a0 r] eqn:Eo; [destruct (Ho eq_refl eq_refl)|].
      destruct (cg_obs _ _ C _ _ (nth 0 (a0 :: r) a0) RS) as [T1 T2].
      destruct (sim_obs Sim (sim_reset Sim (m_sim m1)) _) as [ob1 t1],
               (sim_obs Sim (sim_reset Sim (m_sim m2)) _) as [ob2 t2].
      cbn [fst snd] in *. subst ob2. repeat split; auto.
    - unfold dyn_reset. rewrite (cg_next _ _ C _ _ RS).
      destruct (thread_obs_rel (sim_next Sim (sim_reset Sim (m_sim m2))) _ _ RS) as [T1 T2].
      destruct (thread (sim_obs Sim) (sim_reset Sim (m_sim m1)) _) as [ob1 t1],
               (thread (sim_obs Sim) (sim_reset Sim (m_sim m2)) _) as [ob2 t2].
      cbn [fst snd] in *. subst ob2. repeat split; auto.
  Qed.

  Theorem episode_rel k m1 m2 cs : mgr_ok Sim k ->
    R (sim_reset Sim (m_sim m1)) (sim_reset Sim (m_sim m2)) ->
    fst (run Sim k m1 (CReset :: cs)) = fst (run Sim k m2 (CReset :: cs)).
  Proof.
    intros Ok RS. cbn [run]. destruct (reset_rel k m1 m2 Ok RS) as [Er Em].
    destruct (do_call Sim k m1 CReset) as [r1 n1], (do_call Sim k m2 CReset) as [r2 n2].
    cbn [fst snd] in *. destruct (run_rel k cs n1 n2 Em) as [H _].
    destruct (run Sim k n1 cs) as [rs1 f1], (run Sim k n2 cs) as [rs2 f2]. cbn [fst] in *. congruence.
  Qed.

  Corollary used_vs_fresh_rel k s0 h cs : mgr_ok Sim k ->
    R (sim_reset Sim (m_sim (snd (run Sim k (init s0) h)))) (sim_reset Sim s0) ->
    fst (run Sim k (snd (run Sim k (init s0) h)) (CReset :: cs)) =
    fst (run Sim k (init s0) (CReset :: cs)).
  Proof. intros Ok RS. apply episode_rel; assumption. Qed.

  Corollary used_vs_fresh_forgets k s0 h cs : mgr_ok Sim k -> reset_forgets Sim R ->
    fst (run Sim k (snd (run Sim k (init s0) h)) (CReset :: cs)) =
    fst (run Sim k (init s0) (CReset :: cs)).
  Proof. intros Ok F. apply used_vs_fresh_rel; [exact Ok|apply F]. Qed.
End Rel.

(* equality is a congruence of every simulation *)
Lemma congr_eq {St Obs Info Act} (Sim : simulation St Obs Info Act) : sim_congr Sim eq.
Proof. constructor; intros; subst; auto. Qed.

(* ---------------------------------------------------------------------------------------- *)
(* 2a. SuperAgentWrapper layer                                                                *)

Lemma forallb_ext' {T} (f g : T -> bool) l : (forall x, f x = g x) -> forallb f l = forallb g l.
Proof. intros H. induction l as [|x l IH]; cbn; [reflexivity|]. rewrite H, IH. reflexivity. Qed.

Section SuperL.
  Context {St Obs Info Act : Type}.
  Variable Sim : simulation St Obs Info Act.
  Variable mapping : list (list nat).
  Variable null_obs : nat -> option Obs.
  Variable R : St -> St -> Prop.
  Hypothesis C : sim_congr Sim R.
  Notation W := (super_sim Sim mapping null_obs).
  Notation SR := (super_rel R).

  Lemma with_sim_rel (w1 w2 : wst St Act) s1 s2 e1 e2 :
    SR w1 w2 -> R s1 s2 -> SR (with_sim w1 s1 e1) (with_sim w2 s2 e2).
  Proof. intros (_ & H2 & H3) H. repeat split; assumption. Qed.

  Lemma cov_obs_rel (w1 w2 : wst St Act) c : SR w1 w2 ->
    fst (cov_obs Sim null_obs w1 c) = fst (cov_obs Sim null_obs w2 c) /\
    SR (snd (cov_obs Sim null_obs w1 c)) (snd (cov_obs Sim null_obs w2 c)).
  Proof.
    intros H. pose proof H as (H1 & H2 & H3). unfold cov_obs.
    rewrite (cg_done _ _ C _ _ c H1), H2.
    destruct (cg_obs _ _ C _ _ c H1) as [E1 R1].
    destruct (sim_obs Sim (w_sim w1) c) as [o1 t1], (sim_obs Sim (w_sim w2) c) as [o2 t2].
    cbn [fst snd] in *. subst o2.
    destruct (sim_done Sim (w_sim w2) c); [destruct (memb c (w_orep w2)); [destruct (null_obs c)|]|];
      cbn [fst snd]; (split; [reflexivity|]); try (apply with_sim_rel; assumption); try exact H.
    repeat split; cbn; congruence.
  Qed.

  Lemma cov_rew_rel (w1 w2 : wst St Act) c : SR w1 w2 ->
    fst (cov_rew Sim w1 c) = fst (cov_rew Sim w2 c) /\
    SR (snd (cov_rew Sim w1 c)) (snd (cov_rew Sim w2 c)).
  Proof.
    intros H. pose proof H as (H1 & H2 & H3). unfold cov_rew.
    rewrite (cg_done _ _ C _ _ c H1), H3.
    destruct (cg_reward _ _ C _ _ c H1) as [E1 R1].
    destruct (sim_reward Sim (w_sim w1) c) as [o1 t1], (sim_reward Sim (w_sim w2) c) as [o2 t2].
    cbn [fst snd] in *. subst o2.
    destruct (sim_done Sim (w_sim w2) c); [destruct (memb c (w_rrep w2))|];
      cbn [fst snd]; (split; [reflexivity|]); try (apply with_sim_rel; assumption); try exact H.
    repeat split; cbn; congruence.
  Qed.

  Lemma w_obs_rel (w1 w2 : wst St Act) i : SR w1 w2 ->
    fst (w_obs Sim mapping null_obs w1 i) = fst (w_obs Sim mapping null_obs w2 i) /\
    SR (snd (w_obs Sim mapping null_obs w1 i)) (snd (w_obs Sim mapping null_obs w2 i)).
  Proof.
    intros H. pose proof H as (H1 & H2 & H3). destruct i as [j|a]; cbn [w_obs].
    - destruct (nth_error mapping j) as [cv|]; [|split; [reflexivity|exact H]].
      destruct (thread_rel SR (cov_obs Sim null_obs) (fun x y c => cov_obs_rel x y c) cv w1 w2 H)
        as [T1 T2].
      destruct (thread (cov_obs Sim null_obs) w1 cv) as [r1 u1],
               (thread (cov_obs Sim null_obs) w2 cv) as [r2 u2].
      cbn [fst snd] in *. subst r2. split; [reflexivity|exact T2].
    - destruct (covered mapping a); [split; [reflexivity|exact H]|].
      destruct (cg_obs _ _ C _ _ a H1) as [E1 R1].
      destruct (sim_obs Sim (w_sim w1) a) as [o1 t1], (sim_obs Sim (w_sim w2) a) as [o2 t2].
      cbn [fst snd] in *. subst o2. split; [reflexivity|apply with_sim_rel; assumption].
  Qed.

  Lemma w_rew_rel (w1 w2 : wst St Act) i : SR w1 w2 ->
    fst (w_rew Sim mapping w1 i) = fst (w_rew Sim mapping w2 i) /\
    SR (snd (w_rew Sim mapping w1 i)) (snd (w_rew Sim mapping w2 i)).
  Proof.
    intros H. pose proof H as (H1 & H2 & H3). destruct i as [j|a]; cbn [w_rew].
    - destruct (nth_error mapping j) as [cv|]; [|split; [reflexivity|exact H]].
      destruct (thread_rel SR (cov_rew Sim) (fun x y c => cov_rew_rel x y c) cv w1 w2 H) as [T1 T2].
      destruct (thread (cov_rew Sim) w1 cv) as [r1 u1], (thread (cov_rew Sim) w2 cv) as [r2 u2].
      cbn [fst snd] in *. subst r2. split; [reflexivity|exact T2].
    - destruct (covered mapping a); [split; [reflexivity|exact H]|].
      destruct (cg_reward _ _ C _ _ a H1) as [E1 R1].
      destruct (sim_reward Sim (w_sim w1) a) as [o1 t1], (sim_reward Sim (w_sim w2) a) as [o2 t2].
      cbn [fst snd] in *. subst o2. split; [reflexivity|apply with_sim_rel; assumption].
  Qed.

  Lemma put_live_rel s1 s2 (acts : list (nat * Act)) : R s1 s2 -> forall acc,
    fold_left (put_live Sim s1) acts acc = fold_left (put_live Sim s2) acts acc.
  Proof.
    intros H. induction acts as [|kv acts IH]; intros acc; cbn [fold_left]; [reflexivity|].
    unfold put_live at 2 4. rewrite (cg_done _ _ C _ _ (fst kv) H). apply IH.
  Qed.

  Lemma unravel_rel s1 s2 es : R s1 s2 -> forall acc,
    unravel Sim mapping s1 es acc = unravel Sim mapping s2 es acc.
  Proof.
    intros H. induction es as [|e es IH]; intros acc; cbn [unravel]; [reflexivity|].
    destruct e as [j acts|a x].
    - destruct (nth_error mapping j); [|reflexivity]. rewrite (put_live_rel s1 s2 acts H). apply IH.
    - destruct (covered mapping a); [reflexivity|apply IH].
  Qed.

  Lemma w_step_rel (w1 w2 : wst St Act) es : SR w1 w2 ->
    fst (w_step Sim mapping w1 es) = fst (w_step Sim mapping w2 es) /\
    SR (snd (w_step Sim mapping w1 es)) (snd (w_step Sim mapping w2 es)).
  Proof.
    intros H. pose proof H as (H1 & H2 & H3). unfold w_step.
    rewrite (unravel_rel _ _ es H1 []).
    destruct (unravel Sim mapping (w_sim w2) es []) as [acts| |]; cbn [fst snd];
      (split; [reflexivity|]); try exact H.
    apply with_sim_rel; [exact H|apply (cg_step _ _ C), H1].
  Qed.

  Lemma w_done_rel (w1 w2 : wst St Act) i : SR w1 w2 ->
    w_done Sim mapping w1 i = w_done Sim mapping w2 i.
  Proof.
    intros (H1 & _ & _). destruct i as [j|a]; cbn [w_done].
    - destruct (nth_error mapping j) as [cv|]; [|reflexivity]. f_equal. apply forallb_ext'.
      intros c. apply (cg_done _ _ C), H1.
    - rewrite (cg_done _ _ C _ _ a H1). reflexivity.
  Qed.

  Lemma w_info_rel (w1 w2 : wst St Act) i : SR w1 w2 ->
    w_info Sim mapping w1 i = w_info Sim mapping w2 i.
  Proof.
    intros (H1 & _ & _). destruct i as [j|a]; cbn [w_info].
    - destruct (nth_error mapping j) as [cv|]; [|reflexivity]. f_equal. apply map_ext.
      intros c. rewrite (cg_info _ _ C _ _ c H1). reflexivity.
    - rewrite (cg_info _ _ C _ _ a H1). reflexivity.
  Qed.

  (* the flags are cleared whatever they were: only the inner reset is left *)
  Theorem super_reset_rel (w1 w2 : wst St Act) :
    R (sim_reset Sim (w_sim w1)) (sim_reset Sim (w_sim w2)) ->
    SR (sim_reset W w1) (sim_reset W w2).
  Proof. intros H. repeat split. exact H. Qed.

  Theorem super_congr : sim_congr W SR.
  Proof.
    constructor; cbn [super_sim sim_reset sim_step sim_obs sim_reward sim_done sim_all sim_info sim_next].
    - intros w1 w2 (H1 & _ & _). apply super_reset_rel, (cg_reset _ _ C), H1.
    - intros w1 w2 acts H. unfold sup_step. destruct (all_some _) as [es|]; [|exact H].
      apply w_step_rel, H.
    - intros w1 w2 i H. apply w_obs_rel, H.
    - intros w1 w2 i H. unfold sup_reward. destruct (w_rew_rel w1 w2 (wid_of Sim mapping i) H) as [E1 R1].
      destruct (w_rew Sim mapping w1 _) as [r1 u1], (w_rew Sim mapping w2 _) as [r2 u2].
      cbn [fst snd] in *. subst r2. split; [reflexivity|exact R1].
    - intros w1 w2 i H. unfold sup_done. rewrite (w_done_rel w1 w2 _ H). reflexivity.
    - intros w1 w2 (H1 & _ & _). apply (cg_all _ _ C), H1.
    - intros w1 w2 i H. apply w_info_rel, H.
    - reflexivity.
  Qed.

  Theorem super_forgets : reset_forgets Sim R -> reset_forgets W SR.
  Proof. intros F w1 w2. apply super_reset_rel, F. Qed.
End SuperL.

(* ---------------------------------------------------------------------------------------- *)
(* 2b. CommunicationHandshakeWrapper layer                                                    *)

Section CommL.
  Context {St Obs Info Act : Type}.
  Variable Sim : simulation St Obs Info Act.
  Variable s_fobs : St -> nat -> Comms.row -> Obs * St.
  Variable R : St -> St -> Prop.
  Hypothesis C : sim_congr Sim R.
  Hypothesis F : fobs_congr s_fobs R.
  Notation W := (comm_sim Sim s_fobs).
  Notation CR := (comm_rel R).

  Lemma c_step_rel (c1 c2 : cst St Act) acts : CR c1 c2 ->
    fst (c_step Sim c1 acts) = fst (c_step (Obs:=Obs) (Info:=Info) Sim c2 acts) /\
    CR (snd (c_step Sim c1 acts)) (snd (c_step Sim c2 acts)).
  Proof.
    intros (H1 & H2 & H3). unfold c_step. rewrite H2, H3.
    destruct (recv_phase (c_buf c2) (c_rcv c2) acts) as [rcv1 ok1].
    destruct (negb ok1); [cbn; repeat split; assumption|].
    destruct (send_phase _ acts) as [buf1 ok2]. cbn [fst snd].
    split; [reflexivity|]. repeat split; cbn. apply (cg_step _ _ C), H1.
  Qed.

  Lemma c_obs_rel (c1 c2 : cst St Act) a : CR c1 c2 ->
    fst (c_obs s_fobs c1 a) = fst (c_obs (Info:=Info) s_fobs c2 a) /\
    CR (snd (c_obs (Info:=Info) s_fobs c1 a)) (snd (c_obs (Info:=Info) s_fobs c2 a)).
  Proof.
    intros H. pose proof H as (H1 & H2 & H3). unfold c_obs. rewrite H2, H3.
    destruct (alookup (c_rcv c2) a) as [fm|]; [|split; [reflexivity|exact H]].
    destruct (F _ _ a fm H1) as [E1 R1].
    destruct (s_fobs (c_sim c1) a fm) as [o1 t1], (s_fobs (c_sim c2) a fm) as [o2 t2].
    cbn [fst snd] in *. subst o2.
    destruct (alookup (c_buf c2) a); cbn [fst snd]; (split; [reflexivity|]); repeat split; assumption.
  Qed.

  Lemma c_rew_rel (c1 c2 : cst St Act) a : CR c1 c2 ->
    fst (c_rew Sim c1 a) = fst (c_rew (Obs:=Obs) (Info:=Info) Sim c2 a) /\
    CR (snd (c_rew (Obs:=Obs) (Info:=Info) Sim c1 a)) (snd (c_rew (Obs:=Obs) (Info:=Info) Sim c2 a)).
  Proof.
    intros (H1 & H2 & H3). unfold c_rew.
    destruct (cg_reward _ _ C _ _ a H1) as [E1 R1].
    destruct (sim_reward Sim (c_sim c1) a) as [o1 t1], (sim_reward Sim (c_sim c2) a) as [o2 t2].
    cbn [fst snd] in *. subst o2. split; [reflexivity|]. repeat split; assumption.
  Qed.

  (* both tables are rebuilt from the agent list whatever they held *)
  Theorem comm_reset_rel (c1 c2 : cst St Act) :
    R (sim_reset Sim (c_sim c1)) (sim_reset Sim (c_sim c2)) ->
    CR (sim_reset W c1) (sim_reset W c2).
  Proof. intros H. repeat split. exact H. Qed.

  Theorem comm_congr : sim_congr W CR.
  Proof.
    constructor; cbn [comm_sim sim_reset sim_step sim_obs sim_reward sim_done sim_all sim_info sim_next].
    - intros c1 c2 (H1 & _ & _). apply comm_reset_rel, (cg_reset _ _ C), H1.
    - intros c1 c2 acts H. apply c_step_rel, H.
    - intros c1 c2 a H. apply c_obs_rel, H.
    - intros c1 c2 a H. unfold com_reward. destruct (c_rew_rel c1 c2 a H) as [E1 R1].
      destruct (c_rew Sim c1 a) as [r1 u1], (c_rew Sim c2 a) as [r2 u2].
      cbn [fst snd] in *. subst r2. split; [reflexivity|exact R1].
    - intros c1 c2 a (H1 & _ & _). apply (cg_done _ _ C), H1.
    - intros c1 c2 (H1 & _ & _). apply (cg_all _ _ C), H1.
    - intros c1 c2 a (H1 & _ & _). apply (cg_info _ _ C), H1.
    - reflexivity.
  Qed.

  Theorem comm_forgets : reset_forgets Sim R -> reset_forgets W CR.
  Proof. intros Fg c1 c2. apply comm_reset_rel, Fg. Qed.
End CommL.

(* every fused getter respects equality *)
Lemma fobs_congr_eq {St Obs} (s_fobs : St -> nat -> Comms.row -> Obs * St) : fobs_congr s_fobs eq.
Proof. intros s1 s2 a fm ->. split; reflexivity. Qed.

(* ---------------------------------------------------------------------------------------- *)
(* 2c. SARWrapper stacks: same state, same reset, converted step arguments and observations    *)

Section SarL.
  Context {St Info : Type}.
  Notation sim := (simulation St upoint Info upoint).
  Variable R : St -> St -> Prop.

  Lemma sar_wrap_congr dec enc (S : sim) : sim_congr S R -> sim_congr (sar_wrap dec enc S) R.
  Proof.
    intros C. constructor; cbn [sar_wrap sim_reset sim_step sim_obs sim_reward sim_done sim_all sim_info sim_next].
    - apply (cg_reset _ _ C).
    - intros s1 s2 acts H. apply (cg_step _ _ C), H.
    - intros s1 s2 a H. destruct (cg_obs _ _ C s1 s2 a H) as [E1 R1].
      destruct (sim_obs S s1 a) as [o1 t1], (sim_obs S s2 a) as [o2 t2]. cbn [fst snd] in *.
      subst o2. split; [reflexivity|exact R1].
    - apply (cg_reward _ _ C).
    - apply (cg_done _ _ C).
    - apply (cg_all _ _ C).
    - apply (cg_info _ _ C).
    - apply (cg_next _ _ C).
  Qed.

  (* any list of stacked SAR layers *)
  Theorem sar_congr ks sp (S : sim) : sim_congr S R -> sim_congr (sar_sim ks sp S) R.
  Proof.
    intros C. unfold sar_sim. induction ks as [|k ks IH]; cbn [wrap_stack]; [exact C|].
    apply sar_wrap_congr, IH.
  Qed.

  Lemma sar_reset_eq ks sp (S : sim) : sim_reset (sar_sim ks sp S) = sim_reset S.
  Proof. unfold sar_sim. induction ks as [|k ks IH]; cbn [wrap_stack sar_wrap sim_reset]; auto. Qed.

  Theorem sar_reset_rel ks sp (S : sim) s1 s2 :
    R (sim_reset S s1) (sim_reset S s2) -> R (sim_reset (sar_sim ks sp S) s1) (sim_reset (sar_sim ks sp S) s2).
  Proof. rewrite sar_reset_eq. auto. Qed.

  Theorem sar_forgets ks sp (S : sim) : reset_forgets S R -> reset_forgets (sar_sim ks sp S) R.
  Proof. intros Fg s1 s2. apply sar_reset_rel, Fg. Qed.
End SarL.

(* ---------------------------------------------------------------------------------------- *)
(* 3. used versus fresh for stacks                                                            *)

Section Stacks.
  Context {St Obs Info Act : Type}.
  Variable Sim : simulation St Obs Info Act.
  Variable R : St -> St -> Prop.
  Hypothesis C : sim_congr Sim R.

  Theorem stack_super mapping null_obs k (w0 : wst St Act) h cs :
    mgr_ok (super_sim Sim mapping null_obs) k ->
    R (sim_reset Sim (w_sim (m_sim (snd (run (super_sim Sim mapping null_obs) k (init w0) h)))))
      (sim_reset Sim (w_sim w0)) ->
    fst (run (super_sim Sim mapping null_obs) k
             (snd (run (super_sim Sim mapping null_obs) k (init w0) h)) (CReset :: cs)) =
    fst (run (super_sim Sim mapping null_obs) k (init w0) (CReset :: cs)).
  Proof.
    intros Ok H.
    apply (used_vs_fresh_rel _ (super_rel R) (super_congr Sim mapping null_obs R C) k w0 h cs Ok).
    apply super_reset_rel, H.
  Qed.

  Theorem stack_comm s_fobs k (c0 : cst St Act) h cs :
    fobs_congr s_fobs R ->
    mgr_ok (comm_sim Sim s_fobs) k ->
    R (sim_reset Sim (c_sim (m_sim (snd (run (comm_sim Sim s_fobs) k (init c0) h)))))
      (sim_reset Sim (c_sim c0)) ->
    fst (run (comm_sim Sim s_fobs) k (snd (run (comm_sim Sim s_fobs) k (init c0) h)) (CReset :: cs)) =
    fst (run (comm_sim Sim s_fobs) k (init c0) (CReset :: cs)).
  Proof.
    intros F Ok H.
    apply (used_vs_fresh_rel _ (comm_rel R) (comm_congr Sim s_fobs R C F) k c0 h cs Ok).
    apply comm_reset_rel, H.
  Qed.
End Stacks.

Section SarStacks.
  Context {St Info : Type}.
  Variable S : simulation St upoint Info upoint.
  Variable R : St -> St -> Prop.
  Hypothesis C : sim_congr S R.

  Theorem stack_sar ks sp k (s0 : St) h cs :
    mgr_ok (sar_sim ks sp S) k ->
    R (sim_reset S (m_sim (snd (run (sar_sim ks sp S) k (init s0) h)))) (sim_reset S s0) ->
    fst (run (sar_sim ks sp S) k (snd (run (sar_sim ks sp S) k (init s0) h)) (CReset :: cs)) =
    fst (run (sar_sim ks sp S) k (init s0) (CReset :: cs)).
  Proof.
    intros Ok H. apply (used_vs_fresh_rel _ R (sar_congr R ks sp S C) k s0 h cs Ok).
    apply sar_reset_rel, H.
  Qed.

  (* depth 3: manager over SuperAgentWrapper over CommunicationHandshakeWrapper over any stack of
     Ravel/Flatten wrappers over S; the only hypothesis about reset is on the innermost S *)
  Theorem stack_super_comm_sar ks sp s_fobs mapping null_obs k
          (w0 : wst (cst St upoint) (cact upoint)) h cs :
    fobs_congr s_fobs R ->
    mgr_ok (super_sim (comm_sim (sar_sim ks sp S) s_fobs) mapping null_obs) k ->
    R (sim_reset S (c_sim (w_sim (m_sim (snd (run
         (super_sim (comm_sim (sar_sim ks sp S) s_fobs) mapping null_obs) k (init w0) h))))))
      (sim_reset S (c_sim (w_sim w0))) ->
    fst (run (super_sim (comm_sim (sar_sim ks sp S) s_fobs) mapping null_obs) k
             (snd (run (super_sim (comm_sim (sar_sim ks sp S) s_fobs) mapping null_obs) k (init w0) h))
             (CReset :: cs)) =
    fst (run (super_sim (comm_sim (sar_sim ks sp S) s_fobs) mapping null_obs) k (init w0) (CReset :: cs)).
  Proof.
    intros F Ok H.
    pose proof (sar_congr R ks sp S C) as C1.
    pose proof (comm_congr (sar_sim ks sp S) s_fobs R C1 F) as C2.
    apply (stack_super (comm_sim (sar_sim ks sp S) s_fobs) (comm_rel R) C2 mapping null_obs k w0 h cs Ok).
    apply comm_reset_rel, sar_reset_rel, H.
  Qed.

  (* the same with a forgetful innermost reset: no hypothesis about reached states is left *)
  Theorem stack_super_comm_sar_forgets ks sp s_fobs mapping null_obs k
          (w0 : wst (cst St upoint) (cact upoint)) h cs :
    fobs_congr s_fobs R -> reset_forgets S R ->
    mgr_ok (super_sim (comm_sim (sar_sim ks sp S) s_fobs) mapping null_obs) k ->
    fst (run (super_sim (comm_sim (sar_sim ks sp S) s_fobs) mapping null_obs) k
             (snd (run (super_sim (comm_sim (sar_sim ks sp S) s_fobs) mapping null_obs) k (init w0) h))
             (CReset :: cs)) =
    fst (run (super_sim (comm_sim (sar_sim ks sp S) s_fobs) mapping null_obs) k (init w0) (CReset :: cs)).
  Proof. intros F Fg Ok. apply stack_super_comm_sar; [exact F|exact Ok|apply Fg]. Qed.
End SarStacks.

(* the Leibniz instances: R = eq *)
Theorem stack_super_eq {St Obs Info Act} (Sim : simulation St Obs Info Act) mapping null_obs k
        (w0 : wst St Act) h cs :
  mgr_ok (super_sim Sim mapping null_obs) k ->
  sim_reset Sim (w_sim (m_sim (snd (run (super_sim Sim mapping null_obs) k (init w0) h)))) =
  sim_reset Sim (w_sim w0) ->
  fst (run (super_sim Sim mapping null_obs) k
           (snd (run (super_sim Sim mapping null_obs) k (init w0) h)) (CReset :: cs)) =
  fst (run (super_sim Sim mapping null_obs) k (init w0) (CReset :: cs)).
Proof. apply (stack_super Sim eq (congr_eq Sim)). Qed.

Theorem stack_comm_eq {St Obs Info Act} (Sim : simulation St Obs Info Act) s_fobs k
        (c0 : cst St Act) h cs :
  mgr_ok (comm_sim Sim s_fobs) k ->
  sim_reset Sim (c_sim (m_sim (snd (run (comm_sim Sim s_fobs) k (init c0) h)))) =
  sim_reset Sim (c_sim c0) ->
  fst (run (comm_sim Sim s_fobs) k (snd (run (comm_sim Sim s_fobs) k (init c0) h)) (CReset :: cs)) =
  fst (run (comm_sim Sim s_fobs) k (init c0) (CReset :: cs)).
Proof. apply (stack_comm Sim eq (congr_eq Sim)), fobs_congr_eq. Qed.

Theorem stack_sar_eq {St Info} (S : simulation St upoint Info upoint) ks sp k (s0 : St) h cs :
  mgr_ok (sar_sim ks sp S) k ->
  sim_reset S (m_sim (snd (run (sar_sim ks sp S) k (init s0) h))) = sim_reset S s0 ->
  fst (run (sar_sim ks sp S) k (snd (run (sar_sim ks sp S) k (init s0) h)) (CReset :: cs)) =
  fst (run (sar_sim ks sp S) k (init s0) (CReset :: cs)).
Proof. apply (stack_sar S eq (congr_eq S)). Qed.

(* ---------------------------------------------------------------------------------------- *)
(* 4. purity of get_done transfers: C01/C07's manager theorems apply to wrapped simulations    *)

Section StableSuper.
  Context {St Obs Info Act : Type}.
  Variable Sim : simulation St Obs Info Act.
  Variable mapping : list (list nat).
  Variable null_obs : nat -> option Obs.
  Notation W := (super_sim Sim mapping null_obs).

  Lemma cov_obs_greach (w : wst St Act) c :
    greach Sim (w_sim w) (w_sim (snd (cov_obs Sim null_obs w c))).
  Proof.
    unfold cov_obs.
    pose proof (gr_obs Sim (w_sim w) _ c (gr_refl Sim _)) as G.
    destruct (sim_obs Sim (w_sim w) c) as [o s1]. cbn [snd] in G.
    destruct (sim_done Sim (w_sim w) c); [destruct (memb c (w_orep w)); [destruct (null_obs c)|]|];
      cbn; try exact G. constructor.
  Qed.

  Lemma cov_rew_greach (w : wst St Act) c :
    greach Sim (w_sim w) (w_sim (snd (cov_rew Sim w c))).
  Proof.
    unfold cov_rew.
    pose proof (gr_rew Sim (w_sim w) _ c (gr_refl Sim _)) as G.
    destruct (sim_reward Sim (w_sim w) c) as [o s1]. cbn [snd] in G.
    destruct (sim_done Sim (w_sim w) c); [destruct (memb c (w_rrep w))|]; cbn; try exact G. constructor.
  Qed.

  Lemma thread_inner_greach {X} (g : wst St Act -> nat -> X * wst St Act) :
    (forall w c, greach Sim (w_sim w) (w_sim (snd (g w c)))) ->
    forall l w, greach Sim (w_sim w) (w_sim (snd (thread g w l))).
  Proof.
    intros Hg. induction l as [|c l IH]; intros w; cbn [thread]; [constructor|].
    pose proof (Hg w c) as G1. destruct (g w c) as [x w1]. cbn [snd] in G1.
    pose proof (IH w1) as G2. destruct (thread g w1 l) as [r w2]. cbn [snd] in *.
    eapply greach_trans; eassumption.
  Qed.

  Lemma w_obs_greach (w : wst St Act) i :
    greach Sim (w_sim w) (w_sim (snd (w_obs Sim mapping null_obs w i))).
  Proof.
    destruct i as [j|a]; cbn [w_obs].
    - destruct (nth_error mapping j) as [cv|]; [|constructor].
      pose proof (thread_inner_greach (cov_obs Sim null_obs) cov_obs_greach cv w) as G.
      destruct (thread (cov_obs Sim null_obs) w cv) as [r w1]. exact G.
    - destruct (covered mapping a); [constructor|].
      pose proof (gr_obs Sim (w_sim w) _ a (gr_refl Sim _)) as G.
      destruct (sim_obs Sim (w_sim w) a) as [o s1]. exact G.
  Qed.

  Lemma w_rew_greach (w : wst St Act) i :
    greach Sim (w_sim w) (w_sim (snd (w_rew (Obs:=Obs) (Info:=Info) Sim mapping w i))).
  Proof.
    destruct i as [j|a]; cbn [w_rew].
    - destruct (nth_error mapping j) as [cv|]; [|constructor].
      pose proof (thread_inner_greach (cov_rew Sim) cov_rew_greach cv w) as G.
      destruct (thread (cov_rew Sim) w cv) as [r w1]. exact G.
    - destruct (covered mapping a); [constructor|].
      pose proof (gr_rew Sim (w_sim w) _ a (gr_refl Sim _)) as G.
      destruct (sim_reward Sim (w_sim w) a) as [o s1]. exact G.
  Qed.

  (* getters of the wrapper only call getters of the wrapped simulation *)
  Lemma super_greach (w w' : wst St Act) : greach W w w' -> greach Sim (w_sim w) (w_sim w').
  Proof.
    induction 1 as [w|w w' i _ IH|w w' i _ IH]; [constructor| |].
    - eapply greach_trans; [|exact IH]. apply w_obs_greach.
    - eapply greach_trans; [|exact IH]. cbn [super_sim sim_reward]. unfold sup_reward.
      pose proof (w_rew_greach w (wid_of Sim mapping i)) as G.
      destruct (w_rew Sim mapping w _) as [r w1]. exact G.
  Qed.

  Theorem super_done_stable : done_stable Sim -> done_stable W.
  Proof.
    intros D w w' i G. apply super_greach in G.
    cbn [super_sim sim_done]. unfold sup_done, w_done.
    destruct (wid_of Sim mapping i) as [j|a].
    - destruct (nth_error mapping j) as [cv|]; [|reflexivity].
      rewrite (forallb_ext' (sim_done Sim (w_sim w')) (sim_done Sim (w_sim w)) cv); [reflexivity|].
      intros c. apply D, G.
    - rewrite (D _ _ a G). reflexivity.
  Qed.
End StableSuper.

Section StableComm.
  Context {St Obs Info Act : Type}.
  Variable Sim : simulation St Obs Info Act.
  Variable s_fobs : St -> nat -> Comms.row -> Obs * St.
  Notation W := (comm_sim Sim s_fobs).
  (* the fused getter is a getter *)
  Hypothesis Fg : forall s a fm, greach Sim s (snd (s_fobs s a fm)).

  Lemma comm_greach (c c' : cst St Act) : greach W c c' -> greach Sim (c_sim c) (c_sim c').
  Proof.
    induction 1 as [c|c c' a _ IH|c c' a _ IH]; [constructor| |].
    - eapply greach_trans; [|exact IH]. cbn [comm_sim sim_obs]. unfold c_obs.
      destruct (alookup (c_rcv c) a) as [fm|]; [|constructor].
      pose proof (Fg (c_sim c) a fm) as G. destruct (s_fobs (c_sim c) a fm) as [o s1].
      destruct (alookup (c_buf c) a); exact G.
    - eapply greach_trans; [|exact IH]. cbn [comm_sim sim_reward]. unfold com_reward, c_rew.
      pose proof (gr_rew Sim (c_sim c) _ a (gr_refl Sim _)) as G.
      destruct (sim_reward Sim (c_sim c) a) as [r s1]. exact G.
  Qed.

  Theorem comm_done_stable : done_stable Sim -> done_stable W.
  Proof. intros D c c' a G. apply comm_greach in G. apply D, G. Qed.
End StableComm.

Section StableSar.
  Context {St Info : Type}.
  Notation sim := (simulation St upoint Info upoint).

  Lemma sar_wrap_greach dec enc (S : sim) s s' : greach (sar_wrap dec enc S) s s' -> greach S s s'.
  Proof.
    induction 1 as [s|s s' a _ IH|s s' a _ IH]; [constructor| |].
    - apply gr_obs with a. cbn [sar_wrap sim_obs] in IH.
      destruct (sim_obs S s a) as [o s1]. exact IH.
    - apply gr_rew with a. exact IH.
  Qed.

  Theorem sar_done_stable ks sp (S : sim) : done_stable S -> done_stable (sar_sim ks sp S).
  Proof.
    intros D. unfold sar_sim. induction ks as [|k ks IH]; cbn [wrap_stack]; [exact D|].
    intros s s' a G. apply sar_wrap_greach in G. apply (IH s s' a G).
  Qed.
End StableSar.

(* ---------------------------------------------------------------------------------------- *)
(* 5. the scripted simulation: congruence "up to the two call logs", forgetful reset           *)

Lemma script_congr sc : sim_congr (script_sim sc) script_rel.
Proof.
  constructor; cbn [script_sim sim_reset sim_step sim_obs sim_reward sim_done sim_all sim_info sim_next].
  - intros s1 s2 _. split; reflexivity.
  - intros s1 s2 acts [H1 H2]. unfold ss_step, script_rel. cbn. rewrite H1, H2. split; reflexivity.
  - intros s1 s2 a [H1 H2]. unfold ss_obs. cbn. rewrite H1. repeat split; assumption.
  - intros s1 s2 a [H1 H2]. unfold ss_reward, script_rel. cbn. rewrite H1, H2. repeat split.
  - intros s1 s2 a [H1 H2]. unfold ss_done. rewrite H1. reflexivity.
  - intros s1 s2 [H1 H2]. unfold ss_all. rewrite H1. reflexivity.
  - intros s1 s2 a [H1 H2]. unfold ss_info. rewrite H1. reflexivity.
  - intros s1 s2 [H1 H2]. unfold ss_next. rewrite H1. reflexivity.
Qed.

Lemma script_forgets sc : reset_forgets (script_sim sc) script_rel.
Proof. intros s1 s2. split; reflexivity. Qed.

Lemma script_fobs_congr : fobs_congr ss_fobs script_rel.
Proof. intros s1 s2 a fm [H1 H2]. unfold ss_fobs. cbn. rewrite H1. repeat split; assumption. Qed.

(* managers over the packaged wrappers over ANY script: no hypothesis about reset is left *)
Theorem script_super_used_vs_fresh sc mapping nulls k (w0 : wst sst Z) h cs :
  mgr_ok (super_sim (script_sim sc) mapping nulls) k ->
  fst (run (super_sim (script_sim sc) mapping nulls) k
           (snd (run (super_sim (script_sim sc) mapping nulls) k (init w0) h)) (CReset :: cs)) =
  fst (run (super_sim (script_sim sc) mapping nulls) k (init w0) (CReset :: cs)).
Proof.
  intros Ok. apply (stack_super _ script_rel (script_congr sc)); [exact Ok|apply script_forgets].
Qed.

Theorem script_comm_used_vs_fresh sc k (c0 : cst sst Z) h cs :
  mgr_ok (comm_sim (script_sim sc) ss_fobs) k ->
  fst (run (comm_sim (script_sim sc) ss_fobs) k
           (snd (run (comm_sim (script_sim sc) ss_fobs) k (init c0) h)) (CReset :: cs)) =
  fst (run (comm_sim (script_sim sc) ss_fobs) k (init c0) (CReset :: cs)).
Proof.
  intros Ok. apply (stack_comm _ script_rel (script_congr sc));
    [apply script_fobs_congr|exact Ok|apply script_forgets].
Qed.

(* a getter that ignores the fusion matrix respects whatever the plain getter respects *)
Lemma drop_fm_congr {St Obs Info Act} (S : simulation St Obs Info Act) (R : St -> St -> Prop) :
  sim_congr S R -> fobs_congr (drop_fm S) R.
Proof. intros C s1 s2 a fm H. apply (cg_obs _ _ C), H. Qed.

Lemma script_usim_congr sc : sim_congr (script_usim sc) script_rel.
Proof.
  constructor; cbn [script_usim sim_reset sim_step sim_obs sim_reward sim_done sim_all sim_info sim_next].
  - intros s1 s2 _. split; reflexivity.
  - intros s1 s2 acts [H1 H2]. unfold ss_step, script_rel. cbn. rewrite H1, H2. split; reflexivity.
  - intros s1 s2 a [H1 H2]. cbn. rewrite H1. repeat split; assumption.
  - intros s1 s2 a [H1 H2]. unfold ss_reward, script_rel. cbn. rewrite H1, H2. repeat split.
  - intros s1 s2 a [H1 H2]. unfold ss_done. rewrite H1. reflexivity.
  - intros s1 s2 [H1 H2]. unfold ss_all. rewrite H1. reflexivity.
  - intros s1 s2 a [H1 H2]. unfold ss_info. rewrite H1. reflexivity.
  - intros s1 s2 [H1 H2]. unfold ss_next. rewrite H1. reflexivity.
Qed.

Lemma script_usim_forgets sc : reset_forgets (script_usim sc) script_rel.
Proof. intros s1 s2. split; reflexivity. Qed.

(* manager over SuperAgentWrapper over CommunicationHandshakeWrapper over any Ravel/Flatten stack
   over any script *)
Theorem script_deep_used_vs_fresh sc ks sp mapping nulls k
        (w0 : wst (cst sst upoint) (cact upoint)) h cs :
  mgr_ok (super_sim (comm_sim (sar_sim ks sp (script_usim sc))
                              (drop_fm (sar_sim ks sp (script_usim sc)))) mapping nulls) k ->
  fst (run (super_sim (comm_sim (sar_sim ks sp (script_usim sc))
                                (drop_fm (sar_sim ks sp (script_usim sc)))) mapping nulls) k
           (snd (run (super_sim (comm_sim (sar_sim ks sp (script_usim sc))
                                          (drop_fm (sar_sim ks sp (script_usim sc)))) mapping nulls) k
                     (init w0) h)) (CReset :: cs)) =
  fst (run (super_sim (comm_sim (sar_sim ks sp (script_usim sc))
                                (drop_fm (sar_sim ks sp (script_usim sc)))) mapping nulls) k
           (init w0) (CReset :: cs)).
Proof.
  intros Ok.
  pose proof (sar_congr script_rel ks sp _ (script_usim_congr sc)) as C1.
  pose proof (comm_congr _ _ script_rel C1 (drop_fm_congr _ _ C1)) as C2.
  apply (stack_super _ (comm_rel script_rel) C2 mapping nulls k w0 h cs Ok).
  apply comm_reset_rel, sar_reset_rel, script_usim_forgets.
Qed.
