(* Proofs about Grid/Place.v (placement states of abmarl/sim/gridworld/state.py). *)
From Coq Require Import ZArith List Bool Lia Arith Permutation ZifyBool.
From Abm Require Import Base.Sx Grid.Overlap Grid.Maze Grid.Place Proofs.Maze_proofs.
Import ListNotations.
Open Scope Z_scope.

(* ------------------------------------------------------------------ small facts *)
Lemma memZ_In : forall x l, memZ x l = true <-> In x l.
Proof.
  intros x l. unfold memZ. rewrite existsb_exists. split.
  - intros [y [Hy He]]. apply Z.eqb_eq in He. subst. exact Hy.
  - intros H. exists x. split; [exact H | apply Z.eqb_refl].
Qed.

Lemma memZ_false : forall x l, memZ x l = false <-> ~ In x l.
Proof.
  intros x l. rewrite <- memZ_In. destruct (memZ x l); split; intros H; try discriminate; auto.
  exfalso. apply H. reflexivity.
Qed.

Lemma memZ_app : forall x l m, memZ x (l ++ m) = memZ x l || memZ x m.
Proof. intros. unfold memZ. apply existsb_app. Qed.

Lemma memN_In : forall x l, memN x l = true <-> In x l.
Proof.
  intros x l. unfold memN. rewrite existsb_exists. split.
  - intros [y [Hy He]]. apply Nat.eqb_eq in He. subst. exact Hy.
  - intros H. exists x. split; [exact H | apply Nat.eqb_refl].
Qed.

Lemma nodupN_NoDup : forall l, nodupN l = true <-> NoDup l.
Proof.
  induction l as [|x t IH]; cbn [nodupN].
  - split; [constructor | reflexivity].
  - rewrite andb_true_iff, negb_true_iff, IH. split.
    + intros [H1 H2]. constructor; [|exact H2]. rewrite <- memN_In. rewrite H1. discriminate.
    + intros H. inversion H as [|? ? Hn Hd]; subst. split; [|exact Hd].
      destruct (memN x t) eqn:E; [|reflexivity]. apply memN_In in E. contradiction.
Qed.

Lemma nodupZ_NoDup : forall l, nodupZ l = true <-> NoDup l.
Proof.
  induction l as [|x t IH]; cbn [nodupZ].
  - split; [constructor | reflexivity].
  - rewrite andb_true_iff, negb_true_iff, IH. split.
    + intros [H1 H2]. constructor; [|exact H2]. apply memZ_false. exact H1.
    + intros H. inversion H as [|? ? Hn Hd]; subst. split; [|exact Hd].
      apply memZ_false. exact Hn.
Qed.

Lemma cell_eqb_eq : forall a b, cell_eqb a b = true <-> a = b.
Proof.
  intros [a1 a2] [b1 b2]. unfold cell_eqb. cbn [fst snd].
  rewrite andb_true_iff, !Z.eqb_eq. split.
  - intros [H1 H2]. subst. reflexivity.
  - intros H. inversion H. auto.
Qed.

Lemma cell_eqb_refl : forall a, cell_eqb a a = true.
Proof. intros. apply cell_eqb_eq. reflexivity. Qed.

Lemma list_eqb_nat_refl : forall l, list_eqb Nat.eqb l l = true.
Proof. induction l as [|x t IH]; cbn; [reflexivity|]. rewrite Nat.eqb_refl. exact IH. Qed.

Lemma list_eqb_nat_eq : forall l m, list_eqb Nat.eqb l m = true -> l = m.
Proof.
  induction l as [|x t IH]; intros [|y m] H; cbn in H; try discriminate; [reflexivity|].
  apply andb_true_iff in H. destruct H as [H1 H2]. apply Nat.eqb_eq in H1. subst.
  f_equal. apply IH. exact H2.
Qed.

Lemma list_eqb_cells_refl : forall l : list (list nat), list_eqb (list_eqb Nat.eqb) l l = true.
Proof. induction l as [|x t IH]; cbn; [reflexivity|]. rewrite list_eqb_nat_refl. exact IH. Qed.

Lemma list_eqb_cell_refl : forall l : list cell, list_eqb cell_eqb l l = true.
Proof. induction l as [|x t IH]; cbn; [reflexivity|]. rewrite cell_eqb_refl. exact IH. Qed.

(* ------------------------------------------------------------------ overlap symmetry *)
Definition ov_edge (t : otable) (a b : Z) : bool :=
  existsb (fun kv => (b =? fst kv) && memZ a (snd kv)) t.

Lemma memZ_set_add : forall b v s, memZ b (set_add v s) = memZ b s || (b =? v).
Proof.
  intros b v s. unfold set_add. destruct (memZ v s) eqn:E.
  - destruct (b =? v) eqn:Eb.
    + apply Z.eqb_eq in Eb. subst. rewrite E. reflexivity.
    + rewrite orb_false_r. reflexivity.
  - rewrite memZ_app. cbn. rewrite orb_false_r. reflexivity.
Qed.

Lemma allowed_add_edge : forall t k v a b,
  ov_allowed (ov_add_edge t k v) a b = ov_allowed t a b || ((a =? k) && (b =? v)).
Proof.
  unfold ov_allowed. induction t as [|[k' s] t IH]; intros k v a b; cbn [ov_add_edge ov_lookup].
  - destruct (a =? k); cbn; [|reflexivity]. rewrite orb_false_r. reflexivity.
  - destruct (k =? k') eqn:Ek; cbn [ov_lookup].
    + apply Z.eqb_eq in Ek. subst k'. destruct (a =? k) eqn:Ea.
      * rewrite memZ_set_add. reflexivity.
      * cbn. rewrite orb_false_r. reflexivity.
    + destruct (a =? k') eqn:Ea.
      * apply Z.eqb_eq in Ea. subst k'. rewrite Z.eqb_sym in Ek. rewrite Ek. cbn.
        rewrite orb_false_r. reflexivity.
      * apply IH.
Qed.

Lemma allowed_fold_inner : forall os k sym a b,
  ov_allowed (fold_left (fun sym' o => ov_add_edge sym' o k) os sym) a b
  = ov_allowed sym a b || ((b =? k) && memZ a os).
Proof.
  induction os as [|o os IH]; intros k sym a b; cbn [fold_left].
  - cbn. rewrite andb_false_r, orb_false_r. reflexivity.
  - rewrite IH, allowed_add_edge. cbn [memZ existsb]. fold (memZ a os).
    destruct (ov_allowed sym a b), (a =? o), (b =? k), (memZ a os); reflexivity.
Qed.

Lemma allowed_fold_outer : forall t sym a b,
  ov_allowed (fold_left (fun sym kv => fold_left (fun sym' o => ov_add_edge sym' o (fst kv))
                                                 (snd kv) sym) t sym) a b
  = ov_allowed sym a b || ov_edge t a b.
Proof.
  induction t as [|kv t IH]; intros sym a b; cbn [fold_left].
  - cbn. rewrite orb_false_r. reflexivity.
  - rewrite IH, allowed_fold_inner. unfold ov_edge. cbn [existsb]. rewrite orb_assoc. reflexivity.
Qed.

Lemma allowed_is_edge : forall t a b, NoDup (map fst t) -> ov_allowed t a b = ov_edge t b a.
Proof.
  unfold ov_allowed, ov_edge. induction t as [|[k s] t IH]; intros a b Hnd; cbn [ov_lookup existsb fst snd].
  - reflexivity.
  - inversion Hnd as [|? ? Hn Hd]; subst. destruct (a =? k) eqn:Ea.
    + cbn. apply Z.eqb_eq in Ea. subst k.
      assert (Hf : existsb (fun kv => (a =? fst kv) && memZ b (snd kv)) t = false).
      { destruct (existsb _ t) eqn:E; [|reflexivity]. apply existsb_exists in E.
        destruct E as [[k' s'] [Hin Hc]]. cbn in Hc. apply andb_true_iff in Hc.
        destruct Hc as [Hc _]. apply Z.eqb_eq in Hc. subst k'.
        exfalso. apply Hn. apply in_map_iff. exists (a, s'). auto. }
      rewrite Hf, orb_false_r. reflexivity.
    + cbn. apply IH. exact Hd.
Qed.

Lemma ov_symmetrise_allowed : forall t a b, NoDup (map fst t) ->
  ov_allowed (ov_symmetrise t) a b = ov_edge t b a || ov_edge t a b.
Proof.
  intros t a b Hnd. unfold ov_symmetrise. rewrite allowed_fold_outer.
  rewrite (allowed_is_edge t a b Hnd). reflexivity.
Qed.

Lemma ov_symmetrise_sym : forall t a b, NoDup (map fst t) ->
  ov_allowed (ov_symmetrise t) a b = ov_allowed (ov_symmetrise t) b a.
Proof. intros. rewrite !ov_symmetrise_allowed by assumption. apply orb_comm. Qed.

Lemma ov_query_forallb : forall t e occ, ov_query t e occ = forallb (ov_allowed t e) occ.
Proof. intros t e [|x occ]; reflexivity. Qed.

(* ------------------------------------------------------------------ ravel / cells *)
Lemma ravel_unravel : forall cfg k, 0 < c_cols cfg -> ravel cfg (unravel cfg k) = k.
Proof.
  intros cfg k H. unfold ravel, unravel. cbn [fst snd]. rewrite Z.mul_comm.
  symmetry. apply Z.div_mod. lia.
Qed.

Lemma unravel_ravel : forall cfg p, 0 <= snd p < c_cols cfg -> unravel cfg (ravel cfg p) = p.
Proof.
  intros cfg [r c] H. unfold ravel, unravel. cbn [fst snd] in *.
  assert (H1 : (r * c_cols cfg + c) / c_cols cfg = r).
  { rewrite Z.div_add_l by lia. rewrite Z.div_small by lia. lia. }
  assert (H2 : (r * c_cols cfg + c) mod c_cols cfg = c).
  { rewrite (Z.add_comm (r * c_cols cfg) c), Z.mod_add by lia. apply Z.mod_small. lia. }
  rewrite H1, H2. reflexivity.
Qed.

Lemma in_grid_spec : forall cfg p, in_grid cfg p = true <->
  0 <= fst p < c_rows cfg /\ 0 <= snd p < c_cols cfg.
Proof. intros. unfold in_grid. rewrite !andb_true_iff, !Z.leb_le, !Z.ltb_lt. lia. Qed.

Lemma in_cells : forall cfg k, In k (cells cfg) <-> 0 <= k < ncells cfg.
Proof.
  intros cfg k. unfold cells. rewrite in_map_iff. split.
  - intros [i [Hi Hin]]. apply in_seq in Hin. lia.
  - intros H. exists (Z.to_nat k). split; [lia|]. apply in_seq. lia.
Qed.

Lemma NoDup_map_inj : forall {X Y} (f : X -> Y) l,
  (forall x y, In x l -> In y l -> f x = f y -> x = y) -> NoDup l -> NoDup (map f l).
Proof.
  intros X Y f. induction l as [|x t IH]; intros Hinj Hnd; cbn [map]; [constructor|].
  inversion Hnd as [|? ? Hn Hd]; subst. constructor.
  - intros Hin. apply in_map_iff in Hin. destruct Hin as [y [Hy Hyin]].
    assert (y = x) by (apply Hinj; [right; exact Hyin | left; reflexivity | exact Hy]).
    subst. contradiction.
  - apply IH; [|exact Hd]. intros a b Ha Hb. apply Hinj; right; assumption.
Qed.

Lemma NoDup_cells : forall cfg, NoDup (cells cfg).
Proof.
  intros. unfold cells. apply NoDup_map_inj; [|apply seq_NoDup].
  intros x y _ _ H. lia.
Qed.

Lemma unravel_in_grid : forall cfg k, 0 < c_cols cfg -> 0 <= k < ncells cfg ->
  in_grid cfg (unravel cfg k) = true.
Proof.
  intros cfg k Hc Hk. apply in_grid_spec. unfold unravel, ncells in *. cbn [fst snd].
  split.
  - split; [apply Z.div_pos; lia|]. apply Z.div_lt_upper_bound; [lia|]. lia.
  - apply Z.mod_pos_bound. lia.
Qed.

Lemma ravel_in_range : forall cfg p, in_grid cfg p = true -> 0 <= ravel cfg p < ncells cfg.
Proof.
  intros cfg [r c] H. apply in_grid_spec in H. unfold ravel, ncells. cbn [fst snd] in *. nia.
Qed.

Lemma ravel_inj : forall cfg p q, in_grid cfg p = true -> in_grid cfg q = true ->
  ravel cfg p = ravel cfg q -> p = q.
Proof.
  intros cfg p q Hp Hq H. apply in_grid_spec in Hp. apply in_grid_spec in Hq.
  rewrite <- (unravel_ravel cfg p) by lia. rewrite <- (unravel_ravel cfg q) by lia.
  rewrite H. reflexivity.
Qed.

(* ------------------------------------------------------------------ lists *)
Lemma filter_all : forall {X} (f : X -> bool) l, (forall x, In x l -> f x = true) -> filter f l = l.
Proof.
  intros X f. induction l as [|x t IH]; intros H; cbn [filter]; [reflexivity|].
  rewrite (H x (or_introl eq_refl)). f_equal. apply IH. intros y Hy. apply H. right. exact Hy.
Qed.

Lemma filter_filter : forall {X} (f g : X -> bool) l,
  filter f (filter g l) = filter (fun x => g x && f x) l.
Proof.
  intros X f g. induction l as [|x t IH]; cbn [filter]; [reflexivity|].
  destruct (g x); cbn [filter andb]; [destruct (f x)|]; rewrite IH; reflexivity.
Qed.

Lemma filter_ext_in' : forall {X} (f g : X -> bool) l,
  (forall x, In x l -> f x = g x) -> filter f l = filter g l.
Proof.
  intros X f g. induction l as [|x t IH]; intros H; cbn [filter]; [reflexivity|].
  rewrite (H x (or_introl eq_refl)). rewrite IH; [reflexivity|].
  intros y Hy. apply H. right. exact Hy.
Qed.

Lemma remove_first_filter : forall x l, NoDup l ->
  remove_first x l = filter (fun k => negb (x =? k)) l.
Proof.
  intros x. induction l as [|y t IH]; intros Hnd; cbn [remove_first filter]; [reflexivity|].
  inversion Hnd as [|? ? Hn Hd]; subst. destruct (x =? y) eqn:E; cbn [negb].
  - apply Z.eqb_eq in E. subst y. symmetry. apply filter_all.
    intros z Hz. apply negb_true_iff. apply Z.eqb_neq. intros Heq. subst. contradiction.
  - f_equal. apply IH. exact Hd.
Qed.

Lemma NoDup_filter' : forall {X} (f : X -> bool) l, NoDup l -> NoDup (filter f l).
Proof.
  intros X f. induction l as [|x t IH]; intros H; cbn [filter]; [constructor|].
  inversion H as [|? ? Hn Hd]; subst. destruct (f x); [|apply IH; exact Hd].
  constructor; [|apply IH; exact Hd]. intros Hin. apply filter_In in Hin. tauto.
Qed.

Lemma filter_nil_iff : forall {X} (f : X -> bool) l,
  filter f l = [] <-> (forall x, In x l -> f x = false).
Proof.
  intros X f. induction l as [|x t IH]; cbn [filter].
  - split; [intros _ y []|reflexivity].
  - destruct (f x) eqn:E.
    + split; [discriminate|]. intros H. rewrite (H x (or_introl eq_refl)) in E. discriminate.
    + rewrite IH. split.
      * intros H y [Hy|Hy]; [subst; exact E | apply H; exact Hy].
      * intros H y Hy. apply H. right. exact Hy.
Qed.

(* ------------------------------------------------------------------ the stable sort *)
Fixpoint ssorted (le : Z -> Z -> bool) (l : list Z) : Prop :=
  match l with
  | [] => True
  | x :: t => Forall (fun y => le x y = true) t /\ ssorted le t
  end.

Definition le_total (le : Z -> Z -> bool) : Prop := forall x y, le x y = false -> le y x = true.
Definition le_trans (le : Z -> Z -> bool) : Prop :=
  forall x y z, le x y = true -> le y z = true -> le x z = true.

Lemma insert_perm : forall le x l, Permutation (insert_by le x l) (x :: l).
Proof.
  intros le x. induction l as [|y t IH]; cbn [insert_by]; [apply Permutation_refl|].
  destruct (le x y); [apply Permutation_refl|].
  eapply Permutation_trans; [apply perm_skip; exact IH | apply perm_swap].
Qed.

Lemma sort_perm : forall le l, Permutation (sort_by le l) l.
Proof.
  intros le. induction l as [|x t IH]; cbn [sort_by fold_right]; [apply Permutation_refl|].
  eapply Permutation_trans; [apply insert_perm | apply perm_skip; exact IH].
Qed.

Lemma Forall_insert : forall (P : Z -> Prop) le x l, P x -> Forall P l -> Forall P (insert_by le x l).
Proof.
  intros P le x. induction l as [|y t IH]; intros Hx Hl; cbn [insert_by].
  - constructor; [exact Hx | constructor].
  - inversion Hl as [|? ? Hy Ht]; subst. destruct (le x y).
    + constructor; [exact Hx | exact Hl].
    + constructor; [exact Hy | apply IH; assumption].
Qed.

Lemma insert_sorted : forall le x l, le_total le -> le_trans le ->
  ssorted le l -> ssorted le (insert_by le x l).
Proof.
  intros le x l Htot Htr. induction l as [|y t IH]; intros Hs; cbn [insert_by].
  - cbn. split; [constructor | exact I].
  - destruct Hs as [Hy Ht]. destruct (le x y) eqn:E.
    + cbn [ssorted]. split; [|split; assumption]. constructor; [exact E|].
      eapply Forall_impl; [|exact Hy]. cbn. intros z Hz. eapply Htr; eassumption.
    + cbn [ssorted]. split; [|apply IH; exact Ht].
      apply Forall_insert; [apply Htot; exact E | exact Hy].
Qed.

Lemma sort_sorted : forall le l, le_total le -> le_trans le -> ssorted le (sort_by le l).
Proof.
  intros le l Htot Htr. induction l as [|x t IH]; cbn [sort_by fold_right]; [exact I|].
  apply insert_sorted; assumption.
Qed.

Lemma ssorted_filter : forall le f l, ssorted le l -> ssorted le (filter f l).
Proof.
  intros le f. induction l as [|x t IH]; intros Hs; cbn [filter]; [exact I|].
  destruct Hs as [Hx Ht]. destruct (f x); [|apply IH; exact Ht].
  cbn [ssorted]. split; [|apply IH; exact Ht].
  apply Forall_forall. intros y Hy. apply filter_In in Hy.
  rewrite Forall_forall in Hx. apply Hx. tauto.
Qed.

Lemma last_opt_In : forall l z, last_opt l = Some z -> In z l.
Proof.
  induction l as [|x t IH]; intros z H; cbn [last_opt] in H; [discriminate|].
  destruct t as [|y t']; [inversion H; left; reflexivity|]. right. apply IH. exact H.
Qed.

Lemma last_opt_none : forall l, last_opt l = None -> l = [].
Proof.
  induction l as [|x t IH]; intros H; [reflexivity|]. cbn [last_opt] in H.
  destruct t as [|y t']; [discriminate|]. specialize (IH H). discriminate.
Qed.

Lemma last_opt_sorted : forall le l z, le_total le -> ssorted le l -> last_opt l = Some z ->
  forall y, In y l -> le y z = true.
Proof.
  intros le l z Htot. induction l as [|x t IH]; intros Hs Hl y Hy; [destruct Hy|].
  destruct Hs as [Hx Ht]. cbn [last_opt] in Hl. destruct t as [|x' t'].
  - assert (Hxz : x = z) by congruence. subst x. destruct Hy as [Hy|[]]. subst y.
    destruct (le z z) eqn:E; [reflexivity|]. pose proof (Htot _ _ E) as E2. congruence.
  - destruct Hy as [Hy|Hy].
    + subst. rewrite Forall_forall in Hx. apply Hx. apply last_opt_In. exact Hl.
    + apply IH; assumption.
Qed.

(* ------------------------------------------------------------------ availability lists *)
Definition unblocked (cfg : config) (log : plog) (e k : Z) : bool :=
  negb (existsb (blocks cfg e k) log).

Lemma spec_avail_filter : forall cfg maze pre e,
  spec_avail cfg maze pre e = filter (unblocked cfg pre e) (spec_init cfg maze e).
Proof. reflexivity. Qed.

Lemma unblocked_snoc : forall cfg log bp e k,
  unblocked cfg (log ++ [bp]) e k = unblocked cfg log e k && negb (blocks cfg e k bp).
Proof.
  intros. unfold unblocked. rewrite existsb_app. cbn [existsb]. rewrite orb_false_r.
  apply negb_orb.
Qed.

Definition av_inv (cfg : config) (B : avail) (s : pstate) : Prop :=
  forall e, av_get e (ps_avail s)
            = option_map (filter (unblocked cfg (ps_log s) e)) (av_get e B).

Definition B_nodup (B : avail) : Prop := forall e l, av_get e B = Some l -> NoDup l.

Lemma av_get_update : forall cfg av ep p e,
  av_get e (update_available cfg av ep p)
  = option_map (fun l => if c_noov cfg || negb (ov_allowed (ovl cfg) ep e)
                         then remove_first (ravel cfg p) l else l) (av_get e av).
Proof.
  intros cfg av ep p e. unfold update_available.
  induction av as [|[k l] t IH]; cbn [map av_get fst snd option_map]; [reflexivity|].
  destruct (e =? k) eqn:E.
  - apply Z.eqb_eq in E. subst k.
    destruct (c_noov cfg || negb (ov_allowed (ovl cfg) ep e)); cbn [av_get];
      rewrite Z.eqb_refl; reflexivity.
  - destruct (c_noov cfg || negb (ov_allowed (ovl cfg) ep k)); cbn [av_get];
      rewrite E; exact IH.
Qed.

Lemma av_inv_init : forall cfg B, av_inv cfg B (mkPs [] B).
Proof.
  intros cfg B e. cbn [ps_avail ps_log]. destruct (av_get e B) as [l|]; cbn [option_map]; [|reflexivity].
  f_equal. symmetry. apply filter_all. intros. reflexivity.
Qed.

Lemma av_inv_step : forall cfg B s a p, B_nodup B -> av_inv cfg B s ->
  av_inv cfg B (mkPs (ps_log s ++ [(a, p)]) (update_available cfg (ps_avail s) (enc cfg a) p)).
Proof.
  intros cfg B s a p Hnd Hinv e. cbn [ps_avail ps_log]. rewrite av_get_update, Hinv.
  destruct (av_get e B) as [l0|] eqn:EB; cbn [option_map]; [|reflexivity]. f_equal.
  specialize (Hnd e l0 EB).
  destruct (c_noov cfg || negb (ov_allowed (ovl cfg) (enc cfg a) e)) eqn:Ef.
  - rewrite remove_first_filter by (apply NoDup_filter'; exact Hnd).
    rewrite filter_filter. apply filter_ext_in'. intros k _.
    rewrite unblocked_snoc. unfold blocks. cbn [fst snd]. rewrite Ef, andb_true_r. reflexivity.
  - apply filter_ext_in'. intros k _.
    rewrite unblocked_snoc. unfold blocks. cbn [fst snd]. rewrite Ef, andb_false_r.
    cbn. rewrite andb_true_r. reflexivity.
Qed.

Lemma av_get_set : forall a e e' l,
  av_get e (av_set a e' l) = if e =? e' then Some l else av_get e a.
Proof.
  induction a as [|[k l0] t IH]; intros e e' l; cbn [av_set av_get]; [reflexivity|].
  destruct (e' =? k) eqn:E1; cbn [av_get].
  - apply Z.eqb_eq in E1. subst k. destruct (e =? e'); reflexivity.
  - destruct (e =? k) eqn:E2.
    + apply Z.eqb_eq in E2. subst k. rewrite Z.eqb_sym in E1. rewrite E1. reflexivity.
    + apply IH.
Qed.

Lemma av_get_fold_set : forall keys v d0 e,
  av_get e (fold_left (fun d x => av_set d x v) keys d0)
  = if memZ e keys then Some v else av_get e d0.
Proof.
  induction keys as [|x ks IH]; intros v d0 e; cbn [fold_left]; [reflexivity|].
  rewrite IH, av_get_set. cbn [memZ existsb]. fold (memZ e ks).
  destruct (e =? x), (memZ e ks); reflexivity.
Qed.

Lemma av_get_build_from : forall cfg start bl fl e,
  av_get e (build_from cfg start bl fl)
  = if memZ e (c_free cfg)
    then Some (if c_scatter cfg then sort_near_first cfg start fl else fl)
    else if memZ e (c_barrier cfg)
         then Some (if c_cluster cfg then sort_far_first cfg start bl else bl)
         else None.
Proof. intros. unfold build_from. rewrite !av_get_fold_set. reflexivity. Qed.

Lemma av_get_range : forall (c : list Z) n a e,
  av_get e (map (fun i => (Z.of_nat i, c)) (seq a n))
  = if (Z.of_nat a <=? e) && (e <? Z.of_nat (a + n)) then Some c else None.
Proof.
  intros c. induction n as [|n IH]; intros a e; cbn [seq map av_get].
  - destruct (Z.of_nat a <=? e) eqn:E1, (e <? Z.of_nat (a + 0)) eqn:E2; cbn; try reflexivity. exfalso; lia.
  - rewrite IH. destruct (e =? Z.of_nat a) eqn:E.
    + apply Z.eqb_eq in E. subst e.
      rewrite Z.leb_refl.
      assert (H : Z.of_nat a <? Z.of_nat (a + S n) = true) by (apply Z.ltb_lt; lia).
      rewrite H. reflexivity.
    + apply Z.eqb_neq in E.
      destruct (Z.of_nat (S a) <=? e) eqn:E1, (e <? Z.of_nat (S a + n)) eqn:E2,
               (Z.of_nat a <=? e) eqn:E3, (e <? Z.of_nat (a + S n)) eqn:E4; cbn; try reflexivity; exfalso; lia.
Qed.

Lemma max_enc_nonneg : forall cfg, 0 <= max_enc cfg.
Proof.
  intros cfg. unfold max_enc. induction (map a_enc (c_agents cfg)) as [|x t IH]; cbn [fold_right]; lia.
Qed.

Lemma max_enc_ge : forall cfg ag, In ag (c_agents cfg) -> a_enc ag <= max_enc cfg.
Proof.
  intros cfg ag. unfold max_enc. induction (c_agents cfg) as [|x t IH]; intros H; [destruct H|].
  cbn [map fold_right]. destruct H as [H|H]; [subst; lia|]. specialize (IH H). lia.
Qed.

Lemma av_get_build_plain : forall cfg e,
  av_get e (build_plain cfg)
  = if (1 <=? e) && (e <=? max_enc cfg) then Some (cells cfg) else None.
Proof.
  intros cfg e. unfold build_plain. rewrite av_get_range.
  pose proof (max_enc_nonneg cfg) as Hm.
  destruct (Z.of_nat 1 <=? e) eqn:E1, (e <? Z.of_nat (1 + Z.to_nat (max_enc cfg))) eqn:E2,
           (1 <=? e) eqn:E3, (e <=? max_enc cfg) eqn:E4; cbn; try reflexivity; exfalso; lia.
Qed.

(* ------------------------------------------------------------------ built lists vs specification *)
Definition far (cfg : config) (st : cell) : Z -> Z -> bool :=
  fun x y => dist2 cfg st y <=? dist2 cfg st x.
Definition near (cfg : config) (st : cell) : Z -> Z -> bool :=
  fun x y => dist2 cfg st x <=? dist2 cfg st y.

Lemma far_total : forall cfg st, le_total (far cfg st).
Proof. unfold le_total, far. intros. lia. Qed.
Lemma far_trans : forall cfg st, le_trans (far cfg st).
Proof. unfold le_trans, far. intros. lia. Qed.
Lemma near_total : forall cfg st, le_total (near cfg st).
Proof. unfold le_total, near. intros. lia. Qed.
Lemma near_trans : forall cfg st, le_trans (near cfg st).
Proof. unfold le_trans, near. intros. lia. Qed.

Definition B_ok (cfg : config) (start : option cell) (maze : option mgrid) (B : avail) : Prop :=
  forall e, match av_get e B with
            | Some l0 =>
                NoDup l0 /\ (forall k, In k l0 <-> In k (spec_init cfg maze e))
                /\ (clustered cfg e = true ->
                    exists st, start = Some st /\ ssorted (far cfg st) l0)
                /\ (scattered cfg e = true ->
                    exists st, start = Some st /\ ssorted (near cfg st) l0)
            | None => spec_init cfg maze e = []
            end.

Lemma B_ok_nodup : forall cfg start maze B, B_ok cfg start maze B -> B_nodup B.
Proof. intros cfg start maze B H e l El. specialize (H e). rewrite El in H. tauto. Qed.

Lemma B_ok_plain : forall cfg start maze, c_kind cfg = KPlain ->
  B_ok cfg start maze (build_plain cfg).
Proof.
  intros cfg start maze Hk e. rewrite av_get_build_plain. unfold spec_init, clustered, scattered.
  rewrite Hk. destruct ((1 <=? e) && (e <=? max_enc cfg)); [|reflexivity].
  split; [apply NoDup_cells|]. split; [tauto|]. split; discriminate.
Qed.

Definition disjoint_b (cfg : config) : bool :=
  forallb (fun e => negb (memZ e (c_free cfg))) (c_barrier cfg).

Lemma disjoint_spec : forall cfg e, disjoint_b cfg = true ->
  memZ e (c_barrier cfg) = true -> memZ e (c_free cfg) = false.
Proof.
  intros cfg e Hd Hb. unfold disjoint_b in Hd. rewrite forallb_forall in Hd.
  apply memZ_In in Hb. specialize (Hd e Hb). apply negb_true_iff in Hd. exact Hd.
Qed.

Lemma B_ok_from : forall cfg st maze bl fl,
  c_kind cfg <> KPlain -> disjoint_b cfg = true -> NoDup bl -> NoDup fl ->
  (forall e, spec_init cfg maze e
             = if memZ e (c_free cfg) then fl else if memZ e (c_barrier cfg) then bl else []) ->
  B_ok cfg (Some st) maze (build_from cfg st bl fl).
Proof.
  intros cfg st maze bl fl Hk Hd Hnb Hnf Hspec e. rewrite av_get_build_from, (Hspec e).
  assert (Hcl : clustered cfg e = memZ e (c_barrier cfg) && c_cluster cfg).
  { unfold clustered. destruct (c_kind cfg); [congruence|reflexivity|reflexivity]. }
  assert (Hsc : scattered cfg e = memZ e (c_free cfg) && c_scatter cfg).
  { unfold scattered. destruct (c_kind cfg); [congruence|reflexivity|reflexivity]. }
  rewrite Hcl, Hsc.
  destruct (memZ e (c_free cfg)) eqn:Ef.
  - assert (Eb : memZ e (c_barrier cfg) = false).
    { destruct (memZ e (c_barrier cfg)) eqn:Eb; [|reflexivity].
      rewrite (disjoint_spec cfg e Hd Eb) in Ef. discriminate. }
    rewrite Eb. cbn [andb]. destruct (c_scatter cfg).
    + split; [eapply Permutation_NoDup; [apply Permutation_sym; apply sort_perm | exact Hnf]|].
      split; [intros k; split; apply Permutation_in;
              [apply sort_perm | apply Permutation_sym; apply sort_perm]|].
      split; [discriminate|]. intros _. exists st. split; [reflexivity|].
      apply sort_sorted; [apply near_total | apply near_trans].
    + split; [exact Hnf|]. split; [tauto|]. split; discriminate.
  - cbn [andb]. destruct (memZ e (c_barrier cfg)) eqn:Eb; [|reflexivity]. cbn [andb].
    destruct (c_cluster cfg).
    + split; [eapply Permutation_NoDup; [apply Permutation_sym; apply sort_perm | exact Hnb]|].
      split; [intros k; split; apply Permutation_in;
              [apply sort_perm | apply Permutation_sym; apply sort_perm]|].
      split; [|discriminate]. intros _. exists st. split; [reflexivity|].
      apply sort_sorted; [apply far_total | apply far_trans].
    + split; [exact Hnb|]. split; [tauto|]. split; discriminate.
Qed.

Lemma B_ok_target : forall cfg st, c_kind cfg = KTarget -> disjoint_b cfg = true ->
  B_ok cfg (Some st) None (build_target cfg st).
Proof.
  intros cfg st Hk Hd. unfold build_target. apply B_ok_from; try assumption.
  - congruence.
  - apply NoDup_cells.
  - apply NoDup_cells.
  - intros e. unfold spec_init. rewrite Hk.
    destruct (memZ e (c_free cfg)), (memZ e (c_barrier cfg)); reflexivity.
Qed.

Lemma B_ok_maze : forall cfg st m, c_kind cfg = KMaze -> disjoint_b cfg = true ->
  B_ok cfg (Some st) (Some m) (build_maze cfg st m).
Proof.
  intros cfg st m Hk Hd. unfold build_maze. apply B_ok_from; try assumption.
  - congruence.
  - apply NoDup_filter'. apply NoDup_cells.
  - apply NoDup_filter'. apply NoDup_cells.
  - intros e. unfold spec_init. rewrite Hk. reflexivity.
Qed.

Lemma spec_init_cells : forall cfg maze e k, In k (spec_init cfg maze e) -> In k (cells cfg).
Proof.
  intros cfg maze e k. unfold spec_init, maze_cells.
  destruct (c_kind cfg).
  - destruct ((1 <=? e) && (e <=? max_enc cfg)); [tauto|intros []].
  - destruct (memZ e (c_free cfg) || memZ e (c_barrier cfg)); [tauto|intros []].
  - destruct maze as [m|]; [|intros []].
    destruct (memZ e (c_free cfg)); [intros H; apply filter_In in H; tauto|].
    destruct (memZ e (c_barrier cfg)); [intros H; apply filter_In in H; tauto|intros []].
Qed.

(* ------------------------------------------------------------------ grid facts *)
Lemma existsb_false : forall {X} (f : X -> bool) l, existsb f l = false ->
  forall x, In x l -> f x = false.
Proof.
  intros X f l H x Hx. destruct (f x) eqn:E; [|reflexivity].
  assert (existsb f l = true) by (apply existsb_exists; exists x; auto). congruence.
Qed.

Lemma grid_query_spec : forall cfg log a p,
  grid_query cfg log a p = true <->
  (forall bq, In bq log -> snd bq = p ->
              ov_allowed (ovl cfg) (enc cfg a) (enc cfg (fst bq)) = true).
Proof.
  intros cfg log a p. unfold grid_query, occupants. rewrite ov_query_forallb, forallb_forall. split.
  - intros H bq Hin Hp. apply H. apply in_map. apply in_map. apply filter_In.
    split; [exact Hin | apply cell_eqb_eq; exact Hp].
  - intros H x Hx. apply in_map_iff in Hx. destruct Hx as [b [Hb Hx]]. subst x.
    apply in_map_iff in Hx. destruct Hx as [bq [Hb Hx]]. subst b.
    apply filter_In in Hx. destruct Hx as [Hin Hc]. apply cell_eqb_eq in Hc. apply H; assumption.
Qed.

Lemma occupants_snoc : forall log b q p,
  occupants (log ++ [(b, q)]) p = occupants log p ++ (if cell_eqb q p then [b] else []).
Proof.
  intros. unfold occupants. rewrite filter_app, map_app. cbn [filter snd].
  destruct (cell_eqb q p); reflexivity.
Qed.

Lemma occupants_nil : forall log q, (forall bq, In bq log -> snd bq <> q) -> occupants log q = [].
Proof.
  intros log q H. unfold occupants.
  assert (Hf : filter (fun bp => cell_eqb (snd bp) q) log = []).
  { apply filter_nil_iff. intros x Hx. destruct (cell_eqb (snd x) q) eqn:E; [|reflexivity].
    apply cell_eqb_eq in E. exfalso. eapply H; eassumption. }
  rewrite Hf. reflexivity.
Qed.

Lemma occupants_In : forall log q b, In b (occupants log q) -> In (b, q) log.
Proof.
  intros log q b H. unfold occupants in H. apply in_map_iff in H. destruct H as [[b' q'] [Hb H]].
  cbn in Hb. subst b'. apply filter_In in H. destruct H as [Hin Hc]. cbn in Hc.
  apply cell_eqb_eq in Hc. subst q'. exact Hin.
Qed.

Lemma check_log_app : forall cfg start maze r1 pre r2,
  check_log cfg start maze pre (r1 ++ r2)
  = check_log cfg start maze pre r1 && check_log cfg start maze (pre ++ r1) r2.
Proof.
  intros cfg start maze. induction r1 as [|ap r1 IH]; intros pre r2; cbn [app check_log].
  - rewrite app_nil_r. reflexivity.
  - rewrite IH, <- app_assoc. cbn [app]. rewrite andb_assoc. reflexivity.
Qed.

(* ------------------------------------------------------------------ one reset, after the lists are built *)
Section Run.
Variable cfg : config.
Variable start : option cell.
Variable maze : option mgrid.
Variable B : avail.
Variable d : draws.
Hypothesis Hcols : 0 < c_cols cfg.
Hypothesis Hsym : forall a b, ov_allowed (ovl cfg) a b = ov_allowed (ovl cfg) b a.
Hypothesis HB : B_ok cfg start maze B.
Hypothesis Hdisj : c_kind cfg <> KPlain -> disjoint_b cfg = true.

Definition step (a : nat) (s : pstate) : pres :=
  match prescribed cfg start a with
  | Some q => place_at cfg a q s
  | None => match c_kind cfg with
            | KPlain => place_random cfg (choice_of d a) a s
            | _ => place_variable cfg (choice_of d a) a s
            end
  end.

Definition alone_entry (log : plog) (ap : nat * cell) : bool :=
  match prescribed cfg start (fst ap) with
  | None => list_eqb Nat.eqb (occupants log (snd ap)) [fst ap]
  | Some _ =>
      if is_target cfg (fst ap) && negb (has_init cfg (fst ap))
      then forallb (fun b => Nat.eqb b (fst ap) || has_init cfg b) (occupants log (snd ap))
      else true
  end.
Definition alone_b (log : plog) : bool := forallb (alone_entry log) log.

Lemma presc_cases : forall y, prescribed cfg start y <> None ->
  is_target cfg y = true \/ has_init cfg y = true.
Proof.
  intros y H. unfold prescribed in H. destruct (is_target cfg y); [left; reflexivity|].
  right. unfold has_init. destruct (a_init (agent_of cfg y)); [reflexivity|congruence].
Qed.

Lemma target_unique : forall x y, is_target cfg x = true -> is_target cfg y = true -> x = y.
Proof.
  intros x y. unfold is_target. destruct (c_kind cfg); try discriminate;
    intros Hx Hy; apply Nat.eqb_eq in Hx; apply Nat.eqb_eq in Hy; congruence.
Qed.

Lemma alone_step_free : forall log b q,
  alone_b log = true -> prescribed cfg start b = None ->
  (forall bq, In bq log -> snd bq <> q) -> alone_b (log ++ [(b, q)]) = true.
Proof.
  intros log b q Hal Hp Hq. unfold alone_b. rewrite forallb_app. apply andb_true_iff. split.
  - unfold alone_b in Hal. rewrite forallb_forall in Hal. apply forallb_forall. intros ap Hap.
    specialize (Hal ap Hap). unfold alone_entry in *. rewrite occupants_snoc.
    assert (Hc : cell_eqb q (snd ap) = false).
    { destruct (cell_eqb q (snd ap)) eqn:E; [|reflexivity]. apply cell_eqb_eq in E.
      exfalso. apply (Hq ap Hap). symmetry. exact E. }
    rewrite Hc, app_nil_r. exact Hal.
  - cbn [forallb]. rewrite andb_true_r. unfold alone_entry. cbn [fst snd]. rewrite Hp.
    rewrite occupants_snoc, cell_eqb_refl, (occupants_nil log q Hq). cbn.
    rewrite Nat.eqb_refl. reflexivity.
Qed.

Lemma alone_step_presc : forall log b q x,
  alone_b log = true -> prescribed cfg start b = Some x ->
  (forall bq, In bq log -> prescribed cfg start (fst bq) <> None) ->
  alone_b (log ++ [(b, q)]) = true.
Proof.
  intros log b q x Hal Hp Hall. unfold alone_b. rewrite forallb_app. apply andb_true_iff.
  assert (Hb : prescribed cfg start b <> None) by congruence.
  split.
  - unfold alone_b in Hal. rewrite forallb_forall in Hal. apply forallb_forall. intros ap Hap.
    specialize (Hal ap Hap). unfold alone_entry in *.
    destruct (prescribed cfg start (fst ap)) eqn:Epa; [|exfalso; exact (Hall ap Hap Epa)].
    destruct (is_target cfg (fst ap) && negb (has_init cfg (fst ap))) eqn:Et; [|reflexivity].
    rewrite occupants_snoc, forallb_app, Hal. cbn [andb].
    destruct (cell_eqb q (snd ap)); [|reflexivity]. cbn [forallb]. rewrite andb_true_r.
    apply andb_true_iff in Et. destruct Et as [Et _].
    destruct (presc_cases b Hb) as [Hbt|Hbi].
    + rewrite (target_unique b (fst ap) Hbt Et), Nat.eqb_refl. reflexivity.
    + rewrite Hbi. apply orb_true_r.
  - cbn [forallb]. rewrite andb_true_r. unfold alone_entry. cbn [fst snd]. rewrite Hp.
    destruct (is_target cfg b && negb (has_init cfg b)) eqn:Et; [|reflexivity].
    apply andb_true_iff in Et. destruct Et as [Et _].
    rewrite occupants_snoc, cell_eqb_refl, forallb_app. cbn [forallb].
    rewrite Nat.eqb_refl. cbn [orb andb]. rewrite andb_true_r.
    apply forallb_forall. intros y Hy. apply occupants_In in Hy.
    specialize (Hall (y, q) Hy). cbn [fst] in Hall.
    destruct (presc_cases y Hall) as [Hyt|Hyi].
    + rewrite (target_unique y b Hyt Et), Nat.eqb_refl. reflexivity.
    + rewrite Hyi. apply orb_true_r.
Qed.

Definition Inv (done : list nat) (s : pstate) : Prop :=
  map fst (ps_log s) = done /\ av_inv cfg B s
  /\ check_log cfg start maze [] (ps_log s) = true
  /\ (c_noov cfg = true -> alone_b (ps_log s) = true).

Definition valid (a : nat) : Prop :=
  av_get (enc cfg a) B <> None
  /\ (forall q, prescribed cfg start a = Some q -> in_grid cfg q = true).

Definition fail_ok (k : rkind) (a : nat) (s : pstate) : Prop :=
  match k with
  | RReject => exists q, prescribed cfg start a = Some q /\ grid_query cfg (ps_log s) a q = false
  | RRuntime => prescribed cfg start a = None
                /\ spec_avail cfg maze (ps_log s) (enc cfg a) = []
  | RBad => True
  | _ => False
  end.

Lemma may_share_of_query : forall log a p, grid_query cfg log a p = true ->
  forallb (fun bq => implb (cell_eqb (snd bq) p) (may_share cfg a (fst bq))) log = true.
Proof.
  intros log a p Hq. apply forallb_forall. intros bq Hbq.
  destruct (cell_eqb (snd bq) p) eqn:E; [|reflexivity]. cbn [implb].
  apply cell_eqb_eq in E. pose proof (proj1 (grid_query_spec cfg log a p) Hq bq Hbq E) as H1.
  unfold may_share. rewrite H1. rewrite Hsym in H1. rewrite H1. reflexivity.
Qed.

(* placing an agent on its prescribed cell *)
Lemma step_presc : forall a q done s,
  prescribed cfg start a = Some q -> in_grid cfg q = true -> Inv done s ->
  (forall bq, In bq (ps_log s) -> prescribed cfg start (fst bq) <> None) ->
  match place_at cfg a q s with
  | POk s' => Inv (done ++ [a]) s'
  | PErr k s' => s' = s /\ fail_ok k a s
  end.
Proof.
  intros a q done s Hp Hg [Hd [Hav [Hck Hal]]] Hall. unfold place_at.
  destruct (grid_query cfg (ps_log s) a q) eqn:Eq.
  - unfold Inv. cbn [ps_log ps_avail]. split; [|split; [|split]].
    + rewrite map_app, Hd. reflexivity.
    + apply av_inv_step; [eapply B_ok_nodup; exact HB | exact Hav].
    + rewrite check_log_app, Hck. cbn [app check_log andb]. rewrite andb_true_r.
      unfold entry_okb. cbn [fst snd]. rewrite Hg, Hp, cell_eqb_refl, (may_share_of_query _ _ _ Eq).
      reflexivity.
    + intros Hn. eapply alone_step_presc; [apply Hal; exact Hn | exact Hp | exact Hall].
  - split; [reflexivity|]. cbn [fail_ok]. exists q. split; [exact Hp | exact Eq].
Qed.

Lemma cl_sc_excl : forall e, clustered cfg e = true -> scattered cfg e = false.
Proof.
  intros e. unfold clustered, scattered. destruct (c_kind cfg) eqn:Ek; try discriminate;
    intros H; apply andb_true_iff in H; destruct H as [Hb _];
    (assert (Hd : disjoint_b cfg = true) by (apply Hdisj; congruence));
    rewrite (disjoint_spec cfg e Hd Hb); reflexivity.
Qed.

(* committing a free agent to a cell k of its list *)
Lemma free_commit : forall a done s l0 k,
  prescribed cfg start a = None -> Inv done s ->
  av_get (enc cfg a) B = Some l0 ->
  In k (filter (unblocked cfg (ps_log s) (enc cfg a)) l0) ->
  (clustered cfg (enc cfg a) = true \/ scattered cfg (enc cfg a) = true ->
   last_opt (filter (unblocked cfg (ps_log s) (enc cfg a)) l0) = Some k) ->
  exists s', place_at cfg a (unravel cfg k) s = POk s' /\ Inv (done ++ [a]) s'.
Proof.
  intros a done s l0 k Hp [Hd [Hav [Hck Hal]]] HB0 Hk Hlast.
  pose proof (HB (enc cfg a)) as HBe. rewrite HB0 in HBe.
  destruct HBe as [Hnd [Hiff [Hclu Hsca]]].
  pose proof Hk as Hk'. apply filter_In in Hk'. destruct Hk' as [Hkl Hku].
  assert (Hkc : 0 <= k < ncells cfg).
  { apply in_cells. eapply spec_init_cells. apply Hiff. exact Hkl. }
  assert (Hblk : forall bq, In bq (ps_log s) -> snd bq = unravel cfg k ->
                 c_noov cfg = false
                 /\ ov_allowed (ovl cfg) (enc cfg (fst bq)) (enc cfg a) = true).
  { intros bq Hbq Hs. unfold unblocked in Hku. apply negb_true_iff in Hku.
    pose proof (existsb_false _ _ Hku bq Hbq) as Hb. unfold blocks in Hb.
    rewrite Hs, ravel_unravel, Z.eqb_refl in Hb by exact Hcols. cbn [andb] in Hb.
    apply orb_false_iff in Hb. destruct Hb as [Hb1 Hb2]. apply negb_false_iff in Hb2. auto. }
  assert (Hq : grid_query cfg (ps_log s) a (unravel cfg k) = true).
  { apply grid_query_spec. intros bq Hbq Hs. rewrite Hsym. apply (Hblk bq Hbq Hs). }
  unfold place_at. rewrite Hq. eexists. split; [reflexivity|].
  unfold Inv. cbn [ps_log ps_avail]. split; [|split; [|split]].
  - rewrite map_app, Hd. reflexivity.
  - apply av_inv_step; [eapply B_ok_nodup; exact HB | exact Hav].
  - rewrite check_log_app, Hck. cbn [app check_log andb]. rewrite andb_true_r.
    unfold entry_okb. cbn [fst snd].
    rewrite (unravel_in_grid cfg k Hcols Hkc), (may_share_of_query _ _ _ Hq), Hp.
    rewrite ravel_unravel by exact Hcols. cbn [andb].
    assert (Hmem : memZ k (spec_avail cfg maze (ps_log s) (enc cfg a)) = true).
    { apply memZ_In. rewrite spec_avail_filter. apply filter_In. split; [apply Hiff; exact Hkl | exact Hku]. }
    rewrite Hmem. cbn [andb].
    assert (Hsub : forall y, In y (spec_avail cfg maze (ps_log s) (enc cfg a)) ->
                   In y (filter (unblocked cfg (ps_log s) (enc cfg a)) l0)).
    { intros y Hy. rewrite spec_avail_filter in Hy. apply filter_In in Hy.
      apply filter_In. split; [apply Hiff; tauto | tauto]. }
    destruct (clustered cfg (enc cfg a)) eqn:Ecl.
    + rewrite (cl_sc_excl _ Ecl). rewrite andb_true_r.
      destruct (Hclu eq_refl) as [st [Hst Hsort]]. rewrite Hst.
      apply forallb_forall. intros y Hy.
      pose proof (last_opt_sorted (far cfg st) _ k (far_total cfg st)
                    (ssorted_filter _ _ _ Hsort) (Hlast (or_introl eq_refl)) y (Hsub y Hy)) as Hle.
      exact Hle.
    + cbn [andb]. destruct (scattered cfg (enc cfg a)) eqn:Esc; [|reflexivity].
      destruct (Hsca eq_refl) as [st [Hst Hsort]]. rewrite Hst.
      apply forallb_forall. intros y Hy.
      pose proof (last_opt_sorted (near cfg st) _ k (near_total cfg st)
                    (ssorted_filter _ _ _ Hsort) (Hlast (or_intror eq_refl)) y (Hsub y Hy)) as Hle.
      exact Hle.
  - intros Hn. apply alone_step_free; [apply Hal; exact Hn | exact Hp|].
    intros bq Hbq Hs. destruct (Hblk bq Hbq Hs) as [Hno _]. congruence.
Qed.

Lemma empty_spec : forall a log l0,
  av_get (enc cfg a) B = Some l0 ->
  filter (unblocked cfg log (enc cfg a)) l0 = [] ->
  spec_avail cfg maze log (enc cfg a) = [].
Proof.
  intros a log l0 HB0 Hf. pose proof (HB (enc cfg a)) as HBe. rewrite HB0 in HBe.
  destruct HBe as [_ [Hiff _]]. rewrite spec_avail_filter. apply filter_nil_iff.
  intros y Hy. apply (proj1 (filter_nil_iff _ _) Hf). apply Hiff. exact Hy.
Qed.

Lemma random_ok : forall a done s l0 ch,
  prescribed cfg start a = None -> Inv done s ->
  av_get (enc cfg a) B = Some l0 ->
  clustered cfg (enc cfg a) = false -> scattered cfg (enc cfg a) = false ->
  match place_random cfg ch a s with
  | POk s' => Inv (done ++ [a]) s'
  | PErr k s' => s' = s /\ fail_ok k a s
  end.
Proof.
  intros a done s l0 ch Hp HI HB0 Hcl Hsc.
  assert (Hget : av_get (enc cfg a) (ps_avail s)
                 = Some (filter (unblocked cfg (ps_log s) (enc cfg a)) l0)).
  { destruct HI as [_ [Hav _]]. rewrite Hav, HB0. reflexivity. }
  unfold place_random. rewrite Hget.
  destruct (filter (unblocked cfg (ps_log s) (enc cfg a)) l0) as [|x l] eqn:Ef.
  - split; [reflexivity|]. cbn [fail_ok]. split; [exact Hp|]. eapply empty_spec; eassumption.
  - destruct (memZ ch (x :: l)) eqn:Em.
    + apply memZ_In in Em. rewrite <- Ef in Em.
      destruct (free_commit a done s l0 ch Hp HI HB0 Em) as [s' [E HI']].
      { intros [H|H]; congruence. }
      rewrite E. exact HI'.
    + split; [reflexivity | exact I].
Qed.

Lemma step_free : forall a done s,
  prescribed cfg start a = None -> valid a -> Inv done s ->
  match step a s with
  | POk s' => Inv (done ++ [a]) s'
  | PErr k s' => s' = s /\ fail_ok k a s
  end.
Proof.
  intros a done s Hp [Hv _] HI. unfold step. rewrite Hp.
  destruct (av_get (enc cfg a) B) as [l0|] eqn:HB0; [|congruence].
  assert (Hget : av_get (enc cfg a) (ps_avail s)
                 = Some (filter (unblocked cfg (ps_log s) (enc cfg a)) l0)).
  { destruct HI as [_ [Hav _]]. rewrite Hav, HB0. reflexivity. }
  assert (Hsorted : c_kind cfg <> KPlain ->
          match place_variable cfg (choice_of d a) a s with
          | POk s' => Inv (done ++ [a]) s'
          | PErr k s' => s' = s /\ fail_ok k a s
          end).
  { intros Hk. unfold place_variable.
    assert (Hsm : sorted_mode cfg (enc cfg a)
                  = clustered cfg (enc cfg a) || scattered cfg (enc cfg a)).
    { unfold sorted_mode, clustered, scattered. destruct (c_kind cfg); [congruence| |]; reflexivity. }
    destruct (sorted_mode cfg (enc cfg a)) eqn:Esm.
    - rewrite Hget.
      destruct (last_opt (filter (unblocked cfg (ps_log s) (enc cfg a)) l0)) as [k|] eqn:El.
      + destruct (free_commit a done s l0 k Hp HI HB0 (last_opt_In _ _ El)) as [s' [E HI']].
        { intros _. exact El. }
        rewrite E. exact HI'.
      + split; [reflexivity|]. cbn [fail_ok]. split; [exact Hp|].
        eapply empty_spec; [eassumption|]. apply last_opt_none. exact El.
    - symmetry in Hsm. apply orb_false_iff in Hsm. destruct Hsm as [Hcl Hsc].
      eapply random_ok; eassumption. }
  assert (Hcase : c_kind cfg = KPlain \/ c_kind cfg <> KPlain).
  { destruct (c_kind cfg); [left|right|right]; congruence. }
  destruct Hcase as [Ek|Ek].
  - rewrite Ek. eapply random_ok; try eassumption.
    + unfold clustered. rewrite Ek. reflexivity.
    + unfold scattered. rewrite Ek. reflexivity.
  - specialize (Hsorted Ek). destruct (c_kind cfg); [congruence | exact Hsorted | exact Hsorted].
Qed.

(* the handling order: prescribed agents first, then the free ones *)
Fixpoint pf_sorted (l : list nat) : Prop :=
  match l with
  | [] => True
  | x :: t => (prescribed cfg start x = None ->
               Forall (fun y => prescribed cfg start y = None) t) /\ pf_sorted t
  end.

Lemma pf_sorted_app : forall P F,
  Forall (fun y => prescribed cfg start y <> None) P ->
  Forall (fun y => prescribed cfg start y = None) F -> pf_sorted (P ++ F).
Proof.
  induction P as [|x P IH]; intros F HP HF; cbn [app].
  - induction F as [|y F IHF]; cbn [pf_sorted]; [exact I|].
    inversion HF; subst. split; [intros _; assumption | apply IHF; assumption].
  - inversion HP; subst. cbn [pf_sorted]. split; [intros Hx; congruence | apply IH; assumption].
Qed.

Lemma run_all : forall todo done s,
  pf_sorted todo ->
  (Forall (fun y => prescribed cfg start y <> None) done
   \/ Forall (fun y => prescribed cfg start y = None) todo) ->
  Forall valid todo -> Inv done s ->
  match place_all step todo s with
  | POk s' => Inv (done ++ todo) s'
  | PErr k s' => exists d1 a d2, todo = d1 ++ a :: d2 /\ Inv (done ++ d1) s' /\ fail_ok k a s'
  end.
Proof.
  induction todo as [|a todo IH]; intros done s Hpf Hdone Hval HI; cbn [place_all].
  - rewrite app_nil_r. exact HI.
  - destruct Hpf as [Hpa Hpf]. inversion Hval as [|? ? Hva Hvt]; subst.
    assert (Hstep : match step a s with
                    | POk s' => Inv (done ++ [a]) s'
                    | PErr k s' => s' = s /\ fail_ok k a s
                    end).
    { destruct (prescribed cfg start a) as [q|] eqn:Ep.
      - assert (Hd : Forall (fun y => prescribed cfg start y <> None) done).
        { destruct Hdone as [Hd|Hd]; [exact Hd|]. inversion Hd; subst. congruence. }
        unfold step. rewrite Ep. apply step_presc; [exact Ep | apply (proj2 Hva); exact Ep | exact HI|].
        intros bq Hbq. destruct HI as [Hm _]. rewrite Forall_forall in Hd. apply Hd.
        rewrite <- Hm. apply in_map. exact Hbq.
      - apply step_free; assumption. }
    destruct (step a s) as [s1|k s1] eqn:Es.
    + specialize (IH (done ++ [a]) s1 Hpf).
      rewrite <- app_assoc in IH. cbn [app] in IH.
      assert (Hd' : Forall (fun y => prescribed cfg start y <> None) (done ++ [a])
                    \/ Forall (fun y => prescribed cfg start y = None) todo).
      { destruct (prescribed cfg start a) as [q|] eqn:Ep.
        - left. apply Forall_app. split.
          + destruct Hdone as [Hd|Hd]; [exact Hd|]. inversion Hd; subst. congruence.
          + constructor; [congruence | constructor].
        - right. apply Hpa. reflexivity. }
      specialize (IH Hd' Hvt Hstep).
      destruct (place_all step todo s1) as [s2|k s2]; [exact IH|].
      destruct IH as [d1 [b [d2 [Ht [HI2 Hf]]]]].
      exists (a :: d1), b, d2. split; [cbn [app]; rewrite Ht; reflexivity|].
      split; [|exact Hf]. rewrite <- app_assoc in HI2. exact HI2.
    + destruct Hstep as [Hs Hf]. subst s1. exists [], a, todo.
      split; [reflexivity|]. rewrite app_nil_r. split; [exact HI | exact Hf].
Qed.

End Run.

(* ------------------------------------------------------------------ the code's three loops = one pass over seq_of *)
Lemma place_all_app : forall f l1 l2 s,
  place_all f (l1 ++ l2) s
  = match place_all f l1 s with POk s' => place_all f l2 s' | e => e end.
Proof.
  intros f. induction l1 as [|a l1 IH]; intros l2 s; cbn [app place_all]; [reflexivity|].
  destruct (f a s); [apply IH | reflexivity].
Qed.

Lemma place_all_filter : forall f g (c : nat -> bool) l s,
  (forall a s, c a = false -> f a s = POk s) ->
  (forall a s, c a = true -> f a s = g a s) ->
  place_all f l s = place_all g (filter c l) s.
Proof.
  intros f g c. induction l as [|a l IH]; intros s Hskip Heq; cbn [filter place_all]; [reflexivity|].
  destruct (c a) eqn:Ec.
  - cbn [place_all]. rewrite (Heq a s Ec). destruct (g a s); [apply IH; assumption | reflexivity].
  - rewrite (Hskip a s Ec). apply IH; assumption.
Qed.

Lemma is_target_plain : forall cfg a, c_kind cfg = KPlain -> is_target cfg a = false.
Proof. intros cfg a H. unfold is_target. rewrite H. reflexivity. Qed.

Lemma phases_plain : forall cfg d order s0, c_kind cfg = KPlain ->
  match place_all (fun a s => match a_init (agent_of cfg a) with
                              | Some p => place_at cfg a p s
                              | None => POk s end) order s0 with
  | POk s1 =>
      place_all (fun a s => match a_init (agent_of cfg a) with
                            | None => place_random cfg (choice_of d a) a s
                            | Some _ => POk s end) order s1
  | e => e
  end
  = place_all (step cfg None d) (seq_of cfg order) s0.
Proof.
  intros cfg d order s0 Hk. unfold seq_of. rewrite Hk. cbn [app]. rewrite place_all_app.
  rewrite (place_all_filter _ (step cfg None d)
             (fun a => negb (is_target cfg a) && has_init cfg a) order s0).
  - destruct (place_all (step cfg None d) _ s0) as [s1|k s1]; [|reflexivity].
    apply (place_all_filter _ (step cfg None d)
             (fun a => negb (is_target cfg a) && negb (has_init cfg a))).
    + intros a s Hc. rewrite is_target_plain in Hc by exact Hk. cbn [negb andb] in Hc.
      unfold has_init in Hc. destruct (a_init (agent_of cfg a)); [reflexivity|discriminate].
    + intros a s Hc. rewrite is_target_plain in Hc by exact Hk. cbn [negb andb] in Hc.
      unfold step, prescribed. rewrite is_target_plain by exact Hk. rewrite Hk.
      unfold has_init in Hc. destruct (a_init (agent_of cfg a)); [discriminate|reflexivity].
  - intros a s Hc. rewrite is_target_plain in Hc by exact Hk. cbn [negb andb] in Hc.
    unfold has_init in Hc. destruct (a_init (agent_of cfg a)); [discriminate|reflexivity].
  - intros a s Hc. rewrite is_target_plain in Hc by exact Hk. cbn [negb andb] in Hc.
    unfold step, prescribed. rewrite is_target_plain by exact Hk.
    unfold has_init in Hc. destruct (a_init (agent_of cfg a)); [reflexivity|discriminate].
Qed.

Lemma is_target_eqb : forall cfg a, c_kind cfg <> KPlain ->
  is_target cfg a = Nat.eqb a (c_target cfg).
Proof. intros cfg a H. unfold is_target. destruct (c_kind cfg); [congruence| |]; reflexivity. Qed.

Lemma phases_target : forall cfg d order st av, c_kind cfg <> KPlain ->
  place_target_based cfg order d st av
  = place_all (step cfg (Some st) d) (seq_of cfg order) (mkPs [] av).
Proof.
  intros cfg d order st av Hk. unfold place_target_based, seq_of.
  assert (Hhead : (match c_kind cfg with KPlain => [] | _ => [c_target cfg] end) = [c_target cfg]).
  { destruct (c_kind cfg); [congruence| |]; reflexivity. }
  rewrite Hhead. cbn [app place_all].
  assert (Hst : step cfg (Some st) d (c_target cfg) (mkPs [] av)
                = place_at cfg (c_target cfg) st (mkPs [] av)).
  { unfold step, prescribed. rewrite is_target_eqb by exact Hk. rewrite Nat.eqb_refl. reflexivity. }
  rewrite Hst. destruct (place_at cfg (c_target cfg) st (mkPs [] av)) as [s1|k s1]; [|reflexivity].
  rewrite place_all_app.
  rewrite (place_all_filter _ (step cfg (Some st) d)
             (fun a => negb (is_target cfg a) && has_init cfg a) order s1).
  - destruct (place_all (step cfg (Some st) d) _ s1) as [s2|k s2]; [|reflexivity].
    apply (place_all_filter _ (step cfg (Some st) d)
             (fun a => negb (is_target cfg a) && negb (has_init cfg a))).
    + intros a s Hc. rewrite is_target_eqb in Hc by exact Hk.
      destruct (Nat.eqb a (c_target cfg)); [reflexivity|]. cbn [negb andb] in Hc.
      unfold has_init in Hc. destruct (a_init (agent_of cfg a)); [reflexivity|discriminate].
    + intros a s Hc. pose proof Hc as Hc'. rewrite is_target_eqb in Hc by exact Hk.
      unfold step, prescribed. rewrite is_target_eqb by exact Hk.
      destruct (Nat.eqb a (c_target cfg)); [discriminate|]. cbn [negb andb] in Hc.
      unfold has_init in Hc. destruct (a_init (agent_of cfg a)); [discriminate|].
      destruct (c_kind cfg); [congruence| |]; reflexivity.
  - intros a s Hc. rewrite is_target_eqb in Hc by exact Hk.
    destruct (Nat.eqb a (c_target cfg)); [reflexivity|]. cbn [negb andb] in Hc.
    unfold has_init in Hc. destruct (a_init (agent_of cfg a)); [discriminate|reflexivity].
  - intros a s Hc. rewrite is_target_eqb in Hc by exact Hk.
    unfold step, prescribed. rewrite is_target_eqb by exact Hk.
    destruct (Nat.eqb a (c_target cfg)); [discriminate|]. cbn [negb andb] in Hc.
    unfold has_init in Hc. destruct (a_init (agent_of cfg a)); [reflexivity|discriminate].
Qed.

(* ------------------------------------------------------------------ configuration facts *)
Definition order_ok (cfg : config) (order : list nat) : Prop :=
  NoDup order /\ forall a, In a order <-> (a < length (c_agents cfg))%nat.

Lemma perm_b_spec : forall l1 l2, perm_b l1 l2 = true -> NoDup l2 ->
  NoDup l1 /\ (forall a, In a l1 <-> In a l2).
Proof.
  intros l1 l2 H Hnd. unfold perm_b in H. apply andb_true_iff in H. destruct H as [H H3].
  apply andb_true_iff in H. destruct H as [H1 H2]. apply Nat.eqb_eq in H1.
  apply nodupN_NoDup in H2. rewrite forallb_forall in H3.
  assert (Hincl : incl l1 l2) by (intros x Hx; apply memN_In; apply H3; exact Hx).
  split; [exact H2|]. intros a. split; [apply Hincl|].
  apply (NoDup_length_incl H2); [lia | exact Hincl].
Qed.

Lemma order_okb_ok : forall cfg order, order_okb cfg order = true -> order_ok cfg order.
Proof.
  intros cfg order H. unfold order_okb in H.
  destruct (perm_b_spec _ _ H (seq_NoDup _ _)) as [Hnd Hiff].
  split; [exact Hnd|]. intros a. rewrite Hiff, in_seq. lia.
Qed.

Lemma order_ok_perm : forall cfg order order', order_ok cfg order ->
  perm_b order' order = true -> order_ok cfg order'.
Proof.
  intros cfg order order' [Hnd Hiff] Hp. destruct (perm_b_spec _ _ Hp Hnd) as [Hnd' Hiff'].
  split; [exact Hnd'|]. intros a. rewrite Hiff'. apply Hiff.
Qed.

Lemma wf_parts : forall cfg, wf_config cfg = true ->
  0 < c_rows cfg /\ 0 < c_cols cfg
  /\ (forall ag, In ag (c_agents cfg) ->
        1 <= a_enc ag /\ (forall p, a_init ag = Some p -> in_grid cfg p = true))
  /\ NoDup (map fst (c_ovraw cfg))
  /\ (c_kind cfg <> KPlain ->
      (c_target cfg < length (c_agents cfg))%nat /\ disjoint_b cfg = true).
Proof.
  intros cfg H. unfold wf_config in H.
  repeat (apply andb_true_iff in H; destruct H as [H ?]).
  split; [lia|]. split; [lia|]. split; [|split].
  - intros ag Hag. rewrite forallb_forall in H2. specialize (H2 ag Hag).
    apply andb_true_iff in H2. destruct H2 as [He Hi]. split; [lia|].
    intros p Hp. rewrite Hp in Hi. exact Hi.
  - apply nodupZ_NoDup. assumption.
  - intros Hk. destruct (c_kind cfg); [congruence| |];
      apply andb_true_iff in H0; destruct H0 as [Ht Hd]; apply Nat.ltb_lt in Ht;
      (split; [exact Ht | exact Hd]).
Qed.

Lemma agent_of_In : forall cfg a, (a < length (c_agents cfg))%nat ->
  In (agent_of cfg a) (c_agents cfg).
Proof. intros. unfold agent_of. apply nth_In. assumption. Qed.

Lemma seq_of_In : forall cfg order a, order_ok cfg order ->
  (c_kind cfg <> KPlain -> (c_target cfg < length (c_agents cfg))%nat) ->
  (In a (seq_of cfg order) <-> (a < length (c_agents cfg))%nat).
Proof.
  intros cfg order a [Hnd Hiff] Ht. unfold seq_of. rewrite !in_app_iff, !filter_In, !Hiff.
  split.
  - intros [H|[H|H]]; [|tauto|tauto].
    destruct (c_kind cfg); [destruct H| |]; destruct H as [H|[]]; subst; apply Ht; congruence.
  - intros Ha. destruct (is_target cfg a) eqn:Et.
    + left. unfold is_target in Et. destruct (c_kind cfg); [discriminate| |];
        apply Nat.eqb_eq in Et; left; congruence.
    + right. cbn [negb andb]. destruct (has_init cfg a); [left|right]; auto.
Qed.

Lemma NoDup_app_intro : forall {X} (l1 l2 : list X), NoDup l1 -> NoDup l2 ->
  (forall x, In x l1 -> In x l2 -> False) -> NoDup (l1 ++ l2).
Proof.
  intros X. induction l1 as [|x l1 IH]; intros l2 H1 H2 Hd; cbn [app]; [exact H2|].
  inversion H1 as [|? ? Hn Hd1]; subst. constructor.
  - intros Hin. apply in_app_iff in Hin. destruct Hin as [Hin|Hin]; [contradiction|].
    apply (Hd x); [left; reflexivity | exact Hin].
  - apply IH; [exact Hd1 | exact H2|]. intros y Hy1 Hy2. apply (Hd y); [right; exact Hy1 | exact Hy2].
Qed.

Lemma seq_of_NoDup : forall cfg order, order_ok cfg order -> NoDup (seq_of cfg order).
Proof.
  intros cfg order [Hnd Hiff]. unfold seq_of.
  assert (H2 : NoDup (filter (fun a => negb (is_target cfg a) && has_init cfg a) order
                      ++ filter (fun a => negb (is_target cfg a) && negb (has_init cfg a)) order)).
  { apply NoDup_app_intro; try (apply NoDup_filter'; exact Hnd).
    intros x H1 H2. apply filter_In in H1. apply filter_In in H2.
    destruct H1 as [_ H1]. destruct H2 as [_ H2].
    destruct (is_target cfg x), (has_init cfg x); discriminate. }
  destruct (c_kind cfg) eqn:Ek; cbn [app]; [exact H2| |];
    (constructor; [|exact H2]; intros Hin; apply in_app_iff in Hin;
     destruct Hin as [Hin|Hin]; apply filter_In in Hin; destruct Hin as [_ Hin];
     unfold is_target in Hin; rewrite Ek, Nat.eqb_refl in Hin; discriminate).
Qed.

Lemma seq_of_pf : forall cfg order start,
  (c_kind cfg <> KPlain -> start <> None) -> pf_sorted cfg start (seq_of cfg order).
Proof.
  intros cfg order start Hst. unfold seq_of. rewrite app_assoc. apply pf_sorted_app.
  - apply Forall_app. split.
    + destruct (c_kind cfg) eqn:Ek; [constructor| |];
        (constructor; [|constructor]; unfold prescribed, is_target; rewrite Ek, Nat.eqb_refl;
         apply Hst; congruence).
    + apply Forall_forall. intros a Ha. apply filter_In in Ha. destruct Ha as [_ Ha].
      apply andb_true_iff in Ha. destruct Ha as [H1 H2]. apply negb_true_iff in H1.
      unfold prescribed. rewrite H1. unfold has_init in H2.
      destruct (a_init (agent_of cfg a)); [congruence|discriminate].
  - apply Forall_forall. intros a Ha. apply filter_In in Ha. destruct Ha as [_ Ha].
    apply andb_true_iff in Ha. destruct Ha as [H1 H2]. apply negb_true_iff in H1.
    apply negb_true_iff in H2. unfold prescribed. rewrite H1. unfold has_init in H2.
    destruct (a_init (agent_of cfg a)); [discriminate|reflexivity].
Qed.

Lemma valid_all : forall cfg order start B, wf_config cfg = true -> order_ok cfg order ->
  (forall a, (a < length (c_agents cfg))%nat -> av_get (enc cfg a) B <> None) ->
  (forall st, start = Some st -> in_grid cfg st = true) ->
  Forall (valid cfg start B) (seq_of cfg order).
Proof.
  intros cfg order start B Hwf Hord Hkey Hst. apply Forall_forall. intros a Ha.
  destruct (wf_parts cfg Hwf) as [_ [_ [Hag [_ Ht]]]].
  apply (seq_of_In cfg order a Hord) in Ha; [|intros Hk; apply (Ht Hk)].
  split; [apply Hkey; exact Ha|]. intros q Hq. unfold prescribed in Hq.
  destruct (is_target cfg a); [apply Hst; exact Hq|].
  apply (proj2 (Hag _ (agent_of_In cfg a Ha))). exact Hq.
Qed.

Lemma firstn_exact : forall {X} (l1 l2 : list X), firstn (length l1) (l1 ++ l2) = l1.
Proof. intros X. induction l1 as [|x l1 IH]; intros l2; cbn; [reflexivity|]. f_equal. apply IH. Qed.

Lemma nth_error_middle : forall {X} (l1 : list X) a l2, nth_error (l1 ++ a :: l2) (length l1) = Some a.
Proof. intros X. induction l1 as [|x l1 IH]; intros a l2; cbn; [reflexivity|]. apply IH. Qed.

Lemma count_one : forall a l, NoDup l -> In a l -> length (filter (Nat.eqb a) l) = 1%nat.
Proof.
  intros a. induction l as [|x l IH]; intros Hnd Hin; [destruct Hin|].
  inversion Hnd as [|? ? Hn Hd]; subst. cbn [filter]. destruct (Nat.eqb a x) eqn:E.
  - apply Nat.eqb_eq in E. subst x. cbn [length]. f_equal.
    assert (Hf : filter (Nat.eqb a) l = []).
    { apply filter_nil_iff. intros y Hy. apply Nat.eqb_neq. intros Heq. subst. contradiction. }
    rewrite Hf. reflexivity.
  - apply Nat.eqb_neq in E. destruct Hin as [Hin|Hin]; [congruence|]. apply IH; assumption.
Qed.

Lemma run_clauses : forall cfg d order' mz B,
  wf_config cfg = true -> order_ok cfg order' ->
  B_ok cfg (spec_start cfg d) mz B ->
  (forall a, (a < length (c_agents cfg))%nat -> av_get (enc cfg a) B <> None) ->
  (c_kind cfg <> KPlain -> exists st, spec_start cfg d = Some st /\ in_grid cfg st = true) ->
  (c_kind cfg = KPlain -> spec_start cfg d = None) ->
  forall res,
  res = place_all (step cfg (spec_start cfg d) d) (seq_of cfg order') (mkPs [] B) ->
  res_kind res <> RBad ->
  let o := outcome_of cfg (order', mz, res) in
  cl_trace cfg o = true /\ cl_entries cfg d o = true /\ cl_grid cfg o = true
  /\ cl_alone cfg d o = true /\ cl_kind cfg d o = true
  /\ av_inv cfg B (res_state res).
Proof.
  intros cfg d order' mz B Hwf Hord HB Hkey Hst Hpl res Hres Hnb.
  destruct (wf_parts cfg Hwf) as [Hrows [Hcols [Hag [Hnd Ht]]]].
  assert (Hsym : forall a b, ov_allowed (ovl cfg) a b = ov_allowed (ovl cfg) b a).
  { intros a b. apply ov_symmetrise_sym. exact Hnd. }
  assert (Hdisj : c_kind cfg <> KPlain -> disjoint_b cfg = true) by (intros Hk; apply (Ht Hk)).
  assert (Hpf : pf_sorted cfg (spec_start cfg d) (seq_of cfg order')).
  { apply seq_of_pf. intros Hk. destruct (Hst Hk) as [st [E _]]. congruence. }
  assert (Hval : Forall (valid cfg (spec_start cfg d) B) (seq_of cfg order')).
  { apply valid_all; try assumption. intros st E.
    destruct (c_kind cfg) eqn:Ek.
    - rewrite Hpl in E by reflexivity. discriminate.
    - destruct Hst as [st' [E' Hg]]; [congruence|]. congruence.
    - destruct Hst as [st' [E' Hg]]; [congruence|]. congruence. }
  assert (HI0 : Inv cfg (spec_start cfg d) mz B [] (mkPs [] B)).
  { split; [reflexivity|]. split; [apply av_inv_init|]. split; [reflexivity|]. intros _. reflexivity. }
  pose proof (run_all cfg (spec_start cfg d) mz B d Hcols Hsym HB Hdisj
                (seq_of cfg order') [] (mkPs [] B) Hpf (or_introl (Forall_nil _)) Hval HI0) as Hrun.
  rewrite <- Hres in Hrun. cbn [app] in Hrun.
  assert (Hseqnd : NoDup (seq_of cfg order')) by (apply seq_of_NoDup; exact Hord).
  unfold outcome_of. cbn [fst snd].
  destruct res as [s'|k s'].
  - destruct Hrun as [Hmap [Hav [Hck Hal]]]. cbn [res_state res_kind].
    assert (Hlen : length (ps_log s') = length (seq_of cfg order')).
    { rewrite <- Hmap. rewrite map_length. reflexivity. }
    split; [|split; [|split; [|split; [|split]]]].
    + unfold cl_trace. cbn [o_log o_order]. rewrite Hlen, firstn_all, Hmap. apply list_eqb_nat_refl.
    + unfold cl_entries. cbn [o_log o_maze]. exact Hck.
    + unfold cl_grid. cbn [o_log o_cells o_kind o_pos].
      rewrite list_eqb_cells_refl, list_eqb_cell_refl. cbn [andb].
      apply forallb_forall. intros a Ha. apply in_seq in Ha. apply Nat.eqb_eq.
      rewrite Hmap. apply count_one; [exact Hseqnd|].
      apply (seq_of_In cfg order' a Hord); [intros Hk; apply (Ht Hk) | lia].
    + unfold cl_alone. cbn [o_log]. destruct (c_noov cfg) eqn:En; [|reflexivity].
      exact (Hal eq_refl).
    + unfold cl_kind. cbn [o_log o_kind o_order]. apply Nat.eqb_eq. exact Hlen.
    + exact Hav.
  - destruct Hrun as [d1 [a [d2 [Hseq [[Hmap [Hav [Hck Hal]]] Hf]]]]]. cbn [res_state res_kind] in *.
    assert (Hlen : length (ps_log s') = length d1).
    { rewrite <- Hmap. rewrite map_length. reflexivity. }
    assert (Hk : k = RReject \/ k = RRuntime).
    { destruct k; cbn [fail_ok] in Hf; try contradiction; try congruence; auto. }
    split; [|split; [|split; [|split; [|split]]]].
    + unfold cl_trace. cbn [o_log o_order]. rewrite Hseq, Hlen, firstn_exact, Hmap.
      apply list_eqb_nat_refl.
    + unfold cl_entries. cbn [o_log o_maze]. exact Hck.
    + unfold cl_grid. cbn [o_log o_cells o_kind o_pos]. rewrite list_eqb_cells_refl.
      destruct Hk; subst k; reflexivity.
    + unfold cl_alone. cbn [o_log]. destruct (c_noov cfg) eqn:En; [|reflexivity].
      exact (Hal eq_refl).
    + unfold cl_kind. cbn [o_log o_kind o_order o_maze]. rewrite Hseq, Hlen, nth_error_middle.
      destruct Hk; subst k; cbn [fail_ok] in Hf.
      * destruct Hf as [q [Hp Hq]]. rewrite Hp, Hq. apply orb_true_r.
      * destruct Hf as [Hp He]. rewrite Hp, He. reflexivity.
    + exact Hav.
Qed.

(* ------------------------------------------------------------------ one reset *)
Lemma shuffled_ok : forall cfg order d order', order_ok cfg order ->
  shuffled cfg order d = Some order' ->
  order_ok cfg order'
  /\ (if c_rand cfg then list_eqb Nat.eqb order' (d_shuffle d) && perm_b order' order
      else list_eqb Nat.eqb order' order) = true.
Proof.
  intros cfg order d order' Hord H. unfold shuffled in H. destruct (c_rand cfg).
  - destruct (perm_b (d_shuffle d) order) eqn:Ep; [|discriminate]. inversion H; subst order'.
    split; [eapply order_ok_perm; eassumption|]. rewrite list_eqb_nat_refl, Ep. reflexivity.
  - inversion H; subst order'. split; [exact Hord | apply list_eqb_nat_refl].
Qed.

Lemma target_start_in_grid : forall cfg d st, wf_config cfg = true -> c_kind cfg <> KPlain ->
  target_start cfg d = Some st -> in_grid cfg st = true.
Proof.
  intros cfg d st Hwf Hk H. destruct (wf_parts cfg Hwf) as [_ [_ [Hag [_ Ht]]]].
  destruct (Ht Hk) as [Htn _]. unfold target_start in H.
  destruct (a_init (agent_of cfg (c_target cfg))) as [p|] eqn:Ei.
  - inversion H; subst. apply (proj2 (Hag _ (agent_of_In cfg _ Htn))). exact Ei.
  - destruct (d_start d) as [p|]; [|discriminate].
    destruct (in_grid cfg p) eqn:Eg; [|discriminate]. inversion H; subst. exact Eg.
Qed.

Lemma keys_plain : forall cfg a, wf_config cfg = true -> (a < length (c_agents cfg))%nat ->
  av_get (enc cfg a) (build_plain cfg) <> None.
Proof.
  intros cfg a Hwf Ha. destruct (wf_parts cfg Hwf) as [_ [_ [Hag _]]].
  pose proof (agent_of_In cfg a Ha) as Hin. destruct (Hag _ Hin) as [He _].
  pose proof (max_enc_ge cfg _ Hin) as Hm. rewrite av_get_build_plain. unfold enc.
  assert (H : (1 <=? a_enc (agent_of cfg a)) && (a_enc (agent_of cfg a) <=? max_enc cfg) = true) by lia.
  rewrite H. discriminate.
Qed.

Lemma keys_from : forall cfg order st bl fl a, order_ok cfg order -> cover_b cfg order = true ->
  (a < length (c_agents cfg))%nat -> av_get (enc cfg a) (build_from cfg st bl fl) <> None.
Proof.
  intros cfg order st bl fl a [_ Hiff] Hc Ha. unfold cover_b in Hc. rewrite forallb_forall in Hc.
  specialize (Hc a (proj2 (Hiff a) Ha)). rewrite memZ_app in Hc. rewrite av_get_build_from.
  destruct (memZ (enc cfg a) (c_free cfg)); [discriminate|].
  destruct (memZ (enc cfg a) (c_barrier cfg)); [discriminate|discriminate].
Qed.

Definition avail_spec (cfg : config) (mz : option mgrid) (s : pstate) : Prop :=
  forall e l, av_get e (ps_avail s) = Some l ->
              forall k, In k l <-> In k (spec_avail cfg mz (ps_log s) e).

Lemma av_inv_spec : forall cfg start mz B s, B_ok cfg start mz B -> av_inv cfg B s ->
  avail_spec cfg mz s.
Proof.
  intros cfg start mz B s HB Hav e l Hl k. rewrite Hav in Hl. pose proof (HB e) as HBe.
  destruct (av_get e B) as [l0|]; [|discriminate]. cbn [option_map] in Hl. inversion Hl; subst l.
  destruct HBe as [_ [Hiff _]]. rewrite spec_avail_filter, !filter_In, Hiff. reflexivity.
Qed.

Lemma avail_spec_nil : forall cfg mz, avail_spec cfg mz (mkPs [] []).
Proof. intros cfg mz e l H. cbn in H. discriminate. Qed.

Definition reset_good (cfg : config) (order : list nat) (d : draws)
           (r : list nat * option mgrid * pres) : Prop :=
  chk_reset cfg order d (outcome_of cfg r) = true
  /\ order_ok cfg (fst (fst r))
  /\ avail_spec cfg (snd (fst r)) (res_state (snd r)).

Lemma all_clauses : forall cfg order d o,
  covered cfg o = true -> cl_order cfg order d o = true -> cl_cover cfg d o = true ->
  cl_maze cfg d o = true ->
  cl_trace cfg o = true /\ cl_entries cfg d o = true /\ cl_grid cfg o = true
  /\ cl_alone cfg d o = true /\ cl_kind cfg d o = true ->
  chk_reset cfg order d o = true.
Proof.
  intros cfg order d o Hc H1 H2 H3 [H4 [H5 [H6 [H7 H8]]]]. unfold chk_reset, clauses.
  rewrite Hc. cbn [forallb]. rewrite H1, H2, H3, H4, H5, H6, H7, H8. reflexivity.
Qed.

Lemma reset_plain_good : forall cfg order d, wf_config cfg = true -> order_ok cfg order ->
  c_kind cfg = KPlain ->
  let r := reset cfg order d in
  res_kind (snd r) <> RBad -> reset_good cfg order d r.
Proof.
  intros cfg order d Hwf Hord Hk. unfold reset. rewrite Hk. unfold reset_plain.
  destruct (shuffled cfg order d) as [order'|] eqn:Es; cbn [fst snd]; [|cbn; congruence].
  destruct (shuffled_ok cfg order d order' Hord Es) as [Hord' Hclo].
  rewrite (phases_plain cfg d order' _ Hk).
  assert (Hss : spec_start cfg d = None) by (unfold spec_start; rewrite Hk; reflexivity).
  rewrite <- Hss. intros Hnb.
  pose proof (run_clauses cfg d order' None (build_plain cfg) Hwf Hord'
                (B_ok_plain cfg _ _ Hk) (fun a Ha => keys_plain cfg a Hwf Ha)) as Hrc.
  specialize (Hrc (fun H => False_ind _ (H Hk)) (fun _ => Hss) _ eq_refl Hnb).
  cbn zeta in Hrc.
  split; [|split].
  - apply all_clauses.
    + unfold covered. rewrite Hk. reflexivity.
    + unfold cl_order, outcome_of. cbn [fst snd o_order]. exact Hclo.
    + unfold cl_cover, covered. rewrite Hk. reflexivity.
    + unfold cl_maze, outcome_of. cbn [fst snd o_maze]. rewrite Hk. reflexivity.
    + tauto.
  - exact Hord'.
  - eapply av_inv_spec; [apply (B_ok_plain cfg (spec_start cfg d) None Hk) | tauto].
Qed.

Lemma uncovered_good : forall cfg order d order', c_kind cfg <> KPlain ->
  order_ok cfg order ->
  shuffled cfg order d = Some order' -> cover_b cfg order' = false ->
  reset_good cfg order d (order', None, PErr RReject (mkPs [] [])).
Proof.
  intros cfg order d order' Hk Hord Es Hc.
  destruct (shuffled_ok cfg order d order' Hord Es) as [Hord' Hclo].
  assert (Hcov : covered cfg (outcome_of cfg (order', None, PErr RReject (mkPs [] []))) = false).
  { unfold covered, outcome_of. cbn [fst snd o_order]. destruct (c_kind cfg); [congruence| |]; exact Hc. }
  split; [|split].
  - unfold chk_reset. rewrite Hcov.
    assert (H1 : cl_order cfg order d (outcome_of cfg (order', None, PErr RReject (mkPs [] []))) = true).
    { unfold cl_order, outcome_of. cbn [fst snd o_order]. exact Hclo. }
    assert (H2 : cl_cover cfg d (outcome_of cfg (order', None, PErr RReject (mkPs [] []))) = true).
    { unfold cl_cover. rewrite Hcov. reflexivity. }
    assert (H3 : cl_grid cfg (outcome_of cfg (order', None, PErr RReject (mkPs [] []))) = true).
    { unfold cl_grid, outcome_of. cbn [fst snd o_cells o_log o_kind res_state res_kind ps_log].
      rewrite list_eqb_cells_refl. reflexivity. }
    rewrite H1, H2, H3. reflexivity.
  - exact Hord'.
  - apply avail_spec_nil.
Qed.

Lemma target_based_good : forall cfg order d order' st mz B,
  wf_config cfg = true -> c_kind cfg <> KPlain -> order_ok cfg order ->
  shuffled cfg order d = Some order' -> cover_b cfg order' = true ->
  target_start cfg d = Some st ->
  B_ok cfg (Some st) mz B ->
  (forall a, (a < length (c_agents cfg))%nat -> av_get (enc cfg a) B <> None) ->
  cl_maze cfg d (outcome_of cfg (order', mz, place_target_based cfg order' d st B)) = true ->
  res_kind (place_target_based cfg order' d st B) <> RBad ->
  reset_good cfg order d (order', mz, place_target_based cfg order' d st B).
Proof.
  intros cfg order d order' st mz B Hwf Hk Hord Es Hc Hst HB Hkey Hmz Hnb.
  destruct (shuffled_ok cfg order d order' Hord Es) as [Hord' Hclo].
  assert (Hss : spec_start cfg d = Some st).
  { unfold spec_start. destruct (c_kind cfg); [congruence| |]; exact Hst. }
  assert (Hg : in_grid cfg st = true) by (eapply target_start_in_grid; eassumption).
  rewrite (phases_target cfg d order' st B Hk) in Hmz, Hnb |- *.
  rewrite <- Hss in Hmz, Hnb, HB |- *.
  pose proof (run_clauses cfg d order' mz B Hwf Hord' HB Hkey) as Hrc.
  specialize (Hrc (fun _ => ex_intro _ st (conj Hss Hg)) (fun H => False_ind _ (Hk H)) _ eq_refl Hnb).
  cbn zeta in Hrc.
  assert (Hcov : covered cfg (outcome_of cfg (order', mz,
                   place_all (step cfg (spec_start cfg d) d) (seq_of cfg order') (mkPs [] B))) = true).
  { unfold covered, outcome_of. cbn [fst snd o_order]. destruct (c_kind cfg); [congruence| |]; exact Hc. }
  split; [|split].
  - apply all_clauses.
    + exact Hcov.
    + unfold cl_order, outcome_of. cbn [fst snd o_order]. exact Hclo.
    + unfold cl_cover. rewrite Hcov, Hss. destruct (c_kind cfg); reflexivity.
    + exact Hmz.
    + tauto.
  - exact Hord'.
  - eapply av_inv_spec; [exact HB | tauto].
Qed.

Lemma reset_target_good : forall cfg order d, wf_config cfg = true -> order_ok cfg order ->
  c_kind cfg = KTarget ->
  let r := reset cfg order d in
  res_kind (snd r) <> RBad -> reset_good cfg order d r.
Proof.
  intros cfg order d Hwf Hord Hk. unfold reset. rewrite Hk. unfold reset_target.
  assert (Hk' : c_kind cfg <> KPlain) by congruence.
  destruct (wf_parts cfg Hwf) as [_ [_ [_ [_ Ht]]]]. destruct (Ht Hk') as [_ Hdj].
  destruct (shuffled cfg order d) as [order'|] eqn:Es; cbn [fst snd]; [|cbn; congruence].
  destruct (cover_b cfg order') eqn:Ec; cbn [negb].
  - destruct (target_start cfg d) as [st|] eqn:Est; cbn [fst snd]; [|cbn; congruence].
    intros Hnb.
    assert (Hss : spec_start cfg d = Some st) by (unfold spec_start; rewrite Hk; exact Est).
    destruct (shuffled_ok cfg order d order' Hord Es) as [Hord' _].
    apply target_based_good; try assumption.
    + apply B_ok_target; assumption.
    + intros a Ha. unfold build_target. eapply keys_from; eassumption.
    + unfold cl_maze, outcome_of. cbn [fst snd o_maze]. rewrite Hk. reflexivity.
  - intros _. apply uncovered_good; assumption.
Qed.

Lemma reset_maze_good : forall cfg order d, wf_config cfg = true -> order_ok cfg order ->
  c_kind cfg = KMaze ->
  let r := reset cfg order d in
  res_kind (snd r) <> RBad -> reset_good cfg order d r.
Proof.
  intros cfg order d Hwf Hord Hk. unfold reset. rewrite Hk. unfold reset_maze.
  assert (Hk' : c_kind cfg <> KPlain) by congruence.
  destruct (wf_parts cfg Hwf) as [Hrows [Hcols [_ [_ Ht]]]]. destruct (Ht Hk') as [_ Hdj].
  destruct (shuffled cfg order d) as [order'|] eqn:Es; cbn [fst snd]; [|cbn; congruence].
  destruct (cover_b cfg order') eqn:Ec; cbn [negb].
  - destruct (target_start cfg d) as [st|] eqn:Est; cbn [fst snd]; [|cbn; congruence].
    pose proof (target_start_in_grid cfg d st Hwf Hk' Est) as Hg. apply in_grid_spec in Hg.
    destruct (generate_maze (c_rows cfg) (c_cols cfg) st (d_maze d)) as [m| |] eqn:Em;
      cbn [fst snd].
    + intros Hnb.
      assert (Hss : spec_start cfg d = Some st) by (unfold spec_start; rewrite Hk; exact Est).
      destruct (shuffled_ok cfg order d order' Hord Es) as [Hord' _].
      destruct (generate_maze_chk _ _ _ _ _ Hrows Hcols (proj1 Hg) (proj2 Hg) Em) as [Hsh Hcn].
      apply target_based_good; try assumption.
      * apply B_ok_maze; assumption.
      * intros a Ha. unfold build_maze. eapply keys_from; eassumption.
      * unfold cl_maze, covered, outcome_of. cbn [fst snd o_maze o_order]. rewrite Hk, Ec, Hss, Hsh, Hcn.
        reflexivity.
    + exfalso. eapply generate_maze_terminates; [exact Hrows | exact Hcols | exact Em].
    + cbn. congruence.
  - intros _. apply uncovered_good; assumption.
Qed.

Lemma reset_good_all : forall cfg order d, wf_config cfg = true -> order_ok cfg order ->
  res_kind (snd (reset cfg order d)) <> RBad -> reset_good cfg order d (reset cfg order d).
Proof.
  intros cfg order d Hwf Hord Hnb. destruct (c_kind cfg) eqn:Ek.
  - apply reset_plain_good; assumption.
  - apply reset_target_good; assumption.
  - apply reset_maze_good; assumption.
Qed.

(* ------------------------------------------------------------------ repeated resets *)
Definition admissible (os : list outcome) : Prop := Forall (fun o => o_kind o <> RBad) os.

Lemma chk_C13_model : forall cfg ds order, wf_config cfg = true -> order_ok cfg order ->
  admissible (run_resets cfg order ds) ->
  chk_C13 cfg order ds (run_resets cfg order ds) = true.
Proof.
  intros cfg. induction ds as [|d ds IH]; intros order Hwf Hord Hadm; cbn [run_resets chk_C13];
    [reflexivity|].
  cbn [run_resets] in Hadm. inversion Hadm as [|? ? Hk Hrest]; subst.
  destruct (reset_good_all cfg order d Hwf Hord) as [Hc [Hord' _]].
  { exact Hk. }
  rewrite Hc. cbn [andb]. apply IH; assumption.
Qed.

(* ------------------------------------------------------------------ what an accepted outcome means *)
Lemma chk_reset_clauses : forall cfg order d o, chk_reset cfg order d o = true ->
  covered cfg o = true ->
  cl_order cfg order d o = true /\ cl_cover cfg d o = true /\ cl_maze cfg d o = true
  /\ cl_trace cfg o = true /\ cl_entries cfg d o = true /\ cl_grid cfg o = true
  /\ cl_alone cfg d o = true /\ cl_kind cfg d o = true.
Proof.
  intros cfg order d o H Hc. unfold chk_reset in H. rewrite Hc in H. unfold clauses in H.
  cbn [forallb] in H. repeat (apply andb_true_iff in H; destruct H as [? H]). tauto.
Qed.

Lemma check_log_split : forall cfg st mz rest pre0 r1 ap r2,
  check_log cfg st mz pre0 rest = true -> rest = r1 ++ ap :: r2 ->
  entry_okb cfg st mz (pre0 ++ r1) ap = true.
Proof.
  intros cfg st mz rest pre0 r1 ap r2 H E. subst rest. rewrite check_log_app in H.
  apply andb_true_iff in H. destruct H as [_ H]. cbn [check_log] in H.
  apply andb_true_iff in H. tauto.
Qed.

Lemma entry_okb_spec : forall cfg st mz pre a p,
  entry_okb cfg st mz pre (a, p) = true ->
  in_grid cfg p = true
  /\ (forall b, In (b, p) pre -> may_share cfg a b = true)
  /\ match prescribed cfg st a with
     | Some q => p = q
     | None =>
         let av := spec_avail cfg mz pre (enc cfg a) in
         let dd := dist2 cfg (match st with Some s => s | None => (0, 0) end) in
         In (ravel cfg p) av
         /\ (clustered cfg (enc cfg a) = true -> forall k, In k av -> dd (ravel cfg p) <= dd k)
         /\ (scattered cfg (enc cfg a) = true -> forall k, In k av -> dd k <= dd (ravel cfg p))
     end.
Proof.
  intros cfg st mz pre a p H. unfold entry_okb in H. cbn [fst snd] in H.
  apply andb_true_iff in H. destruct H as [H H3]. apply andb_true_iff in H. destruct H as [H1 H2].
  split; [exact H1|]. split.
  - intros b Hb. rewrite forallb_forall in H2. specialize (H2 (b, p) Hb). cbn [fst snd] in H2.
    rewrite cell_eqb_refl in H2. exact H2.
  - destruct (prescribed cfg st a) as [q|]; [apply cell_eqb_eq; exact H3|].
    cbn zeta. apply andb_true_iff in H3. destruct H3 as [H3 H5].
    apply andb_true_iff in H3. destruct H3 as [H3 H4]. split; [apply memZ_In; exact H3|]. split.
    + intros Hc k Hk. rewrite Hc in H4. rewrite forallb_forall in H4. specialize (H4 k Hk). lia.
    + intros Hc k Hk. rewrite Hc in H5. rewrite forallb_forall in H5. specialize (H5 k Hk). lia.
Qed.

Lemma in_two_split : forall {X} (x y : X) l, In x l -> In y l -> x <> y ->
  (exists l1 l2 l3, l = l1 ++ x :: l2 ++ y :: l3) \/ (exists l1 l2 l3, l = l1 ++ y :: l2 ++ x :: l3).
Proof.
  intros X x y l Hx Hy Hne. apply in_split in Hx. destruct Hx as [l1 [l2 E]]. subst l.
  apply in_app_iff in Hy. destruct Hy as [Hy|[Hy|Hy]].
  - right. apply in_split in Hy. destruct Hy as [a [b E]]. subst l1.
    exists a, b, l2. rewrite <- app_assoc. reflexivity.
  - congruence.
  - left. apply in_split in Hy. destruct Hy as [a [b E]]. subst l2. exists l1, a, b. reflexivity.
Qed.

Lemma may_share_comm : forall cfg a b, may_share cfg a b = may_share cfg b a.
Proof. intros. unfold may_share. apply andb_comm. Qed.

Lemma occupants_In_iff : forall log q b, In b (occupants log q) <-> In (b, q) log.
Proof.
  intros log q b. split; [apply occupants_In|]. intros H. unfold occupants.
  apply in_map_iff. exists (b, q). split; [reflexivity|]. apply filter_In.
  split; [exact H | apply cell_eqb_refl].
Qed.

Lemma NoDup_fst_unique : forall (log : plog) a p p', NoDup (map fst log) ->
  In (a, p) log -> In (a, p') log -> p = p'.
Proof.
  induction log as [|[b q] log IH]; intros a p p' Hnd H1 H2; [destruct H1|].
  cbn [map fst] in Hnd. inversion Hnd as [|? ? Hn Hd]; subst.
  destruct H1 as [H1|H1]; destruct H2 as [H2|H2].
  - congruence.
  - inversion H1; subst. exfalso. apply Hn. apply in_map_iff. exists (a, p'). auto.
  - inversion H2; subst. exfalso. apply Hn. apply in_map_iff. exists (a, p). auto.
  - eapply IH; eassumption.
Qed.

(* the readable clauses, for ANY reported outcome the checker accepts *)
Definition legal (cfg : config) (d : draws) (o : outcome) : Prop :=
  (* placed agents stand inside the grid *)
  (forall a p, In (a, p) (o_log o) -> in_grid cfg p = true)
  (* agents with an initial position (and the target) stand on their cell *)
  /\ (forall a p q, In (a, p) (o_log o) ->
        prescribed cfg (spec_start cfg d) a = Some q -> p = q)
  (* any two agents on one cell may overlap each other *)
  /\ (forall a b p, In (a, p) (o_log o) -> In (b, p) (o_log o) -> a <> b ->
        may_share cfg a b = true)
  (* with no_overlap_at_reset a freely placed agent is alone; a randomly placed target only
     shares with agents that have an initial position *)
  /\ (c_noov cfg = true -> forall a p b, In (a, p) (o_log o) -> In (b, p) (o_log o) ->
        (prescribed cfg (spec_start cfg d) a = None -> b = a)
        /\ (is_target cfg a = true -> has_init cfg a = false -> b = a \/ has_init cfg b = true))
  (* the grid and the positions are those of the placements *)
  /\ o_cells o = cells_of cfg (o_log o)
  (* on success every agent is placed exactly once *)
  /\ (o_kind o = ROk ->
      NoDup (map fst (o_log o))
      /\ (forall a, (a < length (c_agents cfg))%nat -> exists p, In (a, p) (o_log o))
      /\ o_pos o = positions_of cfg (o_log o)).

Lemma list_eqb_cells_eq : forall l m : list (list nat),
  list_eqb (list_eqb Nat.eqb) l m = true -> l = m.
Proof.
  induction l as [|x l IH]; intros [|y m] H; cbn in H; try discriminate; [reflexivity|].
  apply andb_true_iff in H. destruct H as [H1 H2]. apply list_eqb_nat_eq in H1. subst.
  f_equal. apply IH. exact H2.
Qed.

Lemma list_eqb_cell_eq : forall l m : list cell, list_eqb cell_eqb l m = true -> l = m.
Proof.
  induction l as [|x l IH]; intros [|y m] H; cbn in H; try discriminate; [reflexivity|].
  apply andb_true_iff in H. destruct H as [H1 H2]. apply cell_eqb_eq in H1. subst.
  f_equal. apply IH. exact H2.
Qed.

Lemma count_pos_In : forall a l, length (filter (Nat.eqb a) l) = 1%nat -> In a l.
Proof.
  intros a l H. destruct (filter (Nat.eqb a) l) as [|x t] eqn:E; [discriminate|].
  assert (Hx : In x (filter (Nat.eqb a) l)) by (rewrite E; left; reflexivity).
  apply filter_In in Hx. destruct Hx as [Hx He]. apply Nat.eqb_eq in He. subst. exact Hx.
Qed.

Lemma chk_sound_legal : forall cfg order d o, wf_config cfg = true -> order_ok cfg order ->
  chk_reset cfg order d o = true -> covered cfg o = true -> legal cfg d o.
Proof.
  intros cfg order d o Hwf Hord H Hc.
  destruct (chk_reset_clauses cfg order d o H Hc) as [Ho [_ [_ [Ht [He [Hg [Ha Hk]]]]]]].
  unfold cl_entries in He.
  assert (Hent : forall a p, In (a, p) (o_log o) -> exists pre post,
            o_log o = pre ++ (a, p) :: post
            /\ entry_okb cfg (spec_start cfg d) (o_maze o) pre (a, p) = true).
  { intros a p Hin. apply in_split in Hin. destruct Hin as [pre [post E]]. exists pre, post.
    split; [exact E|]. apply (check_log_split _ _ _ _ [] pre (a, p) post He E). }
  unfold cl_grid in Hg. apply andb_true_iff in Hg. destruct Hg as [Hg1 Hg2].
  split; [|split; [|split; [|split; [|split]]]].
  - intros a p Hin. destruct (Hent a p Hin) as [pre [post [_ E]]].
    apply entry_okb_spec in E. tauto.
  - intros a p q Hin Hp. destruct (Hent a p Hin) as [pre [post [_ E]]].
    apply entry_okb_spec in E. destruct E as [_ [_ E]]. rewrite Hp in E. exact E.
  - intros a b p Hina Hinb Hne.
    destruct (in_two_split (a, p) (b, p) (o_log o) Hina Hinb) as [[l1 [l2 [l3 E]]]|[l1 [l2 [l3 E]]]].
    { congruence. }
    + rewrite app_comm_cons, app_assoc in E.
      pose proof (check_log_split _ _ _ _ [] _ (b, p) l3 He E) as Eb.
      apply entry_okb_spec in Eb. destruct Eb as [_ [Eb _]]. rewrite may_share_comm. apply Eb.
      cbn [app]. apply in_app_iff. right. left. reflexivity.
    + rewrite app_comm_cons, app_assoc in E.
      pose proof (check_log_split _ _ _ _ [] _ (a, p) l3 He E) as Ea.
      apply entry_okb_spec in Ea. destruct Ea as [_ [Ea _]]. apply Ea.
      cbn [app]. apply in_app_iff. right. left. reflexivity.
  - intros Hn a p b Hina Hinb. unfold cl_alone in Ha. rewrite Hn in Ha.
    rewrite forallb_forall in Ha. specialize (Ha (a, p) Hina). cbn [fst snd] in Ha. split.
    + intros Hp. rewrite Hp in Ha. apply list_eqb_nat_eq in Ha.
      apply occupants_In_iff in Hinb. rewrite Ha in Hinb. destruct Hinb as [Hb|[]]. congruence.
    + intros Hta Hia. destruct (prescribed cfg (spec_start cfg d) a).
      * rewrite Hta, Hia in Ha. cbn [negb andb] in Ha. rewrite forallb_forall in Ha.
        apply occupants_In_iff in Hinb. specialize (Ha b Hinb). apply orb_true_iff in Ha.
        destruct Ha as [Hb|Hb]; [left; apply Nat.eqb_eq; exact Hb | right; exact Hb].
      * apply list_eqb_nat_eq in Ha. apply occupants_In_iff in Hinb. rewrite Ha in Hinb.
        destruct Hinb as [Hb|[]]. left. congruence.
  - apply list_eqb_cells_eq. exact Hg1.
  - intros Hok. rewrite Hok in Hg2. apply andb_true_iff in Hg2. destruct Hg2 as [Hp Hcnt].
    unfold cl_kind in Hk. rewrite Hok in Hk. apply Nat.eqb_eq in Hk.
    unfold cl_trace in Ht. apply list_eqb_nat_eq in Ht. rewrite Hk, firstn_all in Ht.
    unfold cl_order in Ho.
    assert (Hord' : order_ok cfg (o_order o)).
    { destruct (c_rand cfg).
      - apply andb_true_iff in Ho. destruct Ho as [_ Ho]. eapply order_ok_perm; eassumption.
      - apply list_eqb_nat_eq in Ho. rewrite Ho. exact Hord. }
    split; [|split].
    + rewrite Ht. apply seq_of_NoDup. exact Hord'.
    + intros a Ha'. rewrite forallb_forall in Hcnt.
      assert (Hin : In a (map fst (o_log o))).
      { apply count_pos_In. apply Nat.eqb_eq. apply Hcnt. apply in_seq. lia. }
      apply in_map_iff in Hin. destruct Hin as [[a' p] [Ea Hin]]. cbn in Ea. subst a'.
      exists p. exact Hin.
    + apply list_eqb_cell_eq. exact Hp.
Qed.

Lemma chk_sound_partition : forall cfg order d o m, wf_config cfg = true ->
  chk_reset cfg order d o = true -> covered cfg o = true ->
  c_kind cfg = KMaze -> o_maze o = Some m ->
  forall a p, In (a, p) (o_log o) -> prescribed cfg (spec_start cfg d) a = None ->
    (memZ (enc cfg a) (c_barrier cfg) = true -> gget m p = 1)
    /\ (memZ (enc cfg a) (c_free cfg) = true -> gget m p = 0).
Proof.
  intros cfg order d o m Hwf H Hc Hk Hm a p Hin Hp.
  destruct (wf_parts cfg Hwf) as [_ [Hcols [_ [_ Ht]]]].
  destruct Ht as [_ Hdj]; [congruence|].
  destruct (chk_reset_clauses cfg order d o H Hc) as [_ [_ [_ [_ [He _]]]]].
  unfold cl_entries in He. apply in_split in Hin. destruct Hin as [pre [post E]].
  pose proof (check_log_split _ _ _ _ [] pre (a, p) post He E) as En.
  apply entry_okb_spec in En. destruct En as [Hg [_ En]]. rewrite Hp in En. cbn zeta in En.
  destruct En as [En _]. rewrite spec_avail_filter in En. apply filter_In in En.
  destruct En as [En _]. unfold spec_init in En. rewrite Hk, Hm in En.
  apply in_grid_spec in Hg.
  split; intros Hmem.
  - rewrite (disjoint_spec cfg _ Hdj Hmem), Hmem in En. unfold maze_cells in En.
    apply filter_In in En. destruct En as [_ En]. rewrite unravel_ravel in En by lia. lia.
  - rewrite Hmem in En. unfold maze_cells in En.
    apply filter_In in En. destruct En as [_ En]. rewrite unravel_ravel in En by lia. lia.
Qed.

Lemma chk_sound_cluster : forall cfg order d o,
  chk_reset cfg order d o = true -> covered cfg o = true ->
  forall pre a p post st, o_log o = pre ++ (a, p) :: post ->
    prescribed cfg (spec_start cfg d) a = None -> spec_start cfg d = Some st ->
    In (ravel cfg p) (spec_avail cfg (o_maze o) pre (enc cfg a))
    /\ (clustered cfg (enc cfg a) = true ->
        forall k, In k (spec_avail cfg (o_maze o) pre (enc cfg a)) ->
                  dist2 cfg st (ravel cfg p) <= dist2 cfg st k)
    /\ (scattered cfg (enc cfg a) = true ->
        forall k, In k (spec_avail cfg (o_maze o) pre (enc cfg a)) ->
                  dist2 cfg st k <= dist2 cfg st (ravel cfg p)).
Proof.
  intros cfg order d o H Hc pre a p post st E Hp Hst.
  destruct (chk_reset_clauses cfg order d o H Hc) as [_ [_ [_ [_ [He _]]]]].
  unfold cl_entries in He.
  pose proof (check_log_split _ _ _ _ [] pre (a, p) post He E) as En.
  apply entry_okb_spec in En. destruct En as [_ [_ En]]. rewrite Hp, Hst in En. exact En.
Qed.

Lemma chk_sound_kind : forall cfg order d o,
  chk_reset cfg order d o = true -> covered cfg o = true ->
  let sq := seq_of cfg (o_order o) in
  map fst (o_log o) = firstn (length (o_log o)) sq
  /\ (o_kind o = ROk \/ o_kind o = RReject \/ o_kind o = RRuntime)
  /\ (o_kind o = ROk <-> length (o_log o) = length sq)
  /\ (o_kind o = RRuntime ->
      exists a, nth_error sq (length (o_log o)) = Some a
                /\ prescribed cfg (spec_start cfg d) a = None
                /\ spec_avail cfg (o_maze o) (o_log o) (enc cfg a) = [])
  /\ (o_kind o = RReject ->
      exists a q, nth_error sq (length (o_log o)) = Some a
                  /\ prescribed cfg (spec_start cfg d) a = Some q
                  /\ grid_query cfg (o_log o) a q = false).
Proof.
  intros cfg order d o H Hc sq.
  destruct (chk_reset_clauses cfg order d o H Hc) as [_ [_ [_ [Ht [_ [_ [_ Hk]]]]]]].
  unfold cl_trace in Ht. apply list_eqb_nat_eq in Ht. fold sq in Ht.
  unfold cl_kind in Hk. fold sq in Hk. rewrite Hc in Hk. cbn [negb orb] in Hk.
  split; [exact Ht|].
  destruct (o_kind o) eqn:Ek; try discriminate.
  - apply Nat.eqb_eq in Hk. split; [auto|]. split; [tauto|]. split; discriminate.
  - split; [auto|].
    destruct (nth_error sq (length (o_log o))) as [a|] eqn:En; [|discriminate].
    destruct (prescribed cfg (spec_start cfg d) a) as [q|] eqn:Ep; [|discriminate].
    split.
    + split; [discriminate|]. intros Hl. exfalso.
      assert (Hn : nth_error sq (length (o_log o)) <> None) by congruence.
      apply nth_error_Some in Hn. lia.
    + split; [discriminate|]. intros _. exists a, q. apply negb_true_iff in Hk. auto.
  - split; [auto|].
    destruct (nth_error sq (length (o_log o))) as [a|] eqn:En; [|discriminate].
    destruct (prescribed cfg (spec_start cfg d) a) as [q|] eqn:Ep; [discriminate|].
    destruct (spec_avail cfg (o_maze o) (o_log o) (enc cfg a)) eqn:Es; [|discriminate].
    split.
    + split; [discriminate|]. intros Hl. exfalso.
      assert (Hn : nth_error sq (length (o_log o)) <> None) by congruence.
      apply nth_error_Some in Hn. lia.
    + split; [|discriminate]. intros _. exists a. auto.
Qed.

Lemma chk_sound_uncovered : forall cfg order d o,
  chk_reset cfg order d o = true -> covered cfg o = false ->
  o_kind o = RReject /\ o_log o = [] /\ o_maze o = None.
Proof.
  intros cfg order d o H Hc. unfold chk_reset in H. rewrite Hc in H.
  apply andb_true_iff in H. destruct H as [H _]. apply andb_true_iff in H. destruct H as [_ H].
  unfold cl_cover in H. rewrite Hc in H.
  destruct (o_kind o); try discriminate. destruct (o_log o); [|discriminate].
  destruct (o_maze o); [discriminate|]. auto.
Qed.

(* the reported grid / positions as functions of the placements *)
Lemma nth_map_seq : forall {X} (h : nat -> X) d N s i, (i < N)%nat ->
  nth i (map h (seq s N)) d = h (s + i)%nat.
Proof.
  intros X h d. induction N as [|N IH]; intros s i Hi; [lia|]. cbn [seq map].
  destruct i as [|i]; cbn [nth]; [f_equal; lia|]. rewrite IH by lia. f_equal. lia.
Qed.

Lemma cells_of_spec : forall cfg log k, 0 <= k < ncells cfg ->
  nth (Z.to_nat k) (cells_of cfg log) [] = occupants log (unravel cfg k).
Proof.
  intros cfg log k Hk. unfold cells_of, cells. rewrite map_map.
  rewrite nth_map_seq by lia. cbn [Nat.add]. rewrite Z2Nat.id by lia. reflexivity.
Qed.

Lemma pos_lookup_spec : forall log a p, NoDup (map fst log) -> In (a, p) log ->
  pos_lookup a log = p.
Proof.
  induction log as [|[b q] log IH]; intros a p Hnd Hin; [destruct Hin|].
  cbn [map fst] in Hnd. inversion Hnd as [|? ? Hn Hd]; subst. cbn [pos_lookup].
  destruct Hin as [Hin|Hin].
  - inversion Hin; subst. rewrite Nat.eqb_refl. reflexivity.
  - destruct (Nat.eqb a b) eqn:E; [|apply IH; assumption].
    apply Nat.eqb_eq in E. subst b. exfalso. apply Hn. apply in_map_iff. exists (a, p). auto.
Qed.

Lemma positions_of_spec : forall cfg log a p, NoDup (map fst log) -> In (a, p) log ->
  (a < length (c_agents cfg))%nat -> nth a (positions_of cfg log) (-1, -1) = p.
Proof.
  intros cfg log a p Hnd Hin Ha. unfold positions_of. rewrite nth_map_seq by exact Ha.
  cbn [Nat.add]. apply pos_lookup_spec; assumption.
Qed.

(* ------------------------------------------------------------------ the model's outcome *)
Lemma model_chk : forall cfg order d, wf_config cfg = true -> order_ok cfg order ->
  o_kind (outcome_of cfg (reset cfg order d)) <> RBad ->
  chk_reset cfg order d (outcome_of cfg (reset cfg order d)) = true
  /\ order_ok cfg (o_order (outcome_of cfg (reset cfg order d))).
Proof.
  intros cfg order d Hwf Hord Hnb.
  destruct (reset_good_all cfg order d Hwf Hord Hnb) as [H1 [H2 _]]. split; assumption.
Qed.

Lemma model_avail : forall cfg order d, wf_config cfg = true -> order_ok cfg order ->
  res_kind (snd (reset cfg order d)) <> RBad ->
  forall e l, av_get e (ps_avail (res_state (snd (reset cfg order d)))) = Some l ->
  forall k, In k l <->
            In k (spec_avail cfg (snd (fst (reset cfg order d)))
                             (ps_log (res_state (snd (reset cfg order d)))) e).
Proof.
  intros cfg order d Hwf Hord Hnb.
  destruct (reset_good_all cfg order d Hwf Hord Hnb) as [_ [_ H3]]. exact H3.
Qed.

Lemma model_covered_ok : forall cfg order d, wf_config cfg = true -> order_ok cfg order ->
  o_kind (outcome_of cfg (reset cfg order d)) = ROk ->
  covered cfg (outcome_of cfg (reset cfg order d)) = true.
Proof.
  intros cfg order d Hwf Hord Hok.
  destruct (model_chk cfg order d Hwf Hord) as [Hc _]; [congruence|].
  destruct (covered cfg (outcome_of cfg (reset cfg order d))) eqn:E; [reflexivity|].
  destruct (chk_sound_uncovered _ _ _ _ Hc E) as [Hk _]. congruence.
Qed.

Lemma model_legal_partial : forall cfg order d, wf_config cfg = true -> order_ok cfg order ->
  o_kind (outcome_of cfg (reset cfg order d)) <> RBad ->
  covered cfg (outcome_of cfg (reset cfg order d)) = true ->
  legal cfg d (outcome_of cfg (reset cfg order d)).
Proof.
  intros cfg order d Hwf Hord Hnb Hc.
  destruct (model_chk cfg order d Hwf Hord Hnb) as [H _].
  eapply chk_sound_legal; eassumption.
Qed.

Lemma model_legal : forall cfg order d, wf_config cfg = true -> order_ok cfg order ->
  o_kind (outcome_of cfg (reset cfg order d)) = ROk ->
  legal cfg d (outcome_of cfg (reset cfg order d)).
Proof.
  intros cfg order d Hwf Hord Hok. apply model_legal_partial; try assumption; [congruence|].
  apply model_covered_ok; assumption.
Qed.

Lemma model_partition : forall cfg order d m, wf_config cfg = true -> order_ok cfg order ->
  c_kind cfg = KMaze ->
  o_kind (outcome_of cfg (reset cfg order d)) = ROk ->
  o_maze (outcome_of cfg (reset cfg order d)) = Some m ->
  forall a p, In (a, p) (o_log (outcome_of cfg (reset cfg order d))) ->
    prescribed cfg (spec_start cfg d) a = None ->
    (memZ (enc cfg a) (c_barrier cfg) = true -> gget m p = 1)
    /\ (memZ (enc cfg a) (c_free cfg) = true -> gget m p = 0).
Proof.
  intros cfg order d m Hwf Hord Hk Hok Hm.
  destruct (model_chk cfg order d Hwf Hord) as [H _]; [congruence|].
  eapply chk_sound_partition; try eassumption. apply model_covered_ok; assumption.
Qed.

Lemma model_maze : forall cfg order d, wf_config cfg = true -> order_ok cfg order ->
  c_kind cfg = KMaze ->
  o_kind (outcome_of cfg (reset cfg order d)) <> RBad ->
  covered cfg (outcome_of cfg (reset cfg order d)) = true ->
  exists m st, o_maze (outcome_of cfg (reset cfg order d)) = Some m
    /\ spec_start cfg d = Some st
    /\ maze_shape_b m (c_rows cfg) (c_cols cfg) = true
    /\ gget m st = 0 /\ (forall p, gget m p = 0 -> conn m st p).
Proof.
  intros cfg order d Hwf Hord Hk Hnb Hc.
  destruct (model_chk cfg order d Hwf Hord Hnb) as [H _].
  destruct (chk_reset_clauses _ _ _ _ H Hc) as [_ [_ [Hm _]]].
  unfold cl_maze in Hm. rewrite Hk, Hc in Hm.
  destruct (o_maze (outcome_of cfg (reset cfg order d))) as [m|]; [|discriminate].
  destruct (spec_start cfg d) as [st|]; [|discriminate].
  apply andb_true_iff in Hm. destruct Hm as [Hs Hcn]. exists m, st.
  split; [reflexivity|]. split; [reflexivity|]. split; [exact Hs|].
  apply (maze_connected_b_sound m (c_rows cfg) (c_cols cfg) st Hs Hcn).
Qed.

Lemma model_cluster : forall cfg order d, wf_config cfg = true -> order_ok cfg order ->
  o_kind (outcome_of cfg (reset cfg order d)) <> RBad ->
  forall pre a p post st,
    o_log (outcome_of cfg (reset cfg order d)) = pre ++ (a, p) :: post ->
    prescribed cfg (spec_start cfg d) a = None -> spec_start cfg d = Some st ->
    let av := spec_avail cfg (o_maze (outcome_of cfg (reset cfg order d))) pre (enc cfg a) in
    In (ravel cfg p) av
    /\ (clustered cfg (enc cfg a) = true ->
        forall k, In k av -> dist2 cfg st (ravel cfg p) <= dist2 cfg st k)
    /\ (scattered cfg (enc cfg a) = true ->
        forall k, In k av -> dist2 cfg st k <= dist2 cfg st (ravel cfg p)).
Proof.
  intros cfg order d Hwf Hord Hnb pre a p post st E Hp Hst.
  destruct (model_chk cfg order d Hwf Hord Hnb) as [H _].
  destruct (covered cfg (outcome_of cfg (reset cfg order d))) eqn:Hc.
  - cbn zeta. eapply chk_sound_cluster; eassumption.
  - destruct (chk_sound_uncovered _ _ _ _ H Hc) as [_ [Hl _]]. rewrite Hl in E.
    destruct pre; discriminate.
Qed.

Lemma model_error : forall cfg order d, wf_config cfg = true -> order_ok cfg order ->
  let o := outcome_of cfg (reset cfg order d) in
  let sq := seq_of cfg (o_order o) in
  o_kind o <> RBad ->
  (o_kind o = ROk \/ o_kind o = RReject \/ o_kind o = RRuntime)
  /\ map fst (o_log o) = firstn (length (o_log o)) sq
  /\ (o_kind o = ROk -> map fst (o_log o) = sq /\ legal cfg d o)
  /\ (o_kind o = RRuntime ->
      exists a, nth_error sq (length (o_log o)) = Some a
                /\ prescribed cfg (spec_start cfg d) a = None
                /\ spec_avail cfg (o_maze o) (o_log o) (enc cfg a) = [])
  /\ (o_kind o = RReject ->
      (covered cfg o = false /\ o_log o = [])
      \/ exists a q, nth_error sq (length (o_log o)) = Some a
                     /\ prescribed cfg (spec_start cfg d) a = Some q
                     /\ grid_query cfg (o_log o) a q = false).
Proof.
  intros cfg order d Hwf Hord o sq Hnb.
  destruct (model_chk cfg order d Hwf Hord Hnb) as [H _]. fold o in H.
  destruct (covered cfg o) eqn:Hc.
  - destruct (chk_sound_kind cfg order d o H Hc) as [Ht [Hk [Hok [Hrt Hrj]]]].
    fold sq in Ht, Hok, Hrt, Hrj.
    split; [exact Hk|]. split; [exact Ht|]. split; [|split].
    + intros Ek. split.
      * rewrite Ht. rewrite (proj1 Hok Ek). apply firstn_all.
      * apply model_legal; assumption.
    + exact Hrt.
    + intros Ek. right. apply Hrj. exact Ek.
  - destruct (chk_sound_uncovered _ _ _ _ H Hc) as [Hk [Hl _]].
    split; [auto|]. split; [rewrite Hl; reflexivity|]. split; [congruence|].
    split; [congruence|]. intros _. left. auto.
Qed.

Lemma model_positions : forall cfg order d, wf_config cfg = true -> order_ok cfg order ->
  let o := outcome_of cfg (reset cfg order d) in
  o_kind o = ROk ->
  forall a, (a < length (c_agents cfg))%nat ->
  exists p, In (a, p) (o_log o)
    /\ (forall p', In (a, p') (o_log o) -> p' = p)
    /\ in_grid cfg p = true
    /\ nth a (o_pos o) (-1, -1) = p
    /\ (forall k, 0 <= k < ncells cfg ->
          (In a (nth (Z.to_nat k) (o_cells o) []) <-> k = ravel cfg p)).
Proof.
  intros cfg order d Hwf Hord o Hok a Ha.
  destruct (wf_parts cfg Hwf) as [_ [Hcols _]].
  destruct (model_legal cfg order d Hwf Hord Hok) as [Hg [_ [_ [_ [Hcells Hall]]]]].
  fold o in Hg, Hcells, Hall. destruct (Hall Hok) as [Hnd [Hex Hpos]].
  destruct (Hex a Ha) as [p Hin]. exists p.
  split; [exact Hin|]. split; [intros p' Hp'; eapply NoDup_fst_unique; eassumption|].
  split; [eapply Hg; exact Hin|]. split.
  - rewrite Hpos. apply positions_of_spec; assumption.
  - intros k Hk. rewrite Hcells, cells_of_spec by exact Hk. rewrite occupants_In_iff. split.
    + intros Hin'. rewrite <- (NoDup_fst_unique _ _ _ _ Hnd Hin' Hin).
      symmetry. apply ravel_unravel. exact Hcols.
    + intros E. subst k. pose proof (Hg a p Hin) as Hgp. apply in_grid_spec in Hgp.
      rewrite unravel_ravel by lia. exact Hin.
Qed.

Lemma maze_connected_b_exact : forall m rows cols start, 0 < rows -> 0 < cols ->
  0 <= fst start < rows -> 0 <= snd start < cols ->
  maze_shape_b m rows cols = true ->
  (maze_connected_b m rows cols start = true <->
   gget m start = 0 /\ (forall p, gget m p = 0 -> conn m start p)).
Proof.
  intros m rows cols start H1 H2 H3 H4 Hs. split.
  - exact (maze_connected_b_sound m rows cols start Hs).
  - intros [Ha Hb]. exact (maze_connected_b_complete m rows cols start H1 H2 H3 H4 Hs Ha Hb).
Qed.
