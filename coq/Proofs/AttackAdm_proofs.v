(* C02, attack actors: EVERY admissible oracle completes the call.
   Grid/AttackAdm.v makes the read pattern of a call explicit (decision trees); here:
     1. generic facts on trees (proved once, for every loop of every actor): run of a tbind,
        adm <-> the run returns a value, bad_read <-> the run returns ABadOracle, satp through tbind,
        responders;
     2. the trees ARE the model: f ... o = run_tree (t_f ...) o for every oracle o, for
        basic_criteria, filter_criteria, criteria_all, subset_attackables, scan_all, the four
        _determine_attack bodies with their loops, determine and process_attack;
     3. on every path of admissible answers every np.random.choice request is acceptable and
        answerable (sat): population not empty, size >= 0, size <= population without replacement
        (duplicate-free scan from ginv), ammunition >= 0;
     4. the statements of Props/P_C02.v. *)
From Coq Require Import ZArith List Bool Arith Lia.
From Abm Require Import Base.Sx Spaces.Space Grid.Overlap Grid.Grid Grid.Move Grid.Attack Grid.Vis
  Grid.AttackRun Grid.AttackChk Grid.ActSpace Grid.AttackAdm
  Proofs.Ravel_proofs Proofs.Grid_proofs Proofs.Move_proofs Proofs.Attack_proofs Proofs.GridChk_proofs
  Proofs.AttackLim_proofs Proofs.AttackChk_proofs Proofs.AttackTotal_proofs.
Import ListNotations.
Open Scope Z_scope.

(* ==== 1. generic ==================================================================================== *)
Lemma run_tbind {X Y} (t : otree X) (f : X -> otree Y) : forall o,
  run_tree (tbind t f) o =
  match run_tree t o with AOk x o1 => run_tree (f x) o1 | ABadOracle => ABadOracle end.
Proof.
  induction t as [x|k IH|r k IH]; intros o; cbn [tbind run_tree].
  - reflexivity.
  - destruct (o_unif o) as [|u us]; [reflexivity|apply IH].
  - destruct (o_choice o) as [|ch cs]; [reflexivity|]. destruct (req_ok r ch); [apply IH|reflexivity].
Qed.

(* admissible <-> the run returns a value *)
Lemma adm_iff_ok {X} (t : otree X) : forall o, adm t o <-> exists x o', run_tree t o = AOk x o'.
Proof.
  induction t as [x|k IH|r k IH]; intros o; cbn [adm run_tree].
  - split; [intros _; eexists; eexists; reflexivity|auto].
  - destruct (o_unif o) as [|u us]; [|apply IH].
    split; [intros []|intros (x & o' & E); discriminate].
  - destruct (o_choice o) as [|ch cs].
    + split; [intros []|intros (x & o' & E); discriminate].
    + destruct (req_ok r ch) eqn:E.
      * rewrite <- IH. split; [intros [_ H]; exact H|intros H; split; [reflexivity|exact H]].
      * split; [intros [C _]; discriminate|intros (x & o' & E'); discriminate].
Qed.

(* ABadOracle <-> a read found the oracle dry or an answer numpy cannot give *)
Lemma bad_iff {X} (t : otree X) : forall o, run_tree t o = ABadOracle <-> bad_read t o.
Proof.
  induction t as [x|k IH|r k IH]; intros o; cbn [bad_read run_tree].
  - split; [discriminate|intros []].
  - destruct (o_unif o) as [|u us]; [split; auto|apply IH].
  - destruct (o_choice o) as [|ch cs]; [split; auto|].
    destruct (req_ok r ch) eqn:E.
    + rewrite IH. split; [intros H; right; split; [reflexivity|exact H]|].
      intros [C|[_ H]]; [discriminate|exact H].
    + split; [intros _; left; reflexivity|reflexivity].
Qed.

Lemma adm_or_bad {X} (t : otree X) o : adm t o \/ bad_read t o.
Proof.
  destruct (run_tree t o) as [x o'|] eqn:E.
  - left. apply adm_iff_ok. eexists; eexists; exact E.
  - right. apply bad_iff, E.
Qed.

Lemma adm_not_bad {X} (t : otree X) o : adm t o -> ~ bad_read t o.
Proof.
  intros H B. apply adm_iff_ok in H as (x & o' & E). apply bad_iff in B. congruence.
Qed.

Lemma adm_tbind {X Y} (t : otree X) (f : X -> otree Y) o :
  adm (tbind t f) o <-> adm t o /\ forall x o1, run_tree t o = AOk x o1 -> adm (f x) o1.
Proof.
  rewrite !adm_iff_ok. split.
  - intros (y & o' & E). rewrite run_tbind in E.
    destruct (run_tree t o) as [x o1|] eqn:Et; [|discriminate].
    split; [eexists; eexists; reflexivity|]. intros x' o1' E'. injection E' as <- <-.
    apply adm_iff_ok. eexists; eexists; exact E.
  - intros [(x & o1 & Et) H]. specialize (H x o1 Et). apply adm_iff_ok in H as (y & o' & E).
    exists y, o'. rewrite run_tbind, Et. exact E.
Qed.

Lemma satp_weaken {X} (t : otree X) (P Q : X -> Prop) :
  satp t P -> (forall x, P x -> Q x) -> satp t Q.
Proof.
  induction t as [x|k IH|r k IH]; cbn [satp]; intros H HPQ.
  - apply HPQ, H.
  - intros u. apply IH; [apply H|exact HPQ].
  - destruct H as (Hp & He & Hk). split; [exact Hp|]. split; [exact He|].
    intros ch Hc. apply IH; [apply Hk, Hc|exact HPQ].
Qed.

Lemma satp_tbind {X Y} (t : otree X) (f : X -> otree Y) (P : X -> Prop) (Q : Y -> Prop) :
  satp t P -> (forall x, P x -> satp (f x) Q) -> satp (tbind t f) Q.
Proof.
  induction t as [x|k IH|r k IH]; cbn [tbind satp]; intros H HF.
  - apply HF, H.
  - intros u. apply IH; [apply H|exact HF].
  - destruct H as (Hp & He & Hk). split; [exact Hp|]. split; [exact He|].
    intros ch Hc. apply IH; [apply Hk, Hc|exact HF].
Qed.

(* a postcondition that holds of every value a run returns holds at the end of every path *)
Lemma satp_post {X} (t : otree X) (P : X -> Prop) :
  sat t -> (forall o x o', run_tree t o = AOk x o' -> P x) -> satp t P.
Proof.
  unfold sat. induction t as [x|k IH|r k IH]; cbn [satp]; intros H HP.
  - apply (HP (mko [] []) x (mko [] [])). reflexivity.
  - intros u. apply IH; [apply H|]. intros [us cs] x o' E.
    apply (HP (mko (u :: us) cs) x o'). exact E.
  - destruct H as (Hp & He & Hk). split; [exact Hp|]. split; [exact He|].
    intros ch Hc. apply IH; [apply Hk, Hc|]. intros [us cs] x o' E.
    apply (HP (mko us (ch :: cs)) x o'). cbn [run_tree mko o_choice]. rewrite Hc. exact E.
Qed.

(* the transcript of a call against a responsive responder is an oracle with which the run
   returns the responder's value, consuming exactly the transcript *)
Lemma play_run {X} (t : otree X) (rc : responder) : sat t -> responsive rc ->
  forall i j us' cs',
    run_tree t (mko (fst (snd (play t rc i j)) ++ us') (snd (snd (play t rc i j)) ++ cs'))
    = AOk (fst (play t rc i j)) (mko us' cs').
Proof.
  unfold sat. intros H Hr. induction t as [x|k IH|r k IH]; intros i j us' cs'; cbn [play].
  - reflexivity.
  - cbn [satp] in H. specialize (IH (r_unif rc i) (H (r_unif rc i)) (S i) j us' cs').
    destruct (play (k (r_unif rc i)) rc (S i) j) as [x [us cs]]. cbn [fst snd] in *.
    cbn [run_tree app mko o_unif]. exact IH.
  - cbn [satp] in H. destruct H as (Hp & He & Hk).
    pose proof (Hr j r Hp He) as Hc.
    specialize (IH (r_choice rc j r) (Hk _ Hc) i (S j) us' cs').
    destruct (play (k (r_choice rc j r)) rc i (S j)) as [x [us cs]]. cbn [fst snd] in *.
    cbn [run_tree app mko o_choice]. rewrite Hc. exact IH.
Qed.

(* ---- a responsive responder exists: first fit -------------------------------------------------------- *)
Definition first_fit (r : creq) : list nat :=
  match r with
  | RChoice l n true => repeat (hd O l) (Z.to_nat n)
  | RChoice l n false => firstn (Z.to_nat n) (nodup Nat.eq_dec l)
  | ROne l => [hd O l]
  | RSample l n => firstn (Z.to_nat n) l
  end.

Lemma hd_In_nonempty (l : list nat) : l <> [] -> In (hd O l) l.
Proof. destruct l as [|a l]; [congruence|]. intros _. left. reflexivity. Qed.

Lemma first_fit_ok r : req_pre r -> (exists ch, req_ok r ch = true) -> req_ok r (first_fit r) = true.
Proof.
  destruct r as [l n [|]|l|l n]; cbn [req_pre req_ok first_fit].
  - intros (Hl & Hn & _) _. unfold choice_ok.
    rewrite repeat_length, Z2Nat.id, Z.eqb_refl by exact Hn. cbn [andb orb]. rewrite andb_true_r.
    apply forallb_forall. intros x Hx. apply repeat_spec in Hx. subst x.
    apply memn_In, hd_In_nonempty, Hl.
  - intros (Hl & Hn & _) (ch & Hc). unfold choice_ok in *. cbn [orb] in *.
    apply andb_true_iff in Hc as [Hc Hnd]. apply andb_true_iff in Hc as [Hlen Hin].
    apply Z.eqb_eq in Hlen. apply GridChk_proofs.nodupb_NoDup in Hnd.
    assert (Hle : (length ch <= length (nodup Nat.eq_dec l))%nat).
    { apply NoDup_incl_length; [exact Hnd|]. intros x Hx. apply nodup_In.
      rewrite forallb_forall in Hin. apply memn_In, Hin, Hx. }
    rewrite firstn_length_le by lia. rewrite Z2Nat.id, Z.eqb_refl by exact Hn. cbn [andb].
    apply andb_true_iff. split.
    + apply forallb_forall. intros x Hx. apply memn_In. apply firstn_In in Hx.
      apply nodup_In in Hx. exact Hx.
    + apply AttackTotal_proofs.nodupb_NoDup, NoDup_firstn, NoDup_nodup.
  - intros Hl _. apply memn_In, hd_In_nonempty, Hl.
  - intros (Hl & Hn) _. rewrite firstn_length_le by lia.
    rewrite Z2Nat.id, Z.eqb_refl by lia. cbn [andb]. apply submultiset_firstn.
Qed.

Definition first_fit_responder (us : nat -> Z) : responder :=
  {| r_unif := us; r_choice := fun _ r => first_fit r |}.

Lemma first_fit_responsive us : responsive (first_fit_responder us).
Proof. intros j r Hp He. apply first_fit_ok; assumption. Qed.

(* ==== 2. the trees are the model ===================================================================== *)
Lemma basic_tree s cf att v o : basic_criteria s cf att o v = run_tree (t_basic s cf att v) o.
Proof.
  unfold basic_criteria, t_basic. destruct (Nat.eqb v att); [reflexivity|].
  destruct (agent s v) as [b|]; [|reflexivity]. destruct (negb (a_active b)); [reflexivity|].
  destruct (negb (memZ (a_enc b) (c_mapping cf))); [reflexivity|].
  cbn [run_tree]. destruct (o_unif o); reflexivity.
Qed.

Lemma filter_tree s cf att cands : forall o,
  filter_criteria s cf att o cands = run_tree (t_filter s cf att cands) o.
Proof.
  induction cands as [|v r IH]; intros o; cbn [filter_criteria t_filter]; [reflexivity|].
  rewrite run_tbind, <- basic_tree. destruct (basic_criteria s cf att o v) as [b o1|]; [|reflexivity].
  rewrite run_tbind, <- IH. destruct (filter_criteria s cf att o1 r); reflexivity.
Qed.

Lemma criteria_all_tree s cf att cands : forall o,
  criteria_all s cf att o cands = run_tree (t_criteria_all s cf att cands) o.
Proof.
  induction cands as [|v r IH]; intros o; cbn [criteria_all t_criteria_all]; [reflexivity|].
  rewrite run_tbind, <- basic_tree. destruct (basic_criteria s cf att o v) as [b o1|]; [|reflexivity].
  rewrite run_tbind, <- IH. destruct (criteria_all s cf att o1 r); reflexivity.
Qed.

Lemma subset_tree cf l n o : subset_attackables cf o l n = run_tree (t_subset cf l n) o.
Proof.
  unfold subset_attackables, t_subset.
  destruct (negb (c_stacked cf) && (Z.of_nat (length l) <? n)); [reflexivity|].
  cbn [run_tree req_ok]. destruct (o_choice o) as [|ch cs]; [reflexivity|].
  destruct (choice_ok l n (c_stacked cf) ch); reflexivity.
Qed.

Lemma scan_tree vis s cf att p ds : forall o,
  scan_all vis s cf att p o ds = run_tree (t_scan vis s cf att p ds) o.
Proof.
  induction ds as [|d r IH]; intros o; cbn [scan_all t_scan]; [reflexivity|].
  rewrite run_tbind, <- filter_tree.
  destruct (filter_criteria s cf att o (cands_at vis s cf att p d)) as [l o1|]; [|reflexivity].
  rewrite run_tbind, <- IH. destruct (scan_all vis s cf att p o1 r); reflexivity.
Qed.

Lemma binary_tree vis s cf att p n o :
  det_binary vis s cf att p o n = run_tree (t_binary vis s cf att p n) o.
Proof.
  unfold det_binary, t_binary. destruct (n =? 0); [reflexivity|].
  rewrite run_tbind, <- scan_tree.
  destruct (scan_all vis s cf att p o (window (c_range cf))) as [l o1|]; [|reflexivity].
  destruct l as [|x l]; [reflexivity|]. rewrite run_tbind, <- subset_tree.
  destruct (subset_attackables cf o1 (x :: l) n); reflexivity.
Qed.

Lemma enc_loop_tree s cf attackable attack : forall o,
  enc_loop s cf o attackable attack = run_tree (t_enc_loop s cf attackable attack) o.
Proof.
  induction attack as [|[e num] r IH]; intros o; cbn [enc_loop t_enc_loop]; [reflexivity|].
  destruct (filter (fun v => enc_of s v =? e) attackable) as [|b0 bs]; [apply IH|].
  rewrite run_tbind, <- subset_tree.
  destruct (subset_attackables cf o (b0 :: bs) num) as [h o1|]; [|reflexivity].
  rewrite run_tbind, <- IH. destruct (enc_loop s cf o1 attackable r); reflexivity.
Qed.

Lemma encoding_tree vis s cf att p l o :
  det_encoding vis s cf att p o l = run_tree (t_encoding vis s cf att p l) o.
Proof.
  unfold det_encoding, t_encoding. destruct (forallb (fun kv => snd kv =? 0) l); [reflexivity|].
  rewrite run_tbind, <- scan_tree.
  destruct (scan_all vis s cf att p o (window (c_range cf))) as [l1 o1|]; [|reflexivity].
  rewrite run_tbind, <- enc_loop_tree. destruct (enc_loop s cf o1 l1 l); reflexivity.
Qed.

Lemma sel_loop_tree vis s cf att p ds : forall attack o,
  sel_loop vis s cf att p o ds attack = run_tree (t_sel_loop vis s cf att p ds attack) o.
Proof.
  induction ds as [|d r IH]; intros attack o; [destruct attack; reflexivity|].
  destruct attack as [|n ns]; [reflexivity|]. cbn [sel_loop t_sel_loop].
  destruct (n =? 0); [apply IH|]. rewrite run_tbind, <- filter_tree.
  destruct (filter_criteria s cf att o (cands_at vis s cf att p d)) as [l o1|]; [|reflexivity].
  destruct l as [|x l]; [apply IH|]. rewrite run_tbind, <- subset_tree.
  destruct (subset_attackables cf o1 (x :: l) n) as [h o2|]; [|reflexivity].
  rewrite run_tbind, <- IH. destruct (sel_loop vis s cf att p o2 r ns); reflexivity.
Qed.

Lemma selective_tree vis s cf att p l o :
  det_selective vis s cf att p o l = run_tree (t_selective vis s cf att p l) o.
Proof.
  unfold det_selective, t_selective. destruct (forallb (fun n => n =? 0) l); [reflexivity|].
  rewrite run_tbind, <- sel_loop_tree.
  destruct (sel_loop vis s cf att p o (window (c_range cf)) l); reflexivity.
Qed.

Lemma res_loop_tree vis cm s cf att p attack : forall hits o,
  res_loop vis cm s cf att p o hits attack = run_tree (t_res_loop vis cm s cf att p hits attack) o.
Proof.
  induction attack as [|k ks IH]; intros hits o; cbn [res_loop t_res_loop]; [reflexivity|].
  destruct (k =? 0); [apply IH|]. rewrite run_tbind, <- criteria_all_tree.
  destruct (criteria_all s cf att o (cands_at vis s cf att p (cell_of_id (c_range cf) cm k)))
    as [l o1|]; [|reflexivity].
  destruct (filter_fresh (c_stacked cf) hits l) as [|v vs]; [apply IH|].
  cbn [run_tree req_ok]. destruct (o_choice o1) as [|ch cs]; [reflexivity|].
  destruct ch as [|v0 [|v1 ch]]; [reflexivity| |reflexivity].
  destruct (memn v0 (v :: vs)); [apply IH|reflexivity].
Qed.

Lemma restricted_tree vis cm s cf att p l o :
  det_restricted vis cm s cf att p o l = run_tree (t_restricted vis cm s cf att p l) o.
Proof.
  unfold det_restricted, t_restricted. destruct (forallb (fun n => n =? 0) l); [reflexivity|].
  rewrite run_tbind, <- res_loop_tree.
  destruct (res_loop vis cm s cf att p o [] l); reflexivity.
Qed.

Theorem determine_tree vis s cf att p act o :
  determine vis s cf att p o act = run_tree (t_determine vis s cf att p act) o.
Proof.
  destruct act as [n|l|l|cm l]; cbn [determine t_determine].
  - apply binary_tree.
  - apply encoding_tree.
  - apply selective_tree.
  - apply restricted_tree.
Qed.

Theorem process_tree vis s cf att a p act o :
  agent s att = Some a -> a_pos a = Some p ->
  process_attack vis s cf att o act = pres_of (run_tree (t_process vis s cf att a p act) o).
Proof.
  intros Ha Hp. unfold process_attack, t_process. rewrite Ha, Hp, run_tbind, <- determine_tree.
  destruct (determine vis s cf att p o act) as [[st hits] o1|]; [|reflexivity]. cbn [fst snd].
  destruct (a_ammo a) as [am|]; [|reflexivity].
  destruct (am <? Z.of_nat (length hits)); [|reflexivity].
  cbn [run_tree req_ok]. destruct (o_choice o1) as [|ch cs]; [reflexivity|].
  destruct ((Z.of_nat (length ch) =? am) && submultiset ch hits); reflexivity.
Qed.

(* ==== 3. every request on every admissible path is acceptable and answerable ========================== *)
Lemma sat_basic s cf att v : sat (t_basic s cf att v).
Proof.
  unfold sat, t_basic. destruct (Nat.eqb v att); [exact I|].
  destruct (agent s v) as [b|]; [|exact I]. destruct (negb (a_active b)); [exact I|].
  destruct (negb (memZ (a_enc b) (c_mapping cf))); [exact I|]. intros u. exact I.
Qed.

Lemma sat_filter s cf att cands : sat (t_filter s cf att cands).
Proof.
  induction cands as [|v r IH]; cbn [t_filter]; [exact I|].
  apply (satp_tbind _ _ (fun _ => True)); [apply sat_basic|]. intros b _.
  apply (satp_tbind _ _ (fun _ => True)); [apply IH|]. intros l _. exact I.
Qed.

Lemma sat_criteria_all s cf att cands : sat (t_criteria_all s cf att cands).
Proof.
  induction cands as [|v r IH]; cbn [t_criteria_all]; [exact I|].
  apply (satp_tbind _ _ (fun _ => True)); [apply sat_basic|]. intros b _.
  apply (satp_tbind _ _ (fun _ => True)); [apply IH|]. intros l _. exact I.
Qed.

Lemma satp_filter_nodup s cf att cands :
  NoDup cands -> satp (t_filter s cf att cands) (fun l => NoDup l).
Proof.
  intros Hnd. apply satp_post; [apply sat_filter|]. intros o l o' E. rewrite <- filter_tree in E.
  destruct (filter_criteria_facts _ _ _ _ _ _ _ E) as (_ & N & _). apply N, Hnd.
Qed.

Lemma sat_scan vis s cf att p ds : sat (t_scan vis s cf att p ds).
Proof.
  induction ds as [|d r IH]; cbn [t_scan]; [exact I|].
  apply (satp_tbind _ _ (fun _ => True)); [apply sat_filter|]. intros l _.
  apply (satp_tbind _ _ (fun _ => True)); [apply IH|]. intros l' _. exact I.
Qed.

Lemma satp_scan_nodup vis s cf att p ds :
  ginv s -> NoDup ds -> satp (t_scan vis s cf att p ds) (fun l => NoDup l).
Proof.
  intros G Hnd. apply satp_post; [apply sat_scan|]. intros o l o' E. rewrite <- scan_tree in E.
  destruct (scan_all_facts vis s cf att p G _ _ _ _ E) as (_ & N & _). apply N, Hnd.
Qed.

Lemma sat_subset cf l n :
  l <> [] -> 0 <= n -> (c_stacked cf = false -> NoDup l) -> sat (t_subset cf l n).
Proof.
  intros Hl Hn Hnd. unfold sat, t_subset.
  destruct (negb (c_stacked cf) && (Z.of_nat (length l) <? n)) eqn:E; [exact I|].
  assert (Hle : c_stacked cf = false -> n <= Z.of_nat (length l)).
  { intros Es. rewrite Es in E. cbn [negb andb] in E. apply Z.ltb_ge in E. exact E. }
  cbn [satp req_pre req_ok]. split; [split; [exact Hl|split; [exact Hn|exact Hle]]|].
  split; [|intros ch _; exact I].
  apply (choice_satisfiable l n (c_stacked cf) Hl Hn). intros Es. split; [apply Hnd, Es|apply Hle, Es].
Qed.

Lemma sat_binary vis s cf att p n : ginv s -> 0 <= n -> sat (t_binary vis s cf att p n).
Proof.
  intros G Hn. unfold t_binary. destruct (n =? 0); [exact I|].
  apply (satp_tbind _ _ (fun l => NoDup l)); [apply satp_scan_nodup; [exact G|apply window_NoDup]|].
  intros l Nl. destruct l as [|x l]; [exact I|].
  apply (satp_tbind _ _ (fun _ => True)); [|intros h _; exact I].
  apply sat_subset; [discriminate|exact Hn|intros _; exact Nl].
Qed.

Lemma sat_enc_loop s cf attackable attack :
  NoDup attackable -> Forall (fun kv => 0 <= snd kv) attack -> sat (t_enc_loop s cf attackable attack).
Proof.
  intros Hnd. induction attack as [|[e num] r IH]; intros Hall; cbn [t_enc_loop]; [exact I|].
  inversion Hall as [|? ? Hnum Hr]; subst. cbn [snd] in Hnum.
  destruct (filter (fun v => enc_of s v =? e) attackable) as [|b0 bs] eqn:Eb; [apply IH, Hr|].
  assert (Nb : NoDup (b0 :: bs)) by (rewrite <- Eb; apply NoDup_filter, Hnd).
  apply (satp_tbind _ _ (fun _ => True)).
  - apply sat_subset; [discriminate|exact Hnum|intros _; exact Nb].
  - intros h _. apply (satp_tbind _ _ (fun _ => True)); [apply IH, Hr|]. intros h' _. exact I.
Qed.

Lemma sat_encoding vis s cf att p attack :
  ginv s -> Forall (fun kv => 0 <= snd kv) attack -> sat (t_encoding vis s cf att p attack).
Proof.
  intros G Hall. unfold t_encoding. destruct (forallb (fun kv => snd kv =? 0) attack); [exact I|].
  apply (satp_tbind _ _ (fun l => NoDup l)); [apply satp_scan_nodup; [exact G|apply window_NoDup]|].
  intros l Nl. apply (satp_tbind _ _ (fun _ => True)); [apply sat_enc_loop; assumption|].
  intros h _. exact I.
Qed.

Lemma sat_sel_loop vis s cf att p ds : ginv s ->
  forall attack, Forall (fun n => 0 <= n) attack -> sat (t_sel_loop vis s cf att p ds attack).
Proof.
  intros G. induction ds as [|d r IH]; intros attack Hall; [destruct attack; exact I|].
  destruct attack as [|n ns]; [exact I|]. inversion Hall as [|? ? Hn Hns]; subst.
  cbn [t_sel_loop]. destruct (n =? 0); [apply IH, Hns|].
  apply (satp_tbind _ _ (fun l => NoDup l));
    [apply satp_filter_nodup, (AttackLim_proofs.cands_at_NoDup vis s cf att p d G)|].
  intros l Nl. destruct l as [|x l]; [apply IH, Hns|].
  apply (satp_tbind _ _ (fun _ => True)).
  - apply sat_subset; [discriminate|exact Hn|intros _; exact Nl].
  - intros h _. apply (satp_tbind _ _ (fun _ => True)); [apply IH, Hns|]. intros h' _. exact I.
Qed.

Lemma sat_selective vis s cf att p attack :
  ginv s -> Forall (fun n => 0 <= n) attack -> sat (t_selective vis s cf att p attack).
Proof.
  intros G Hall. unfold t_selective. destruct (forallb (fun n => n =? 0) attack); [exact I|].
  apply (satp_tbind _ _ (fun _ => True)); [apply sat_sel_loop; assumption|]. intros h _. exact I.
Qed.

Lemma sat_res_loop vis cm s cf att p attack : forall hits,
  sat (t_res_loop vis cm s cf att p hits attack).
Proof.
  induction attack as [|k ks IH]; intros hits; cbn [t_res_loop]; [exact I|].
  destruct (k =? 0); [apply IH|].
  apply (satp_tbind _ _ (fun _ => True)); [apply sat_criteria_all|]. intros l _.
  destruct (filter_fresh (c_stacked cf) hits l) as [|v vs]; [apply IH|].
  cbn [satp req_pre req_ok]. split; [discriminate|]. split.
  - exists [v]. apply memn_In. left. reflexivity.
  - intros ch Hc. destruct ch as [|v0 [|v1 ch]]; try discriminate Hc. apply IH.
Qed.

Lemma sat_restricted vis cm s cf att p attack : sat (t_restricted vis cm s cf att p attack).
Proof.
  unfold t_restricted. destruct (forallb (fun n => n =? 0) attack); [exact I|].
  apply (satp_tbind _ _ (fun _ => True)); [apply sat_res_loop|]. intros h _. exact I.
Qed.

Lemma sat_determine vis s cf att p act : ginv s -> act_ok act -> sat (t_determine vis s cf att p act).
Proof.
  intros G Hok. destruct act as [n|l|l|cm l]; cbn [t_determine act_ok] in *.
  - apply sat_binary; assumption.
  - apply sat_encoding; assumption.
  - apply sat_selective; assumption.
  - apply sat_restricted.
Qed.

Theorem sat_process vis s cf att a p act :
  ginv s -> agent s att = Some a -> act_ok act -> sat (t_process vis s cf att a p act).
Proof.
  intros G Ha Hok. unfold t_process.
  apply (satp_tbind _ _ (fun _ => True)); [apply sat_determine; assumption|].
  intros [st hits] _. cbn [fst snd]. destruct (a_ammo a) as [am|] eqn:Eam; [|exact I].
  destruct (am <? Z.of_nat (length hits)) eqn:Elt; [|exact I]. apply Z.ltb_lt in Elt.
  assert (Ham : 0 <= am).
  { destruct (gi_vitals _ _ G att a Ha) as (_ & _ & V & _). apply V, Eam. }
  cbn [satp req_pre req_ok]. split; [|split; [|intros ch _; exact I]].
  - split; [|lia]. intros ->. cbn [length] in Elt. lia.
  - exists (firstn (Z.to_nat am) hits). rewrite firstn_length_le by lia.
    rewrite Z2Nat.id, Z.eqb_refl by exact Ham. cbn [andb]. apply submultiset_firstn.
Qed.

(* ==== 4. statements ================================================================================== *)
(* the call with an admissible oracle returns a result, and the state satisfies the invariant *)
Theorem attack_adm_completes vis s cf att a p act o :
  ginv s -> agent s att = Some a -> a_pos a = Some p ->
  adm (t_process vis s cf att a p act) o ->
  exists st hits s' o', process_attack vis s cf att o act = POk st hits s' o' /\ ginv s'.
Proof.
  intros G Ha Hp Hadm. apply adm_iff_ok in Hadm as ([[st hits] s'] & o' & E).
  pose proof (process_tree vis s cf att a p act o Ha Hp) as Ep. rewrite E in Ep. cbn [pres_of] in Ep.
  exists st, hits, s', o'. split; [exact Ep|].
  pose proof (process_attack_inv vis s cf att o act G) as Inv. rewrite Ep in Inv. exact Inv.
Qed.

(* _determine_attack alone (each of the four actors), before the ammunition filter *)
Theorem determine_total_all_oracles vis s cf att p act :
  ginv s -> act_ok act ->
  sat (t_determine vis s cf att p act) /\
  forall o, adm (t_determine vis s cf att p act) o <->
            exists st hits o', determine vis s cf att p o act = AOk (st, hits) o'.
Proof.
  intros G Hok. split; [apply sat_determine; assumption|]. intros o.
  rewrite adm_iff_ok, determine_tree. split.
  - intros ([st hits] & o' & E). exists st, hits, o'. exact E.
  - intros (st & hits & o' & E). exists (st, hits), o'. exact E.
Qed.

Theorem attack_tree_is_model vis s cf att a p act o :
  (determine vis s cf att p o act = run_tree (t_determine vis s cf att p act) o) /\
  (agent s att = Some a -> a_pos a = Some p ->
   process_attack vis s cf att o act = pres_of (run_tree (t_process vis s cf att a p act) o)).
Proof. split; [apply determine_tree|apply process_tree]. Qed.

Theorem attack_total_act_ok vis s cf att a p act :
  ginv s -> agent s att = Some a -> a_pos a = Some p -> act_ok act ->
  sat (t_process vis s cf att a p act) /\
  forall o, adm (t_process vis s cf att a p act) o ->
    exists st hits s' o', process_attack vis s cf att o act = POk st hits s' o' /\ ginv s'.
Proof.
  intros G Ha Hp Hok. split; [apply sat_process; assumption|].
  intros o. apply attack_adm_completes; assumption.
Qed.

(* conversely: a result only with an admissible oracle; PBadOracle exactly when a read found the
   oracle dry or an answer numpy cannot give; nothing else can happen *)
Theorem attack_outcomes vis s cf att a p act o :
  agent s att = Some a -> a_pos a = Some p ->
  ((exists st hits s' o', process_attack vis s cf att o act = POk st hits s' o')
     <-> adm (t_process vis s cf att a p act) o) /\
  (process_attack vis s cf att o act = PBadOracle <-> bad_read (t_process vis s cf att a p act) o) /\
  (adm (t_process vis s cf att a p act) o \/ bad_read (t_process vis s cf att a p act) o) /\
  (adm (t_process vis s cf att a p act) o -> ~ bad_read (t_process vis s cf att a p act) o).
Proof.
  intros Ha Hp. pose proof (process_tree vis s cf att a p act o Ha Hp) as Ep.
  split; [|split; [|split; [apply adm_or_bad|apply adm_not_bad]]].
  - rewrite adm_iff_ok. split.
    + intros (st & hits & s' & o' & E). rewrite E in Ep.
      destruct (run_tree (t_process vis s cf att a p act) o) as [[[st1 h1] s1] o1|]; [|discriminate].
      eexists; eexists; reflexivity.
    + intros ([[st hits] s'] & o' & E). rewrite E in Ep. exists st, hits, s', o'. exact Ep.
  - rewrite <- bad_iff. rewrite Ep.
    destruct (run_tree (t_process vis s cf att a p act) o) as [[[st1 h1] s1] o1|]; cbn [pres_of].
    + split; discriminate.
    + split; reflexivity.
Qed.

(* membership in the declared channel gives the well-formedness C11 asks for, given that the
   mapping's keys are a set and the range is not negative *)
Lemma combine_map_fst {X Y} (l : list X) (vs : list Y) :
  length vs = length l -> map fst (combine l vs) = l.
Proof.
  revert vs; induction l as [|x l IH]; intros [|v vs]; cbn; try discriminate; [reflexivity|].
  intros E. f_equal. apply IH. lia.
Qed.

Lemma attack_member_wf k cf pt :
  NoDup (c_mapping cf) -> 0 <= c_range cf ->
  member (attack_space k cf) pt = true ->
  exists act, attack_of_point k cf pt = Some act /\ act_ok act /\ act_wf cf act.
Proof.
  intros Hm HR. destruct k; unfold attack_space, attack_of_point.
  - destruct pt as [z|v|v|ps]; cbn [member]; try discriminate. intros H. apply in_range_spec in H.
    exists (ABinary z). split; [reflexivity|]. split; cbn; lia.
  - destruct pt as [z|v|v|ps]; try (cbn [member]; discriminate). rewrite member_Dict. intros H.
    destruct (enc_points_ok _ _ _ H) as (vs & Ev & El & Hv). rewrite Ev.
    assert (Hall : Forall (fun kv : Z * Z => 0 <= snd kv) (combine (c_mapping cf) vs)).
    { apply combine_snd_Forall. eapply Forall_impl; [|exact Hv]. cbn. intros; lia. }
    eexists. split; [reflexivity|]. split; [exact Hall|]. cbn [act_wf].
    split; [rewrite combine_map_fst by exact El; exact Hm|exact Hall].
  - destruct pt as [z|v|v|ps]; cbn [member]; try discriminate. intros H.
    assert (Hall : Forall (fun n => 0 <= n) v).
    { apply forall2b_repeat_l in H. eapply Forall_impl; [|exact H]. intros y Hy.
      apply in_closed_spec in Hy. cbn [fst snd] in Hy. lia. }
    exists (ASelective v). split; [reflexivity|]. split; exact Hall.
  - destruct pt as [z|v|v|ps]; cbn [member]; try discriminate. intros H.
    exists (ARestricted false v). split; [reflexivity|]. split; [exact I|]. cbn [act_wf].
    split; [exact HR|]. apply forall2b_repeat_l in H. eapply Forall_impl; [|exact H].
    intros y Hy. apply in_range_spec in Hy. unfold ncells in Hy. lia.
Qed.

(* the main statement, from membership in the declared channel *)
Theorem attack_total_all_oracles k vis s cf att a p pt :
  ginv s -> agent s att = Some a -> a_pos a = Some p ->
  member (attack_space k cf) pt = true ->
  exists act, attack_of_point k cf pt = Some act /\
    sat (t_process vis s cf att a p act) /\
    forall o, adm (t_process vis s cf att a p act) o ->
      exists st hits s' o', process_attack vis s cf att o act = POk st hits s' o' /\ ginv s'.
Proof.
  intros G Ha Hp Hm. destruct (attack_member_ok k cf pt Hm) as (act & E & Hok).
  exists act. split; [exact E|]. split; [apply sat_process; assumption|].
  intros o Hadm. apply (attack_adm_completes vis s cf att a p act o G Ha Hp Hadm).
Qed.

(* ... and the result satisfies every clause of C11's checker *)
Theorem attack_total_C11 k vis s cf att a p pt o :
  ginv s -> agent s att = Some a -> a_pos a = Some p ->
  NoDup (c_mapping cf) -> 0 <= c_range cf -> 0 <= c_strength cf ->
  (c_accuracy cf = HD -> Forall (fun u => u <= HD) (o_unif o)) ->
  member (attack_space k cf) pt = true ->
  exists act, attack_of_point k cf pt = Some act /\
    (adm (t_process vis s cf att a p act) o ->
     exists st hits s' o', process_attack vis s cf att o act = POk st hits s' o' /\ ginv s' /\
       chk_attack vis s s' cf att act st hits = 0).
Proof.
  intros G Ha Hp Hmap HR Hst Hacc Hm.
  destruct (attack_member_wf k cf pt Hmap HR Hm) as (act & E & Hok & Hwf).
  exists act. split; [exact E|]. intros Hadm.
  destruct (attack_adm_completes vis s cf att a p act o G Ha Hp Hadm) as (st & hits & s' & o' & Er & G').
  exists st, hits, s', o'. split; [exact Er|]. split; [exact G'|].
  apply (chk_attack_model vis s cf att o act st hits s' o' G Hwf Hst Hacc Er).
Qed.

(* responders: a function that answers every acceptable, answerable request with one of numpy's
   answers (whatever the request and the read index) and any function for the uniform draws: the
   call completes; the transcript of its answers is an admissible oracle, consumed exactly *)
Theorem attack_total_responders vis s cf att a p act rc :
  ginv s -> agent s att = Some a -> a_pos a = Some p -> act_ok act -> responsive rc ->
  let r := play (t_process vis s cf att a p act) rc 0 0 in
  let o := mko (fst (snd r)) (snd (snd r)) in
  adm (t_process vis s cf att a p act) o /\
  process_attack vis s cf att o act = POk (fst (fst (fst r))) (snd (fst (fst r))) (snd (fst r)) (mko [] []) /\
  ginv (snd (fst r)).
Proof.
  intros G Ha Hp Hok Hr r o.
  pose proof (play_run _ rc (sat_process vis s cf att a p act G Ha Hok) Hr 0%nat 0%nat [] []) as E.
  rewrite !app_nil_r in E. fold r in E. fold o in E.
  assert (Hadm : adm (t_process vis s cf att a p act) o).
  { apply adm_iff_ok. eexists; eexists; exact E. }
  split; [exact Hadm|].
  pose proof (process_tree vis s cf att a p act o Ha Hp) as Ep. rewrite E in Ep.
  destruct (fst r) as [[st hits] s'] eqn:Er. cbn [pres_of fst snd] in *.
  split; [exact Ep|].
  pose proof (process_attack_inv vis s cf att o act G) as Inv. rewrite Ep in Inv. exact Inv.
Qed.
