(* The third end-to-end instance: Grid/MazeNavSim.v's mazenav_sim is a `simulation` whose reset is
   COMPUTED by the placement model of C13 (Grid/Place.v, KMaze).  What the configuration fixes of a
   grid state (n_statics: everything but the positions and the cells) survives every step, reset and
   getter; a successful reset of ANY such state yields the same state, which satisfies the C03
   invariant and C13's legality; the step keeps the invariant; the getters never touch the grid.
   Hence the manager / history / trainer / reset theorems proved for every simulation hold for it. *)
From Coq Require Import ZArith List Bool Arith Lia.
From Abm Require Import Base.Sx Grid.Overlap Grid.Grid Grid.Move Grid.Attack Grid.Vis Grid.AttackRun
  Grid.Observe Grid.Play Grid.BattleSim Grid.FullReset Grid.MazeNavSim Ctl.Managers Ctl.Trainer
  Proofs.Grid_proofs Proofs.Overlap_proofs Proofs.Move_proofs Proofs.Play_proofs
  Proofs.GridChk_proofs Proofs.PlayChk_proofs Proofs.Managers_proofs Proofs.Managers_hist
  Proofs.BattleSim_proofs Proofs.FullReset_proofs.
From Abm Require Proofs.Trainer_proofs Proofs.Reset_proofs.
From Abm Require Grid.Maze Grid.Place Proofs.Maze_proofs Proofs.Place_proofs Grid.Done.
Import ListNotations.
Open Scope Z_scope.

Module P := Abm.Grid.Place.
Module PP := Abm.Proofs.Place_proofs.

(* ---- what the getters leave alone -------------------------------------------------------------------- *)
Lemma mn_obs_frame cf st i :
  ns_grid (snd (mn_obs cf st i)) = ns_grid st /\ ns_resets (snd (mn_obs cf st i)) = ns_resets st /\
  ns_rew (snd (mn_obs cf st i)) = ns_rew st.
Proof.
  unfold mn_obs. destruct (nth_error (nc_agents cf) i) as [b|]; [|cbn; auto].
  destruct (n_view b) as [v|]; [|cbn; auto].
  destruct (obs_centered _ _ _ _ _ _); cbn; auto.
Qed.

Lemma mn_reward_frame cf st i :
  ns_grid (snd (mn_reward cf st i)) = ns_grid st /\ ns_resets (snd (mn_reward cf st i)) = ns_resets st /\
  ns_obsorc (snd (mn_reward cf st i)) = ns_obsorc st.
Proof.
  unfold mn_reward. destruct (on_target cf (ns_grid st) i) as [[|]|]; [| |cbn; auto].
  - destruct (i <? length (ns_rew st))%nat; cbn; auto.
  - destruct (nth_error (ns_rew st) i) as [[x|]|]; cbn; auto.
Qed.

(* effects of the getters only: the grid and the stream of reset draws are the same *)
Lemma n_greach_frame cf s s' :
  greach (mazenav_sim cf) s s' -> ns_grid s' = ns_grid s /\ ns_resets s' = ns_resets s.
Proof.
  induction 1 as [s|s s' a _ IH|s s' a _ IH]; [auto| |]; cbn [mazenav_sim sim_obs sim_reward] in IH.
  - destruct (mn_obs_frame cf s a) as (E1 & E2 & _). destruct IH as [I1 I2]. split; congruence.
  - destruct (mn_reward_frame cf s a) as (E1 & E2 & _). destruct IH as [I1 I2]. split; congruence.
Qed.

(* get_done / get_all_done read the grid only *)
Theorem mazenav_done_stable cf : done_stable (mazenav_sim cf).
Proof.
  intros s s' a G. destruct (n_greach_frame cf s s' G) as [E _].
  cbn [mazenav_sim sim_done]. unfold mn_done. rewrite E. reflexivity.
Qed.

Lemma mn_all_grid cf s s' : ns_grid s' = ns_grid s -> mn_all cf s' = mn_all cf s.
Proof. intros E. unfold mn_all, mn_done. rewrite E. reflexivity. Qed.

(* ---- one loop body ------------------------------------------------------------------------------------- *)
Lemma n_pay_grid st i d : ns_grid (n_pay st i d) = ns_grid st.
Proof. unfold n_pay. destruct (nth_error (ns_rew st) i) as [[x|]|]; reflexivity. Qed.
Lemma n_pay_resets st i d : ns_resets (n_pay st i d) = ns_resets st.
Proof. unfold n_pay. destruct (nth_error (ns_rew st) i) as [[x|]|]; reflexivity. Qed.

(* the grid after one loop body: the move's result when the key names a navigating agent with a
   position, otherwise the grid as it was *)
Lemma mn_act_one_grid cf st ia :
  ns_grid (mn_act_one cf st ia) = ns_grid st \/
  exists b, move_by (ns_grid st) (fst ia) (snd ia) = MOk b (ns_grid (mn_act_one cf st ia)).
Proof.
  unfold mn_act_one. destruct (agent (ns_grid st) (fst ia)) as [a|]; [|left; reflexivity].
  destruct (is_nav cf (fst ia)); [|left; rewrite !n_pay_grid; reflexivity].
  unfold move_free. destruct (move_by (ns_grid st) (fst ia) (snd ia)) as [b g'| | |] eqn:E;
    try (left; reflexivity).
  right. exists b. destruct b; rewrite !n_pay_grid; reflexivity.
Qed.

Lemma mn_act_one_resets cf st ia : ns_resets (mn_act_one cf st ia) = ns_resets st.
Proof.
  unfold mn_act_one. destruct (agent (ns_grid st) (fst ia)) as [a|]; [|reflexivity].
  destruct (is_nav cf (fst ia)); [|rewrite !n_pay_resets; reflexivity].
  destruct (move_free _ _ _) as [[|] g'| | |]; try reflexivity; rewrite !n_pay_resets; reflexivity.
Qed.

Lemma n_fold_frame {X Y} (f : nstate -> X -> nstate) (g : nstate -> Y) :
  (forall st x, g (f st x) = g st) -> forall l st, g (fold_left f l st) = g st.
Proof.
  intros H l. induction l as [|x l IH]; intros st; cbn [fold_left]; [reflexivity|].
  rewrite IH. apply H.
Qed.

Lemma mn_step_resets cf st acts : ns_resets (mn_step cf st acts) = ns_resets st.
Proof. apply (n_fold_frame (mn_act_one cf) ns_resets), mn_act_one_resets. Qed.

(* ---- any property of the grid kept by the move actor is kept by the step ----------------------------- *)
Section Preserved.
  Variable Q : gstate -> Prop.
  Hypothesis Q_move : forall s i d, Q s -> match move_by s i d with MOk _ s' => Q s' | _ => True end.

  Lemma mn_act_one_Q cf st ia : Q (ns_grid st) -> Q (ns_grid (mn_act_one cf st ia)).
  Proof.
    intros H. destruct (mn_act_one_grid cf st ia) as [->|(b & E)]; [exact H|].
    pose proof (Q_move (ns_grid st) (fst ia) (snd ia) H) as H1. rewrite E in H1. exact H1.
  Qed.

  (* MultiMazeNavigationSim.step, every action dictionary *)
  Theorem mn_step_Q cf st acts : Q (ns_grid st) -> Q (ns_grid (mn_step cf st acts)).
  Proof.
    unfold mn_step. revert st. induction acts as [|x l IH]; intros st H; cbn [fold_left]; [exact H|].
    apply IH, mn_act_one_Q, H.
  Qed.
End Preserved.

(* the C03 invariant *)
Theorem mn_step_ginv cf st acts : ginv (ns_grid st) -> ginv (ns_grid (mn_step cf st acts)).
Proof. apply (mn_step_Q ginv ginv_move). Qed.

(* ---- n_statics: what a state shares with its configuration ------------------------------------------- *)
Definition unpos (a : arec) : arec := with_pos a None.

Definition n_statics (cf : ncfg) (g : gstate) : Prop :=
  g_rows g = P.c_rows (nc_place cf) /\ g_cols g = P.c_cols (nc_place cf) /\
  g_ov g = ov_symmetrise (P.c_ovraw (nc_place cf)) /\
  map unpos (g_agents g) = n_blank_agents (P.c_agents (nc_place cf)) (nc_agents cf).

Lemma unpos_with_pos a p : unpos (with_pos a p) = unpos a.
Proof. reflexivity. Qed.

Lemma map_unpos_upd l : forall i a p, nth_error l i = Some a ->
  map unpos (upd_nth l i (with_pos a p)) = map unpos l.
Proof.
  induction l as [|b l IH]; intros [|i] a p H; cbn in *; try discriminate.
  - injection H as <-. reflexivity.
  - f_equal. apply IH, H.
Qed.

Lemma place_unpos s i p :
  map unpos (g_agents (snd (place s i p))) = map unpos (g_agents s) /\
  g_rows (snd (place s i p)) = g_rows s /\ g_cols (snd (place s i p)) = g_cols s /\
  g_ov (snd (place s i p)) = g_ov s.
Proof.
  unfold place. destruct (agent s i) as [a|] eqn:Ha; [|cbn; auto].
  destruct (Grid.query s i p); [|cbn; auto]. cbn. split; [|auto].
  apply map_unpos_upd. exact Ha.
Qed.

Lemma move_by_unpos s i d :
  match move_by s i d with
  | MOk _ s' => map unpos (g_agents s') = map unpos (g_agents s) /\ g_rows s' = g_rows s /\
                g_cols s' = g_cols s /\ g_ov s' = g_ov s
  | _ => True
  end.
Proof.
  unfold move_by. destruct (agent s i) as [a|]; [|exact I]. destruct (a_pos a) as [from|]; [|exact I].
  destruct (inside s _); [|auto]. destruct (cell_eqb _ from); [auto|].
  destruct (Grid.query s i _); [|auto]. unfold remove.
  destruct (memn i (cell_get (g_cells s) from)); [|exact I].
  apply (place_unpos (set_cells s _) i _).
Qed.

Lemma n_statics_move cf s i d : n_statics cf s ->
  match move_by s i d with MOk _ s' => n_statics cf s' | _ => True end.
Proof.
  intros (S1 & S2 & S3 & S4). pose proof (move_by_unpos s i d) as H.
  destruct (move_by s i d); [|exact I|exact I|exact I]. destruct H as (H1 & H2 & H3 & H4).
  unfold n_statics. repeat split; congruence.
Qed.

Lemma blank_agents_nth : forall pas nas i b, nth_error (n_blank_agents pas nas) i = Some b ->
  exists pa na, nth_error pas i = Some pa /\ nth_error nas i = Some na /\
                b = n_blank_agent (P.a_enc pa) (n_blocking na).
Proof.
  induction pas as [|pa pas IH]; intros [|na nas] [|i] b H; cbn in H; try discriminate.
  - injection H as <-. exists pa, na. cbn. auto.
  - destruct (IH nas i b H) as (pa' & na' & H1 & H2 & H3). exists pa', na'. cbn. auto.
Qed.

Lemma blank_agents_length : forall pas nas, length nas = length pas ->
  length (n_blank_agents pas nas) = length pas.
Proof.
  induction pas as [|pa pas IH]; intros [|na nas] H; cbn in *; try discriminate; [reflexivity|].
  rewrite IH; [reflexivity|lia].
Qed.

(* an agent of a state with n_statics: the configured encoding and blocking flag, active, no health /
   ammunition / orientation attribute *)
Lemma n_statics_agent cf g i a : n_statics cf g -> agent g i = Some a ->
  exists pa na, nth_error (P.c_agents (nc_place cf)) i = Some pa /\ nth_error (nc_agents cf) i = Some na /\
    a_enc a = P.a_enc pa /\ a_blocking a = n_blocking na /\ a_active a = true /\ a_health a = HD /\
    a_ammo a = None /\ a_orient a = None.
Proof.
  intros (_ & _ & _ & S4) Ha. unfold agent in Ha.
  assert (H : nth_error (map unpos (g_agents g)) i = Some (unpos a)) by (rewrite nth_error_map, Ha; reflexivity).
  rewrite S4 in H. destruct (blank_agents_nth _ _ _ _ H) as (pa & na & H1 & H2 & H3).
  exists pa, na. split; [exact H1|]. split; [exact H2|].
  repeat split.
  - change (a_enc a) with (a_enc (unpos a)). rewrite H3. reflexivity.
  - change (a_blocking a) with (a_blocking (unpos a)). rewrite H3. reflexivity.
  - change (a_active a) with (a_active (unpos a)). rewrite H3. reflexivity.
  - change (a_health a) with (a_health (unpos a)). rewrite H3. reflexivity.
  - change (a_ammo a) with (a_ammo (unpos a)). rewrite H3. reflexivity.
  - change (a_orient a) with (a_orient (unpos a)). rewrite H3. reflexivity.
Qed.

Lemma n_statics_vitals cf g i a : n_statics cf g -> agent g i = Some a -> vitals_ok a.
Proof.
  intros S Ha. destruct (n_statics_agent cf g i a S Ha) as (_ & _ & _ & _ & _ & _ & A & H & M & O).
  unfold vitals_ok. rewrite H, A, M, O. unfold HD. split; [lia|]. split; [reflexivity|].
  split; intros ? E; discriminate.
Qed.

(* ---- the reset: MazePlacementState.reset as computed by the placement model --------------------------- *)
Lemma zipw_unpos : forall (l : list arec) (ps : list cell),
  map unpos (zipw (fun a p => with_pos a (Some p)) l ps) = map unpos l.
Proof.
  induction l as [|a l IH]; intros [|p ps]; cbn [zipw map]; try reflexivity.
  rewrite IH. reflexivity.
Qed.

Lemma with_pos_unpos a b p : unpos a = unpos b -> with_pos a p = with_pos b p.
Proof. destruct a, b. unfold unpos, with_pos. cbn. congruence. Qed.

Lemma zipw_unpos_eq : forall (l1 l2 : list arec) (ps : list cell), map unpos l1 = map unpos l2 ->
  (length l1 <= length ps)%nat ->
  zipw (fun a p => with_pos a (Some p)) l1 ps = zipw (fun a p => with_pos a (Some p)) l2 ps.
Proof.
  induction l1 as [|a l1 IH]; intros [|b l2] ps H Hl; cbn in H; try discriminate; [reflexivity|].
  assert (Hab : unpos a = unpos b) by congruence.
  assert (Hr : map unpos l1 = map unpos l2) by congruence.
  destruct ps as [|p ps]; [cbn in Hl; lia|]. cbn [zipw].
  f_equal; [apply with_pos_unpos, Hab|]. apply IH; [exact Hr|cbn in Hl; lia].
Qed.

Lemma blank_agents_length_le : forall pas nas, (length (n_blank_agents pas nas) <= length pas)%nat.
Proof.
  induction pas as [|pa pas IH]; intros [|na nas]; cbn; try lia. specialize (IH nas). lia.
Qed.

Lemma n_positions_of_length pc log : length (P.positions_of pc log) = length (P.c_agents pc).
Proof. unfold P.positions_of. rewrite map_length, seq_length. reflexivity. Qed.

(* whatever the previous episode did to positions and cells: the outcome of the reset (the new grid
   state, or that it raises) depends on configuration and draws only *)
Theorem n_position_reset_indep cf d g1 g2 : n_statics cf g1 -> n_statics cf g2 ->
  n_position_reset cf d g1 = n_position_reset cf d g2.
Proof.
  intros (A1 & A2 & A3 & A4) (B1 & B2 & B3 & B4). unfold n_position_reset.
  destruct (snd (n_placement cf d)) as [s|k s]; [|reflexivity]. f_equal.
  rewrite A1, A2, A3, B1, B2, B3. f_equal. apply zipw_unpos_eq; [congruence|].
  rewrite n_positions_of_length, <- (map_length unpos), A4. apply blank_agents_length_le.
Qed.

Lemma n_nth_error_positions_of pc log i : (i < length (P.c_agents pc))%nat ->
  nth_error (P.positions_of pc log) i = Some (P.pos_lookup i log).
Proof.
  intros H. unfold P.positions_of.
  rewrite nth_error_map, nth_error_nth' with (d := O) by (rewrite seq_length; exact H).
  rewrite seq_nth by exact H. reflexivity.
Qed.

Lemma wf_ncfg_parts cf : wf_ncfg cf = true ->
  P.wf_config (nc_place cf) = true /\ P.c_kind (nc_place cf) = P.KMaze /\
  length (nc_agents cf) = length (P.c_agents (nc_place cf)).
Proof.
  unfold wf_ncfg. rewrite !andb_true_iff. intros [[H1 H2] H3]. split; [exact H1|]. split.
  - destruct (P.c_kind (nc_place cf)); try discriminate. reflexivity.
  - apply Nat.eqb_eq, H3.
Qed.

Section Fresh.
  Variables (cf : ncfg) (d : P.draws).
  Hypothesis Hwf : wf_ncfg cf = true.

  Let pc := nc_place cf.
  Let rs := P.reset pc (n_listing cf) d.
  Let oc := P.outcome_of pc rs.
  Let log := P.ps_log (P.res_state (snd rs)).
  Let n := length (P.c_agents pc).

  Variable s0 : P.pstate.
  Hypothesis Hok : snd rs = P.POk s0.

  Lemma n_wf_place : P.wf_config pc = true.
  Proof. apply (wf_ncfg_parts cf Hwf). Qed.

  Lemma n_listing_ok : PP.order_ok pc (n_listing cf).
  Proof. split; [apply seq_NoDup|]. intros a. unfold n_listing. rewrite in_seq. fold pc. lia. Qed.

  Lemma n_placed_ok : P.o_kind oc = P.ROk.
  Proof. unfold oc, P.outcome_of. cbn [P.o_kind]. rewrite Hok. reflexivity. Qed.

  Lemma n_log_legal : PP.legal pc d oc.
  Proof. apply PP.model_legal; [exact n_wf_place|exact n_listing_ok|exact n_placed_ok]. Qed.

  Lemma n_oc_log : P.o_log oc = log.
  Proof. reflexivity. Qed.

  Lemma n_log_in_grid a p : In (a, p) log -> P.in_grid pc p = true.
  Proof. destruct n_log_legal as (L1 & _). intros H. apply (L1 a p). rewrite n_oc_log. exact H. Qed.

  Lemma n_log_nodup : NoDup (map fst log).
  Proof. destruct n_log_legal as (_ & _ & _ & _ & _ & L6). apply (L6 n_placed_ok). Qed.

  Lemma n_log_total a : (a < n)%nat -> exists p, In (a, p) log.
  Proof.
    destruct n_log_legal as (_ & _ & _ & _ & _ & L6). destruct (L6 n_placed_ok) as (_ & T & _).
    intros H. apply T. exact H.
  Qed.

  Lemma n_log_bound a p : In (a, p) log -> (a < n)%nat.
  Proof.
    intros H.
    assert (Hnb : P.o_kind oc <> P.RBad) by (rewrite n_placed_ok; discriminate).
    destruct (PP.model_error pc (n_listing cf) d n_wf_place n_listing_ok Hnb) as (_ & _ & E & _).
    destruct (E n_placed_ok) as [Esq _].
    destruct (PP.model_chk pc (n_listing cf) d n_wf_place n_listing_ok Hnb) as [_ Hord].
    assert (Hin : In a (map fst (P.o_log oc))).
    { rewrite n_oc_log. apply in_map_iff. exists (a, p). auto. }
    fold rs oc in Esq, Hord. rewrite Esq in Hin.
    apply (PP.seq_of_In pc _ a Hord) in Hin; [exact Hin|].
    intros _. destruct (PP.wf_parts pc n_wf_place) as (_ & _ & _ & _ & W).
    apply W. destruct (wf_ncfg_parts cf Hwf) as (_ & K & _). fold pc in K. rewrite K. discriminate.
  Qed.

  Lemma n_pos_of a p : In (a, p) log -> P.pos_lookup a log = p.
  Proof. apply PP.pos_lookup_spec, n_log_nodup. Qed.

  Lemma n_cols_pos : 0 < P.c_cols pc /\ 0 < P.c_rows pc /\ NoDup (map fst (P.c_ovraw pc)).
  Proof. destruct (PP.wf_parts pc n_wf_place) as (H1 & H2 & _ & H4 & _). auto. Qed.

  Lemma n_cells_are_occupants q : cell_get (grid_of_log pc log) q = P.occupants log q.
  Proof.
    unfold grid_of_log. rewrite (cell_get_map_keys (P.unravel pc) (P.occupants log)).
    destruct (existsb _ _) eqn:E; [reflexivity|]. symmetry. apply PP.occupants_nil.
    intros [b p] Hin Hp. cbn [snd] in Hp. subst p.
    pose proof (n_log_in_grid b q Hin) as Hg.
    assert (Hex : existsb (fun k => cell_eqb q (P.unravel pc k)) (P.cells pc) = true).
    { apply existsb_exists. exists (P.ravel pc q). split.
      - apply PP.in_cells. apply PP.ravel_in_range. exact Hg.
      - rewrite PP.unravel_ravel; [apply cell_eqb_refl|].
        apply PP.in_grid_spec in Hg. tauto. }
    congruence.
  Qed.

  (* ---- the state a successful reset produces from a state g with n_statics ---- *)
  Variable g : gstate.
  Hypothesis Hg : n_statics cf g.

  Let s : gstate :=
    {| g_rows := g_rows g; g_cols := g_cols g; g_ov := g_ov g;
       g_agents := zipw (fun a p => with_pos a (Some p)) (g_agents g) (P.positions_of pc log);
       g_cells := grid_of_log pc log |}.

  Lemma n_reset_is : n_position_reset cf d g = Some s.
  Proof.
    unfold n_position_reset, n_placement. fold pc rs. unfold s, log. rewrite Hok. reflexivity.
  Qed.

  Lemma n_len_g : length (g_agents g) = n.
  Proof.
    destruct Hg as (_ & _ & _ & S4). destruct (wf_ncfg_parts cf Hwf) as (_ & _ & L).
    rewrite <- (map_length unpos), S4. apply blank_agents_length, L.
  Qed.

  Lemma n_s_agent i a : agent g i = Some a ->
    agent s i = Some (with_pos a (Some (P.pos_lookup i log))).
  Proof.
    intros Ha. unfold agent, s. cbn [g_agents].
    apply (nth_error_zipw (fun a0 p => with_pos a0 (Some p))); [exact Ha|].
    apply n_nth_error_positions_of. fold pc n. rewrite <- n_len_g.
    apply (nth_error_some_lt _ _ _ Ha).
  Qed.

  Lemma n_s_agent_inv i a' : agent s i = Some a' ->
    exists a, agent g i = Some a /\ a' = with_pos a (Some (P.pos_lookup i log)).
  Proof.
    intros Ha'. unfold agent in Ha'. pose proof (nth_error_some_lt _ _ _ Ha') as Hi.
    unfold s in Hi. cbn [g_agents] in Hi. rewrite zipw_length in Hi.
    destruct (nth_error_lt_some (g_agents g) i Hi) as (a & Ha). exists a. split; [exact Ha|].
    pose proof (n_s_agent i a Ha) as E. unfold agent in E. congruence.
  Qed.

  Lemma n_s_statics : n_statics cf s.
  Proof.
    destruct Hg as (S1 & S2 & S3 & S4). unfold n_statics, s. cbn [g_rows g_cols g_ov g_agents].
    split; [exact S1|]. split; [exact S2|]. split; [exact S3|]. rewrite zipw_unpos. exact S4.
  Qed.

  Lemma n_s_cell q i : In i (cell_get (g_cells s) q) <-> In (i, q) log.
  Proof. unfold s. cbn [g_cells]. rewrite n_cells_are_occupants. apply PP.occupants_In_iff. Qed.

  Lemma n_s_inside p : P.in_grid pc p = true -> inside s p = true.
  Proof.
    destruct Hg as (S1 & S2 & _). unfold P.in_grid, inside, s. cbn [g_rows g_cols].
    rewrite S1, S2. fold pc. auto.
  Qed.

  Lemma n_g_agent_lt i : (i < n)%nat -> exists a, agent g i = Some a.
  Proof. intros H. apply nth_error_lt_some. rewrite n_len_g. exact H. Qed.

  Lemma n_s_enc i a : agent g i = Some a -> enc_of s i = P.enc pc i.
  Proof.
    intros Ha. unfold enc_of. rewrite (n_s_agent i a Ha). cbn [with_pos a_enc].
    destruct (n_statics_agent cf g i a Hg Ha) as (pa & na & H1 & _ & E & _).
    rewrite E. unfold P.enc, P.agent_of. fold pc in H1. symmetry.
    rewrite (nth_error_nth _ _ P.dummy_agent H1). reflexivity.
  Qed.

  Theorem n_s_ginv : ginv s.
  Proof.
    constructor.
    - intros a b. unfold s. cbn [g_ov]. destruct Hg as (_ & _ & S3 & _). rewrite S3.
      apply overlap_symmetric. apply n_cols_pos.
    - intros p i Hi. apply n_s_cell in Hi. pose proof (n_log_bound i p Hi) as Hb.
      destruct (n_g_agent_lt i Hb) as (a & Ha).
      exists (with_pos a (Some (P.pos_lookup i log))). split; [apply (n_s_agent i a Ha)|].
      destruct (n_statics_agent cf g i a Hg Ha) as (_ & _ & _ & _ & _ & _ & A & _).
      split; [exact A|]. cbn [with_pos a_pos]. rewrite (n_pos_of i p Hi). reflexivity.
    - intros p. unfold s. cbn [g_cells]. rewrite n_cells_are_occupants. unfold P.occupants.
      apply NoDup_map_fst_filter, n_log_nodup.
    - intros i a' p _ Ha' _ Hp. destruct (n_s_agent_inv i a' Ha') as (a & Ha & ->).
      cbn [with_pos a_pos] in Hp. injection Hp as Hp.
      assert (Hi : (i < n)%nat) by (rewrite <- n_len_g; apply (nth_error_some_lt _ _ _ Ha)).
      destruct (n_log_total i Hi) as (p' & Hin).
      rewrite (n_pos_of i p' Hin) in Hp. subst p'. split; [apply n_s_cell, Hin|].
      apply n_s_inside, (n_log_in_grid i p Hin).
    - intros p i j Hi Hj N. apply n_s_cell in Hi. apply n_s_cell in Hj.
      destruct (n_g_agent_lt i (n_log_bound i p Hi)) as (ai & Hai).
      destruct (n_g_agent_lt j (n_log_bound j p Hj)) as (aj & Haj).
      rewrite (n_s_enc i ai Hai), (n_s_enc j aj Haj). unfold s. cbn [g_ov].
      destruct Hg as (_ & _ & S3 & _). rewrite S3.
      destruct n_log_legal as (_ & _ & L3 & _).
      assert (M : P.may_share pc i j = true)
        by (apply (L3 i j p); [rewrite n_oc_log|rewrite n_oc_log|]; assumption).
      unfold P.may_share in M. apply andb_true_iff in M as [M _]. exact M.
    - intros i a' Ha'. apply (n_statics_vitals cf s i a' n_s_statics Ha').
  Qed.

  Lemma n_s_all_placed : all_placed s.
  Proof.
    intros a' Ha' _. apply In_nth_error in Ha' as (i & Hi).
    destruct (n_s_agent_inv i a' Hi) as (a & _ & ->). eexists. reflexivity.
  Qed.

  (* every agent stands in exactly the cell of its position, which is the cell the placement gave it *)
  Lemma n_s_positions i : (i < n)%nat ->
    exists a p, agent s i = Some a /\ a_pos a = Some p /\ In (i, p) log /\ inside s p = true /\
      (forall q, In i (cell_get (g_cells s) q) <-> q = p).
  Proof.
    intros Hi. destruct (n_g_agent_lt i Hi) as (a & Ha). destruct (n_log_total i Hi) as (p & Hin).
    exists (with_pos a (Some (P.pos_lookup i log))), p. split; [apply (n_s_agent i a Ha)|].
    cbn [with_pos a_pos]. rewrite (n_pos_of i p Hin). split; [reflexivity|]. split; [exact Hin|].
    split; [apply n_s_inside, (n_log_in_grid i p Hin)|].
    intros q. rewrite n_s_cell. split.
    - intros Hq. apply (PP.NoDup_fst_unique log i q p n_log_nodup Hq Hin).
    - intros ->. exact Hin.
  Qed.

  Lemma n_s_pos_list : map a_pos (g_agents s) = map Some (P.positions_of pc log).
  Proof.
    apply list_ext. intros i. rewrite !nth_error_map.
    destruct (lt_dec i n) as [Hi|Hi].
    - destruct (n_g_agent_lt i Hi) as (a & Ha). pose proof (n_s_agent i a Ha) as E. unfold agent in E.
      rewrite E, (n_nth_error_positions_of pc log i Hi). reflexivity.
    - assert (E1 : nth_error (g_agents s) i = None).
      { apply nth_error_None. unfold s. cbn [g_agents]. rewrite zipw_length, n_len_g. lia. }
      assert (E2 : nth_error (P.positions_of pc log) i = None).
      { apply nth_error_None. rewrite n_positions_of_length. fold n. lia. }
      rewrite E1, E2. reflexivity.
  Qed.
End Fresh.

(* a successful reset, from ANY previous state of the configuration: the grid invariant of C03, the
   statics, every agent placed, and the legality clauses of C13 for the placement that produced it *)
Theorem n_position_reset_fresh cf d g s :
  wf_ncfg cf = true -> n_statics cf g -> n_position_reset cf d g = Some s ->
  ginv s /\ n_statics cf s /\ all_placed s /\
  PP.legal (nc_place cf) d (P.outcome_of (nc_place cf) (n_placement cf d)) /\
  P.o_kind (P.outcome_of (nc_place cf) (n_placement cf d)) = P.ROk /\
  map a_pos (g_agents s) = map Some (P.o_pos (P.outcome_of (nc_place cf) (n_placement cf d))).
Proof.
  intros Hwf Hg E.
  assert (Hok : exists s0, snd (P.reset (nc_place cf) (n_listing cf) d) = P.POk s0).
  { unfold n_position_reset, n_placement in E.
    destruct (snd (P.reset (nc_place cf) (n_listing cf) d)) as [s0|]; [eauto|discriminate]. }
  destruct Hok as (s0 & Hok).
  rewrite (n_reset_is cf d s0 Hok g) in E. injection E as <-.
  split; [apply (n_s_ginv cf d Hwf s0 Hok g Hg)|]. split; [apply (n_s_statics cf d g Hg)|].
  split; [apply (n_s_all_placed cf d Hwf g Hg)|]. split; [apply (n_log_legal cf d Hwf s0 Hok)|].
  split; [apply (n_placed_ok cf d s0 Hok)|].
  rewrite (n_s_pos_list cf d Hwf g Hg). unfold P.outcome_of, n_placement. cbn [P.o_pos].
  rewrite Hok. reflexivity.
Qed.

(* ---- invariants of the simulation state along every manager history ----------------------------------- *)
Section RunInv.
  Variables (cf : ncfg) (J : nstate -> Prop).
  Hypothesis J_step : forall st acts, J st -> J (mn_step cf st acts).
  Hypothesis J_reset : forall st, J st -> J (mn_reset cf st).
  Hypothesis J_obs : forall st a, J st -> J (snd (mn_obs cf st a)).
  Hypothesis J_rew : forall st a, J st -> J (snd (mn_reward cf st a)).

  Lemma greach_J s s' : greach (mazenav_sim cf) s s' -> J s -> J s'.
  Proof.
    induction 1 as [s|s s' a _ IH|s s' a _ IH]; intros H; [exact H| |];
      cbn [mazenav_sim sim_obs sim_reward] in IH; apply IH; [apply J_obs, H|apply J_rew, H].
  Qed.

  (* one manager call, any manager, any call, in or out of protocol *)
  Lemma do_call_J k m c r m' :
    do_call (mazenav_sim cf) k m c = (r, m') -> J (m_sim m) -> J (m_sim m').
  Proof.
    intros E H. destruct (do_call_sim_reach (mazenav_sim cf) k m c r m' E) as [Q|[Q|[l Q]]].
    - rewrite Q. exact H.
    - apply (greach_J _ _ Q). apply J_reset, H.
    - apply (greach_J _ _ Q). apply J_step, H.
  Qed.

  Theorem run_J k cs : forall m, J (m_sim m) -> J (m_sim (snd (run (mazenav_sim cf) k m cs))).
  Proof.
    induction cs as [|c cs IH]; intros m H; cbn [run]; [exact H|].
    destruct (do_call (mazenav_sim cf) k m c) as [r m1] eqn:E.
    specialize (IH m1 (do_call_J k m c r m1 E H)).
    destruct (run (mazenav_sim cf) k m1 cs) as [rs m2]. exact IH.
  Qed.

  Theorem trace_J k cs : forall m ph, J (m_sim m) ->
    forall e, In e (trace (mazenav_sim cf) k m ph cs) -> J (m_sim (te_pre e)) /\ J (m_sim (te_post e)).
  Proof.
    induction cs as [|c cs IH]; intros m ph H e He; cbn [trace] in He; [destruct He|].
    destruct (do_call (mazenav_sim cf) k m c) as [r m1] eqn:E.
    pose proof (do_call_J k m c r m1 E H) as H1.
    destruct He as [<-|He]; [cbn; auto|]. exact (IH m1 _ H1 e He).
  Qed.
End RunInv.

(* the statics and the C03 invariant of the grid *)
Definition n_inv (cf : ncfg) (st : nstate) : Prop := n_statics cf (ns_grid st) /\ ginv (ns_grid st).

Lemma n_inv_move cf s i d : n_statics cf s /\ ginv s ->
  match move_by s i d with MOk _ s' => n_statics cf s' /\ ginv s' | _ => True end.
Proof.
  intros [S G]. pose proof (n_statics_move cf s i d S) as H1. pose proof (move_by_inv s i d G) as H2.
  destruct (move_by s i d); auto.
Qed.

Lemma n_inv_step cf st acts : n_inv cf st -> n_inv cf (mn_step cf st acts).
Proof. apply (mn_step_Q (fun g => n_statics cf g /\ ginv g) (n_inv_move cf)). Qed.

Lemma n_inv_reset cf st : wf_ncfg cf = true -> n_inv cf st -> n_inv cf (mn_reset cf st).
Proof.
  intros Hwf [S G]. unfold mn_reset, n_inv. destruct (ns_resets st) as [|d rest]; [cbn; auto|].
  destruct (n_position_reset cf d (ns_grid st)) as [g|] eqn:E; [|cbn; auto]. cbn [ns_grid].
  destruct (n_position_reset_fresh cf d (ns_grid st) g Hwf S E) as (G' & S' & _). auto.
Qed.

Lemma n_inv_obs cf st a : n_inv cf st -> n_inv cf (snd (mn_obs cf st a)).
Proof. unfold n_inv. destruct (mn_obs_frame cf st a) as (-> & _). auto. Qed.
Lemma n_inv_rew cf st a : n_inv cf st -> n_inv cf (snd (mn_reward cf st a)).
Proof. unfold n_inv. destruct (mn_reward_frame cf st a) as (-> & _). auto. Qed.

(* reachable simulation states, every manager kind, every call list *)
Theorem mazenav_ginv_reachable cf k s0 cs :
  wf_ncfg cf = true -> n_statics cf (ns_grid s0) -> ginv (ns_grid s0) ->
  ginv (ns_grid (m_sim (snd (run (mazenav_sim cf) k (init s0) cs)))) /\
  forall e, In e (trace (mazenav_sim cf) k (init s0) Fresh cs) ->
    ginv (ns_grid (m_sim (te_pre e))) /\ ginv (ns_grid (m_sim (te_post e))).
Proof.
  intros Hwf S G. assert (H : n_inv cf (m_sim (init s0))) by (split; assumption). split.
  - apply (run_J cf (n_inv cf) (n_inv_step cf) (fun st => n_inv_reset cf st Hwf) (n_inv_obs cf)
                 (n_inv_rew cf) k cs (init s0) H).
  - intros e He.
    destruct (trace_J cf (n_inv cf) (n_inv_step cf) (fun st => n_inv_reset cf st Hwf) (n_inv_obs cf)
                      (n_inv_rew cf) k cs (init s0) Fresh H e He) as [[_ A] [_ B]]. auto.
Qed.

Theorem mazenav_statics_reachable cf k s0 cs :
  wf_ncfg cf = true -> n_statics cf (ns_grid s0) -> ginv (ns_grid s0) ->
  n_statics cf (ns_grid (m_sim (snd (run (mazenav_sim cf) k (init s0) cs)))).
Proof.
  intros Hwf S G. assert (H : n_inv cf (m_sim (init s0))) by (split; assumption).
  apply (run_J cf (n_inv cf) (n_inv_step cf) (fun st => n_inv_reset cf st Hwf) (n_inv_obs cf)
               (n_inv_rew cf) k cs (init s0) H).
Qed.

(* the simulation object before its first reset *)
Lemma n_blank_statics cf : n_statics cf (n_blank cf).
Proof.
  unfold n_statics, n_blank, empty_grid. cbn [g_rows g_cols g_ov g_agents].
  split; [reflexivity|]. split; [reflexivity|]. split; [reflexivity|].
  generalize (nc_agents cf). induction (P.c_agents (nc_place cf)) as [|pa pas IH]; intros [|na nas];
    cbn [n_blank_agents map]; try reflexivity. rewrite IH. reflexivity.
Qed.

Lemma n_blank_ginv cf : wf_ncfg cf = true -> ginv (n_blank cf).
Proof.
  intros Hwf. destruct (wf_ncfg_parts cf Hwf) as (W & _).
  destruct (PP.wf_parts _ W) as (_ & _ & _ & Hnd & _). unfold n_blank. apply ginv_empty.
  - intros a b. apply overlap_symmetric, Hnd.
  - apply Forall_forall. intros a Ha. apply In_nth_error in Ha as (i & Hi).
    apply (n_statics_vitals cf (n_blank cf) i a (n_blank_statics cf)). exact Hi.
  - apply Forall_forall. intros a Ha. apply In_nth_error in Ha as (i & Hi).
    destruct (blank_agents_nth _ _ _ _ Hi) as (pa & na & _ & _ & ->). reflexivity.
Qed.

(* ---- the generic manager / trainer / reset theorems, instantiated ------------------------------------ *)
Definition has_nav (cf : ncfg) : Prop := exists i, (i < n_count cf)%nat /\ is_nav cf i = true.

Lemma mazenav_order_nonempty cf : has_nav cf -> order (mazenav_sim cf) <> [].
Proof.
  intros (i & Hi & Hn) E.
  assert (H : In i (order (mazenav_sim cf))).
  { unfold order, Managers.agents. apply filter_In. cbn [mazenav_sim sim_n sim_learning].
    split; [apply in_seq; lia|exact Hn]. }
  rewrite E in H. destruct H.
Qed.

Theorem mazenav_done_once_turn cf s0 cs :
  in_protocol (trace (mazenav_sim cf) MTurn (init s0) Fresh cs) ->
  NoDup (ep_dones (trace (mazenav_sim cf) MTurn (init s0) Fresh cs) []).
Proof. apply once_turn, mazenav_done_stable. Qed.

Theorem mazenav_steps_turn cf s0 cs :
  in_protocol (trace (mazenav_sim cf) MTurn (init s0) Fresh cs) ->
  forall e acts sh, In e (trace (mazenav_sim cf) MTurn (init s0) Fresh cs) -> te_call e = CStep acts sh ->
    match te_resp e with
    | ROut o =>
        wfo o /\ NoDup (keys o) /\ (forall a, In a (keys o) -> ~ In a (m_done (te_pre e))) /\
        ~ submits_done (m_done (te_pre e)) acts /\ incl (m_done (te_pre e)) (m_done (te_post e)) /\
        greach (mazenav_sim cf) (mn_step cf (m_sim (te_pre e)) acts) (m_sim (te_post e)) /\
        o_all o = mn_all cf (mn_step cf (m_sim (te_pre e)) acts)
                  || all_in (mazenav_sim cf) (m_done (te_post e)) /\
        (o_all o = false -> forall a, In (a, true) (o_done o) -> In a (m_done (te_post e)))
    | RObs _ => False
    | _ => te_post e = te_pre e
    end.
Proof.
  intros Hp e acts sh He Hc. pose proof (steps_ok_turn (mazenav_sim cf) s0 cs Hp e acts sh He Hc) as H.
  destruct (te_resp e); auto. destruct H as (H1 & H2 & H3 & H4 & H5 & H6 & H7 & H8).
  split; [exact H1|]. split; [exact H2|]. split; [exact H3|]. split; [exact H4|].
  split; [exact H5|]. split; [exact H6|]. split; [exact H7|]. apply H8, mazenav_done_stable.
Qed.

Theorem mazenav_invariants_turn cf s0 cs :
  wf_ncfg cf = true -> n_statics cf (ns_grid s0) -> ginv (ns_grid s0) ->
  in_protocol (trace (mazenav_sim cf) MTurn (init s0) Fresh cs) ->
  forall e, In e (trace (mazenav_sim cf) MTurn (init s0) Fresh cs) ->
    (te_ph e = Live -> tinv (mazenav_sim cf) (te_pre e)) /\
    ginv (ns_grid (m_sim (te_pre e))) /\ ginv (ns_grid (m_sim (te_post e))) /\
    do_call (mazenav_sim cf) MTurn (te_pre e) (te_call e) = (te_resp e, te_post e).
Proof.
  intros Hwf S G Hp e He.
  destruct (hist_inv_turn (mazenav_sim cf) s0 cs Hp e He) as (_ & _ & T & D).
  destruct (proj2 (mazenav_ginv_reachable cf MTurn s0 cs Hwf S G) e He) as [A B]. auto.
Qed.

Theorem mazenav_invariants_all cf s0 cs :
  wf_ncfg cf = true -> n_statics cf (ns_grid s0) -> ginv (ns_grid s0) ->
  in_protocol (trace (mazenav_sim cf) MAll (init s0) Fresh cs) ->
  forall e, In e (trace (mazenav_sim cf) MAll (init s0) Fresh cs) ->
    (te_ph e <> Fresh -> incl (nonlearning (mazenav_sim cf)) (m_done (te_pre e))) /\
    ginv (ns_grid (m_sim (te_pre e))) /\ ginv (ns_grid (m_sim (te_post e))) /\
    do_call (mazenav_sim cf) MAll (te_pre e) (te_call e) = (te_resp e, te_post e) /\
    NoDup (ep_dones (trace (mazenav_sim cf) MAll (init s0) Fresh cs) []).
Proof.
  intros Hwf S G Hp e He.
  destruct (hist_inv_all (mazenav_sim cf) s0 cs Hp e He) as (N & D).
  destruct (proj2 (mazenav_ginv_reachable cf MAll s0 cs Hwf S G) e He) as [A B].
  split; [exact N|]. split; [exact A|]. split; [exact B|]. split; [exact D|]. apply once_all, Hp.
Qed.

Theorem mazenav_trainer_never_fails PS cf pmap (pol_act : PS -> nat -> list (list Z) -> cell * PS)
        pol_reset shuf h k m ps :
  has_nav cf -> k = MAll \/ k = MTurn ->
  er_status (generate_episode (mazenav_sim cf) pmap pol_act pol_reset shuf h k m ps) = EOk /\
  exists obs, er_reset (generate_episode (mazenav_sim cf) pmap pol_act pol_reset shuf h k m ps) = RObs obs.
Proof.
  intros Hn Hk. apply Trainer_proofs.never_fails.
  - unfold Trainer_proofs.tk. tauto.
  - unfold Trainer_proofs.sim_ok. split; [intros _; apply mazenav_done_stable|]. split.
    + intros ->. destruct Hk; discriminate.
    + intros _. apply mazenav_order_nonempty, Hn.
Qed.

(* C08 with the reset computed: the reset of ANY two states of this configuration with the same draw
   streams and flag *)
Lemma mn_reset_reseed cf st src :
  n_statics cf (ns_grid st) -> n_statics cf (ns_grid src) -> n_next_reset_ok cf src = true ->
  ns_bad st = ns_bad src ->
  mn_reset cf (n_reseed st src) = mn_reset cf src.
Proof.
  intros Hst Hsrc Hn Hb. unfold n_next_reset_ok in Hn. unfold mn_reset, n_reseed.
  cbn [ns_resets ns_grid ns_rew ns_obsorc ns_bad].
  destruct (ns_resets src) as [|d rest]; [discriminate|].
  rewrite (n_position_reset_indep cf d (ns_grid st) (ns_grid src) Hst Hsrc).
  destruct (n_position_reset cf d (ns_grid src)); [|discriminate]. rewrite Hb. reflexivity.
Qed.

Theorem mazenav_used_vs_fresh cf k s0 h cs :
  k = MAll \/ k = MTurn -> has_nav cf -> wf_ncfg cf = true ->
  n_statics cf (ns_grid s0) -> ginv (ns_grid s0) -> n_next_reset_ok cf s0 = true ->
  let used := snd (run (mazenav_sim cf) k (init s0) h) in
  ns_bad (m_sim used) = ns_bad s0 ->
  fst (run (mazenav_sim cf) k (n_reseed_m used s0) (CReset :: cs)) =
  fst (run (mazenav_sim cf) k (init s0) (CReset :: cs)).
Proof.
  intros Hk Hn Hwf S G Hok used Hb.
  apply Reset_proofs.episode_indistinguishable.
  - destruct Hk as [-> | ->]; discriminate.
  - intros _. apply mazenav_order_nonempty, Hn.
  - cbn [n_reseed_m m_sim init mazenav_sim sim_reset].
    apply mn_reset_reseed; try assumption.
    apply (mazenav_statics_reachable cf k s0 h Hwf S G).
Qed.

Theorem mazenav_episode_indistinguishable cf k m1 m2 cs :
  has_nav cf -> k <> MTurnPrefix ->
  mn_reset cf (m_sim m1) = mn_reset cf (m_sim m2) ->
  fst (run (mazenav_sim cf) k m1 (CReset :: cs)) = fst (run (mazenav_sim cf) k m2 (CReset :: cs)).
Proof.
  intros Hn Hk E. apply Reset_proofs.episode_indistinguishable; [exact Hk| |exact E].
  intros _. apply mazenav_order_nonempty, Hn.
Qed.

(* ---- every entry of a manager output is a getter's answer in a state with J ---------------------------
   generic in the simulation: J is kept by the getters, Qr holds of every reward read in a J-state, Qd
   of every done flag read in a J-state; then every reward / done entry of the output of an all-step
   or turn-based step satisfies Qr / Qd and the state left behind has J *)
Section Entries.
  Context {St Obs Info Act : Type}.
  Variable Sim : simulation St Obs Info Act.
  Variables (J : St -> Prop) (Qr : nat -> Z -> Prop) (Qd : nat -> bool -> Prop).
  Hypothesis J_obs : forall s a, J s -> J (snd (sim_obs Sim s a)).
  Hypothesis J_rew : forall s a, J s -> J (snd (sim_reward Sim s a)) /\ Qr a (fst (sim_reward Sim s a)).
  Hypothesis J_done : forall s a, J s -> Qd a (sim_done Sim s a).

  Definition out_good (o : out Obs Info) : Prop :=
    (forall a r, In (a, r) (o_rew o) -> Qr a r) /\ (forall a b, In (a, b) (o_done o) -> Qd a b).

  Lemma out_good_empty b : out_good (empty_out b).
  Proof. split; intros ? ? []. Qed.

  Lemma out_good_set_all o b : out_good o -> out_good (set_all o b).
  Proof. intros H. exact H. Qed.

  Lemma thread_obs_J l : forall s, J s -> J (snd (thread (sim_obs Sim) s l)).
  Proof.
    induction l as [|a l IH]; intros s H; cbn [thread]; [exact H|].
    pose proof (J_obs s a H) as H1. destruct (sim_obs Sim s a) as [x s1]. cbn [snd] in H1.
    specialize (IH s1 H1). destruct (thread (sim_obs Sim) s1 l) as [r s2]. exact IH.
  Qed.

  Lemma thread_rew_J l : forall s, J s ->
    J (snd (thread (sim_reward Sim) s l)) /\
    forall a r, In (a, r) (fst (thread (sim_reward Sim) s l)) -> Qr a r.
  Proof.
    induction l as [|a l IH]; intros s H; cbn [thread]; [split; [exact H|intros ? ? []]|].
    destruct (J_rew s a H) as [H1 H2]. destruct (sim_reward Sim s a) as [x s1]. cbn [fst snd] in H1, H2.
    destruct (IH s1 H1) as [I1 I2]. destruct (thread (sim_reward Sim) s1 l) as [r s2]. cbn [fst snd] in *.
    split; [exact I1|]. intros a' r' [E|Hin]; [injection E as <- <-; exact H2|apply I2, Hin].
  Qed.

  Lemma add_report_good s a o : J s -> out_good o ->
    out_good (fst (add_report Sim s a o)) /\ J (snd (add_report Sim s a o)).
  Proof.
    intros H [G1 G2]. unfold add_report. pose proof (J_obs s a H) as H1.
    destruct (sim_obs Sim s a) as [ob s1]. cbn [snd] in H1.
    destruct (J_rew s1 a H1) as [H2 H3]. destruct (sim_reward Sim s1 a) as [r s2]. cbn [fst snd] in *.
    split; [|exact H2]. split; cbn [o_rew o_done]; intros a' x Hin; apply in_app_or in Hin as [Hin|[E|[]]].
    - apply G1, Hin.
    - injection E as <- <-. exact H3.
    - apply G2, Hin.
    - injection E as <- <-. apply J_done, H2.
  Qed.

  Lemma flush_good d l : forall s o, J s -> out_good o ->
    out_good (fst (flush Sim s d l o)) /\ J (snd (flush Sim s d l o)).
  Proof.
    induction l as [|a l IH]; intros s o H G; cbn [flush]; [auto|].
    destruct (memb a d); [apply IH; assumption|].
    destruct (add_report_good s a o H G) as [G1 H1]. destruct (add_report Sim s a o) as [o1 s1].
    cbn [fst snd] in *. apply IH; assumption.
  Qed.

  Lemma turn_search_good fuel : forall s d p o o' s' d' p', J s -> out_good o ->
    turn_search Sim fuel s d p o = SOk o' s' d' p' ->
    out_good o' /\ J s' /\ forall x, In x d' -> In x d \/ Qd x true.
  Proof.
    induction fuel as [|fuel IH]; intros s d p o o' s' d' p' H G E; cbn [turn_search] in E; [discriminate|].
    set (a := nth p (order Sim) 0%nat) in *.
    destruct (memb a d); [apply (IH _ _ _ _ _ _ _ _ H G E)|].
    destruct (add_report_good s a o H G) as [G1 H1].
    pose proof (J_done s a H) as Hd.
    destruct (sim_done Sim s a).
    - destruct (add_report Sim s a o) as [o1 s1]. cbn [fst snd] in *.
      assert (Hnew : forall x, In x (d ++ [a]) -> In x d \/ Qd x true).
      { intros x Hx. apply in_app_or in Hx as [Hx|[<-|[]]]; auto. }
      destruct (all_in Sim (d ++ [a])).
      + injection E as <- <- <- <-. split; [apply out_good_set_all, G1|]. split; [exact H1|exact Hnew].
      + destruct (IH _ _ _ _ _ _ _ _ H1 G1 E) as (A & B & C). split; [exact A|]. split; [exact B|].
        intros x Hx. destruct (C x Hx) as [Hx'|Hx']; [apply Hnew, Hx'|auto].
    - destruct (add_report Sim s a o) as [o1 s1]. cbn [fst snd] in *.
      injection E as <- <- <- <-. auto.
  Qed.

  Lemma all_step_good m acts sh o m' : J (sim_step Sim (m_sim m) sh) ->
    all_step Sim m acts sh = (ROut o, m') ->
    out_good o /\ J (m_sim m') /\ forall x, In x (m_done m') -> In x (m_done m) \/ Qd x true.
  Proof.
    intros H E. unfold all_step in E.
    destruct (existsb (fun kv => memb (fst kv) (m_done m)) acts); [discriminate|].
    set (lv := filter (fun a => negb (memb a (m_done m))) (Managers.agents Sim)) in *.
    pose proof (thread_obs_J lv _ H) as H1.
    destruct (thread (sim_obs Sim) (sim_step Sim (m_sim m) sh) lv) as [obs s2]. cbn [snd] in H1.
    destruct (thread_rew_J lv s2 H1) as [H2 H3].
    destruct (thread (sim_reward Sim) s2 lv) as [rew s3]. cbn [fst snd] in *.
    injection E as <- <-. cbn [m_sim m_done]. split; [|split; [exact H2|]].
    - split; cbn [o_rew o_done].
      + exact H3.
      + intros a b Hin. apply in_map_iff in Hin as (a' & E' & _). injection E' as <- <-. apply J_done, H2.
    - intros x Hx. apply in_app_or in Hx as [Hx|Hx]; [auto|]. right.
      apply in_map_iff in Hx as ([a b] & <- & Hf). apply filter_In in Hf as [Hin Hb].
      cbn [snd fst] in *. subst b. apply in_map_iff in Hin as (a' & E' & _). injection E' as <- Eb.
      rewrite <- Eb. apply J_done, H2.
  Qed.

  Lemma turn_step_good b m acts o m' : J (sim_step Sim (m_sim m) acts) ->
    turn_step_gen Sim b m acts = (ROut o, m') ->
    out_good o /\ J (m_sim m') /\ forall x, In x (m_done m') -> In x (m_done m) \/ Qd x true.
  Proof.
    intros H E. unfold turn_step_gen in E. destruct acts as [|[a0 x0] acts']; [discriminate|].
    destruct (if b then _ else _); [discriminate|].
    destruct (sim_all Sim (sim_step Sim (m_sim m) ((a0, x0) :: acts'))).
    - destruct (flush_good (m_done m) (Managers.agents Sim) _ (empty_out true) H (out_good_empty true))
        as [G1 H1].
      destruct (flush Sim _ (m_done m) (Managers.agents Sim) (empty_out true)) as [o1 s2].
      injection E as <- <-. cbn [m_sim m_done]. auto.
    - destruct (turn_search Sim _ _ (m_done m) (m_ptr m) (empty_out false)) as [o1 s2 d1 p1|] eqn:Es;
        [|discriminate].
      injection E as <- <-. cbn [m_sim m_done].
      apply (turn_search_good _ _ _ _ _ _ _ _ _ H (out_good_empty false) Es).
  Qed.
End Entries.

(* ---- manager o simulation: what the reported entries say about the grid --------------------------------- *)
(* a reported reward: 1 for an agent on the target's cell, otherwise the accumulated amount, never
   positive *)
Definition reward_ok (cf : ncfg) (g : gstate) (a : nat) (r : Z) : Prop :=
  match on_target cf g a with Some true => r = 100 | Some false => r <= 0 | None => r = 0 end.
Definition rew_nonpos (st : nstate) : Prop :=
  forall i x, nth_error (ns_rew st) i = Some (Some x) -> x <= 0.
Definition Jg (g0 : gstate) (st : nstate) : Prop := ns_grid st = g0 /\ rew_nonpos st.

Lemma mn_done_on cf st a : mn_done cf st a = done_on cf (ns_grid st) a.
Proof. reflexivity. Qed.

Lemma nth_error_upd_cases {X} (l : list X) : forall i j v y,
  nth_error (upd_nth l i v) j = Some y -> y = v \/ nth_error l j = Some y.
Proof.
  induction l as [|z l IH]; intros [|i] [|j] v y H; cbn in *; try discriminate; auto.
  - injection H as <-. auto.
  - apply (IH i j v y H).
Qed.

Lemma rew_nonpos_upd st i v : rew_nonpos st -> v <= 0 ->
  rew_nonpos (n_with_rew st (upd_nth (ns_rew st) i (Some v))).
Proof.
  intros H Hv j x E. cbn [n_with_rew ns_rew] in E.
  destruct (nth_error_upd_cases _ _ _ _ _ E) as [E'|E']; [injection E' as ->; exact Hv|apply (H j x E')].
Qed.

Lemma rew_nonpos_pay st i d : 0 <= d -> rew_nonpos st -> rew_nonpos (n_pay st i d).
Proof.
  intros Hd H. unfold n_pay. destruct (nth_error (ns_rew st) i) as [[x|]|] eqn:E; try exact H.
  apply rew_nonpos_upd; [exact H|]. pose proof (H i x E). lia.
Qed.

Lemma rew_nonpos_act cf st ia : rew_nonpos st -> rew_nonpos (mn_act_one cf st ia).
Proof.
  intros H. unfold mn_act_one. destruct (agent (ns_grid st) (fst ia)) as [a|]; [|exact H].
  destruct (is_nav cf (fst ia)).
  - destruct (move_free _ _ _) as [[|] g'| | |]; try exact H.
    + apply rew_nonpos_pay; [lia|exact H].
    + apply rew_nonpos_pay; [lia|]. apply rew_nonpos_pay; [lia|exact H].
  - apply rew_nonpos_pay; [lia|]. apply rew_nonpos_pay; [lia|exact H].
Qed.

Lemma rew_nonpos_step cf st acts : rew_nonpos st -> rew_nonpos (mn_step cf st acts).
Proof.
  unfold mn_step. revert st. induction acts as [|x l IH]; intros st H; cbn [fold_left]; [exact H|].
  apply IH, rew_nonpos_act, H.
Qed.

Lemma rew_nonpos_zero cf : forall i x, nth_error (n_zero cf) i = Some (Some x) -> x <= 0.
Proof.
  intros i x E. unfold n_zero in E. rewrite nth_error_map in E.
  destruct (nth_error (nc_agents cf) i) as [a|]; [|discriminate]. cbn in E.
  destruct (n_view a); [|discriminate]. injection E as <-. lia.
Qed.

Lemma rew_nonpos_reset cf st : rew_nonpos st -> rew_nonpos (mn_reset cf st).
Proof.
  intros H. unfold mn_reset. destruct (ns_resets st) as [|d rest]; [exact H|].
  destruct (n_position_reset cf d (ns_grid st)); [|exact H]. exact (rew_nonpos_zero cf).
Qed.

Lemma rew_nonpos_obs cf st a : rew_nonpos st -> rew_nonpos (snd (mn_obs cf st a)).
Proof. intros H i x E. destruct (mn_obs_frame cf st a) as (_ & _ & R). rewrite R in E. apply (H i x E). Qed.

Lemma rew_nonpos_rew cf st a : rew_nonpos st -> rew_nonpos (snd (mn_reward cf st a)).
Proof.
  intros H. unfold mn_reward. destruct (on_target cf (ns_grid st) a) as [[|]|]; [| |exact H].
  - destruct (a <? length (ns_rew st))%nat; [|exact H]. apply rew_nonpos_upd; [exact H|lia].
  - destruct (nth_error (ns_rew st) a) as [[x|]|]; try exact H. apply rew_nonpos_upd; [exact H|lia].
Qed.

Lemma Jg_obs cf g0 s a : Jg g0 s -> Jg g0 (snd (mn_obs cf s a)).
Proof.
  intros [E H]. split; [|apply rew_nonpos_obs, H]. destruct (mn_obs_frame cf s a) as (-> & _). exact E.
Qed.

Lemma Jg_rew cf g0 s a : Jg g0 s ->
  Jg g0 (snd (mn_reward cf s a)) /\ reward_ok cf g0 a (fst (mn_reward cf s a)).
Proof.
  intros [E H]. split.
  - split; [|apply rew_nonpos_rew, H]. destruct (mn_reward_frame cf s a) as (-> & _). exact E.
  - unfold reward_ok, mn_reward. rewrite E. destruct (on_target cf g0 a) as [[|]|]; [| |reflexivity].
    + destruct (a <? length (ns_rew s))%nat; reflexivity.
    + destruct (nth_error (ns_rew s) a) as [[x|]|] eqn:Ex; cbn [fst]; try lia. apply (H a x Ex).
Qed.

Lemma Jg_done cf g0 s a : Jg g0 s -> mn_done cf s a = done_on cf g0 a.
Proof. intros [E _]. rewrite mn_done_on, E. reflexivity. Qed.

(* one accepted step of the all-step or the turn-based manager: every done flag in the output is
   `stands on the target's cell` in the grid the call leaves, every reward is 1 for such an agent and
   otherwise an accumulated (never positive) amount, and an agent newly remembered as done stands on
   the target's cell *)
Theorem mazenav_step_entries cf k m acts sh o m' :
  k = MAll \/ k = MTurn -> rew_nonpos (m_sim m) ->
  do_call (mazenav_sim cf) k m (CStep acts sh) = (ROut o, m') ->
  (forall a b, In (a, b) (o_done o) -> b = done_on cf (ns_grid (m_sim m')) a) /\
  (forall a r, In (a, r) (o_rew o) -> reward_ok cf (ns_grid (m_sim m')) a r) /\
  (forall a, In a (m_done m') -> In a (m_done m) \/ done_on cf (ns_grid (m_sim m')) a = true) /\
  rew_nonpos (m_sim m').
Proof.
  intros Hk Hr E.
  set (l := match k with MAll => sh | _ => acts end).
  set (g0 := ns_grid (mn_step cf (m_sim m) l)).
  assert (HJ : Jg g0 (sim_step (mazenav_sim cf) (m_sim m) l)).
  { split; [reflexivity|]. apply rew_nonpos_step, Hr. }
  assert (R : out_good (reward_ok cf g0) (fun a b => b = done_on cf g0 a) o /\
              Jg g0 (m_sim m') /\
              forall x, In x (m_done m') -> In x (m_done m) \/ true = done_on cf g0 x).
  { destruct Hk as [-> | ->]; cbn [do_call] in E.
    - apply (all_step_good (mazenav_sim cf) (Jg g0) (reward_ok cf g0) (fun a b => b = done_on cf g0 a)
               (Jg_obs cf g0) (Jg_rew cf g0) (Jg_done cf g0) m acts sh o m' HJ E).
    - apply (turn_step_good (mazenav_sim cf) (Jg g0) (reward_ok cf g0) (fun a b => b = done_on cf g0 a)
               (Jg_obs cf g0) (Jg_rew cf g0) (Jg_done cf g0) true m acts o m' HJ E). }
  destruct R as ([R1 R2] & [Eg Hn] & R3). rewrite Eg.
  split; [exact R2|]. split; [exact R1|]. split; [|exact Hn].
  intros a Ha. destruct (R3 a Ha) as [H|H]; [auto|right; symmetry; exact H].
Qed.

(* done_on in words: both agents have a position and it is the same cell *)
Lemma done_on_spec cf g a : done_on cf g a = true <->
  exists rec t p, agent g a = Some rec /\ agent g (n_target cf) = Some t /\
                  a_pos rec = Some p /\ a_pos t = Some p.
Proof.
  unfold done_on, on_target. split.
  - destruct (agent g a) as [rec|]; [|discriminate]. destruct (agent g (n_target cf)) as [t|]; [|discriminate].
    destruct (a_pos rec) as [[r c]|] eqn:E1; [|discriminate].
    destruct (a_pos t) as [[r' c']|] eqn:E2; [|discriminate].
    cbn [Done.pos_eqb]. rewrite andb_true_iff, !Z.eqb_eq. intros [-> ->].
    exists rec, t, (r', c'). auto.
  - intros (rec & t & [r c] & -> & -> & -> & ->). cbn [Done.pos_eqb]. rewrite !Z.eqb_refl. reflexivity.
Qed.

(* ---- who can be moved by a step ------------------------------------------------------------------------- *)
Lemma mn_act_one_frame cf st ia a : fst ia <> a \/ is_nav cf a = false ->
  agent (ns_grid (mn_act_one cf st ia)) a = agent (ns_grid st) a.
Proof.
  intros H. destruct (Nat.eq_dec (fst ia) a) as [E|N].
  - destruct H as [H|H]; [contradiction|]. unfold mn_act_one.
    destruct (agent (ns_grid st) (fst ia)); [|reflexivity]. rewrite E, H, !n_pay_grid. reflexivity.
  - destruct (mn_act_one_grid cf st ia) as [->|(b & Em)]; [reflexivity|].
    pose proof (move_by_frame (ns_grid st) (fst ia) (snd ia)) as F. rewrite Em in F.
    apply F. intros C. apply N. symmetry. exact C.
Qed.

(* the step moves nobody but the navigating agents named in the action dictionary *)
Lemma mn_step_frame cf a : forall acts st,
  (forall kv, In kv acts -> fst kv <> a) \/ is_nav cf a = false ->
  agent (ns_grid (mn_step cf st acts)) a = agent (ns_grid st) a.
Proof.
  unfold mn_step. induction acts as [|x l IH]; intros st H; cbn [fold_left]; [reflexivity|].
  rewrite IH.
  - apply mn_act_one_frame. destruct H as [H|H]; [left; apply H; left; reflexivity|right; exact H].
  - destruct H as [H|H]; [left; intros kv Hkv; apply H; right; exact Hkv|right; exact H].
Qed.

Lemma existsb_memb_false (d : list nat) (acts : list (nat * cell)) :
  existsb (fun kv => memb (fst kv) d) acts = false -> forall kv, In kv acts -> ~ In (fst kv) d.
Proof.
  intros H kv Hkv Hin. assert (C : existsb (fun kv => memb (fst kv) d) acts = true).
  { apply existsb_exists. exists kv. split; [exact Hkv|apply memb_In, Hin]. }
  congruence.
Qed.

(* the keys the simulation receives are keys of the submitted dictionary (the all-step manager hands
   the simulation a shuffled copy of it) *)
Definition sh_ok (acts sh : list (nat * cell)) : Prop := forall kv, In kv sh -> In (fst kv) (map fst acts).

(* one manager step, accepted or not: an agent the manager remembers as done, and every agent that
   is not a navigating agent (the target, the barriers), keeps its position *)
Theorem mazenav_step_frame cf k m acts sh r m' a :
  k = MAll \/ k = MTurn -> (k = MAll -> sh_ok acts sh) ->
  do_call (mazenav_sim cf) k m (CStep acts sh) = (r, m') ->
  In a (m_done m) \/ is_nav cf a = false ->
  agent (ns_grid (m_sim m')) a = agent (ns_grid (m_sim m)) a.
Proof.
  intros Hk Hsh E Ha.
  assert (Hacts : existsb (fun kv => memb (fst kv) (m_done m)) acts = false ->
                  forall l, (forall kv, In kv l -> In (fst kv) (map fst acts)) ->
                  agent (ns_grid (mn_step cf (m_sim m) l)) a = agent (ns_grid (m_sim m)) a).
  { intros Hx l Hl. apply mn_step_frame. destruct Ha as [Ha|Ha]; [left|right; exact Ha].
    intros kv Hkv C. pose proof (Hl kv Hkv) as Hm. apply in_map_iff in Hm as ([a1 x1] & E1 & H1).
    apply (existsb_memb_false _ _ Hx (a1, x1) H1). cbn [fst] in *. congruence. }
  destruct Hk as [-> | ->]; cbn [do_call] in E.
  - destruct (existsb (fun kv => memb (fst kv) (m_done m)) acts) eqn:Ex.
    + rewrite (all_step_reject (mazenav_sim cf) m acts sh Ex) in E. injection E as _ <-. reflexivity.
    + destruct (all_step_accept (mazenav_sim cf) m acts sh Ex) as (o1 & m1 & E1 & _ & _ & G & _).
      rewrite E1 in E. injection E as _ <-. destruct (n_greach_frame cf _ _ G) as [-> _].
      apply (Hacts eq_refl sh (Hsh eq_refl)).
  - unfold turn_step, turn_step_gen in E. destruct acts as [|[a0 x0] acts']; [injection E as _ <-; reflexivity|].
    destruct (existsb (fun kv => memb (fst kv) (m_done m)) ((a0, x0) :: acts')) eqn:Ex;
      [injection E as _ <-; reflexivity|].
    assert (Hs : agent (ns_grid (mn_step cf (m_sim m) ((a0, x0) :: acts'))) a = agent (ns_grid (m_sim m)) a).
    { apply (Hacts eq_refl). intros kv Hkv. apply in_map, Hkv. }
    cbn [mazenav_sim sim_step sim_all] in E.
    destruct (mn_all cf (mn_step cf (m_sim m) ((a0, x0) :: acts'))).
    + destruct (flush_spec (mazenav_sim cf) (m_done m) (Managers.agents (mazenav_sim cf))
                           (mn_step cf (m_sim m) ((a0, x0) :: acts')) (empty_out true)) as (_ & _ & _ & G).
      destruct (flush (mazenav_sim cf) _ (m_done m) _ (empty_out true)) as [o1 s2]. cbn [snd] in G.
      injection E as _ <-. cbn [m_sim]. destruct (n_greach_frame cf _ _ G) as [-> _]. exact Hs.
    + destruct (turn_search (mazenav_sim cf) _ _ (m_done m) (m_ptr m) (empty_out false))
        as [o1 s2 d1 p1|] eqn:Es.
      * injection E as _ <-. cbn [m_sim].
        destruct (n_greach_frame cf _ _ (turn_search_greach (mazenav_sim cf) _ _ _ _ _ _ _ _ _ Es)) as [-> _].
        exact Hs.
      * injection E as _ <-. reflexivity.
Qed.

Lemma done_on_agents cf g g' a :
  agent g' a = agent g a -> agent g' (n_target cf) = agent g (n_target cf) ->
  done_on cf g' a = done_on cf g a.
Proof. intros E1 E2. unfold done_on, on_target. rewrite E1, E2. reflexivity. Qed.

(* ---- a navigating agent the manager remembers as done stands on the target's cell --------------------- *)
Definition dinv (cf : ncfg) (m : mstate nstate) : Prop :=
  forall a, In a (m_done m) -> is_nav cf a = true -> done_on cf (ns_grid (m_sim m)) a = true.

Lemma nonlearning_not_nav cf a : In a (nonlearning (mazenav_sim cf)) -> is_nav cf a = false.
Proof.
  unfold nonlearning. rewrite filter_In. cbn [mazenav_sim sim_learning]. intros [_ H].
  apply negb_true_iff in H. exact H.
Qed.

Lemma dinv_call cf k m c r m' :
  k = MAll \/ k = MTurn -> is_nav cf (n_target cf) = false ->
  (forall acts sh, c = CStep acts sh -> k = MAll -> sh_ok acts sh) ->
  rew_nonpos (m_sim m) ->
  do_call (mazenav_sim cf) k m c = (r, m') -> dinv cf m -> dinv cf m'.
Proof.
  intros Hk Ht Hsh Hr E D. destruct c as [|acts sh].
  - (* reset: nobody but the non-learning agents is remembered *)
    destruct Hk as [-> | ->]; cbn [do_call] in E.
    + unfold all_reset in E. destruct (thread _ _ _) as [obs s2]. injection E as _ <-.
      intros a Ha Hn. cbn [m_done] in Ha. rewrite (nonlearning_not_nav cf a Ha) in Hn. discriminate.
    + unfold turn_reset in E. destruct (order (mazenav_sim cf)) as [|a0 rest]; [injection E as _ <-; exact D|].
      destruct (sim_obs _ _ _) as [ob s2]. injection E as _ <-.
      intros a Ha Hn. cbn [m_done] in Ha. rewrite (nonlearning_not_nav cf a Ha) in Hn. discriminate.
  - assert (Fr : forall a, In a (m_done m) \/ is_nav cf a = false ->
                           agent (ns_grid (m_sim m')) a = agent (ns_grid (m_sim m)) a).
    { intros a Ha. apply (mazenav_step_frame cf k m acts sh r m' a Hk (Hsh acts sh eq_refl) E Ha). }
    destruct r as [obs|o| | |].
    + exfalso. destruct Hk as [-> | ->]; cbn [do_call] in E.
      * unfold all_step in E. destruct (existsb _ acts); [discriminate|].
        destruct (thread _ _ _) as [? ?]. destruct (thread _ _ _) as [? ?]. discriminate.
      * unfold turn_step, turn_step_gen in E. destruct acts as [|[? ?] ?]; [discriminate|].
        destruct (existsb _ _); [discriminate|]. destruct (sim_all _ _).
        -- destruct (flush _ _ _ _ _) as [? ?]. discriminate.
        -- destruct (turn_search _ _ _ _ _ _); discriminate.
    + destruct (mazenav_step_entries cf k m acts sh o m' Hk Hr E) as (_ & _ & H3 & _).
      intros a Ha Hn. destruct (H3 a Ha) as [Hold|Hnew]; [|exact Hnew].
      rewrite (done_on_agents cf (ns_grid (m_sim m)) (ns_grid (m_sim m')) a); [apply (D a Hold Hn)| |].
      * apply Fr. left. exact Hold.
      * apply Fr. right. exact Ht.
    + (* rejected: nothing happened *)
      assert (m' = m); [|subst; exact D].
      destruct Hk as [-> | ->]; cbn [do_call] in E.
      * unfold all_step in E. destruct (existsb _ acts); [injection E as <-; reflexivity|].
        destruct (thread _ _ _) as [? ?]. destruct (thread _ _ _) as [? ?]. discriminate.
      * unfold turn_step, turn_step_gen in E. destruct acts as [|[? ?] ?]; [discriminate|].
        destruct (existsb _ _); [injection E as <-; reflexivity|]. destruct (sim_all _ _).
        -- destruct (flush _ _ _ _ _) as [? ?]. discriminate.
        -- destruct (turn_search _ _ _ _ _ _); discriminate.
    + assert (m' = m); [|subst; exact D].
      destruct Hk as [-> | ->]; cbn [do_call] in E.
      * unfold all_step in E. destruct (existsb _ acts); [discriminate|].
        destruct (thread _ _ _) as [? ?]. destruct (thread _ _ _) as [? ?]. discriminate.
      * unfold turn_step, turn_step_gen in E. destruct acts as [|[? ?] ?]; [injection E as <-; reflexivity|].
        destruct (existsb _ _); [discriminate|]. destruct (sim_all _ _).
        -- destruct (flush _ _ _ _ _) as [? ?]. discriminate.
        -- destruct (turn_search _ _ _ _ _ _); discriminate.
    + assert (m' = m); [|subst; exact D].
      destruct Hk as [-> | ->]; cbn [do_call] in E.
      * unfold all_step in E. destruct (existsb _ acts); [discriminate|].
        destruct (thread _ _ _) as [? ?]. destruct (thread _ _ _) as [? ?]. discriminate.
      * unfold turn_step, turn_step_gen in E. destruct acts as [|[? ?] ?]; [discriminate|].
        destruct (existsb _ _); [discriminate|]. destruct (sim_all _ _).
        -- destruct (flush _ _ _ _ _) as [? ?]. discriminate.
        -- destruct (turn_search _ _ _ _ _ _); [discriminate|injection E as <-; reflexivity].
Qed.

Lemma rew_nonpos_call cf k m c r m' :
  do_call (mazenav_sim cf) k m c = (r, m') -> rew_nonpos (m_sim m) -> rew_nonpos (m_sim m').
Proof.
  apply (do_call_J cf rew_nonpos (rew_nonpos_step cf) (rew_nonpos_reset cf) (rew_nonpos_obs cf)
                   (rew_nonpos_rew cf)).
Qed.

Definition calls_ok (k : mgr) (cs : list (call cell)) : Prop :=
  forall acts sh, In (CStep acts sh) cs -> k = MAll -> sh_ok acts sh.

(* along every call list (in or out of protocol) under the all-step and the turn-based manager: a
   navigating agent that the manager remembers as done stands on the target's cell, before and after
   every call, and no step moves an agent the manager remembers as done *)
Theorem mazenav_done_stay cf k cs : k = MAll \/ k = MTurn -> is_nav cf (n_target cf) = false ->
  forall m ph, calls_ok k cs -> rew_nonpos (m_sim m) -> dinv cf m ->
  forall e, In e (trace (mazenav_sim cf) k m ph cs) ->
    dinv cf (te_pre e) /\ dinv cf (te_post e) /\
    (forall acts sh, te_call e = CStep acts sh -> forall a, In a (m_done (te_pre e)) ->
       agent (ns_grid (m_sim (te_post e))) a = agent (ns_grid (m_sim (te_pre e))) a).
Proof.
  intros Hk Ht. induction cs as [|c cs IH]; intros m ph Hc Hr D e He; cbn [trace] in He; [destruct He|].
  destruct (do_call (mazenav_sim cf) k m c) as [r m1] eqn:E.
  assert (Hc1 : forall acts sh, c = CStep acts sh -> k = MAll -> sh_ok acts sh).
  { intros acts sh -> Hm. apply (Hc acts sh); [left; reflexivity|exact Hm]. }
  pose proof (dinv_call cf k m c r m1 Hk Ht Hc1 Hr E D) as D1.
  destruct He as [<-|He].
  - cbn [te_pre te_post te_call]. split; [exact D|]. split; [exact D1|].
    intros acts sh -> a Ha.
    apply (mazenav_step_frame cf k m acts sh r m1 a Hk (Hc1 acts sh eq_refl) E). left. exact Ha.
  - apply (IH m1 (next_phase ph r)); [|apply (rew_nonpos_call cf k m c r m1 E Hr)|exact D1|exact He].
    intros acts sh Hin. apply (Hc acts sh). right. exact Hin.
Qed.

Lemma dinv_init cf s0 : dinv cf (init s0).
Proof. intros a []. Qed.

(* ---- the recorded run is the managers' run ------------------------------------------------------------- *)
Lemma mrun_snap_run cf k cs : forall m,
  map nr_resp (fst (mrun_snap cf k m cs)) = fst (run (mazenav_sim cf) k m cs) /\
  snd (mrun_snap cf k m cs) = snd (run (mazenav_sim cf) k m cs).
Proof.
  induction cs as [|c cs IH]; intros m; cbn [mrun_snap run]; [auto|].
  destruct (do_call (mazenav_sim cf) k m c) as [r m1]. specialize (IH m1).
  destruct (mrun_snap cf k m1 cs) as [rs m2]. destruct (run (mazenav_sim cf) k m1 cs) as [rs' m2'].
  cbn [fst snd map nr_resp] in *. destruct IH as [-> ->]. auto.
Qed.

(* ---- the flag is never cleared --------------------------------------------------------------------------- *)
Lemma n_pay_bad st i d : ns_bad st = true -> ns_bad (n_pay st i d) = true.
Proof. intros H. unfold n_pay. destruct (nth_error (ns_rew st) i) as [[x|]|]; cbn; auto. Qed.

Lemma mn_step_bad cf st acts : ns_bad st = true -> ns_bad (mn_step cf st acts) = true.
Proof.
  unfold mn_step. revert st. induction acts as [|x l IH]; intros st H; cbn [fold_left]; [exact H|].
  apply IH. unfold mn_act_one. destruct (agent (ns_grid st) (fst x)); [|reflexivity].
  destruct (is_nav cf (fst x)).
  - destruct (move_free _ _ _) as [[|] g'| | |]; try reflexivity; repeat apply n_pay_bad; exact H.
  - repeat apply n_pay_bad. exact H.
Qed.

Lemma mn_reset_bad cf st : ns_bad st = true -> ns_bad (mn_reset cf st) = true.
Proof.
  intros H. unfold mn_reset. destruct (ns_resets st); [reflexivity|].
  destruct (n_position_reset cf _ _); [exact H|reflexivity].
Qed.

Lemma mn_obs_bad cf st a : ns_bad st = true -> ns_bad (snd (mn_obs cf st a)) = true.
Proof.
  intros H. unfold mn_obs. destruct (nth_error (nc_agents cf) a) as [b|]; [|reflexivity].
  destruct (n_view b); [|exact H]. destruct (obs_centered _ _ _ _ _ _); cbn; auto.
Qed.

Lemma mn_reward_bad cf st a : ns_bad st = true -> ns_bad (snd (mn_reward cf st a)) = true.
Proof.
  intros H. unfold mn_reward. destruct (on_target cf (ns_grid st) a) as [[|]|]; [| |reflexivity].
  - destruct (a <? length (ns_rew st))%nat; cbn; auto.
  - destruct (nth_error (ns_rew st) a) as [[x|]|]; cbn; auto.
Qed.

Definition is_bad (st : nstate) : Prop := ns_bad st = true.

Lemma bad_mono_call cf k m c r m' :
  do_call (mazenav_sim cf) k m c = (r, m') -> ns_bad (m_sim m') = false -> ns_bad (m_sim m) = false.
Proof.
  intros E H. destruct (ns_bad (m_sim m)) eqn:B; [|reflexivity].
  pose proof (do_call_J cf is_bad (mn_step_bad cf) (mn_reset_bad cf) (mn_obs_bad cf) (mn_reward_bad cf)
                        k m c r m' E B) as C. unfold is_bad in C. congruence.
Qed.

Lemma bad_mono_snap cf k cs m :
  ns_bad (m_sim (snd (mrun_snap cf k m cs))) = false -> ns_bad (m_sim m) = false.
Proof.
  rewrite (proj2 (mrun_snap_run cf k cs m)). intros H. destruct (ns_bad (m_sim m)) eqn:B; [|reflexivity].
  pose proof (run_J cf is_bad (mn_step_bad cf) (mn_reset_bad cf) (mn_obs_bad cf) (mn_reward_bad cf)
                    k cs m B) as C. unfold is_bad in C. congruence.
Qed.

Lemma greach_bad cf s s' : greach (mazenav_sim cf) s s' -> ns_bad s' = false -> ns_bad s = false.
Proof.
  intros G H. destruct (ns_bad s) eqn:B; [|reflexivity].
  pose proof (greach_J cf is_bad (mn_obs_bad cf) (mn_reward_bad cf) s s' G B) as C. unfold is_bad in C.
  congruence.
Qed.

(* ---- the shape of a manager call ------------------------------------------------------------------------- *)
Lemma reset_call_cases cf k m r m' : k = MAll \/ k = MTurn -> has_nav cf ->
  do_call (mazenav_sim cf) k m CReset = (r, m') ->
  exists obs, r = RObs obs /\ greach (mazenav_sim cf) (mn_reset cf (m_sim m)) (m_sim m').
Proof.
  intros Hk Hn E. destruct Hk as [-> | ->]; cbn [do_call] in E.
  - unfold all_reset in E.
    pose proof (thread_obs_greach (mazenav_sim cf) (sim_reset (mazenav_sim cf) (m_sim m))
                  (filter (fun a => negb (memb a (nonlearning (mazenav_sim cf)))) (Managers.agents (mazenav_sim cf))))
      as G.
    destruct (thread _ _ _) as [obs s2]. injection E as <- <-. exists obs. split; [reflexivity|exact G].
  - unfold turn_reset in E. pose proof (mazenav_order_nonempty cf Hn) as Ho.
    destruct (order (mazenav_sim cf)) as [|a0 rest]; [congruence|].
    assert (G : greach (mazenav_sim cf) (sim_reset (mazenav_sim cf) (m_sim m))
                       (snd (sim_obs (mazenav_sim cf) (sim_reset (mazenav_sim cf) (m_sim m))
                                     (nth 0 (a0 :: rest) a0)))).
    { apply gr_obs with (nth 0 (a0 :: rest) a0). constructor. }
    destruct (sim_obs (mazenav_sim cf) (sim_reset (mazenav_sim cf) (m_sim m)) (nth 0 (a0 :: rest) a0))
      as [ob s2].
    injection E as <- <-. eexists. split; [reflexivity|exact G].
Qed.

Lemma step_call_cases cf k m acts sh r m' : k = MAll \/ k = MTurn ->
  do_call (mazenav_sim cf) k m (CStep acts sh) = (r, m') ->
  (m' = m /\ (r = RReject \/ r = RError \/ r = ROutOfFuel)) \/
  (exists o l, r = ROut o /\ greach (mazenav_sim cf) (mn_step cf (m_sim m) l) (m_sim m')).
Proof.
  intros Hk E. destruct Hk as [-> | ->]; cbn [do_call] in E.
  - destruct (existsb (fun kv => memb (fst kv) (m_done m)) acts) eqn:Ex.
    + rewrite (all_step_reject (mazenav_sim cf) m acts sh Ex) in E. injection E as <- <-. left. auto.
    + destruct (all_step_accept (mazenav_sim cf) m acts sh Ex) as (o1 & m1 & E1 & _ & _ & G & _).
      rewrite E1 in E. injection E as <- <-. right. exists o1, sh. auto.
  - unfold turn_step, turn_step_gen in E. destruct acts as [|[a0 x0] acts']; [injection E as <- <-; left; auto|].
    destruct (existsb (fun kv => memb (fst kv) (m_done m)) ((a0, x0) :: acts'));
      [injection E as <- <-; left; auto|].
    cbn [mazenav_sim sim_step sim_all] in E.
    destruct (mn_all cf (mn_step cf (m_sim m) ((a0, x0) :: acts'))).
    + destruct (flush_spec (mazenav_sim cf) (m_done m) (Managers.agents (mazenav_sim cf))
                           (mn_step cf (m_sim m) ((a0, x0) :: acts')) (empty_out true)) as (_ & _ & _ & G).
      destruct (flush (mazenav_sim cf) _ (m_done m) _ (empty_out true)) as [o1 s2]. cbn [snd] in G.
      injection E as <- <-. right. exists o1, ((a0, x0) :: acts'). auto.
    + destruct (turn_search (mazenav_sim cf) _ _ (m_done m) (m_ptr m) (empty_out false))
        as [o1 s2 d1 p1|] eqn:Es.
      * injection E as <- <-. right. exists o1, ((a0, x0) :: acts'). split; [reflexivity|].
        apply (turn_search_greach (mazenav_sim cf) _ _ _ _ _ _ _ _ _ Es).
      * injection E as <- <-. left. auto.
Qed.

(* ---- the full invariant of a state in which an episode has been started --------------------------------- *)
Definition n_full (cf : ncfg) (st : nstate) : Prop :=
  n_statics cf (ns_grid st) /\ ginv (ns_grid st) /\ all_placed (ns_grid st) /\ rew_nonpos st.

Lemma n_full_move cf s i d : n_statics cf s /\ ginv s /\ all_placed s ->
  match move_by s i d with MOk _ s' => n_statics cf s' /\ ginv s' /\ all_placed s' | _ => True end.
Proof.
  intros (S & G & Pl). pose proof (n_statics_move cf s i d S) as H1. pose proof (move_by_inv s i d G) as H2.
  pose proof (srel_move_by s i d) as R. destruct (move_by s i d); auto.
  split; [exact H1|]. split; [exact H2|]. apply all_placed_posd, (posd_srel s s0 R), all_placed_posd, Pl.
Qed.

Lemma n_full_step cf st acts : n_full cf st -> n_full cf (mn_step cf st acts).
Proof.
  intros (S & G & Pl & R).
  destruct (mn_step_Q (fun g => n_statics cf g /\ ginv g /\ all_placed g) (n_full_move cf) cf st acts
                      (conj S (conj G Pl))) as (S' & G' & Pl').
  split; [exact S'|]. split; [exact G'|]. split; [exact Pl'|apply rew_nonpos_step, R].
Qed.

Lemma n_full_obs cf st a : n_full cf st -> n_full cf (snd (mn_obs cf st a)).
Proof.
  intros (S & G & Pl & R). unfold n_full. destruct (mn_obs_frame cf st a) as (-> & _).
  split; [exact S|]. split; [exact G|]. split; [exact Pl|apply rew_nonpos_obs, R].
Qed.

Lemma n_full_rew cf st a : n_full cf st -> n_full cf (snd (mn_reward cf st a)).
Proof.
  intros (S & G & Pl & R). unfold n_full. destruct (mn_reward_frame cf st a) as (-> & _).
  split; [exact S|]. split; [exact G|]. split; [exact Pl|apply rew_nonpos_rew, R].
Qed.

(* a reset that does not raise starts an episode, whatever the state was *)
Lemma mn_reset_ok cf st : wf_ncfg cf = true -> n_statics cf (ns_grid st) -> rew_nonpos st ->
  ns_bad (mn_reset cf st) = false ->
  exists d rest, ns_resets st = d :: rest /\ ns_resets (mn_reset cf st) = rest /\
    n_full cf (mn_reset cf st) /\
    P.o_kind (P.outcome_of (nc_place cf) (n_placement cf d)) = P.ROk /\
    map a_pos (g_agents (ns_grid (mn_reset cf st))) =
      map Some (P.o_pos (P.outcome_of (nc_place cf) (n_placement cf d))).
Proof.
  intros Hwf S R B. unfold mn_reset in *. destruct (ns_resets st) as [|d rest]; [discriminate|].
  destruct (n_position_reset cf d (ns_grid st)) as [g|] eqn:E; [|discriminate].
  exists d, rest. split; [reflexivity|]. split; [reflexivity|]. cbn [ns_grid].
  destruct (n_position_reset_fresh cf d (ns_grid st) g Hwf S E) as (G' & S' & Pl' & _ & K & Ps).
  split; [|auto]. split; [exact S'|]. split; [exact G'|]. split; [exact Pl'|exact (rew_nonpos_zero cf)].
Qed.

Lemma n_full_reset cf st : wf_ncfg cf = true -> n_full cf st -> n_full cf (mn_reset cf st).
Proof.
  intros Hwf (S & G & Pl & R). unfold mn_reset. destruct (ns_resets st) as [|d rest]; [exact (conj S (conj G (conj Pl R)))|].
  destruct (n_position_reset cf d (ns_grid st)) as [g|] eqn:E; [|exact (conj S (conj G (conj Pl R)))].
  destruct (n_position_reset_fresh cf d (ns_grid st) g Hwf S E) as (G' & S' & Pl' & _).
  split; [exact S'|]. split; [exact G'|]. split; [exact Pl'|exact (rew_nonpos_zero cf)].
Qed.

Lemma n_full_greach cf s s' : greach (mazenav_sim cf) s s' -> n_full cf s -> n_full cf s'.
Proof. apply (greach_J cf (n_full cf) (n_full_obs cf) (n_full_rew cf)). Qed.

(* ---- wire round trips --------------------------------------------------------------------------------------- *)
Lemma n_all_some_map {X Y} (f : X -> option Y) (g : X -> Y) l :
  (forall x, f x = Some (g x)) -> all_some (map f l) = Some (map g l).
Proof. intros H. induction l as [|x l IH]; cbn; [reflexivity|]. rewrite H, IH. reflexivity. Qed.

Lemma sxPairs_kz (l : list (nat * Z)) :
  sxPairs (L (map enc_kz l)) = Some (map (fun kv : nat * Z => (Z.of_nat (fst kv), snd kv)) l).
Proof. unfold sxPairs. rewrite map_map. apply n_all_some_map. intros [a r]. reflexivity. Qed.

Lemma sxPairs_kbool (l : list (nat * bool)) :
  sxPairs (L (map enc_kbool l)) = Some (map (fun kv : nat * bool => (Z.of_nat (fst kv), if snd kv then 1 else 0)) l).
Proof. unfold sxPairs. rewrite map_map. apply n_all_some_map. intros [a b]. reflexivity. Qed.

Lemma n_sxZs_ofZs l : sxZs (ofZs l) = Some l.
Proof. unfold sxZs, ofZs. apply (all_some_map_inv A sxZ). reflexivity. Qed.
Lemma n_sxZZs_ofZZs m : sxZZs (ofZZs m) = Some m.
Proof. unfold sxZZs, ofZZs. apply (all_some_map_inv ofZs sxZs), n_sxZs_ofZs. Qed.
Lemma n_sxPairs_ofPairs l : sxPairs (ofPairs l) = Some l.
Proof. unfold sxPairs, ofPairs. apply (all_some_map_inv ofPair sxPair). intros [a b]. reflexivity. Qed.

Lemma dec_enc_entry ap : P.dec_entry (P.enc_entry ap) = Some ap.
Proof. destruct ap as [a [r c]]. unfold P.enc_entry, P.dec_entry. cbn [fst snd]. rewrite sxNat_ofNat. reflexivity. Qed.

Lemma dec_enc_outcome o : P.dec_outcome (P.enc_outcome o) = Some o.
Proof.
  destruct o as [k lg cs ps mz od]. unfold P.enc_outcome, P.dec_outcome.
  cbn [P.o_kind P.o_log P.o_cells P.o_pos P.o_maze P.o_order P.dec_list].
  assert (E1 : P.dec_rkind (P.kind_code k) = Some k) by (destruct k; reflexivity). rewrite E1.
  rewrite (all_some_map_inv P.enc_entry P.dec_entry lg dec_enc_entry).
  rewrite (all_some_map_inv ofNats sxNats cs sxNats_ofNats).
  rewrite n_sxPairs_ofPairs, sxNats_ofNats.
  destruct mz as [m|]; [rewrite n_sxZZs_ofZZs|]; reflexivity.
Qed.

Lemma arec_eqb_refl a : arec_eqb a a = true.
Proof.
  unfold arec_eqb. rewrite !Z.eqb_refl, !Bool.eqb_reflx.
  assert (E1 : optcell_eqb (a_pos a) (a_pos a) = true)
    by (destruct (a_pos a); [apply cell_eqb_refl|reflexivity]).
  assert (E2 : forall x, optZ_eqb' x x = true) by (intros [z|]; [apply Z.eqb_refl|reflexivity]).
  rewrite E1, !E2. reflexivity.
Qed.

Lemma arecs_eqb_refl l : arecs_eqb l l = true.
Proof. induction l as [|a l IH]; cbn; [reflexivity|]. rewrite arec_eqb_refl, IH. reflexivity. Qed.

Lemma optcells_eqb_some l : optcells_eqb (map Some l) l = true.
Proof. induction l as [|p l IH]; cbn; [reflexivity|]. rewrite cell_eqb_refl, IH. reflexivity. Qed.

(* ---- the checker accepts the model's records ------------------------------------------------------------ *)
Lemma n_statics_dims cf g : n_statics cf g ->
  dims (P.c_rows (nc_place cf)) (P.c_cols (nc_place cf)) (P.c_ovraw (nc_place cf)) g.
Proof. intros (S1 & S2 & S3 & _). unfold dims. auto. Qed.

(* the snapshot of a state of an episode passes the per-snapshot clauses *)
Lemma snap_ok cf g : n_statics cf g -> ginv g -> all_placed g ->
  exists sh, dec_start (P.c_rows (nc_place cf)) (P.c_cols (nc_place cf)) (P.c_ovraw (nc_place cf))
                       (enc_snapshot g) = Some sh /\
    g_agents sh = g_agents g /\ ginvb sh = 0 /\ n_statics_b cf sh = true.
Proof.
  intros S G Pl. destruct (dec_start_enc _ _ _ g (n_statics_dims cf g S)) as (sh & E & Sm).
  exists sh. split; [exact E|]. pose proof Sm as [(_ & _ & _ & Ha) _].
  split; [exact Ha|]. split.
  - rewrite (ginvb_sim sh g Sm). apply (ginvb_complete g G Pl).
  - unfold n_statics_b. rewrite Ha. destruct S as (_ & _ & _ & S4).
    change (map (fun a => with_pos a None) (g_agents g)) with (map unpos (g_agents g)).
    rewrite S4. apply arecs_eqb_refl.
Qed.

Lemma on_target_agents cf sh g i : g_agents sh = g_agents g -> on_target cf sh i = on_target cf g i.
Proof. intros E. unfold on_target, agent. rewrite E. reflexivity. Qed.

Lemma entries_okb cf sh g (o : out (list (list Z)) unit) : g_agents sh = g_agents g ->
  (forall a b, In (a, b) (o_done o) -> b = done_on cf g a) ->
  (forall a r, In (a, r) (o_rew o) -> reward_ok cf g a r) ->
  first_bad (done_entry_okb cf sh)
            (map (fun kv : nat * bool => (Z.of_nat (fst kv), if snd kv then 1 else 0)) (o_done o)) = false /\
  first_bad (rew_entry_okb cf sh) (map (fun kv : nat * Z => (Z.of_nat (fst kv), snd kv)) (o_rew o)) = false.
Proof.
  intros Ha Hd Hr. unfold first_bad. rewrite !negb_false_iff, !forallb_forall. split.
  - intros x Hx. apply in_map_iff in Hx as ([a b] & <- & Hin). cbn [fst snd].
    unfold done_entry_okb. cbn [fst snd]. rewrite Nat2Z.id. unfold done_on.
    rewrite (on_target_agents cf sh g a Ha). fold (done_on cf g a). rewrite <- (Hd a b Hin).
    rewrite Z.eqb_refl, andb_true_r. apply Z.leb_le. lia.
  - intros x Hx. apply in_map_iff in Hx as ([a r] & <- & Hin). cbn [fst snd].
    unfold rew_entry_okb. cbn [fst snd]. rewrite Nat2Z.id, (on_target_agents cf sh g a Ha).
    pose proof (Hr a r Hin) as H. unfold reward_ok in H.
    assert (H0 : (0 <=? Z.of_nat a) = true) by (apply Z.leb_le; lia). rewrite H0. cbn [andb].
    destruct (on_target cf g a) as [[|]|]; [apply Z.eqb_eq|apply Z.leb_le|apply Z.eqb_eq]; exact H.
Qed.

Lemma chk_nav_recs_cons cf ds c cs' xr snap xo recs' :
  chk_nav_recs cf ds (c :: cs') (L (xr :: snap :: xo) :: recs') =
  match dec_start (P.c_rows (nc_place cf)) (P.c_cols (nc_place cf)) (P.c_ovraw (nc_place cf)) snap with
  | Some g =>
      if negb (ginvb g =? 0) then ginvb g
      else if negb (n_statics_b cf g) then 305
      else
        match c, xr, xo with
        | CReset, L [A 0; _], [xo1] =>
            match P.dec_outcome xo1, ds with
            | Some o, d :: ds' =>
                if negb (P.chk_reset (nc_place cf) (n_listing cf) d o)
                then 1300 + P.chk_reset_code (nc_place cf) (n_listing cf) d o
                else if negb (match P.o_kind o with P.ROk => true | _ => false end
                              && optcells_eqb (pos_list g) (P.o_pos o)) then 310
                else chk_nav_recs cf ds' cs' recs'
            | _, _ => 309
            end
        | CReset, L [A 3], [] => chk_nav_recs cf ds cs' recs'
        | CStep _ _, L [A 1; _; xrew; xdone; _], [] =>
            match sxPairs xrew, sxPairs xdone with
            | Some rews, Some dones =>
                if first_bad (done_entry_okb cf g) dones then 312
                else if first_bad (rew_entry_okb cf g) rews then 313
                else chk_nav_recs cf ds cs' recs'
            | _, _ => 309
            end
        | CStep _ _, L [A 2], [] | CStep _ _, L [A 3], [] | CStep _ _, L [A 4], [] =>
            chk_nav_recs cf ds cs' recs'
        | _, _, _ => 309
        end
  | None => 309
  end.
Proof. reflexivity. Qed.

Lemma chk_nav_recs_ok cf k : k = MAll \/ k = MTurn -> wf_ncfg cf = true -> has_nav cf ->
  forall cs m,
    n_statics cf (ns_grid (m_sim m)) -> ginv (ns_grid (m_sim m)) -> rew_nonpos (m_sim m) ->
    (all_placed (ns_grid (m_sim m)) \/ exists cs', cs = CReset :: cs') ->
    ns_bad (m_sim (snd (mrun_snap cf k m cs))) = false ->
    chk_nav_recs cf (ns_resets (m_sim m)) cs (map enc_nrec (fst (mrun_snap cf k m cs))) = 0.
Proof.
  intros Hk Hwf Hn. induction cs as [|c cs IH]; intros m S G R Pl B; [reflexivity|].
  cbn [mrun_snap] in *. destruct (do_call (mazenav_sim cf) k m c) as [r m1] eqn:E.
  destruct (mrun_snap cf k m1 cs) as [rs m2] eqn:Er. cbn [fst snd map] in *.
  assert (B1 : ns_bad (m_sim m1) = false).
  { apply (bad_mono_snap cf k cs m1). rewrite Er. exact B. }
  assert (IH1 : n_full cf (m_sim m1) ->
                chk_nav_recs cf (ns_resets (m_sim m1)) cs (map enc_nrec rs) = 0).
  { intros (S1 & G1 & Pl1 & R1). specialize (IH m1 S1 G1 R1 (or_introl Pl1)). rewrite Er in IH.
    apply IH. exact B. }
  destruct c as [|acts sh].
  - (* a reset: the placement computed from the next recorded draws *)
    destruct (reset_call_cases cf k m r m1 Hk Hn E) as (obs & -> & Gr).
    pose proof (greach_bad cf _ _ Gr B1) as B0. cbn [mazenav_sim sim_reset] in *.
    destruct (mn_reset_ok cf (m_sim m) Hwf S R B0) as (d & rest & Ed & Erest & F & K & Ps).
    pose proof (n_full_greach cf _ _ Gr F) as F1. pose proof F1 as (S1 & G1 & Pl1 & R1).
    destruct (n_greach_frame cf _ _ Gr) as [Eg Ers].
    destruct (snap_ok cf (ns_grid (m_sim m1)) S1 G1 Pl1) as (sh & Esh & Ha & Hb & Hs).
    unfold enc_nrec at 1. cbn [nr_resp nr_grid nr_out]. unfold mn_outcome. rewrite Ed.
    rewrite chk_nav_recs_cons, Esh, Hb, Hs. cbn [Z.eqb negb enc_bresp]. rewrite dec_enc_outcome.
    assert (Hnb : P.o_kind (P.outcome_of (nc_place cf) (P.reset (nc_place cf) (n_listing cf) d)) <> P.RBad).
    { unfold n_placement in K. rewrite K. discriminate. }
    destruct (PP.model_chk (nc_place cf) (n_listing cf) d (n_wf_place cf Hwf) (n_listing_ok cf Hwf) Hnb) as [Hc _].
    unfold n_placement in *. rewrite Hc, K. cbn [negb andb].
    assert (Hp : optcells_eqb (pos_list sh)
                   (P.o_pos (P.outcome_of (nc_place cf) (P.reset (nc_place cf) (n_listing cf) d))) = true).
    { unfold pos_list. rewrite Ha, Eg, Ps. apply optcells_eqb_some. }
    rewrite Hp. cbn [negb]. rewrite <- Erest, <- Ers. apply IH1, F1.
  - (* a step *)
    assert (Pl0 : all_placed (ns_grid (m_sim m))).
    { destruct Pl as [Pl|(cs' & Ec)]; [exact Pl|discriminate]. }
    assert (F0 : n_full cf (m_sim m)) by (exact (conj S (conj G (conj Pl0 R)))).
    assert (F1 : n_full cf (m_sim m1)).
    { apply (do_call_J cf (n_full cf) (n_full_step cf) (fun st => n_full_reset cf st Hwf) (n_full_obs cf)
                       (n_full_rew cf) k m (CStep acts sh) r m1 E F0). }
    pose proof F1 as (S1 & G1 & Pl1 & R1).
    destruct (snap_ok cf (ns_grid (m_sim m1)) S1 G1 Pl1) as (sh' & Esh & Ha & Hb & Hs).
    unfold enc_nrec at 1. cbn [nr_resp nr_grid nr_out].
    rewrite chk_nav_recs_cons, Esh, Hb, Hs. cbn [Z.eqb negb].
    destruct (step_call_cases cf k m acts sh r m1 Hk E) as [[Em Hr]|(o & l & -> & Gr)].
    + subst m1. destruct Hr as [-> | [-> | ->]]; cbn [enc_bresp]; apply IH1, F1.
    + cbn [enc_bresp]. rewrite sxPairs_kz, sxPairs_kbool.
      destruct (mazenav_step_entries cf k m acts sh o m1 Hk R E) as (Hd & Hrw & _).
      destruct (entries_okb cf sh' (ns_grid (m_sim m1)) o Ha Hd Hrw) as [-> ->].
      assert (Ers : ns_resets (m_sim m1) = ns_resets (m_sim m)).
      { destruct (n_greach_frame cf _ _ Gr) as [_ ->]. apply mn_step_resets. }
      rewrite <- Ers. apply IH1, F1.
Qed.

Lemma dec_nav_facts xin i : dec_nav xin = Some i ->
  wf_ncfg (mi_cfg i) = true /\ (mi_kind i = MAll \/ mi_kind i = MTurn) /\
  exists ocs, mi_init i = mn_init (mi_cfg i) (mi_draws i) ocs.
Proof.
  unfold dec_nav. destruct xin as [z|l]; [discriminate|].
  destruct l as [|xpc l]; try discriminate. destruct l as [|[?|ags] l]; try discriminate.
  destruct l as [|sf l]; try discriminate. destruct l as [|[?|ds] l]; try discriminate.
  destruct l as [|ocs l]; try discriminate. destruct l as [|[kind|?] l]; try discriminate.
  destruct l as [|[?|cs] l]; try discriminate. destruct l; [|discriminate].
  destruct (P.dec_config xpc) as [pc|]; [|discriminate].
  destruct (all_some (map dec_nagent ags)) as [ags'|]; [|discriminate].
  destruct (sxB sf) as [sf'|]; [|discriminate].
  destruct (all_some (map P.dec_draws ds)) as [ds'|]; [|discriminate].
  destruct (sxZs ocs) as [ocs'|]; [|discriminate].
  destruct (all_some (map dec_ncall cs)) as [cs'|]; [|discriminate].
  destruct (wf_ncfg _ && _) eqn:W; [|discriminate]. intros H. injection H as <-.
  cbn [mi_cfg mi_kind mi_init mi_draws]. apply andb_true_iff in W as [W1 W2]. split; [exact W1|]. split.
  - destruct (kind =? 0); auto.
  - exists ocs'. reflexivity.
Qed.

(* the wire-level statement: on every decodable input (well-formed maze configuration with a navigating
   agent, all-step or turn-based manager) whose first call is a reset and on which the recorded draws
   were admissible and no reset raised (flag clear), the extracted checker answers 1 on the extracted
   model's own output *)
Theorem run_chk_mazenav_model xin i :
  dec_nav xin = Some i -> has_nav (mi_cfg i) -> (exists cs', mi_calls i = CReset :: cs') ->
  ns_bad (m_sim (snd (nav_records i))) = false ->
  run_chk_mazenav (L [xin; run_mazenav xin]) = A 1.
Proof.
  intros E Hn Hc Hbad. destruct (dec_nav_facts xin i E) as (Hwf & Hk & ocs & Ei).
  unfold run_chk_mazenav, run_mazenav. rewrite E.
  assert (H : chk_nav_recs (mi_cfg i) (mi_draws i) (mi_calls i) (map enc_nrec (fst (nav_records i))) = 0).
  { unfold nav_records in *. rewrite Ei in *.
    apply (chk_nav_recs_ok (mi_cfg i) (mi_kind i) Hk Hwf Hn (mi_calls i)
                           (init (mn_init (mi_cfg i) (mi_draws i) ocs))).
    - apply n_blank_statics.
    - apply n_blank_ginv, Hwf.
    - intros j x Ex. cbn in Ex. destruct j; discriminate.
    - right. exact Hc.
    - exact Hbad. }
  destruct (nav_records i) as [rs m]. cbn [fst snd] in *. rewrite Hbad. cbn [ofB Z.eqb negb].
  rewrite H. reflexivity.
Qed.

(* ---- the maze of a successful reset: the episode starts in a maze around the target -------------------- *)
Module MP := Abm.Proofs.Maze_proofs.

Theorem n_position_reset_maze cf d g s :
  wf_ncfg cf = true -> n_statics cf g -> n_position_reset cf d g = Some s ->
  exists m st,
    P.o_maze (P.outcome_of (nc_place cf) (n_placement cf d)) = Some m /\
    P.spec_start (nc_place cf) d = Some st /\
    Maze.maze_shape_b m (P.c_rows (nc_place cf)) (P.c_cols (nc_place cf)) = true /\
    Maze.gget m st = 0 /\ (forall p, Maze.gget m p = 0 -> MP.conn m st p) /\
    (forall t, agent s (n_target cf) = Some t -> a_pos t = Some st) /\
    forall i a p, agent s i = Some a -> a_pos a = Some p ->
      P.prescribed (nc_place cf) (P.spec_start (nc_place cf) d) i = None ->
      (memZ (P.enc (nc_place cf) i) (P.c_barrier (nc_place cf)) = true -> Maze.gget m p = 1) /\
      (memZ (P.enc (nc_place cf) i) (P.c_free (nc_place cf)) = true -> Maze.gget m p = 0).
Proof.
  intros Hwf Hg E.
  assert (Hok : exists s0, snd (P.reset (nc_place cf) (n_listing cf) d) = P.POk s0).
  { unfold n_position_reset, n_placement in E.
    destruct (snd (P.reset (nc_place cf) (n_listing cf) d)) as [s0|]; [eauto|discriminate]. }
  destruct Hok as (s0 & Hok).
  rewrite (n_reset_is cf d s0 Hok g) in E. injection E as Es.
  pose proof (n_wf_place cf Hwf) as W. pose proof (n_listing_ok cf Hwf) as O.
  pose proof (n_placed_ok cf d s0 Hok) as K. destruct (wf_ncfg_parts cf Hwf) as (_ & Km & _).
  assert (Hnb : P.o_kind (P.outcome_of (nc_place cf) (P.reset (nc_place cf) (n_listing cf) d)) <> P.RBad)
    by (rewrite K; discriminate).
  destruct (PP.model_maze (nc_place cf) (n_listing cf) d W O Km Hnb
              (PP.model_covered_ok (nc_place cf) (n_listing cf) d W O K)) as (m & st & M1 & M2 & M3 & M4 & M5).
  exists m, st. unfold n_placement. split; [exact M1|]. split; [exact M2|]. split; [exact M3|].
  split; [exact M4|]. split; [exact M5|].
  assert (Hpos : forall i a p, agent s i = Some a -> a_pos a = Some p ->
            In (i, p) (P.o_log (P.outcome_of (nc_place cf) (P.reset (nc_place cf) (n_listing cf) d)))).
  { intros i a p Ha Hp. rewrite <- Es in Ha.
    destruct (n_s_agent_inv cf d Hwf g Hg i a Ha) as (a0 & Ha0 & ->). cbn [with_pos a_pos] in Hp. injection Hp as <-.
    assert (Hi : (i < length (P.c_agents (nc_place cf)))%nat).
    { rewrite <- (n_len_g cf Hwf g Hg). apply (nth_error_some_lt _ _ _ Ha0). }
    destruct (n_log_total cf d Hwf s0 Hok i Hi) as (p' & Hin).
    rewrite (n_pos_of cf d Hwf s0 Hok i p' Hin). exact Hin. }
  split.
  - intros t Ht. destruct (a_pos t) as [p|] eqn:Ep.
    + pose proof (Hpos _ t p Ht Ep) as Hin.
      destruct (n_log_legal cf d Hwf s0 Hok) as (_ & L2 & _). f_equal. apply (L2 (n_target cf) p st Hin).
      unfold P.prescribed, P.is_target, n_target. rewrite Km, Nat.eqb_refl. exact M2.
    + rewrite <- Es in Ht. destruct (n_s_agent_inv cf d Hwf g Hg _ t Ht) as (a0 & _ & ->). discriminate.
  - intros i a p Ha Hp Hpr.
    apply (PP.model_partition (nc_place cf) (n_listing cf) d m W O Km K M1 i p (Hpos i a p Ha Hp) Hpr).
Qed.

(* ---- non-vacuity: a 3x3 maze around the target in the middle (walls at (0,0), (1,2), (2,0)); the
   barrier is put on the wall cell (1,2), navigator 2 on the passage (1,0), navigator 3 on (0,2).  One
   all-step step: navigator 2 steps onto the target's cell (reward 1, done), navigator 3 walks into the
   barrier (refused: -0.1 - 0.01) -------------------------------------------------------------------------- *)
Definition mz_pc : P.config :=
  P.mkConfig P.KMaze 3 3 [(1, [3]); (3, [3])]
    [P.mkAgent 1 (Some (1, 1)); P.mkAgent 2 None; P.mkAgent 3 None; P.mkAgent 3 None]
    true false false false 0%nat [2] [1; 3].
Definition mz_cf : ncfg :=
  {| nc_place := mz_pc;
     nc_agents := [{| n_blocking := false; n_view := None |}; {| n_blocking := true; n_view := None |};
                   {| n_blocking := false; n_view := Some 1 |}; {| n_blocking := false; n_view := Some 1 |}];
     nc_self := true |}.
Definition mz_d : P.draws :=
  P.mkDraws [] None [(1, 2); (2, 1); (3, 2); (3, 3); (1, 3); (1, 1); (2, 3); (3, 1)] [-1; 5; 3; 2].
Definition mz_s0 : nstate := mn_init mz_cf [mz_d; mz_d] [3; 1; 3; 1; 2; 3; 3; 2; 3; 1; 2].
Definition mz_acts : list (nat * cell) := [(2%nat, (0, 1)); (3%nat, (1, 0))].
Definition mz_calls : list (call cell) := [CReset; CStep mz_acts mz_acts].
Definition mz_out : list bresp :=
  [RObs [(2%nat, [[-1; 0; 0]; [-1; 3; 1]; [-1; 0; 0]]); (3%nat, [[-1; -1; -1]; [0; 3; -1]; [1; 2; -1]])];
   ROut {| o_obs := [(2%nat, [[0; 0; 3]; [0; 3; 2]; [0; 0; 0]]); (3%nat, [[-1; -1; -1]; [0; 3; -1]; [1; 2; -1]])];
           o_rew := [(2%nat, 100); (3%nat, -11)]; o_done := [(2%nat, true); (3%nat, false)];
           o_info := [(2%nat, tt); (3%nat, tt)]; o_all := false |}].

Lemma mz_has_nav : has_nav mz_cf.
Proof. exists 2%nat. split; [cbn; lia|reflexivity]. Qed.

Lemma mz_nonvacuous :
  wf_ncfg mz_cf = true /\ has_nav mz_cf /\ is_nav mz_cf (n_target mz_cf) = false /\
  n_next_reset_ok mz_cf mz_s0 = true /\ calls_ok MAll mz_calls /\
  in_protocol (trace (mazenav_sim mz_cf) MAll (init mz_s0) Fresh mz_calls) /\
  (let r := mrun_snap mz_cf MAll (init mz_s0) mz_calls in
   map nr_resp (fst r) = mz_out /\ ns_bad (m_sim (snd r)) = false /\
   m_done (snd r) = [0%nat; 1%nat; 2%nat] /\
   map (fun x => ginvb (nr_grid x)) (fst r) = [0; 0] /\
   option_map (fun o => (P.o_maze o, P.o_log o)) (mn_outcome mz_cf mz_s0) =
     Some (Some [[1; 0; 0]; [0; 0; 1]; [1; 0; 0]],
           [(0%nat, (1, 1)); (1%nat, (1, 2)); (2%nat, (1, 0)); (3%nat, (0, 2))]) /\
   map a_pos (g_agents (ns_grid (m_sim (snd r)))) = [Some (1, 1); Some (1, 2); Some (1, 1); Some (0, 2)] /\
   cell_get (g_cells (ns_grid (m_sim (snd r)))) (1, 1) = [0%nat; 2%nat] /\
   chk_nav_recs mz_cf [mz_d; mz_d] mz_calls (map enc_nrec (fst r)) = 0).
Proof.
  split; [reflexivity|]. split; [exact mz_has_nav|]. split; [reflexivity|]. split; [vm_compute; reflexivity|].
  split.
  - intros acts sh [H|[H|[]]] _; [discriminate|]. injection H as <- <-. intros kv Hkv.
    apply in_map, Hkv.
  - split; [apply in_protocolb_ok; vm_compute; reflexivity|]. vm_compute. repeat split; reflexivity.
Qed.

(* ---- the reset of the simulation, in one statement ------------------------------------------------------ *)
Theorem mn_reset_fresh cf st :
  wf_ncfg cf = true -> n_statics cf (ns_grid st) -> ns_bad (mn_reset cf st) = false ->
  exists d rest,
    ns_resets st = d :: rest /\ ns_resets (mn_reset cf st) = rest /\ ns_rew (mn_reset cf st) = n_zero cf /\
    n_position_reset cf d (ns_grid st) = Some (ns_grid (mn_reset cf st)) /\
    ginv (ns_grid (mn_reset cf st)) /\ n_statics cf (ns_grid (mn_reset cf st)) /\
    all_placed (ns_grid (mn_reset cf st)) /\
    PP.legal (nc_place cf) d (P.outcome_of (nc_place cf) (n_placement cf d)) /\
    P.o_kind (P.outcome_of (nc_place cf) (n_placement cf d)) = P.ROk /\
    map a_pos (g_agents (ns_grid (mn_reset cf st))) =
      map Some (P.o_pos (P.outcome_of (nc_place cf) (n_placement cf d))).
Proof.
  intros Hwf S B. unfold mn_reset in *. destruct (ns_resets st) as [|d rest]; [discriminate|].
  destruct (n_position_reset cf d (ns_grid st)) as [g|] eqn:E; [|discriminate].
  exists d, rest. cbn [ns_resets ns_rew ns_grid].
  destruct (n_position_reset_fresh cf d (ns_grid st) g Hwf S E) as (G' & S' & Pl' & Lg & K & Ps).
  split; [reflexivity|]. split; [reflexivity|]. split; [reflexivity|]. split; [exact E|].
  split; [exact G'|]. split; [exact S'|]. split; [exact Pl'|].
  split; [exact Lg|]. split; [exact K|exact Ps].
Qed.

(* a reset from ANY two states of the configuration that hold the same draw streams and flag *)
Theorem mn_reset_indep cf st1 st2 :
  n_statics cf (ns_grid st1) -> n_statics cf (ns_grid st2) ->
  ns_resets st1 = ns_resets st2 -> ns_obsorc st1 = ns_obsorc st2 -> ns_bad st1 = ns_bad st2 ->
  ns_bad (mn_reset cf st1) = false -> mn_reset cf st1 = mn_reset cf st2.
Proof.
  intros S1 S2 Er Eo Eb B. unfold mn_reset in *. rewrite <- Er. destruct (ns_resets st1) as [|d rest]; [discriminate|].
  rewrite <- (n_position_reset_indep cf d (ns_grid st1) (ns_grid st2) S1 S2).
  destruct (n_position_reset cf d (ns_grid st1)); [|discriminate]. rewrite Eo, Eb. reflexivity.
Qed.
