From Coq Require Import ZArith List Bool Lia.
From Abm Require Import Base.Sx.
Import ListNotations.
Open Scope Z_scope.

Section SxInd.
  Variable P : sx -> Prop.
  Hypothesis HA : forall z, P (A z).
  Hypothesis HL : forall l, Forall P l -> P (L l).
  Fixpoint sx_ind' (x : sx) : P x :=
    match x with
    | A z => HA z
    | L l => HL l ((fix go (l : list sx) : Forall P l :=
                     match l with
                     | [] => Forall_nil P
                     | a :: l' => Forall_cons a (sx_ind' a) (go l')
                     end) l)
    end.
End SxInd.

Fixpoint sx_eqb_list (l m : list sx) : bool :=
  match l, m with
  | [], [] => true
  | a :: l', b :: m' => sx_eqb a b && sx_eqb_list l' m'
  | _, _ => false
  end.

Lemma sx_eqb_L l m : sx_eqb (L l) (L m) = sx_eqb_list l m.
Proof. reflexivity. Qed.

Lemma sx_eqb_refl x : sx_eqb x x = true.
Proof.
  induction x as [z|l IH] using sx_ind'; [apply Z.eqb_refl|].
  rewrite sx_eqb_L. induction IH as [|a l Ha _ IHl]; simpl; [reflexivity|].
  rewrite Ha, IHl. reflexivity.
Qed.

Lemma sx_eqb_eq x : forall y, sx_eqb x y = true -> x = y.
Proof.
  induction x as [z|l IH] using sx_ind'; intros [w|m] H; try discriminate.
  - simpl in H. apply Z.eqb_eq in H. congruence.
  - rewrite sx_eqb_L in H. f_equal. revert m H.
    induction IH as [|a l Ha _ IHl]; intros [|b m] H; simpl in H; try discriminate;
      [reflexivity|].
    apply andb_true_iff in H as [H1 H2]. rewrite (Ha _ H1), (IHl _ H2). reflexivity.
Qed.
