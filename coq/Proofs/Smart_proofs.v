(* Proofs about Grid/Smart.v: any() over done components, key-wise observation merge and its
   independence of the component order, reset through all state components (field-wise and
   order-independent), read-and-reset rewards over every interleaving, registry lookup, and the
   agreement of the model with the run specification used by chk_C17_smart. *)
From Coq Require Import ZArith List Bool Lia Arith Permutation.
From Abm Require Import Base.Sx Grid.Overlap Grid.Amap Grid.Done Grid.Smart
     Proofs.Sx_proofs Proofs.Amap_proofs Proofs.Done_proofs.
Import ListNotations.
Open Scope Z_scope.

(* ================= any() ==================================================================== *)
Lemma any_lazy_defined {T} : forall (f : T -> option bool) l,
    (forall x, In x l -> f x <> None) ->
    any_lazy f l = Some (existsb (fun x => is_true (f x)) l).
Proof.
  intros f l. induction l as [|x r IH]; intros H; cbn; [reflexivity|].
  destruct (f x) as [[|]|] eqn:E; cbn.
  - reflexivity.
  - apply IH. intros y Hy. apply H. right. exact Hy.
  - exfalso. apply (H x (or_introl eq_refl)). exact E.
Qed.

Lemma any_lazy_true {T} : forall (f : T -> option bool) l,
    any_lazy f l = Some true -> exists x, In x l /\ f x = Some true.
Proof.
  intros f l. induction l as [|x r IH]; cbn; intros H; [discriminate|].
  destruct (f x) as [[|]|] eqn:E.
  - exists x. split; [left; reflexivity|exact E].
  - destruct (IH H) as [y [Hy Fy]]. exists y. split; [right; exact Hy|exact Fy].
  - discriminate.
Qed.

Lemma any_lazy_false {T} : forall (f : T -> option bool) l,
    any_lazy f l = Some false -> forall x, In x l -> f x = Some false.
Proof.
  intros f l. induction l as [|x r IH]; cbn; intros H y Hy; [contradiction|].
  destruct (f x) as [[|]|] eqn:E; try discriminate.
  destruct Hy as [Hy|Hy]; [subst; exact E|apply IH; assumption].
Qed.

Lemma existsb_perm {T} : forall (f : T -> bool) l l', Permutation l l' -> existsb f l = existsb f l'.
Proof.
  intros f l l' HP. apply eq_true_iff_eq. rewrite !existsb_exists. split.
  - intros [x [Hx Fx]]. exists x. split; [eapply Permutation_in; eassumption|exact Fx].
  - intros [x [Hx Fx]]. exists x. split; [|exact Fx].
    eapply Permutation_in; [apply Permutation_sym; eassumption|exact Hx].
Qed.

Lemma any_lazy_perm {T} : forall (f : T -> option bool) l l',
    Permutation l l' -> (forall x, In x l -> f x <> None) -> any_lazy f l' = any_lazy f l.
Proof.
  intros f l l' HP H. rewrite (any_lazy_defined f l H).
  rewrite (any_lazy_defined f l').
  - f_equal. symmetry. apply existsb_perm. exact HP.
  - intros x Hx. apply H. eapply Permutation_in; [apply Permutation_sym; eassumption|exact Hx].
Qed.

Lemma smart_done_any_lemma : forall ds p i,
    (forall d, In d ds -> get_done p d i <> None) ->
    (smart_get_done ds p i = Some true <-> exists d, In d ds /\ get_done p d i = Some true) /\
    (smart_get_done ds p i = Some false <-> forall d, In d ds -> get_done p d i = Some false) /\
    (forall ds', Permutation ds ds' -> smart_get_done ds' p i = smart_get_done ds p i).
Proof.
  intros ds p i H. unfold smart_get_done. split; [|split].
  - split; [apply any_lazy_true|].
    intros [d [Hd Fd]]. rewrite (any_lazy_defined _ ds H). f_equal.
    apply existsb_exists. exists d. split; [exact Hd|rewrite Fd; reflexivity].
  - split; [apply any_lazy_false|].
    intros Hf. rewrite (any_lazy_defined _ ds H). f_equal.
    destruct (existsb _ ds) eqn:E; [|reflexivity].
    apply existsb_exists in E. destruct E as [d [Hd Fd]]. rewrite (Hf d Hd) in Fd. discriminate.
  - intros ds' HP. apply any_lazy_perm; assumption.
Qed.

Lemma smart_all_done_any_lemma : forall ds p,
    (forall d, In d ds -> get_all_done p d <> None) ->
    (smart_get_all_done ds p = Some true <-> exists d, In d ds /\ get_all_done p d = Some true) /\
    (smart_get_all_done ds p = Some false <-> forall d, In d ds -> get_all_done p d = Some false) /\
    (forall ds', Permutation ds ds' -> smart_get_all_done ds' p = smart_get_all_done ds p).
Proof.
  intros ds p H. unfold smart_get_all_done. split; [|split].
  - split; [apply any_lazy_true|].
    intros [d [Hd Fd]]. rewrite (any_lazy_defined (fun d => get_all_done p d) ds H). f_equal.
    apply existsb_exists. exists d. split; [exact Hd|rewrite Fd; reflexivity].
  - split; [apply any_lazy_false|].
    intros Hf. rewrite (any_lazy_defined (fun d => get_all_done p d) ds H). f_equal.
    destruct (existsb _ ds) eqn:E; [|reflexivity].
    apply existsb_exists in E. destruct E as [d [Hd Fd]]. rewrite (Hf d Hd) in Fd. discriminate.
  - intros ds' HP. apply any_lazy_perm; assumption.
Qed.

(* ================= observation merge ========================================================= *)
Definition setf (acc : obsdict) (kv : Z * list Z) : obsdict := am_set Z.eqb acc (fst kv) (snd kv).

Lemma merge_concat : forall outs acc,
    fold_left (fun a o => am_update Z.eqb a o) outs acc = fold_left setf (concat outs) acc.
Proof.
  induction outs as [|o r IH]; intros acc; cbn; [reflexivity|].
  rewrite fold_left_app. rewrite IH. reflexivity.
Qed.

Lemma get_fold_setf : forall all acc k,
    am_get Z.eqb (fold_left setf all acc) k =
    match last_val k all with Some v => Some v | None => am_get Z.eqb acc k end.
Proof.
  induction all as [|[k' v] r IH]; intros acc k; cbn; [reflexivity|].
  rewrite IH. destruct (last_val k r); [reflexivity|].
  unfold setf. cbn [fst snd]. destruct (k =? k') eqn:E.
  - apply Z.eqb_eq in E. subst. apply (am_get_set_same Z.eqb z_eqb_ok).
  - apply (am_get_set_other Z.eqb z_eqb_ok). intros H. subst. rewrite Z.eqb_refl in E. discriminate.
Qed.

Lemma am_mem_memZ : forall (acc : obsdict) k, am_mem Z.eqb acc k = memZ k (map fst acc).
Proof.
  unfold am_mem. induction acc as [|[k' v] r IH]; intros k; cbn; [reflexivity|].
  destruct (k =? k'); [reflexivity|apply IH].
Qed.

Lemma keys_fold_setf : forall all acc,
    map fst (fold_left setf all acc) = map fst acc ++ dedup (map fst acc) (map fst all).
Proof.
  induction all as [|[k v] r IH]; intros acc; cbn; [rewrite app_nil_r; reflexivity|].
  rewrite IH. unfold setf at 1 2. cbn [fst snd].
  rewrite (am_set_keys Z.eqb), am_mem_memZ.
  destruct (memZ k (map fst acc)); [reflexivity|].
  rewrite <- app_assoc. reflexivity.
Qed.

Lemma NoDup_fold_setf : forall all acc, NoDup (map fst acc) -> NoDup (map fst (fold_left setf all acc)).
Proof.
  induction all as [|[k v] r IH]; intros acc H; cbn; [exact H|].
  apply IH. apply (am_set_NoDup Z.eqb z_eqb_ok). exact H.
Qed.

Lemma alist_canon : forall (m : obsdict), NoDup (map fst m) ->
    m = map (fun k => (k, match am_get Z.eqb m k with Some v => v | None => [] end)) (map fst m).
Proof.
  induction m as [|[k v] r IH]; intros H; cbn; [reflexivity|].
  inversion H as [|x l Hni Hnd]. subst. rewrite Z.eqb_refl. f_equal.
  rewrite (IH Hnd) at 1. apply map_ext_in. intros k2 Hk2.
  destruct (k2 =? k) eqn:E; [|reflexivity].
  apply Z.eqb_eq in E. subst. contradiction.
Qed.

Lemma merge_obs_spec : forall outs, merge_obs outs = spec_merge outs.
Proof.
  intros outs. unfold merge_obs, spec_merge. rewrite merge_concat.
  set (all := concat outs). set (m := fold_left setf all []).
  assert (Hnd : NoDup (map fst m)) by (apply NoDup_fold_setf; constructor).
  rewrite (alist_canon m Hnd). unfold m at 2. rewrite keys_fold_setf. cbn [map app].
  apply map_ext. intros k. unfold m. rewrite get_fold_setf. cbn.
  destruct (last_val k all); reflexivity.
Qed.

Lemma dedup_length : forall l seen, (length (dedup seen l) <= length l)%nat.
Proof.
  induction l as [|k r IH]; intros seen; cbn; [lia|].
  destruct (memZ k seen); cbn; [specialize (IH seen); lia|specialize (IH (seen ++ [k])); lia].
Qed.

Lemma am_set_absent : forall (acc : obsdict) k v,
    memZ k (map fst acc) = false -> am_set Z.eqb acc k v = acc ++ [(k, v)].
Proof.
  induction acc as [|[k' v'] r IH]; intros k v H; cbn in *; [reflexivity|].
  unfold memZ in H. cbn in H. apply orb_false_iff in H. destruct H as [H1 H2].
  rewrite H1. f_equal. apply IH. exact H2.
Qed.

Lemma fold_setf_distinct : forall all acc,
    length (dedup (map fst acc) (map fst all)) = length all ->
    fold_left setf all acc = acc ++ all.
Proof.
  induction all as [|[k v] r IH]; intros acc H; cbn in *; [rewrite app_nil_r; reflexivity|].
  destruct (memZ k (map fst acc)) eqn:E.
  - pose proof (dedup_length (map fst r) (map fst acc)) as Hl. rewrite map_length in Hl. lia.
  - cbn in H. injection H as H.
    unfold setf at 2. cbn [fst snd]. rewrite (am_set_absent acc k v E).
    rewrite IH.
    + rewrite <- app_assoc. reflexivity.
    + rewrite map_app. cbn. exact H.
Qed.

Lemma merge_obs_distinct : forall outs, distinct_keys outs = true -> merge_obs outs = concat outs.
Proof.
  intros outs H. unfold distinct_keys in H. apply Nat.eqb_eq in H. rewrite map_length in H.
  unfold merge_obs. rewrite merge_concat. rewrite (fold_setf_distinct (concat outs) []); [reflexivity|].
  exact H.
Qed.

(* value of a key after merging: the last observer (in iteration order) that provides it *)
Lemma merge_obs_get : forall outs k,
    am_get Z.eqb (merge_obs outs) k = last_val k (concat outs).
Proof.
  intros outs k. unfold merge_obs. rewrite merge_concat, get_fold_setf. cbn.
  destruct (last_val k (concat outs)); reflexivity.
Qed.

Lemma last_val_app : forall k a b,
    last_val k (a ++ b) = match last_val k b with Some v => Some v | None => last_val k a end.
Proof.
  induction a as [|[k' v] r IH]; intros b; cbn.
  - destruct (last_val k b); reflexivity.
  - rewrite IH. destruct (last_val k b); reflexivity.
Qed.

Lemma last_val_None : forall k l, last_val k l = None <-> ~ In k (map fst l).
Proof.
  induction l as [|[k' v] r IH]; cbn.
  - split; [intros _ []|reflexivity].
  - destruct (last_val k r) eqn:E.
    + split; [discriminate|]. intros H. exfalso.
      assert (Hn : ~ In k (map fst r)) by (intros H1; apply H; right; exact H1).
      apply IH in Hn. discriminate.
    + destruct (k =? k') eqn:E2.
      * apply Z.eqb_eq in E2. subst. split; [discriminate|]. intros H. exfalso. apply H. left. reflexivity.
      * split; [|reflexivity]. intros _ [H|H].
        -- subst. rewrite Z.eqb_refl in E2. discriminate.
        -- apply (proj1 IH eq_refl). exact H.
Qed.

(* when no key is provided by two different observers, the merged value of a key does not depend
   on the order in which the observers are visited *)
Definition keys_disjoint (outs : list obsdict) : Prop :=
  forall a b k l1 l2 l3, outs = l1 ++ a :: l2 ++ b :: l3 ->
                         In k (map fst a) -> In k (map fst b) -> False.

Lemma last_val_concat_some : forall k outs v,
    last_val k (concat outs) = Some v -> exists o, In o outs /\ last_val k o = Some v.
Proof.
  induction outs as [|o r IH]; intros v H; cbn in H; [discriminate|].
  rewrite last_val_app in H. destruct (last_val k (concat r)) eqn:E.
  - inversion H. subst. destruct (IH v eq_refl) as [o' [Ho' Lo']]. exists o'. split; [right; exact Ho'|exact Lo'].
  - exists o. split; [left; reflexivity|exact H].
Qed.

Lemma last_val_concat_unique : forall k outs o v,
    keys_disjoint outs -> In o outs -> last_val k o = Some v -> last_val k (concat outs) = Some v.
Proof.
  induction outs as [|o1 r IH]; intros o v Hd Hin Hl; [contradiction|].
  cbn. rewrite last_val_app.
  assert (Hd' : keys_disjoint r).
  { intros a b k0 l1 l2 l3 E. apply (Hd a b k0 (o1 :: l1) l2 l3). rewrite E. reflexivity. }
  destruct Hin as [Hin|Hin].
  - subst o1. destruct (last_val k (concat r)) eqn:E; [|exact Hl]. exfalso.
    destruct (last_val_concat_some k r l E) as [o' [Ho' Lo']].
    apply in_split in Ho'. destruct Ho' as [l2 [l3 E3]].
    apply (Hd o o' k [] l2 l3).
    + rewrite E3. reflexivity.
    + destruct (last_val k o) eqn:E4; [|discriminate].
      destruct (in_dec Z.eq_dec k (map fst o)) as [Hi|Hn]; [exact Hi|].
      apply last_val_None in Hn. rewrite Hn in E4. discriminate.
    + destruct (in_dec Z.eq_dec k (map fst o')) as [Hi|Hn]; [exact Hi|].
      apply last_val_None in Hn. rewrite Hn in Lo'. discriminate.
  - rewrite (IH o v Hd' Hin Hl). reflexivity.
Qed.

Lemma keys_disjoint_perm : forall outs outs', Permutation outs outs' ->
    keys_disjoint outs -> keys_disjoint outs'.
Proof.
  intros outs outs' HP Hd a b k l1 l2 l3 E Ha Hb.
  (* a and b both occur in outs at two different positions *)
  assert (HP' : Permutation outs (a :: b :: l1 ++ l2 ++ l3)).
  { rewrite HP, E. rewrite <- Permutation_middle. apply perm_skip.
    rewrite app_assoc. rewrite <- Permutation_middle. apply perm_skip.
    rewrite <- app_assoc. reflexivity. }
  assert (Ha' : In a outs) by (eapply Permutation_in; [apply Permutation_sym; exact HP'|left; reflexivity]).
  apply in_split in Ha'. destruct Ha' as [m1 [m2 E1]]. subst outs.
  assert (HP2 : Permutation (m1 ++ m2) (b :: l1 ++ l2 ++ l3)).
  { apply (Permutation_cons_inv (a := a)). rewrite Permutation_middle. exact HP'. }
  assert (Hb' : In b (m1 ++ m2)) by (eapply Permutation_in; [apply Permutation_sym; exact HP2|left; reflexivity]).
  apply in_app_or in Hb'. destruct Hb' as [Hb'|Hb'].
  - apply in_split in Hb'. destruct Hb' as [n1 [n2 E2]]. subst m1.
    apply (Hd b a k n1 n2 m2); [rewrite <- app_assoc; reflexivity|exact Hb|exact Ha].
  - apply in_split in Hb'. destruct Hb' as [n1 [n2 E2]]. subst m2.
    apply (Hd a b k m1 n1 n2); [reflexivity|exact Ha|exact Hb].
Qed.

Lemma merge_obs_order_indep : forall outs outs' k,
    Permutation outs outs' -> keys_disjoint outs ->
    am_get Z.eqb (merge_obs outs') k = am_get Z.eqb (merge_obs outs) k.
Proof.
  intros outs outs' k HP Hd. rewrite !merge_obs_get.
  destruct (last_val k (concat outs)) as [v|] eqn:E.
  - destruct (last_val_concat_some k outs v E) as [o [Ho Lo]].
    apply (last_val_concat_unique k outs' o v).
    + apply (keys_disjoint_perm outs outs' HP Hd).
    + eapply Permutation_in; eassumption.
    + exact Lo.
  - destruct (last_val k (concat outs')) as [v|] eqn:E'; [|reflexivity]. exfalso.
    destruct (last_val_concat_some k outs' v E') as [o [Ho Lo]].
    assert (Ho' : In o outs) by (eapply Permutation_in; [apply Permutation_sym; exact HP|exact Ho]).
    rewrite (last_val_concat_unique k outs o v Hd Ho' Lo) in E. discriminate.
Qed.

(* ================= reset through all state components ========================================= *)
Lemma upd_dyn_statics : forall f p, map fst (upd_dyn f p) = map fst p.
Proof. intros f p. unfold upd_dyn. rewrite map_map. reflexivity. Qed.

Lemma upd_dyn_ext : forall f g p, (forall st d, f st d = g st d) -> upd_dyn f p = upd_dyn g p.
Proof. intros f g p H. unfold upd_dyn. apply map_ext. intros [st d]. cbn. rewrite H. reflexivity. Qed.

Lemma upd_dyn_comp : forall f g p,
    upd_dyn g (upd_dyn f p) = upd_dyn (fun st d => g st (f st d)) p.
Proof. intros f g p. unfold upd_dyn. rewrite map_map. reflexivity. Qed.

Lemma upd_dyn_id : forall p, upd_dyn (fun _ d => d) p = p.
Proof.
  intros p. unfold upd_dyn. rewrite <- (map_id p) at 2. apply map_ext. intros [st d]. reflexivity.
Qed.

Lemma ov_query_forallb : forall t a occ, ov_query t a occ = forallb (ov_allowed t a) occ.
Proof. intros t a [|x r]; reflexivity. Qed.

Definition cell_ok (t : otable) (s : sagent) (pe : (Z * Z) * Z) : bool :=
  negb (pos2_eqb (fst pe) (t_ipos (fst s))) || ov_allowed t (t_enc (fst s)) (snd pe).

Lemma forallb_and {T} : forall (f g : T -> bool) l,
    forallb (fun x => f x && g x) l = forallb f l && forallb g l.
Proof.
  intros f g l. induction l as [|x r IH]; cbn; [reflexivity|]. rewrite IH.
  destruct (f x), (g x), (forallb f r), (forallb g r); reflexivity.
Qed.

Lemma forallb_negb_existsb {T} : forall (f : T -> bool) l,
    forallb (fun x => negb (f x)) l = negb (existsb f l).
Proof.
  intros f l. induction l as [|x r IH]; cbn; [reflexivity|]. rewrite IH.
  destruct (f x); reflexivity.
Qed.

Lemma pos2_eqb_sym : forall a b, pos2_eqb a b = pos2_eqb b a.
Proof. intros a b. unfold pos2_eqb. rewrite (Z.eqb_sym (fst a)), (Z.eqb_sym (snd a)). reflexivity. Qed.

Lemma place_all_spec : forall t l placed,
    place_all t placed l =
    forallb (fun s => forallb (cell_ok t s) placed) l && negb (conflict_spec t l).
Proof.
  intros t. induction l as [|s r IH]; intros placed; cbn [place_all conflict_spec forallb];
    [reflexivity|].
  rewrite ov_query_forallb, forallb_map', forallb_filter_imp.
  change (forallb (fun x => negb (pos2_eqb (fst x) (t_ipos (fst s))) ||
                            ov_allowed t (t_enc (fst s)) (snd x)) placed)
    with (forallb (cell_ok t s) placed).
  destruct (forallb (cell_ok t s) placed) eqn:E1; [|reflexivity].
  rewrite IH. cbn [andb].
  erewrite (forallb_ext' (fun s0 => forallb (cell_ok t s0) (placed ++ _))).
  2:{ intros s0. rewrite forallb_app. cbn [forallb]. rewrite andb_true_r. reflexivity. }
  rewrite forallb_and. unfold cell_ok at 2. cbn [fst snd].
  rewrite negb_orb, <- forallb_negb_existsb.
  rewrite <- andb_assoc. f_equal. f_equal. apply forallb_ext'. intros x.
  destruct (pos2_eqb _ _), (ov_allowed _ _ _); reflexivity.
Qed.

Lemma place_all_conflict : forall t p, place_all t [] p = negb (conflict_spec t p).
Proof.
  intros t p. rewrite place_all_spec.
  replace (forallb _ p) with true; [reflexivity|].
  symmetry. apply forallb_forall. intros; reflexivity.
Qed.

Lemma conflict_statics : forall t p p', map fst p' = map fst p ->
    conflict_spec t p' = conflict_spec t p.
Proof.
  intros t. induction p as [|s r IH]; intros [|s' r'] H; cbn in H; try discriminate; [reflexivity|].
  injection H as H1 H2. cbn. rewrite H1, (IH r' H2). f_equal.
  clear IH. revert r' H2. induction r as [|x r IH2]; intros [|x' r''] H2; cbn in H2;
    try discriminate; [reflexivity|].
  injection H2 as H3 H4. cbn. rewrite H3, (IH2 r'' H4). reflexivity.
Qed.

Definition f_pos (st : sstatic) (d : sdyn) : sdyn :=
  mkD (d_active d) (Some (t_ipos st)) (d_health d) (d_ammo d) (d_orient d).
Definition f_health (st : sstatic) (d : sdyn) : sdyn :=
  let h := clamp (t_ihealth st) in mkD (h >? 0) (d_pos d) h (d_ammo d) (d_orient d).
Definition f_ammo (st : sstatic) (d : sdyn) : sdyn :=
  match t_iammo st with
  | Some a => mkD (d_active d) (d_pos d) (d_health d) a (d_orient d)
  | None => d
  end.
Definition f_orient (st : sstatic) (d : sdyn) : sdyn :=
  match t_iorient st with
  | Some o => mkD (d_active d) (d_pos d) (d_health d) (d_ammo d) o
  | None => d
  end.
Definition f_comp (c : scomp) : sstatic -> sdyn -> sdyn :=
  match c with SPos => f_pos | SHealth => f_health | SAmmo => f_ammo | SOrient => f_orient end.

Lemma reset_comp_eq : forall t c p,
    reset_comp t c p =
    if scomp_eqb c SPos && conflict_spec t p then None else Some (upd_dyn (f_comp c) p).
Proof.
  intros t c p. destruct c; cbn; try reflexivity.
  unfold reset_pos. rewrite place_all_conflict. destruct (conflict_spec t p); reflexivity.
Qed.

Lemma expected_step : forall c r st d,
    expected_dyn r st (f_comp c st d) = expected_dyn (c :: r) st d.
Proof.
  intros c r st [a p h am o]. unfold expected_dyn, has.
  destruct c; unfold f_comp, f_pos, f_health, f_ammo, f_orient;
    destruct (t_iammo st), (t_iorient st); cbn;
    destruct (existsb (scomp_eqb SHealth) r), (existsb (scomp_eqb SPos) r),
      (existsb (scomp_eqb SAmmo) r), (existsb (scomp_eqb SOrient) r); reflexivity.
Qed.

Lemma reset_all_spec : forall t ss p,
    reset_all t ss p =
    if has SPos ss && conflict_spec t p then None else Some (upd_dyn (expected_dyn ss) p).
Proof.
  intros t. induction ss as [|c r IH]; intros p.
  - cbn. f_equal. symmetry. rewrite <- (upd_dyn_id p) at 2. apply upd_dyn_ext.
    intros st [a q h am o]. reflexivity.
  - cbn [reset_all]. rewrite reset_comp_eq.
    destruct c; cbn [scomp_eqb andb has existsb orb].
    + destruct (conflict_spec t p) eqn:E; [reflexivity|].
      rewrite IH. rewrite (conflict_statics t p _ (upd_dyn_statics _ p)), E, andb_false_r.
      f_equal. rewrite upd_dyn_comp. apply upd_dyn_ext. intros st d.
      apply (expected_step SPos).
    + rewrite IH. rewrite (conflict_statics t p _ (upd_dyn_statics _ p)).
      change (existsb (scomp_eqb SPos) r) with (has SPos r).
      destruct (has SPos r && conflict_spec t p); [reflexivity|].
      f_equal. rewrite upd_dyn_comp. apply upd_dyn_ext. intros st d. apply (expected_step SHealth).
    + rewrite IH. rewrite (conflict_statics t p _ (upd_dyn_statics _ p)).
      change (existsb (scomp_eqb SPos) r) with (has SPos r).
      destruct (has SPos r && conflict_spec t p); [reflexivity|].
      f_equal. rewrite upd_dyn_comp. apply upd_dyn_ext. intros st d. apply (expected_step SAmmo).
    + rewrite IH. rewrite (conflict_statics t p _ (upd_dyn_statics _ p)).
      change (existsb (scomp_eqb SPos) r) with (has SPos r).
      destruct (has SPos r && conflict_spec t p); [reflexivity|].
      f_equal. rewrite upd_dyn_comp. apply upd_dyn_ext. intros st d. apply (expected_step SOrient).
Qed.

Lemma reset_order_indep : forall t ss ss' p,
    Permutation ss ss' -> reset_all t ss' p = reset_all t ss p.
Proof.
  intros t ss ss' p HP. rewrite !reset_all_spec.
  assert (Hh : forall c, has c ss' = has c ss).
  { intros c. unfold has. symmetry. apply existsb_perm. exact HP. }
  rewrite Hh. destruct (has SPos ss && conflict_spec t p); [reflexivity|].
  f_equal. apply upd_dyn_ext. intros st d. unfold expected_dyn. rewrite !Hh. reflexivity.
Qed.

(* what a successful reset leaves behind, field by field *)
Lemma reset_fields : forall t ss p p', reset_all t ss p = Some p' ->
    length p' = length p /\
    forall i st d, nth_error p i = Some (st, d) ->
      exists d', nth_error p' i = Some (st, d') /\
        (has SPos ss = true -> d_pos d' = Some (t_ipos st)) /\
        (has SPos ss = false -> d_pos d' = d_pos d) /\
        (has SHealth ss = true -> d_health d' = clamp (t_ihealth st) /\
                                  d_active d' = (clamp (t_ihealth st) >? 0)) /\
        (has SHealth ss = false -> d_health d' = d_health d /\ d_active d' = d_active d) /\
        (has SAmmo ss = true -> forall a, t_iammo st = Some a -> d_ammo d' = a) /\
        (has SAmmo ss = false -> d_ammo d' = d_ammo d) /\
        (has SOrient ss = true -> forall o, t_iorient st = Some o -> d_orient d' = o) /\
        (has SOrient ss = false -> d_orient d' = d_orient d).
Proof.
  intros t ss p p' H. rewrite reset_all_spec in H.
  destruct (has SPos ss && conflict_spec t p); [discriminate|]. inversion H. subst p'. clear H.
  split; [unfold upd_dyn; apply map_length|].
  intros i st d Hn. exists (expected_dyn ss st d). split.
  - unfold upd_dyn. apply (map_nth_error (fun s => (fst s, expected_dyn ss (fst s) (snd s))) i p Hn).
  - unfold expected_dyn. cbn.
    destruct (has SPos ss), (has SHealth ss), (has SAmmo ss), (has SOrient ss);
      repeat split; intros; try discriminate; try reflexivity;
      match goal with
      | E : t_iammo st = Some _ |- _ => rewrite E; reflexivity
      | E : t_iorient st = Some _ |- _ => rewrite E; reflexivity
      | _ => idtac
      end.
Qed.

(* ================= rewards: read-and-reset over every interleaving ============================== *)
Lemma upd_nth_nth {T} : forall (l : list T) i f j,
    nth_error (upd_nth l i f) j =
    if Nat.eqb i j then option_map f (nth_error l j) else nth_error l j.
Proof.
  induction l as [|x r IH]; intros i f j; cbn.
  - destruct j; destruct (Nat.eqb i _); reflexivity.
  - destruct i, j; cbn; try reflexivity. apply IH.
Qed.

Lemma is_learner_act : forall p a i, is_learner (apply_act_pop p a) i = is_learner p i.
Proof.
  intros p a i. unfold is_learner, apply_act_pop. rewrite upd_nth_nth.
  destruct (Nat.eqb (ac_i a) i); [|reflexivity].
  destruct (nth_error p i); reflexivity.
Qed.

Lemma apply_act_statics : forall p a, map fst (apply_act_pop p a) = map fst p.
Proof.
  intros p a. unfold apply_act_pop. generalize (ac_i a). induction p as [|x r IH]; intros i; cbn.
  - reflexivity.
  - destruct i; cbn; [reflexivity|]. rewrite IH. reflexivity.
Qed.

Definition rew_ok (p : list sagent) (h : list event) (r : list (nat * Z)) : Prop :=
  forall i, am_get Nat.eqb r i = if is_learner p i then Some (accrued h i) else None.

Lemma step_fold_ok : forall acts p r h, rew_ok p h r ->
    fst (fold_left step_one acts (p, r)) = fold_left apply_act_pop acts p /\
    rew_ok (fold_left apply_act_pop acts p) (push_acts p acts h) (snd (fold_left step_one acts (p, r))).
Proof.
  induction acts as [|a rest IH]; intros p r h H; cbn [fold_left push_acts].
  - split; [reflexivity|exact H].
  - cbn [step_one]. apply IH. intros i. rewrite is_learner_act.
    destruct (is_learner p (ac_i a)) eqn:L.
    + destruct (Nat.eq_dec i (ac_i a)) as [E|E].
      * subst i. rewrite (am_get_set_same Nat.eqb nat_eqb_ok). rewrite L.
        rewrite (H (ac_i a)), L. cbn. rewrite Nat.eqb_refl. reflexivity.
      * rewrite (am_get_set_other Nat.eqb nat_eqb_ok); [|exact E]. rewrite H.
        cbn. replace (Nat.eqb (ac_i a) i) with false; [reflexivity|].
        symmetry. apply Nat.eqb_neq. intros E'. apply E. symmetry. exact E'.
    + apply H.
Qed.

Lemma was_reset_push : forall acts p h, was_reset (push_acts p acts h) = was_reset h.
Proof.
  induction acts as [|a r IH]; intros p h; cbn [push_acts]; [reflexivity|].
  rewrite IH. destruct (is_learner p (ac_i a)); reflexivity.
Qed.

(* indices of the learning agents *)
Definition li (n : nat) (p : list sagent) : list nat :=
  map fst (filter (fun ia => t_learn (fst (snd ia))) (combine (seq n (length p)) p)).

Lemma li_statics : forall p p' n, map fst p' = map fst p -> li n p' = li n p.
Proof.
  induction p as [|s r IH]; intros [|s' r'] n H; cbn in H; try discriminate; [reflexivity|].
  injection H as H1 H2. unfold li in *. cbn. rewrite H1.
  destruct (t_learn (fst s)); cbn; rewrite (IH r' (S n) H2); reflexivity.
Qed.

Lemma li_cons : forall s r n,
    li n (s :: r) = if t_learn (fst s) then n :: li (S n) r else li (S n) r.
Proof. intros s r n. unfold li. cbn. destruct (t_learn (fst s)); reflexivity. Qed.

Lemma li_mem : forall p n i,
    existsb (Nat.eqb i) (li n p) =
    (Nat.leb n i && match nth_error p (i - n) with Some s => t_learn (fst s) | None => false end).
Proof.
  induction p as [|s r IH]; intros n i.
  - unfold li. cbn. destruct (i - n)%nat; rewrite andb_false_r; reflexivity.
  - rewrite li_cons.
    destruct (Nat.eq_dec i n) as [E|E].
    + subst i. rewrite Nat.sub_diag, Nat.leb_refl. cbn [nth_error andb].
      assert (Hf : Nat.leb (S n) n = false) by (apply Nat.leb_gt; lia).
      destruct (t_learn (fst s)) eqn:L; cbn [existsb].
      * rewrite Nat.eqb_refl. reflexivity.
      * rewrite IH, Hf. reflexivity.
    + assert (En : Nat.eqb i n = false) by (apply Nat.eqb_neq; exact E).
      assert (Hx : existsb (Nat.eqb i) (if t_learn (fst s) then n :: li (S n) r else li (S n) r)
                   = existsb (Nat.eqb i) (li (S n) r)).
      { destruct (t_learn (fst s)); cbn [existsb]; [rewrite En; reflexivity|reflexivity]. }
      rewrite Hx, IH. clear Hx IH.
      destruct (Nat.leb_spec n i) as [Hle|Hgt].
      * assert (Ht : Nat.leb (S n) i = true) by (apply Nat.leb_le; lia). rewrite Ht.
        replace (i - n)%nat with (S (i - S n)) by lia. reflexivity.
      * assert (Ht : Nat.leb (S n) i = false) by (apply Nat.leb_gt; lia). rewrite Ht. reflexivity.
Qed.

Lemma learn_indices_mem : forall p i, existsb (Nat.eqb i) (learn_indices p) = is_learner p i.
Proof.
  intros p i. change (learn_indices p) with (li 0 p). rewrite li_mem. cbn.
  rewrite Nat.sub_0_r. reflexivity.
Qed.

Lemma learn_indices_statics : forall p p', map fst p' = map fst p ->
    learn_indices p' = learn_indices p.
Proof. intros p p' H. apply (li_statics p p' 0 H). Qed.

Lemma am_get_zero : forall l i,
    am_get Nat.eqb (map (fun j => (j, 0)) l) i = if existsb (Nat.eqb i) l then Some 0 else None.
Proof.
  induction l as [|j r IH]; intros i; cbn; [reflexivity|].
  destruct (Nat.eqb i j); [reflexivity|apply IH].
Qed.

Lemma is_learner_statics : forall p p' i, map fst p' = map fst p -> is_learner p' i = is_learner p i.
Proof.
  intros p p' i H. rewrite <- !learn_indices_mem. rewrite (learn_indices_statics p p' H). reflexivity.
Qed.

Lemma zero_rewards_ok : forall p h, rew_ok p (EReset :: h) (zero_rewards p).
Proof.
  intros p h i. unfold zero_rewards. rewrite am_get_zero, learn_indices_mem.
  destruct (is_learner p i); reflexivity.
Qed.

(* ================= the run: model = specification ============================================== *)
Definition Inv (m : smart) (p : list sagent) (h : list event) : Prop :=
  m_pop m = p /\
  match m_rew m with
  | None => was_reset h = false
  | Some r => was_reset h = true /\ rew_ok p h r
  end.

Definition clause25 (c : cfg) (o : op) (out : sx) : bool :=
  match o with
  | OObs _ oo => c_has_obs c && distinct_keys oo &&
                 negb (sx_eqb out (L [A 5; enc_obsdict (concat oo)])) &&
                 negb (sx_eqb out (sx_errc 5))
  | _ => false
  end.

Lemma existsb_is_true_sp : forall (f g : dcomp -> option bool) ds,
    (forall d, f d = g d) ->
    existsb is_true (map g ds) = existsb (fun d => is_true (f d)) ds.
Proof.
  intros f g ds H. rewrite existsb_map'. apply existsb_ext'. intros d. rewrite H. reflexivity.
Qed.

Lemma forallb_is_some_defined : forall (f g : dcomp -> option bool) ds,
    (forall d, f d = g d) ->
    forallb is_some (map g ds) = true -> forall d, In d ds -> f d <> None.
Proof.
  intros f g ds H Hf d Hd. rewrite forallb_map' in Hf. rewrite forallb_forall in Hf.
  specialize (Hf d Hd). rewrite H. destruct (g d); [discriminate|discriminate].
Qed.

Lemma do_op_ok : forall c m p h o, Inv m p h ->
    match spec_op c p h o with
    | (e, p', h', go) =>
        match e with Some x => x = snd (do_op c m o) | None => True end /\
        clause25 c o (snd (do_op c m o)) = false /\
        Inv (fst (do_op c m o)) p' h'
    end.
Proof.
  intros c m p h o [Hp Hr]. destruct o as [|acts|i|i| |i outs]; cbn [spec_op do_op clause25].
  - (* reset *)
    destruct (c_states c) as [ss|].
    + rewrite Hp, reset_all_spec.
      destruct (has SPos ss && conflict_spec (c_table c) p); cbn [fst snd].
      * split; [reflexivity|]. split; [reflexivity|]. split; assumption.
      * split; [|split; [reflexivity|]].
        -- unfold enc_rewards, zero_rewards. rewrite map_map. cbn [fst snd].
           rewrite (learn_indices_statics p _ (upd_dyn_statics _ p)). reflexivity.
        -- split; [reflexivity|]. cbn [m_rew]. split; [reflexivity|].
           apply zero_rewards_ok.
    + cbn [fst snd]. split; [reflexivity|]. split; [reflexivity|]. split; assumption.
  - (* step *)
    destruct (m_rew m) as [r|] eqn:E.
    + destruct Hr as [Hw Hr]. rewrite Hw.
      destruct (fold_left step_one acts (m_pop m, r)) as [p' r'] eqn:F. cbn [fst snd].
      rewrite Hp in F. destruct (step_fold_ok acts p r h Hr) as [F1 F2]. rewrite F in F1, F2.
      cbn [fst snd] in F1, F2.
      split; [reflexivity|]. split; [reflexivity|]. split; [exact F1|].
      cbn [m_rew]. split; [rewrite was_reset_push; exact Hw|exact F2].
    + rewrite Hr. cbn [fst snd]. split; [reflexivity|]. split; [reflexivity|].
      split; [exact Hp|]. rewrite E. exact Hr.
  - (* reward *)
    destruct (m_rew m) as [r|] eqn:E.
    + destruct Hr as [Hw Hr]. rewrite Hw. cbn [negb]. rewrite (Hr i).
      destruct (is_learner p i) eqn:L; cbn [negb fst snd].
      * split; [reflexivity|]. split; [reflexivity|]. split; [exact Hp|].
        cbn [m_rew]. split; [exact Hw|].
        intros j. destruct (Nat.eq_dec j i) as [Ej|Ej].
        -- subst j. rewrite (am_get_set_same Nat.eqb nat_eqb_ok), L. cbn.
           rewrite Nat.eqb_refl. reflexivity.
        -- rewrite (am_get_set_other Nat.eqb nat_eqb_ok); [|exact Ej]. rewrite Hr. cbn.
           replace (Nat.eqb i j) with false; [reflexivity|].
           symmetry. apply Nat.eqb_neq. intros E'. apply Ej. symmetry. exact E'.
      * split; [reflexivity|]. split; [reflexivity|]. split; [exact Hp|].
        rewrite E. split; assumption.
    + rewrite Hr. cbn [negb fst snd]. split; [reflexivity|]. split; [reflexivity|].
      split; [exact Hp|]. rewrite E. exact Hr.
  - (* done *)
    destruct (c_dones c) as [ds|]; cbn [fst snd].
    + rewrite Hp. destruct (nth_error p i) eqn:N; cbn [fst snd].
      * destruct (forallb is_some (map (fun d => sp_done (to_pop p) d i) ds)) eqn:F; cbn [fst snd].
        -- split; [|split; [reflexivity|split; assumption]].
           unfold smart_get_done.
           rewrite (any_lazy_defined (fun d => get_done (to_pop p) d i) ds).
           ++ rewrite (existsb_is_true_sp (fun d => get_done (to_pop p) d i)
                         (fun d => sp_done (to_pop p) d i));
                [reflexivity|intros d; apply get_done_sp].
           ++ apply (forallb_is_some_defined _ (fun d => sp_done (to_pop p) d i)); [|exact F].
              intros d. apply get_done_sp.
        -- split; [exact I|]. split; [reflexivity|]. split; assumption.
      * split; [reflexivity|]. split; [reflexivity|]. split; assumption.
    + split; [reflexivity|]. split; [reflexivity|]. split; assumption.
  - (* all done *)
    destruct (c_dones c) as [ds|]; cbn [fst snd].
    + rewrite Hp.
      destruct (forallb is_some (map (fun d => sp_all_done (to_pop p) d) ds)) eqn:F; cbn [fst snd].
      * split; [|split; [reflexivity|split; assumption]].
        unfold smart_get_all_done.
        rewrite (any_lazy_defined (fun d => get_all_done (to_pop p) d) ds).
        -- rewrite (existsb_is_true_sp (fun d => get_all_done (to_pop p) d)
                      (fun d => sp_all_done (to_pop p) d));
             [reflexivity|intros d; apply get_all_done_sp].
        -- apply (forallb_is_some_defined _ (fun d => sp_all_done (to_pop p) d)); [|exact F].
           intros d. apply get_all_done_sp.
      * split; [exact I|]. split; [reflexivity|]. split; assumption.
    + split; [reflexivity|]. split; [reflexivity|]. split; assumption.
  - (* observation *)
    destruct (c_has_obs c); cbn [fst snd andb].
    + rewrite Hp. destruct (nth_error p i); cbn [fst snd].
      * split; [rewrite merge_obs_spec; reflexivity|]. split; [|split; assumption].
        destruct (distinct_keys outs) eqn:D; [|reflexivity].
        rewrite (merge_obs_distinct outs D), sx_eqb_refl. reflexivity.
      * split; [reflexivity|]. split; [|split; assumption].
        rewrite sx_eqb_refl. cbn. rewrite andb_false_r. reflexivity.
    + split; [reflexivity|]. split; [reflexivity|]. split; assumption.
Qed.

Lemma chk_ops_model : forall ops c m p h, Inv m p h -> chk_ops c p h ops (run_ops c m ops) = 1.
Proof.
  induction ops as [|o r IH]; intros c m p h HI; cbn [run_ops chk_ops]; [reflexivity|].
  pose proof (do_op_ok c m p h o HI) as H.
  destruct (do_op c m o) as [m' out] eqn:D. cbn [fst snd] in H.
  destruct (spec_op c p h o) as [[[e p'] h'] go] eqn:S.
  destruct H as [H1 [H2 H3]].
  replace (match e with Some x => negb (sx_eqb x out) | None => false end) with false.
  2:{ destruct e as [x|]; [|reflexivity]. subst x. rewrite sx_eqb_refl. reflexivity. }
  unfold clause25 in H2.
  replace (match o with
           | OObs _ oo => c_has_obs c && distinct_keys oo &&
                          negb (sx_eqb out (L [A 5; enc_obsdict (concat oo)])) &&
                          negb (sx_eqb out (sx_errc 5))
           | _ => false end) with false.
  destruct go; [|reflexivity]. apply IH. exact H3.
Qed.

(* ================= registry: name -> class as a finite map ===================================== *)
Lemma am_get_diag : forall l n,
    am_get Z.eqb (map (fun c => (c, c)) l) n = if memZ n l then Some n else None.
Proof.
  induction l as [|c r IH]; intros n; cbn; [reflexivity|].
  destruct (n =? c) eqn:E; cbn.
  - apply Z.eqb_eq in E. subst. reflexivity.
  - apply IH.
Qed.

Lemma registry_lists : forall custom,
    r_done (the_registry custom) = map (fun c => (c, c)) (if custom then [0;1;2;3;4;5] else [0;1;2;3;4]) /\
    r_state (the_registry custom) = map (fun c => (c, c)) [10;11;12;13] /\
    r_obs (the_registry custom) =
      map (fun c => (c, c)) (if custom then [20;21;22;23;24;25] else [20;21;22;23;24]).
Proof. intros [|]; repeat split; reflexivity. Qed.

Ltac zcase n v := destruct (Z.eqb_spec n v); [subst; reflexivity|].

Lemma resolve_spec : forall custom k x,
    resolve (the_registry custom) k x = spec_resolve custom k x.
Proof.
  intros custom k x. destruct x as [n|c]; [|reflexivity].
  destruct (registry_lists custom) as [Hd [Hs Ho]].
  unfold resolve, spec_resolve, reg_of.
  destruct k; [rewrite Hd|rewrite Hs|rewrite Ho]; rewrite am_get_diag; unfold class_kind.
  - destruct custom; unfold memZ; cbn [existsb].
    + zcase n 0. zcase n 1. zcase n 2. zcase n 3. zcase n 4. zcase n 5. cbn [orb].
      destruct (Z.leb_spec 0 n), (Z.leb_spec n 5); try lia; cbn [andb];
        destruct ((10 <=? n) && (n <=? 13)); try reflexivity;
        destruct ((20 <=? n) && (n <=? 25)); reflexivity.
    + zcase n 0. zcase n 1. zcase n 2. zcase n 3. zcase n 4. zcase n 5. cbn [orb].
      destruct (Z.leb_spec 0 n), (Z.leb_spec n 5); try lia; cbn [andb];
        destruct ((10 <=? n) && (n <=? 13)); try reflexivity;
        destruct ((20 <=? n) && (n <=? 25)); reflexivity.
  - unfold memZ; cbn [existsb].
    destruct (Z.eqb_spec n 10); [subst; destruct custom; reflexivity|].
    destruct (Z.eqb_spec n 11); [subst; destruct custom; reflexivity|].
    destruct (Z.eqb_spec n 12); [subst; destruct custom; reflexivity|].
    destruct (Z.eqb_spec n 13); [subst; destruct custom; reflexivity|].
    cbn [orb].
    destruct ((0 <=? n) && (n <=? 5)); try reflexivity.
    destruct (Z.leb_spec 10 n), (Z.leb_spec n 13); try lia; cbn [andb];
      destruct ((20 <=? n) && (n <=? 25)); reflexivity.
  - destruct custom; unfold memZ; cbn [existsb].
    + zcase n 20. zcase n 21. zcase n 22. zcase n 23. zcase n 24. zcase n 25. cbn [orb].
      destruct ((0 <=? n) && (n <=? 5)); try reflexivity.
      destruct ((10 <=? n) && (n <=? 13)); try reflexivity.
      destruct (Z.leb_spec 20 n), (Z.leb_spec n 25); try lia; reflexivity.
    + zcase n 20. zcase n 21. zcase n 22. zcase n 23. zcase n 24. zcase n 25. cbn [orb].
      destruct ((0 <=? n) && (n <=? 5)); try reflexivity.
      destruct ((10 <=? n) && (n <=? 13)); try reflexivity.
      destruct (Z.leb_spec 20 n), (Z.leb_spec n 25); try lia; reflexivity.
Qed.

Lemma resolve_all_ext : forall (f g : ckind -> cref -> res Z) k xs,
    (forall k x, f k x = g k x) -> resolve_all f k xs = resolve_all g k xs.
Proof.
  intros f g k xs H. induction xs as [|x r IH]; cbn; [reflexivity|]. rewrite H, IH. reflexivity.
Qed.

Lemma init_spec : forall i, init_of i = spec_init_of i.
Proof.
  intros i. unfold init_of, spec_init_of, smart_init, smart_init_with.
  rewrite !(resolve_all_ext (resolve (the_registry (i_custom i))) (spec_resolve (i_custom i)));
    try (intros; apply resolve_spec).
  reflexivity.
Qed.

Lemma chk_C17_smart_model_lemma : forall i, chk_C17_smart i (smart_behaviour i) = 1.
Proof.
  intros i. unfold chk_C17_smart, smart_behaviour. rewrite init_spec.
  destruct (spec_init_of i) as [c|e].
  - apply chk_ops_model. split; reflexivity.
  - rewrite sx_eqb_refl. reflexivity.
Qed.

(* ---- C17_reward_once: what a read hands out ----------------------------------------------------- *)
Lemma model_state_inv : forall ops c m p h, Inv m p h ->
    Inv (model_state c m ops) (fst (spec_state c p h ops)) (snd (spec_state c p h ops)).
Proof.
  induction ops as [|o r IH]; intros c m p h HI; cbn [model_state fold_left spec_state fst snd];
    [exact HI|].
  pose proof (do_op_ok c m p h o HI) as H.
  destruct (spec_op c p h o) as [[[e p'] h'] go]. destruct H as [_ [_ H3]].
  apply IH. exact H3.
Qed.

Lemma reward_read : forall c m p h i, Inv m p h -> was_reset h = true -> is_learner p i = true ->
    snd (do_op c m (OReward i)) = L [A 2; A (accrued h i)] /\
    snd (do_op c (fst (do_op c m (OReward i))) (OReward i)) = L [A 2; A 0].
Proof.
  intros c m p h i HI Hw Hl.
  pose proof (do_op_ok c m p h (OReward i) HI) as H. cbn [spec_op] in H.
  rewrite Hw, Hl in H. cbn [negb] in H. destruct H as [H1 [_ H3]].
  split; [symmetry; exact H1|].
  pose proof (do_op_ok c _ p (ERead i :: h) (OReward i) H3) as H'. cbn [spec_op] in H'.
  replace (was_reset (ERead i :: h)) with true in H' by (symmetry; exact Hw).
  rewrite Hl in H'. cbn [negb accrued] in H'. rewrite Nat.eqb_refl in H'.
  destruct H' as [H1' _]. symmetry. exact H1'.
Qed.

Lemma reward_once_lemma : forall c pop ops i,
    let m := model_state c (mkSm pop None) ops in
    let p := fst (spec_state c pop [] ops) in
    let h := snd (spec_state c pop [] ops) in
    was_reset h = true -> is_learner p i = true ->
    snd (do_op c m (OReward i)) = L [A 2; A (accrued h i)] /\
    snd (do_op c (fst (do_op c m (OReward i))) (OReward i)) = L [A 2; A 0].
Proof.
  intros c pop ops i m p h. apply reward_read.
  apply model_state_inv. split; reflexivity.
Qed.
