(* Proofs about Grid/Observe.v (C09): the list operations standing for numpy slices, the local
   window of create_grid_and_mask, the three grid views cell by cell against the specification
   computed from the agents' positions, the re-embedding of the absolute view, and the theorem that
   the checker accepts every behaviour of the model. *)
From Coq Require Import ZArith List Bool Arith Lia Permutation.
From Abm Require Import Base.Sx Grid.Overlap Grid.Grid Grid.Move Grid.Attack Grid.Vis Grid.Observe
  Proofs.Grid_proofs Proofs.Move_proofs Proofs.Attack_proofs Proofs.Overlap_proofs.
Import ListNotations.
Open Scope Z_scope.

(* ---- nth_error of the list operations ----------------------------------------------------------- *)
Lemma nth_error_firstn' {X} n (l : list X) k :
  nth_error (firstn n l) k = if (k <? n)%nat then nth_error l k else None.
Proof.
  revert l k; induction n as [|n IH]; intros l k.
  - cbn. destruct k; reflexivity.
  - destruct l as [|x l].
    + cbn [firstn]. replace (nth_error (@nil X) k) with (@None X) by (destruct k; reflexivity).
      destruct (k <? S n)%nat; reflexivity.
    + destruct k as [|k]; [reflexivity|]. cbn [firstn nth_error]. rewrite IH. reflexivity.
Qed.

Lemma nth_error_skipn' {X} n (l : list X) k : nth_error (skipn n l) k = nth_error l (n + k).
Proof.
  revert l; induction n as [|n IH]; intros l; [reflexivity|].
  destruct l as [|x l]; [cbn; destruct k; reflexivity|]. cbn. apply IH.
Qed.

Lemma nth_error_repeat' {X} (x : X) n k :
  nth_error (repeat x n) k = if (k <? n)%nat then Some x else None.
Proof.
  revert k; induction n as [|n IH]; intros k; [destruct k; reflexivity|].
  destruct k as [|k]; [reflexivity|]. cbn [repeat nth_error]. rewrite IH. reflexivity.
Qed.

Lemma nth_error_zrange_from lo n k :
  nth_error (zrange_from lo n) k = if (k <? n)%nat then Some (lo + Z.of_nat k) else None.
Proof.
  revert lo k; induction n as [|n IH]; intros lo k; [destruct k; reflexivity|].
  destruct k as [|k]; [cbn; f_equal; lia|]. cbn [zrange_from nth_error]. rewrite IH.
  change (S k <? S n)%nat with (k <? n)%nat. destruct (k <? n)%nat; [f_equal; lia|reflexivity].
Qed.

Lemma nth_error_combine {X Y} (l : list X) (m : list Y) k :
  nth_error (combine l m) k =
  match nth_error l k, nth_error m k with Some a, Some b => Some (a, b) | _, _ => None end.
Proof.
  revert m k; induction l as [|a l IH]; intros m k; [destruct k; reflexivity|].
  destruct m as [|b m]; [cbn; destruct k; cbn; [reflexivity|destruct (nth_error l k); reflexivity]|].
  destruct k as [|k]; [reflexivity|]. cbn. apply IH.
Qed.

Lemma firstn_In' {X} n (l : list X) x : In x (firstn n l) -> In x l.
Proof.
  revert l; induction n as [|n IH]; intros l H; [destruct H|].
  destruct l as [|y l]; [destruct H|]. destruct H as [H|H]; [left; exact H|right; apply IH, H].
Qed.

Lemma skipn_In' {X} n (l : list X) x : In x (skipn n l) -> In x l.
Proof.
  revert l; induction n as [|n IH]; intros l H; [exact H|].
  destruct l as [|y l]; [destruct H|]. right. apply IH, H.
Qed.

Lemma slice_In {X} (l : list X) lo hi x : In x (slice l lo hi) -> In x l.
Proof. intros H. unfold slice in H. apply firstn_In' in H. apply (skipn_In' _ _ _ H). Qed.

(* ---- get ------------------------------------------------------------------------------------------ *)
Lemma get_neg {X} (l : list X) k : k < 0 -> get l k = None.
Proof. intros H. unfold get. apply Z.ltb_lt in H. rewrite H. reflexivity. Qed.

Lemma get_nonneg {X} (l : list X) k : 0 <= k -> get l k = nth_error l (Z.to_nat k).
Proof. intros H. unfold get. destruct (k <? 0) eqn:E; [apply Z.ltb_lt in E; lia|reflexivity]. Qed.

Lemma get_Some {X} (l : list X) k x : get l k = Some x -> 0 <= k < Z.of_nat (length l).
Proof.
  unfold get. destruct (k <? 0) eqn:E; [discriminate|]. apply Z.ltb_ge in E. intros H.
  assert (Hl : (Z.to_nat k < length l)%nat) by (apply nth_error_Some; congruence). lia.
Qed.

Lemma get_in {X} (l : list X) k : 0 <= k < Z.of_nat (length l) -> exists x, get l k = Some x.
Proof.
  intros H. rewrite get_nonneg by lia. destruct (nth_error l (Z.to_nat k)) eqn:E; [eauto|].
  apply nth_error_None in E. lia.
Qed.

Lemma get_In {X} (l : list X) k x : get l k = Some x -> In x l.
Proof.
  unfold get. destruct (k <? 0); [discriminate|]. apply nth_error_In.
Qed.

Lemma get_cons {X} (x : X) l k : 0 <= k -> get (x :: l) k = if k =? 0 then Some x else get l (k - 1).
Proof.
  intros H. destruct (k =? 0) eqn:E.
  - apply Z.eqb_eq in E. subst. reflexivity.
  - apply Z.eqb_neq in E. rewrite !get_nonneg by lia.
    replace (Z.to_nat k) with (S (Z.to_nat (k - 1))) by lia. reflexivity.
Qed.

Lemma get_map {X Y} (f : X -> Y) l k : get (map f l) k = option_map f (get l k).
Proof. unfold get. destruct (k <? 0); [reflexivity|]. apply nth_error_map. Qed.

Lemma get_repeat {X} (x : X) n k :
  get (repeat x n) k = if (0 <=? k) && (k <? Z.of_nat n) then Some x else None.
Proof.
  destruct (0 <=? k) eqn:E0; cbn [andb].
  - apply Z.leb_le in E0. rewrite get_nonneg, nth_error_repeat' by lia.
    destruct (Z.to_nat k <? n)%nat eqn:E1, (k <? Z.of_nat n) eqn:E2; try reflexivity.
    + apply Nat.ltb_lt in E1. apply Z.ltb_ge in E2. lia.
    + apply Nat.ltb_ge in E1. apply Z.ltb_lt in E2. lia.
  - apply Z.leb_gt in E0. apply get_neg, E0.
Qed.

Lemma get_zrange lo hi k :
  get (zrange lo hi) k = if (0 <=? k) && (k <? hi - lo) then Some (lo + k) else None.
Proof.
  destruct (0 <=? k) eqn:E0; cbn [andb].
  - apply Z.leb_le in E0. unfold zrange. rewrite get_nonneg, nth_error_zrange_from by lia.
    destruct (Z.to_nat k <? Z.to_nat (hi - lo))%nat eqn:E1, (k <? hi - lo) eqn:E2; try reflexivity.
    + f_equal. lia.
    + apply Nat.ltb_lt in E1. apply Z.ltb_ge in E2. lia.
    + apply Nat.ltb_ge in E1. apply Z.ltb_lt in E2. lia.
  - apply Z.leb_gt in E0. apply get_neg, E0.
Qed.

Lemma zrange_length lo hi : Z.of_nat (length (zrange lo hi)) = Z.max 0 (hi - lo).
Proof.
  unfold zrange. assert (H : forall n l, length (zrange_from l n) = n).
  { induction n as [|n IH]; intros l; cbn; [reflexivity|rewrite IH; reflexivity]. }
  rewrite H. lia.
Qed.

Lemma get_slice {X} (l : list X) lo hi k : 0 <= lo ->
  get (slice l lo hi) k = if (0 <=? k) && (k <? hi - lo) then get l (lo + k) else None.
Proof.
  intros Hlo. destruct (0 <=? k) eqn:E0; cbn [andb].
  - apply Z.leb_le in E0. unfold slice.
    rewrite (get_nonneg _ k), (get_nonneg _ (lo + k)), nth_error_firstn', nth_error_skipn' by lia.
    destruct (Z.to_nat k <? Z.to_nat (hi - lo))%nat eqn:E1, (k <? hi - lo) eqn:E2; try reflexivity.
    + f_equal. lia.
    + apply Nat.ltb_lt in E1. apply Z.ltb_ge in E2. lia.
    + apply Nat.ltb_ge in E1. apply Z.ltb_lt in E2. lia.
  - apply Z.leb_gt in E0. apply get_neg, E0.
Qed.

Lemma slice_length {X} (l : list X) lo hi : 0 <= lo <= hi -> hi <= Z.of_nat (length l) ->
  Z.of_nat (length (slice l lo hi)) = hi - lo.
Proof. intros H1 H2. unfold slice. rewrite firstn_length, skipn_length. lia. Qed.

Lemma get_slice_set {X} (dst : list X) lo hi src k :
  0 <= lo <= hi -> hi <= Z.of_nat (length dst) -> Z.of_nat (length src) = hi - lo ->
  get (slice_set dst lo hi src) k = if (lo <=? k) && (k <? hi) then get src (k - lo) else get dst k.
Proof.
  intros H1 H2 H3. destruct (Z_lt_dec k 0) as [N|N].
  - rewrite !get_neg by lia. destruct ((lo <=? k) && (k <? hi)) eqn:E; [|reflexivity].
    apply andb_true_iff in E as [E _]. apply Z.leb_le in E. lia.
  - unfold slice_set. rewrite (get_nonneg _ k) by lia.
    assert (Lf : length (firstn (Z.to_nat lo) dst) = Z.to_nat lo) by (rewrite firstn_length; lia).
    destruct (lo <=? k) eqn:E1; cbn [andb].
    + apply Z.leb_le in E1. rewrite nth_error_app2 by lia. rewrite Lf.
      destruct (k <? hi) eqn:E2.
      * apply Z.ltb_lt in E2. rewrite nth_error_app1 by lia. rewrite get_nonneg by lia.
        f_equal. lia.
      * apply Z.ltb_ge in E2. rewrite nth_error_app2 by lia. rewrite nth_error_skipn', get_nonneg by lia.
        f_equal. lia.
    + apply Z.leb_gt in E1. rewrite nth_error_app1 by lia. rewrite nth_error_firstn', get_nonneg by lia.
      destruct (Z.to_nat k <? Z.to_nat lo)%nat eqn:E; [reflexivity|]. apply Nat.ltb_ge in E. lia.
Qed.

Lemma slice_set_length {X} (dst : list X) lo hi src :
  0 <= lo <= hi -> hi <= Z.of_nat (length dst) -> Z.of_nat (length src) = hi - lo ->
  length (slice_set dst lo hi src) = length dst.
Proof.
  intros H1 H2 H3. unfold slice_set. rewrite !app_length, firstn_length, skipn_length. lia.
Qed.

Lemma get_combine {X Y} (l : list X) (m : list Y) k :
  get (combine l m) k =
  match get l k, get m k with Some a, Some b => Some (a, b) | _, _ => None end.
Proof. unfold get. destruct (k <? 0); [reflexivity|]. apply nth_error_combine. Qed.

(* ---- shapes ----------------------------------------------------------------------------------------- *)
Definition shape {X} (m : list (list X)) (h w : Z) : Prop :=
  Z.of_nat (length m) = h /\ Forall (fun row => Z.of_nat (length row) = w) m.

Lemma shape_get {X} (m : list (list X)) h w i row : shape m h w -> get m i = Some row ->
  0 <= i < h /\ Z.of_nat (length row) = w.
Proof.
  intros [H1 H2] H. split; [rewrite <- H1; apply (get_Some _ _ _ H)|].
  rewrite Forall_forall in H2. apply H2, (get_In _ _ _ H).
Qed.

Lemma shape_get2 {X} (m : list (list X)) h w i j : shape m h w -> 0 <= i < h -> 0 <= j < w ->
  exists x, get2 m i j = Some x.
Proof.
  intros Hs Hi Hj. destruct (get_in m i) as (row & Hr); [destruct Hs; lia|].
  destruct (shape_get _ _ _ _ _ Hs Hr) as [_ Hl].
  destruct (get_in row j) as (x & Hx); [lia|]. exists x. unfold get2. rewrite Hr. exact Hx.
Qed.

Lemma get2_Some {X} (m : list (list X)) h w i j x : shape m h w -> get2 m i j = Some x ->
  0 <= i < h /\ 0 <= j < w.
Proof.
  intros Hs H. unfold get2 in H. destruct (get m i) as [row|] eqn:Hr; [|discriminate].
  destruct (shape_get _ _ _ _ _ Hs Hr) as [Hi Hl]. split; [exact Hi|].
  rewrite <- Hl. apply (get_Some _ _ _ H).
Qed.

Lemma shape_full {X} h w (x : X) : 0 <= h -> 0 <= w -> shape (full h w x) h w.
Proof.
  intros Hh Hw. unfold full. split; [rewrite repeat_length; lia|].
  apply Forall_forall. intros row Hr. apply repeat_spec in Hr. subst. rewrite repeat_length. lia.
Qed.

Lemma get2_full {X} h w (x : X) i j : 0 <= i < h -> 0 <= j < w -> get2 (full h w x) i j = Some x.
Proof.
  intros Hi Hj. unfold get2, full. rewrite get_repeat.
  destruct ((0 <=? i) && (i <? Z.of_nat (Z.to_nat h))) eqn:E.
  - rewrite get_repeat. destruct ((0 <=? j) && (j <? Z.of_nat (Z.to_nat w))) eqn:E'; [reflexivity|].
    apply andb_false_iff in E' as [E'|E']; [apply Z.leb_gt in E'|apply Z.ltb_ge in E']; lia.
  - apply andb_false_iff in E as [E|E]; [apply Z.leb_gt in E|apply Z.ltb_ge in E]; lia.
Qed.

Lemma shape_map_map {X Y} (f : X -> Y) m h w : shape m h w -> shape (map (map f) m) h w.
Proof.
  intros [H1 H2]. split; [rewrite map_length; exact H1|].
  apply Forall_forall. intros row Hr. apply in_map_iff in Hr as (r0 & <- & Hr0).
  rewrite map_length. rewrite Forall_forall in H2. apply H2, Hr0.
Qed.

Lemma get2_map_map {X Y} (f : X -> Y) m i j : get2 (map (map f) m) i j = option_map f (get2 m i j).
Proof.
  unfold get2. rewrite get_map. destruct (get m i) as [row|]; [|reflexivity]. cbn. apply get_map.
Qed.

Lemma shape_slice2 {X} (m : list (list X)) h w r0 r1 c0 c1 : shape m h w ->
  0 <= r0 <= r1 -> r1 <= h -> 0 <= c0 <= c1 -> c1 <= w -> shape (slice2 m r0 r1 c0 c1) (r1 - r0) (c1 - c0).
Proof.
  intros [H1 H2] Hr Hr1 Hc Hc1. unfold slice2. split.
  - rewrite map_length. apply slice_length; lia.
  - apply Forall_forall. intros row Hrow. apply in_map_iff in Hrow as (r' & <- & Hr').
    assert (In r' m) by apply (slice_In _ _ _ _ Hr').
    rewrite Forall_forall in H2. apply slice_length; [lia|]. rewrite (H2 r' H). lia.
Qed.

Lemma get2_slice2 {X} (m : list (list X)) r0 r1 c0 c1 k l : 0 <= r0 -> 0 <= c0 ->
  get2 (slice2 m r0 r1 c0 c1) k l =
  if (0 <=? k) && (k <? r1 - r0) && ((0 <=? l) && (l <? c1 - c0)) then get2 m (r0 + k) (c0 + l) else None.
Proof.
  intros Hr Hc. unfold get2, slice2. rewrite get_map, get_slice by exact Hr.
  destruct ((0 <=? k) && (k <? r1 - r0)); cbn [andb option_map]; [|reflexivity].
  destruct (get m (r0 + k)) as [row|]; cbn [option_map].
  - apply get_slice, Hc.
  - destruct ((0 <=? l) && (l <? c1 - c0)); reflexivity.
Qed.

Lemma slice_set2_spec {X} (dst : list (list X)) h w r0 r1 c0 c1 src :
  shape dst h w -> shape src (r1 - r0) (c1 - c0) ->
  0 <= r0 <= r1 -> r1 <= h -> 0 <= c0 <= c1 -> c1 <= w ->
  shape (slice_set2 dst r0 r1 c0 c1 src) h w /\
  forall i j, get2 (slice_set2 dst r0 r1 c0 c1 src) i j =
    if (r0 <=? i) && (i <? r1) && ((c0 <=? j) && (j <? c1)) then get2 src (i - r0) (j - c0)
    else get2 dst i j.
Proof.
  intros Hd Hs Hr Hr1 Hc Hc1. destruct Hd as [Hd1 Hd2]. destruct Hs as [Hs1 Hs2].
  assert (Lsl : Z.of_nat (length (slice dst r0 r1)) = r1 - r0) by (apply slice_length; lia).
  set (blk := map (fun ds => slice_set (fst ds) c0 c1 (snd ds)) (combine (slice dst r0 r1) src)).
  assert (Lblk : Z.of_nat (length blk) = r1 - r0).
  { unfold blk. rewrite map_length, combine_length. lia. }
  assert (Hrow : forall row, In row (slice dst r0 r1) -> Z.of_nat (length row) = w).
  { intros row H. rewrite Forall_forall in Hd2. apply Hd2, (slice_In _ _ _ _ H). }
  split.
  - unfold slice_set2. fold blk. split.
    + rewrite slice_set_length; [exact Hd1|lia|lia|exact Lblk].
    + apply Forall_forall. intros row H. unfold slice_set in H.
      apply in_app_or in H as [H|H]; [|apply in_app_or in H as [H|H]].
      * apply firstn_In' in H. rewrite Forall_forall in Hd2. apply Hd2, H.
      * unfold blk in H. apply in_map_iff in H as ([d sr] & <- & H). cbn [fst snd].
        apply in_combine_l in H as Hl. apply in_combine_r in H as Hr'.
        rewrite Forall_forall in Hs2.
        rewrite slice_set_length; [apply Hrow, Hl|lia|rewrite (Hrow _ Hl); lia|apply Hs2, Hr'].
      * apply skipn_In' in H. rewrite Forall_forall in Hd2. apply Hd2, H.
  - intros i j. unfold get2 at 1. unfold slice_set2. fold blk.
    rewrite get_slice_set; [|lia|lia|exact Lblk].
    destruct ((r0 <=? i) && (i <? r1)) eqn:Ei; cbn [andb]; [|reflexivity].
    apply andb_true_iff in Ei as [Ei1 Ei2]. apply Z.leb_le in Ei1. apply Z.ltb_lt in Ei2.
    unfold blk. rewrite get_map, get_combine, get_slice by lia.
    replace ((0 <=? i - r0) && (i - r0 <? r1 - r0)) with true
      by (symmetry; apply andb_true_iff; split; [apply Z.leb_le|apply Z.ltb_lt]; lia).
    replace (r0 + (i - r0)) with i by lia.
    destruct (get_in dst i) as (drow & Hdrow); [lia|].
    destruct (get_in src (i - r0)) as (srow & Hsrow); [lia|].
    rewrite Hdrow, Hsrow. cbn [option_map fst snd].
    rewrite Forall_forall in Hd2, Hs2.
    rewrite get_slice_set; [|lia|rewrite (Hd2 _ (get_In _ _ _ Hdrow)); lia|apply Hs2, (get_In _ _ _ Hsrow)].
    unfold get2. rewrite Hdrow, Hsrow. reflexivity.
Qed.

(* ---- the grid as an array; the local window ----------------------------------------------------- *)
Lemma inside_iff s p :
  inside s p = true <-> 0 <= fst p < g_rows s /\ 0 <= snd p < g_cols s.
Proof.
  unfold inside. rewrite !andb_true_iff, !Z.leb_le, !Z.ltb_lt. lia.
Qed.

Lemma inside_false_iff s p :
  inside s p = false <-> ~ (0 <= fst p < g_rows s /\ 0 <= snd p < g_cols s).
Proof. rewrite <- inside_iff. destruct (inside s p); split; congruence. Qed.

Lemma shape_grid_matrix s : 0 <= g_rows s -> 0 <= g_cols s ->
  shape (grid_matrix s) (g_rows s) (g_cols s).
Proof.
  intros Hr Hc. unfold grid_matrix. split.
  - rewrite map_length, zrange_length. lia.
  - apply Forall_forall. intros row H. apply in_map_iff in H as (r & <- & _).
    rewrite map_length, zrange_length. lia.
Qed.

Lemma get2_grid_matrix s a b :
  get2 (grid_matrix s) a b = if inside s (a, b) then Some (cell_get (g_cells s) (a, b)) else None.
Proof.
  unfold get2, grid_matrix, inside. cbn [fst snd]. rewrite get_map, get_zrange, Z.sub_0_r.
  destruct (0 <=? a) eqn:A1, (a <? g_rows s) eqn:A2; cbn [andb option_map]; try reflexivity.
  rewrite get_map, get_zrange, Z.sub_0_r, !Z.add_0_l.
  destruct (0 <=? b) eqn:B1, (b <? g_cols s) eqn:B2; cbn [andb option_map]; reflexivity.
Qed.

(* what the window must hold at local index (i, j): the cell p + (i - R, j - R) *)
Definition win_at (s : gstate) (p : cell) (R i j : Z) : option (list nat) :=
  let q := (fst p + (i - R), snd p + (j - R)) in
  if inside s q then Some (cell_get (g_cells s) q) else None.

Theorem window_is_offset s p R : inside s p = true -> 0 <= R ->
  shape (local_window s p R) (2 * R + 1) (2 * R + 1) /\
  forall i j, 0 <= i < 2 * R + 1 -> 0 <= j < 2 * R + 1 ->
    get2 (local_window s p R) i j = Some (win_at s p R i j).
Proof.
  intros Hp HR. apply inside_iff in Hp as [Hr Hc]. destruct p as [r c]. cbn [fst snd] in *.
  unfold local_window, slice_bounds. cbn [fst snd r_lower r_upper c_lower c_upper].
  set (rl := Z.max 0 (r - R)). set (ru := Z.min (g_rows s - 1) (r + R) + 1).
  set (cl := Z.max 0 (c - R)). set (cu := Z.min (g_cols s - 1) (c + R) + 1).
  assert (Hsrc : shape (map (map Some) (slice2 (grid_matrix s) rl ru cl cu)) (ru - rl) (cu - cl)).
  { apply shape_map_map. apply shape_slice2 with (h := g_rows s) (w := g_cols s);
      [apply shape_grid_matrix; lia|unfold rl, ru; lia|unfold ru; lia|unfold cl, cu; lia|unfold cu; lia]. }
  replace (ru - rl) with ((ru + R - r) - (rl + R - r)) in Hsrc by lia.
  replace (cu - cl) with ((cu + R - c) - (cl + R - c)) in Hsrc by lia.
  destruct (slice_set2_spec (full (2 * R + 1) (2 * R + 1) (@None (list nat))) (2 * R + 1) (2 * R + 1)
              (rl + R - r) (ru + R - r) (cl + R - c) (cu + R - c) _
              (shape_full (2 * R + 1) (2 * R + 1) None ltac:(lia) ltac:(lia)) Hsrc) as [Hsh Hget];
    [unfold rl, ru; lia|unfold ru; lia|unfold cl, cu; lia|unfold cu; lia|].
  split; [exact Hsh|]. intros i j Hi Hj. rewrite Hget. unfold win_at. cbn [fst snd].
  destruct ((rl + R - r <=? i) && (i <? ru + R - r) && ((cl + R - c <=? j) && (j <? cu + R - c))) eqn:E.
  - apply andb_true_iff in E as [E1 E2]. apply andb_true_iff in E1 as [E1 E1'].
    apply andb_true_iff in E2 as [E2 E2']. apply Z.leb_le in E1, E2. apply Z.ltb_lt in E1', E2'.
    rewrite get2_map_map, get2_slice2 by (unfold rl, cl; lia).
    replace ((0 <=? i - (rl + R - r)) && (i - (rl + R - r) <? ru - rl) &&
             ((0 <=? j - (cl + R - c)) && (j - (cl + R - c) <? cu - cl))) with true.
    2:{ symmetry. rewrite !andb_true_iff, !Z.leb_le, !Z.ltb_lt. lia. }
    replace (rl + (i - (rl + R - r))) with (r + (i - R)) by lia.
    replace (cl + (j - (cl + R - c))) with (c + (j - R)) by lia.
    rewrite get2_grid_matrix.
    assert (Hin : inside s (r + (i - R), c + (j - R)) = true).
    { apply inside_iff. cbn [fst snd]. unfold rl, ru, cl, cu in *. lia. }
    rewrite Hin. reflexivity.
  - rewrite get2_full by lia.
    assert (Hout : inside s (r + (i - R), c + (j - R)) = false).
    { apply inside_false_iff. cbn [fst snd]. intros [A B].
      rewrite !andb_false_iff, !Z.leb_gt, !Z.ltb_ge in E. unfold rl, ru, cl, cu in *. lia. }
    rewrite Hout. reflexivity.
Qed.

(* ---- the double loops ------------------------------------------------------------------------------ *)
Lemma In_get {X} (l : list X) x : In x l -> exists k, get l k = Some x.
Proof.
  intros H. apply In_nth_error in H as (n & Hn). exists (Z.of_nat n).
  rewrite get_nonneg by lia. rewrite Nat2Z.id. exact Hn.
Qed.

Lemma get_nil {X} k : get (@nil X) k = None.
Proof. unfold get. destruct (k <? 0); [reflexivity|]. destruct (Z.to_nat k); reflexivity. Qed.

Lemma conv_row_spec {X} (f : Z -> Z -> X -> list Z -> ores Z) r row : forall c0 o out o',
  conv_row f r c0 row o = OOk out o' ->
  length out = length row /\
  forall k x, get row k = Some x ->
    exists v o1 o2, get out k = Some v /\ f r (c0 + k) x o1 = OOk v o2.
Proof.
  induction row as [|a row IH]; intros c0 o out o' H; cbn [conv_row] in H.
  - injection H as <- <-. split; [reflexivity|]. intros k x Hk. rewrite get_nil in Hk. discriminate.
  - destruct (f r c0 a o) as [v o1| |] eqn:Ef; try discriminate.
    destruct (conv_row f r (c0 + 1) row o1) as [vs o2| |] eqn:Er; try discriminate.
    injection H as <- <-. destruct (IH _ _ _ _ Er) as [Hl Hc]. split; [cbn; rewrite Hl; reflexivity|].
    intros k x Hk. pose proof (get_Some _ _ _ Hk) as [Hk0 _]. rewrite get_cons in Hk by exact Hk0. rewrite get_cons by exact Hk0.
    destruct (k =? 0) eqn:E.
    + apply Z.eqb_eq in E. subst k. injection Hk as <-. exists v, o, o1. rewrite Z.add_0_r. auto.
    + destruct (Hc _ _ Hk) as (v' & oa & ob & Hg & Hf). exists v', oa, ob. split; [exact Hg|].
      replace (c0 + k) with (c0 + 1 + (k - 1)) by lia. exact Hf.
Qed.

Lemma conv_rows_spec {X} (f : Z -> Z -> X -> list Z -> ores Z) m : forall r0 o out o',
  conv_rows f r0 m o = OOk out o' ->
  length out = length m /\
  forall i row, get m i = Some row ->
    exists orow o1 o2, get out i = Some orow /\ conv_row f (r0 + i) 0 row o1 = OOk orow o2.
Proof.
  induction m as [|a m IH]; intros r0 o out o' H; cbn [conv_rows] in H.
  - injection H as <- <-. split; [reflexivity|]. intros k x Hk. rewrite get_nil in Hk. discriminate.
  - destruct (conv_row f r0 0 a o) as [vs o1| |] eqn:Ef; try discriminate.
    destruct (conv_rows f (r0 + 1) m o1) as [vss o2| |] eqn:Er; try discriminate.
    injection H as <- <-. destruct (IH _ _ _ _ Er) as [Hl Hc]. split; [cbn; rewrite Hl; reflexivity|].
    intros k x Hk. pose proof (get_Some _ _ _ Hk) as [Hk0 _]. rewrite get_cons in Hk by exact Hk0. rewrite get_cons by exact Hk0.
    destruct (k =? 0) eqn:E.
    + apply Z.eqb_eq in E. subst k. injection Hk as <-. exists vs, o, o1. rewrite Z.add_0_r. auto.
    + destruct (Hc _ _ Hk) as (v' & oa & ob & Hg & Hf). exists v', oa, ob. split; [exact Hg|].
      replace (r0 + k) with (r0 + 1 + (k - 1)) by lia. exact Hf.
Qed.

Lemma conv_rows_cell {X} (f : Z -> Z -> X -> list Z -> ores Z) m h w o out o' :
  shape m h w -> conv_rows f 0 m o = OOk out o' ->
  shape out h w /\
  forall i j x, get2 m i j = Some x ->
    exists v o1 o2, get2 out i j = Some v /\ f i j x o1 = OOk v o2.
Proof.
  intros [Hs1 Hs2] H. destruct (conv_rows_spec _ _ _ _ _ _ H) as [Hl Hc]. split.
  - split; [rewrite Hl; exact Hs1|]. apply Forall_forall. intros orow Ho.
    apply In_get in Ho as (k & Hk). destruct (get_in m k) as (row & Hrow).
    { rewrite <- Hl. apply (get_Some _ _ _ Hk). }
    destruct (Hc _ _ Hrow) as (orow' & o1 & o2 & Hg & Hr). rewrite Hk in Hg. injection Hg as <-.
    destruct (conv_row_spec _ _ _ _ _ _ _ Hr) as [Hlr _]. rewrite Hlr.
    rewrite Forall_forall in Hs2. apply Hs2, (get_In _ _ _ Hrow).
  - intros i j x Hx. unfold get2 in Hx. destruct (get m i) as [row|] eqn:Hrow; [|discriminate].
    destruct (Hc _ _ Hrow) as (orow & o1 & o2 & Hg & Hr).
    destruct (conv_row_spec _ _ _ _ _ _ _ Hr) as [_ Hcc].
    destruct (Hcc _ _ Hx) as (v & oa & ob & Hgv & Hf). exists v, oa, ob.
    unfold get2. rewrite Hg. split; [exact Hgv|exact Hf].
Qed.

Lemma mapi_row_spec {X Y} (f : Z -> Z -> X -> Y) r row : forall c0,
  length (mapi_row f r c0 row) = length row /\
  forall k x, get row k = Some x -> get (mapi_row f r c0 row) k = Some (f r (c0 + k) x).
Proof.
  induction row as [|a row IH]; intros c0; cbn [mapi_row].
  - split; [reflexivity|]. intros k x Hk. rewrite get_nil in Hk. discriminate.
  - destruct (IH (c0 + 1)) as [Hl Hc]. split; [cbn; rewrite Hl; reflexivity|].
    intros k x Hk. pose proof (get_Some _ _ _ Hk) as [Hk0 _]. rewrite get_cons in Hk by exact Hk0. rewrite get_cons by exact Hk0.
    destruct (k =? 0) eqn:E.
    + apply Z.eqb_eq in E. subst k. injection Hk as <-. rewrite Z.add_0_r. reflexivity.
    + rewrite (Hc _ _ Hk). do 2 f_equal. lia.
Qed.

Lemma mapi_rows_spec {X Y} (f : Z -> Z -> X -> Y) m : forall r0,
  length (mapi_rows f r0 m) = length m /\
  forall i row, get m i = Some row -> get (mapi_rows f r0 m) i = Some (mapi_row f (r0 + i) 0 row).
Proof.
  induction m as [|a m IH]; intros r0; cbn [mapi_rows].
  - split; [reflexivity|]. intros k x Hk. rewrite get_nil in Hk. discriminate.
  - destruct (IH (r0 + 1)) as [Hl Hc]. split; [cbn; rewrite Hl; reflexivity|].
    intros k x Hk. pose proof (get_Some _ _ _ Hk) as [Hk0 _]. rewrite get_cons in Hk by exact Hk0. rewrite get_cons by exact Hk0.
    destruct (k =? 0) eqn:E.
    + apply Z.eqb_eq in E. subst k. injection Hk as <-. rewrite Z.add_0_r. reflexivity.
    + rewrite (Hc _ _ Hk). do 2 f_equal. lia.
Qed.

Lemma mapi_rows_cell {X Y} (f : Z -> Z -> X -> Y) m h w : shape m h w ->
  shape (mapi_rows f 0 m) h w /\
  forall i j x, get2 m i j = Some x -> get2 (mapi_rows f 0 m) i j = Some (f i j x).
Proof.
  intros [Hs1 Hs2]. destruct (mapi_rows_spec f m 0) as [Hl Hc]. split.
  - split; [rewrite Hl; exact Hs1|]. apply Forall_forall. intros orow Ho.
    apply In_get in Ho as (k & Hk). destruct (get_in m k) as (row & Hrow).
    { rewrite <- Hl. apply (get_Some _ _ _ Hk). }
    rewrite (Hc _ _ Hrow) in Hk.
    assert (E : orow = mapi_row f (0 + k) 0 row) by congruence.
    destruct (mapi_row_spec f (0 + k) row 0) as [Hlr _]. rewrite E, Hlr.
    rewrite Forall_forall in Hs2. apply Hs2, (get_In _ _ _ Hrow).
  - intros i j x Hx. unfold get2 in Hx |- *. destruct (get m i) as [row|] eqn:Hrow; [|discriminate].
    rewrite (Hc _ _ Hrow). destruct (mapi_row_spec f (0 + i) row 0) as [_ Hcc].
    rewrite (Hcc _ _ Hx). reflexivity.
Qed.

Lemma all_row_intro {X} (f : Z -> Z -> X -> bool) r row : forall c0,
  (forall k x, get row k = Some x -> f r (c0 + k) x = true) -> all_row f r c0 row = true.
Proof.
  induction row as [|a row IH]; intros c0 H; cbn [all_row]; [reflexivity|].
  apply andb_true_iff. split.
  - rewrite <- (Z.add_0_r c0). apply H. reflexivity.
  - apply IH. intros k x Hk. pose proof (get_Some _ _ _ Hk) as [Hk0 _].
    replace (c0 + 1 + k) with (c0 + (k + 1)) by lia. apply H.
    rewrite get_cons by lia. replace (k + 1 =? 0) with false by (symmetry; apply Z.eqb_neq; lia).
    replace (k + 1 - 1) with k by lia. exact Hk.
Qed.

Lemma all_rows_intro {X} (f : Z -> Z -> X -> bool) m :
  (forall i j x, get2 m i j = Some x -> f i j x = true) -> all_rows f 0 m = true.
Proof.
  assert (G : forall r0, (forall i j x, get2 m i j = Some x -> f (r0 + i) j x = true) ->
                         all_rows f r0 m = true).
  { induction m as [|a m IH]; intros r0 H; cbn [all_rows]; [reflexivity|].
    apply andb_true_iff. split.
    - apply all_row_intro. intros k x Hk. rewrite Z.add_0_l. rewrite <- (Z.add_0_r r0). apply H.
      unfold get2. cbn. exact Hk.
    - apply IH. intros i j x Hx. unfold get2 in Hx. destruct (get m i) as [row|] eqn:Hrow; [|discriminate].
      pose proof (get_Some _ _ _ Hrow) as [Hi0 _].
      replace (r0 + 1 + i) with (r0 + (i + 1)) by lia. apply H. unfold get2.
      rewrite get_cons by lia. replace (i + 1 =? 0) with false by (symmetry; apply Z.eqb_neq; lia).
      replace (i + 1 - 1) with i by lia. rewrite Hrow. exact Hx. }
  intros H. apply G. intros i j x. rewrite Z.add_0_l. apply H.
Qed.

Lemma shape_ok_intro {X} (m : list (list X)) h w : shape m h w -> shape_ok m h w = true.
Proof.
  intros [H1 H2]. unfold shape_ok. apply andb_true_iff. split; [apply Z.eqb_eq, H1|].
  apply forallb_forall. intros row Hr. rewrite Forall_forall in H2. apply Z.eqb_eq, H2, Hr.
Qed.

(* ---- cell dictionaries and positions ------------------------------------------------------------ *)
(* j is an active agent positioned at q *)
Definition occupant (s : gstate) (q : cell) (j : nat) (b : arec) : Prop :=
  agent s j = Some b /\ a_active b = true /\ a_pos b = Some q.

Definition encs_ok (s : gstate) : Prop :=
  forall j b, agent s j = Some b -> a_enc b <> -2 /\ a_enc b <> -1 /\ a_enc b <> 0.

Lemma at_cell_In ags : forall k q j,
  In j (at_cell ags k q) <->
  (k <= j)%nat /\ exists b, nth_error ags (j - k) = Some b /\ a_active b = true /\ a_pos b = Some q.
Proof.
  induction ags as [|a r IH]; intros k q j; cbn [at_cell].
  - split; [intros []|]. intros (_ & b & Hb & _). destruct (j - k)%nat; discriminate.
  - rewrite in_app_iff, IH. split.
    + intros [H|(Hle & b & Hb & Hact & Hpos)].
      * destruct (a_active a && pos_eqb (a_pos a) q) eqn:E; [|destruct H].
        destruct H as [<-|[]]. apply andb_true_iff in E as [E1 E2]. apply pos_eqb_eq in E2.
        split; [lia|]. exists a. rewrite Nat.sub_diag. auto.
      * split; [lia|]. exists b. replace (j - k)%nat with (S (j - S k)) by lia. auto.
    + intros (Hle & b & Hb & Hact & Hpos). destruct (Nat.eq_dec j k) as [->|Nk].
      * left. rewrite Nat.sub_diag in Hb. cbn in Hb. injection Hb as ->.
        rewrite Hact. apply pos_eqb_eq in Hpos. rewrite Hpos. left. reflexivity.
      * right. split; [lia|]. exists b. replace (j - k)%nat with (S (j - S k)) in Hb by lia. auto.
Qed.

Lemma at_cell_NoDup ags : forall k q, NoDup (at_cell ags k q).
Proof.
  induction ags as [|a r IH]; intros k q; cbn [at_cell]; [constructor|].
  destruct (a_active a && pos_eqb (a_pos a) q); cbn [app]; [|apply IH].
  constructor; [|apply IH]. intros H. apply at_cell_In in H as [H _]. lia.
Qed.

Lemma occupants_In s q j : In j (occupants s q) <-> exists b, occupant s q j b.
Proof.
  unfold occupants, occupant, agent. rewrite at_cell_In, Nat.sub_0_r. split.
  - intros (_ & b & H). exists b. exact H.
  - intros (b & H). split; [lia|]. exists b. exact H.
Qed.

Lemma occupants_but_In s i q j :
  In j (occupants_but s i q) <-> j <> i /\ exists b, occupant s q j b.
Proof.
  unfold occupants_but, occupant, agent. rewrite others_at_In, Nat.sub_0_r. split.
  - intros (_ & N & b & H). split; [exact N|]. exists b. exact H.
  - intros (N & b & H). split; [lia|]. split; [exact N|]. exists b. exact H.
Qed.

(* under the invariant a cell dictionary holds exactly the occupants *)
Lemma cell_iff_occupants s q : ginv s ->
  forall j, In j (cell_get (g_cells s) q) <-> In j (occupants s q).
Proof.
  intros G j. rewrite occupants_In. split.
  - intros Hj. destruct (gi_cell_agent _ _ G q j Hj) as (b & Hb & Hact & Hpos). exists b.
    split; [exact Hb|]. split; assumption.
  - intros (b & Hb & Hact & Hpos). apply (gi_agent_cell _ _ G j b q ltac:(discriminate) Hb Hact Hpos).
Qed.

Lemma watched_In s i q (os : bool) j :
  In j (if os then occupants s q else occupants_but s i q) <->
  (exists b, occupant s q j b) /\ (os = false -> j <> i).
Proof.
  destruct os.
  - rewrite occupants_In. split; [intros H; split; [exact H|discriminate]|tauto].
  - rewrite occupants_but_In. split; [intros [N H]; auto|intros [H N]; auto].
Qed.

Lemma enc_of_agent s j b : agent s j = Some b -> enc_of s j = a_enc b.
Proof. intros H. unfold enc_of. rewrite H. reflexivity. Qed.

Lemma np_choice_In l o v o' : np_choice l o = OOk v o' -> In v l.
Proof.
  unfold np_choice. destruct o as [|e o1]; [discriminate|]. destruct (memZ e l) eqn:E; [|discriminate].
  intros H. injection H as <- <-. apply memZ_In, E.
Qed.

Lemma one_of_empty s occ : occ = [] -> one_of s occ 0 = true.
Proof. intros ->. reflexivity. Qed.

Lemma one_of_mem s occ j : In j occ -> one_of s occ (enc_of s j) = true.
Proof.
  intros H. unfold one_of. destruct occ as [|x occ]; [destruct H|].
  apply memZ_In, in_map, H.
Qed.

Lemma one_of_elim s occ v : one_of s occ v = true ->
  (occ = [] /\ v = 0) \/ (exists j, In j occ /\ enc_of s j = v).
Proof.
  unfold one_of. destruct occ as [|x occ].
  - intros H. left. split; [reflexivity|apply Z.eqb_eq, H].
  - intros H. right. apply memZ_In, in_map_iff in H as (j & E & Hj). exists j. auto.
Qed.

Lemma nil_of_incl {X} (l m : list X) : (forall x, In x l -> In x m) -> m = [] -> l = [].
Proof. intros H ->. destruct l as [|x l]; [reflexivity|]. destruct (H x (or_introl eq_refl)). Qed.

(* ---- centred view: every cell of the model meets the specification ------------------------------- *)
Lemma cent_cell_spec vis s vi p R os i j o1 v o2 : ginv s ->
  cent_cell vis s vi R os i j (win_at s p R i j) o1 = OOk v o2 ->
  cent_spec vis s vi p R os (i - R, j - R) v = true.
Proof.
  intros G. unfold cent_cell, cent_spec, win_at. cbn [fst snd].
  set (q := (fst p + (i - R), snd p + (j - R))).
  destruct (vis s vi R (i - R, j - R)); cbn [negb]; [|intros H; injection H as <- <-; reflexivity].
  destruct (inside s q); cbn [negb]; [|intros H; injection H as <- <-; reflexivity].
  pose proof (cell_iff_occupants s q G) as Hoc.
  destruct (cell_get (g_cells s) q) as [|c0 cs] eqn:Ec.
  - intros H. injection H as <- <-. apply one_of_empty.
    apply (nil_of_incl _ (@nil nat)); [|reflexivity]. intros x Hx. apply Hoc.
    apply watched_In in Hx as [Hx _]. apply occupants_In, Hx.
  - destruct os.
    + intros H. apply np_choice_In, in_map_iff in H as (x & <- & Hx). apply one_of_mem, Hoc, Hx.
    + destruct (map (enc_of s) (filter (fun j0 => negb (Nat.eqb j0 vi)) (c0 :: cs))) as [|e es] eqn:Em.
      * intros H. injection H as <- <-. apply one_of_empty.
        destruct (occupants_but s vi q) as [|x xs] eqn:Eo; [reflexivity|].
        assert (Hx : In x (occupants_but s vi q)) by (rewrite Eo; left; reflexivity).
        apply occupants_but_In in Hx as [N Hx]. apply occupants_In, Hoc in Hx.
        assert (Hf : In x (filter (fun j0 => negb (Nat.eqb j0 vi)) (c0 :: cs))).
        { apply filter_In. split; [exact Hx|]. apply negb_true_iff, Nat.eqb_neq, N. }
        apply (in_map (enc_of s)) in Hf. rewrite Em in Hf. destruct Hf.
      * intros H. apply np_choice_In in H. rewrite <- Em in H. apply in_map_iff in H as (x & <- & Hx).
        apply filter_In in Hx as [Hx N]. apply negb_true_iff, Nat.eqb_neq in N.
        apply one_of_mem, occupants_but_In. split; [exact N|]. apply occupants_In, Hoc, Hx.
Qed.

(* the four readable clauses follow from the boolean specification *)
Lemma cent_spec_clauses vis s vi p R os d v : encs_ok s ->
  cent_spec vis s vi p R os d v = true ->
  let q := (fst p + fst d, snd p + snd d) in
  (v = -2 <-> vis s vi R d = false) /\
  (v = -1 <-> vis s vi R d = true /\ inside s q = false) /\
  (v = 0 <-> vis s vi R d = true /\ inside s q = true /\
             forall j b, occupant s q j b -> (os = false -> j <> vi) -> False) /\
  (v <> -2 -> v <> -1 -> v <> 0 ->
   exists j b, occupant s q j b /\ (os = false -> j <> vi) /\ a_enc b = v).
Proof.
  intros He. unfold cent_spec. cbn zeta.
  set (q := (fst p + fst d, snd p + snd d)).
  destruct (vis s vi R d); cbn [negb].
  2:{ intros H. apply Z.eqb_eq in H. subst v. split; [|split; [|split]].
      - split; intros _; reflexivity.
      - split; [intros C; discriminate C|intros [C _]; discriminate C].
      - split; [intros C; discriminate C|intros [C _]; discriminate C].
      - intros C. destruct (C eq_refl). }
  destruct (inside s q); cbn [negb].
  2:{ intros H. apply Z.eqb_eq in H. subst v. split; [|split; [|split]].
      - split; intros C; discriminate C.
      - split; [intros _; split; reflexivity|intros _; reflexivity].
      - split; [intros C; discriminate C|intros (_ & C & _); discriminate C].
      - intros _ C. destruct (C eq_refl). }
  intros H. apply one_of_elim in H as [[Hnil ->]|(j & Hj & <-)].
  - split; [|split; [|split]].
    + split; intros C; discriminate C.
    + split; [intros C; discriminate C|intros [_ C]; discriminate C].
    + split; [|intros _; reflexivity]. intros _. split; [reflexivity|]. split; [reflexivity|].
      intros j b Hb Hs. assert (Hin : In j (if os then occupants s q else occupants_but s vi q)).
      { apply watched_In. split; [exists b; exact Hb|exact Hs]. }
      rewrite Hnil in Hin. destruct Hin.
    + intros _ _ C. destruct (C eq_refl).
  - apply watched_In in Hj as [(b & Hb) Hs]. pose proof Hb as (Hb1 & Hact & Hpos).
    rewrite (enc_of_agent _ _ _ Hb1). destruct (He j b Hb1) as (E2 & E1 & E0).
    split; [|split; [|split]].
    + split; [intros C; destruct (E2 C)|intros C; discriminate C].
    + split; [intros C; destruct (E1 C)|intros [_ C]; discriminate C].
    + split; [intros C; destruct (E0 C)|]. intros (_ & _ & C). destruct (C j b Hb Hs).
    + intros _ _ _. exists j, b. split; [exact Hb|]. split; [exact Hs|reflexivity].
Qed.

Lemma viewer_pos_Some s i R p : viewer_pos s i R = Some p ->
  exists a, agent s i = Some a /\ a_pos a = Some p /\ inside s p = true /\ 0 <= R.
Proof.
  unfold viewer_pos. destruct (agent s i) as [a|] eqn:Ea; [|discriminate].
  destruct (a_pos a) as [p'|] eqn:Ep; [|discriminate].
  destruct (inside s p') eqn:Ei; cbn [andb]; [|discriminate].
  destruct (0 <=? R) eqn:ER; [|discriminate].
  intros H. injection H as <-. exists a. apply Z.leb_le in ER.
  split; [reflexivity|]. split; [exact Ep|]. split; [exact Ei|exact ER].
Qed.

Theorem centered_cell vis s i R os o arr o' p :
  ginv s -> viewer_pos s i R = Some p -> obs_centered vis s i R os o = OOk arr o' ->
  shape arr (2 * R + 1) (2 * R + 1) /\
  forall di dj, - R <= di <= R -> - R <= dj <= R ->
    exists v, get2 arr (di + R) (dj + R) = Some v /\ cent_spec vis s i p R os (di, dj) v = true.
Proof.
  intros G Hp H. unfold obs_centered in H. rewrite Hp in H.
  destruct (viewer_pos_Some _ _ _ _ Hp) as (a & _ & _ & Hin & HR).
  destruct (window_is_offset s p R Hin HR) as [Hsh Hwin].
  destruct (conv_rows_cell _ _ _ _ _ _ _ Hsh H) as [Hsh' Hcell]. split; [exact Hsh'|].
  intros di dj Hi Hj.
  destruct (Hcell (di + R) (dj + R) _ (Hwin (di + R) (dj + R) ltac:(lia) ltac:(lia)))
    as (v & o1 & o2 & Hg & Hf).
  exists v. split; [exact Hg|]. apply cent_cell_spec in Hf; [|exact G].
  replace (di + R - R) with di in Hf by lia. replace (dj + R - R) with dj in Hf by lia. exact Hf.
Qed.

(* ---- stacked view ----------------------------------------------------------------------------------- *)
Lemma filter_length_perm {X} (f : X -> bool) l m : Permutation l m ->
  length (filter f l) = length (filter f m).
Proof.
  intros P. induction P as [|x l m P IH|x y l|l m n P1 IH1 P2 IH2]; cbn.
  - reflexivity.
  - destruct (f x); cbn; rewrite IH; reflexivity.
  - destruct (f x), (f y); reflexivity.
  - rewrite IH1. exact IH2.
Qed.

Lemma count_cell_occupants s q e : ginv s ->
  count_enc s (cell_get (g_cells s) q) e = count_enc s (occupants s q) e.
Proof.
  intros G. unfold count_enc. f_equal. apply filter_length_perm. apply NoDup_Permutation.
  - apply (gi_nodup _ _ G).
  - apply at_cell_NoDup.
  - apply cell_iff_occupants, G.
Qed.

Lemma stk_cell_spec vis s vi p R e i j : ginv s ->
  stk_spec vis s vi p R (i - R, j - R) e (stk_cell vis s vi R e i j (win_at s p R i j)) = true.
Proof.
  intros G. unfold stk_cell, stk_spec, win_at. cbn [fst snd].
  set (q := (fst p + (i - R), snd p + (j - R))).
  destruct (vis s vi R (i - R, j - R)); cbn [negb]; [|reflexivity].
  destruct (inside s q); cbn [negb]; [|reflexivity].
  rewrite <- (count_cell_occupants s q (e + 1) G). unfold count_enc.
  destruct (cell_get (g_cells s) q); [reflexivity|apply Z.eqb_refl].
Qed.

Lemma stk_spec_clauses vis s vi p R d e v : stk_spec vis s vi p R d e v = true ->
  let q := (fst p + fst d, snd p + snd d) in
  (v = -2 <-> vis s vi R d = false) /\
  (v = -1 <-> vis s vi R d = true /\ inside s q = false) /\
  (vis s vi R d = true -> inside s q = true -> v = count_enc s (occupants s q) (e + 1)).
Proof.
  unfold stk_spec. cbn zeta. set (q := (fst p + fst d, snd p + snd d)).
  destruct (vis s vi R d); cbn [negb].
  2:{ intros H. apply Z.eqb_eq in H. subst v. split; [|split].
      - split; intros _; reflexivity.
      - split; [intros C; discriminate C|intros [C _]; discriminate C].
      - intros C. discriminate C. }
  destruct (inside s q); cbn [negb].
  2:{ intros H. apply Z.eqb_eq in H. subst v. split; [|split].
      - split; intros C; discriminate C.
      - split; [intros _; split; reflexivity|intros _; reflexivity].
      - intros _ C. discriminate C. }
  intros H. apply Z.eqb_eq in H. assert (0 <= v) by (subst v; unfold count_enc; lia).
  split; [|split].
  - split; [intros C; lia|intros C; discriminate C].
  - split; [intros C; lia|intros [_ C]; discriminate C].
  - intros _ _. exact H.
Qed.

Theorem stacked_cell vis s i R arr p :
  ginv s -> viewer_pos s i R = Some p -> obs_stacked vis s i R = Some arr ->
  shape arr (2 * R + 1) (2 * R + 1) /\
  forall di dj, - R <= di <= R -> - R <= dj <= R ->
    exists l, get2 arr (di + R) (dj + R) = Some l /\
      Z.of_nat (length l) = Z.max 0 (number_of_encodings s) /\
      forall e v, get l e = Some v ->
        0 <= e < number_of_encodings s /\ stk_spec vis s i p R (di, dj) e v = true.
Proof.
  intros G Hp H. unfold obs_stacked in H. rewrite Hp in H. injection H as <-.
  destruct (viewer_pos_Some _ _ _ _ Hp) as (a & _ & _ & Hin & HR).
  destruct (window_is_offset s p R Hin HR) as [Hsh Hwin].
  set (f := fun r c x => map (fun e => stk_cell vis s i R e r c x) (zrange 0 (number_of_encodings s))).
  destruct (mapi_rows_cell f _ _ _ Hsh) as [Hsh' Hcell]. split; [exact Hsh'|].
  intros di dj Hi Hj.
  rewrite (Hcell _ _ _ (Hwin (di + R) (dj + R) ltac:(lia) ltac:(lia))).
  eexists. split; [reflexivity|]. unfold f. split.
  - rewrite map_length, zrange_length. lia.
  - intros e v Hv. rewrite get_map, get_zrange, Z.sub_0_r in Hv.
    destruct ((0 <=? e) && (e <? number_of_encodings s)) eqn:E; [|discriminate].
    apply andb_true_iff in E as [E1 E2]. apply Z.leb_le in E1. apply Z.ltb_lt in E2.
    split; [lia|]. cbn [option_map] in Hv. injection Hv as <-. rewrite ?Z.add_0_l.
    pose proof (stk_cell_spec vis s i p R e (di + R) (dj + R) G) as Hs.
    replace (di + R - R) with di in Hs by lia. replace (dj + R - R) with dj in Hs by lia. exact Hs.
Qed.

(* ---- absolute view ------------------------------------------------------------------------------------ *)
Lemma in_range_iff R d : in_range R d = true <-> - R <= fst d <= R /\ - R <= snd d <= R.
Proof. unfold in_range. rewrite !andb_true_iff, !Z.leb_le. lia. Qed.

(* the re-embedding puts local (a - r + R, b - c + R) at absolute (a, b), -2 beyond the range *)
Theorem absolute_embed s p R conv : inside s p = true -> 0 <= R ->
  shape conv (2 * R + 1) (2 * R + 1) ->
  shape (abs_embed s p R conv) (g_rows s) (g_cols s) /\
  forall a b, inside s (a, b) = true ->
    get2 (abs_embed s p R conv) a b =
    if in_range R (a - fst p, b - snd p) then get2 conv (a - fst p + R) (b - snd p + R)
    else Some (-2).
Proof.
  intros Hp HR Hconv. apply inside_iff in Hp as [Hr Hc]. destruct p as [r c]. cbn [fst snd] in *.
  unfold abs_embed, slice_bounds. cbn [fst snd r_lower r_upper c_lower c_upper].
  set (rl := Z.max 0 (r - R)). set (ru := Z.min (g_rows s - 1) (r + R) + 1).
  set (cl := Z.max 0 (c - R)). set (cu := Z.min (g_cols s - 1) (c + R) + 1).
  assert (Hsrc : shape (slice2 conv (rl + R - r) (ru + R - r) (cl + R - c) (cu + R - c))
                       (ru - rl) (cu - cl)).
  { replace (ru - rl) with ((ru + R - r) - (rl + R - r)) by lia.
    replace (cu - cl) with ((cu + R - c) - (cl + R - c)) by lia.
    apply shape_slice2 with (h := 2 * R + 1) (w := 2 * R + 1);
      [exact Hconv|unfold rl, ru; lia|unfold ru; lia|unfold cl, cu; lia|unfold cu; lia]. }
  destruct (slice_set2_spec (full (g_rows s) (g_cols s) (-2)) (g_rows s) (g_cols s)
              rl ru cl cu _
              (shape_full (g_rows s) (g_cols s) (-2) ltac:(lia) ltac:(lia)) Hsrc) as [Hsh Hget];
    [unfold rl, ru; lia|unfold ru; lia|unfold cl, cu; lia|unfold cu; lia|].
  split; [exact Hsh|]. intros a b Hab. apply inside_iff in Hab as [Ha Hb]. cbn [fst snd] in Ha, Hb.
  rewrite Hget.
  destruct ((rl <=? a) && (a <? ru) && ((cl <=? b) && (b <? cu))) eqn:E.
  - apply andb_true_iff in E as [E1 E2]. apply andb_true_iff in E1 as [E1 E1'].
    apply andb_true_iff in E2 as [E2 E2']. apply Z.leb_le in E1, E2. apply Z.ltb_lt in E1', E2'.
    replace (in_range R (a - r, b - c)) with true.
    2:{ symmetry. apply in_range_iff. cbn [fst snd]. unfold rl, ru, cl, cu in *. lia. }
    rewrite get2_slice2 by (unfold rl, cl; lia).
    replace ((0 <=? a - rl) && (a - rl <? ru + R - r - (rl + R - r)) &&
             ((0 <=? b - cl) && (b - cl <? cu + R - c - (cl + R - c)))) with true.
    2:{ symmetry. rewrite !andb_true_iff, !Z.leb_le, !Z.ltb_lt. lia. }
    f_equal; lia.
  - rewrite get2_full by lia.
    replace (in_range R (a - r, b - c)) with false; [reflexivity|].
    symmetry. destruct (in_range R (a - r, b - c)) eqn:Er; [|reflexivity].
    apply in_range_iff in Er. cbn [fst snd] in Er.
    rewrite !andb_false_iff, !Z.leb_gt, !Z.ltb_ge in E. unfold rl, ru, cl, cu in *. lia.
Qed.

Lemma memn_same l m x : (forall j, In j l <-> In j m) -> memn x l = memn x m.
Proof.
  intros H. destruct (memn x l) eqn:E1, (memn x m) eqn:E2; try reflexivity.
  - apply memn_In, H, memn_In in E1. congruence.
  - apply memn_In, H, memn_In in E2. congruence.
Qed.

(* the part of abs_spec below the range test, for a cell of the window that is inside the grid *)
Lemma abs_cell_spec vis s vi p R i j o1 v o2 : ginv s ->
  inside s (fst p + (i - R), snd p + (j - R)) = true ->
  abs_cell vis s vi R i j (win_at s p R i j) o1 = OOk v o2 ->
  let q := (fst p + (i - R), snd p + (j - R)) in
  (if negb (vis s vi R (i - R, j - R)) then v =? -2
   else if memn vi (occupants s q) then v =? -1 else one_of s (occupants s q) v) = true.
Proof.
  intros G Hin. unfold abs_cell, win_at. cbn [fst snd]. cbn zeta.
  set (q := (fst p + (i - R), snd p + (j - R))) in *. rewrite Hin.
  destruct (vis s vi R (i - R, j - R)); cbn [negb]; [|intros H; injection H as <- <-; reflexivity].
  pose proof (cell_iff_occupants s q G) as Hoc.
  rewrite <- (memn_same _ _ vi Hoc).
  destruct (cell_get (g_cells s) q) as [|c0 cs] eqn:Ec.
  - intros H. injection H as <- <-. cbn [memn existsb]. apply one_of_empty.
    apply (nil_of_incl _ (@nil nat)); [|reflexivity]. intros x Hx. apply Hoc, Hx.
  - destruct (memn vi (c0 :: cs)); [intros H; injection H as <- <-; reflexivity|].
    intros H. apply np_choice_In, in_map_iff in H as (x & <- & Hx). apply one_of_mem, Hoc, Hx.
Qed.

Theorem absolute_cell vis s i R o arr o' p :
  ginv s -> viewer_pos s i R = Some p -> obs_absolute vis s i R o = OOk arr o' ->
  shape arr (g_rows s) (g_cols s) /\
  (exists conv, abs_convolved vis s i R o = OOk conv o' /\ shape conv (2 * R + 1) (2 * R + 1) /\
     arr = abs_embed s p R conv) /\
  forall q, inside s q = true ->
    exists v, get2 arr (fst q) (snd q) = Some v /\ abs_spec vis s i p R q v = true.
Proof.
  intros G Hp H. unfold obs_absolute in H. rewrite Hp in H.
  destruct (abs_convolved vis s i R o) as [conv oc| |] eqn:Ec; try discriminate.
  injection H as <- <-. unfold abs_convolved in Ec. rewrite Hp in Ec.
  destruct (viewer_pos_Some _ _ _ _ Hp) as (a & _ & _ & Hin & HR).
  destruct (window_is_offset s p R Hin HR) as [Hsh Hwin].
  destruct (conv_rows_cell _ _ _ _ _ _ _ Hsh Ec) as [Hshc Hcell].
  destruct (absolute_embed s p R conv Hin HR Hshc) as [Hsha Hemb].
  split; [exact Hsha|]. split.
  { exists conv. split; [reflexivity|]. split; [exact Hshc|reflexivity]. }
  intros [qa qb] Hq. cbn [fst snd]. rewrite (Hemb qa qb Hq). unfold abs_spec. cbn [fst snd].
  destruct (in_range R (qa - fst p, qb - snd p)) eqn:Er; cbn [negb]; [|exists (-2); split; reflexivity].
  apply in_range_iff in Er. cbn [fst snd] in Er.
  destruct (Hcell _ _ _ (Hwin (qa - fst p + R) (qb - snd p + R) ltac:(lia) ltac:(lia)))
    as (v & o1 & o2 & Hg & Hf).
  exists v. split; [exact Hg|].
  apply abs_cell_spec in Hf; [|exact G|].
  - cbn zeta in Hf.
    replace (qa - fst p + R - R) with (qa - fst p) in Hf by lia.
    replace (qb - snd p + R - R) with (qb - snd p) in Hf by lia.
    replace (fst p + (qa - fst p)) with qa in Hf by lia.
    replace (snd p + (qb - snd p)) with qb in Hf by lia. exact Hf.
  - replace (fst p + (qa - fst p + R - R)) with qa by lia.
    replace (snd p + (qb - snd p + R - R)) with qb by lia. exact Hq.
Qed.

Lemma viewer_here s vi a p q : agent s vi = Some a -> a_pos a = Some p ->
  (memn vi (occupants s q) = true <-> a_active a = true /\ q = p).
Proof.
  intros Ha Hp. rewrite memn_In, occupants_In. split.
  - intros (b & Hb & Hact & Hpos). rewrite Ha in Hb. injection Hb as <-. split; [exact Hact|congruence].
  - intros [Hact ->]. exists a. repeat split; assumption.
Qed.

Lemma abs_spec_clauses vis s vi a p R q v : encs_ok s -> agent s vi = Some a -> a_pos a = Some p ->
  abs_spec vis s vi p R q v = true ->
  let d := (fst q - fst p, snd q - snd p) in
  (v = -2 <-> in_range R d = false \/ vis s vi R d = false) /\
  (v = -1 <-> in_range R d = true /\ vis s vi R d = true /\ a_active a = true /\ q = p) /\
  (v = 0 <-> in_range R d = true /\ vis s vi R d = true /\ forall j b, occupant s q j b -> False) /\
  (v <> -2 -> v <> -1 -> v <> 0 -> exists j b, occupant s q j b /\ j <> vi /\ a_enc b = v).
Proof.
  intros He Ha Hp. unfold abs_spec. cbn zeta. set (d := (fst q - fst p, snd q - snd p)).
  pose proof (viewer_here s vi a p q Ha Hp) as Hv.
  destruct (in_range R d); cbn [negb].
  2:{ intros H. apply Z.eqb_eq in H. subst v. split; [|split; [|split]].
      - split; [intros _; left; reflexivity|intros _; reflexivity].
      - split; [intros C; discriminate C|intros [C _]; discriminate C].
      - split; [intros C; discriminate C|intros [C _]; discriminate C].
      - intros C. destruct (C eq_refl). }
  destruct (vis s vi R d); cbn [negb].
  2:{ intros H. apply Z.eqb_eq in H. subst v. split; [|split; [|split]].
      - split; [intros _; right; reflexivity|intros _; reflexivity].
      - split; [intros C; discriminate C|intros (_ & C & _); discriminate C].
      - split; [intros C; discriminate C|intros (_ & C & _); discriminate C].
      - intros C. destruct (C eq_refl). }
  destruct (memn vi (occupants s q)) eqn:Em.
  { intros H. apply Z.eqb_eq in H. subst v. destruct (proj1 Hv eq_refl) as [Hact Hq].
    split; [|split; [|split]].
    - split; [intros C; discriminate C|intros [C|C]; discriminate C].
    - split; [intros _; repeat split; assumption|intros _; reflexivity].
    - split; [intros C; discriminate C|]. intros (_ & _ & C). destruct (C vi a). subst q.
      repeat split; assumption.
    - intros _ C. destruct (C eq_refl). }
  assert (Nv : ~ (a_active a = true /\ q = p)) by (intros C; apply Hv in C; discriminate C).
  intros H. apply one_of_elim in H as [[Hnil ->]|(j & Hj & <-)].
  - split; [|split; [|split]].
    + split; [intros C; discriminate C|intros [C|C]; discriminate C].
    + split; [intros C; discriminate C|]. intros (_ & _ & C). destruct (Nv C).
    + split; [|intros _; reflexivity]. intros _. split; [reflexivity|]. split; [reflexivity|].
      intros j b Hb. assert (Hin : In j (occupants s q)) by (apply occupants_In; exists b; exact Hb).
      rewrite Hnil in Hin. destruct Hin.
    + intros _ _ C. destruct (C eq_refl).
  - assert (Nj : j <> vi). { intros ->. apply memn_In in Hj. congruence. }
    apply occupants_In in Hj as (b & Hb). pose proof Hb as (Hb1 & _).
    rewrite (enc_of_agent _ _ _ Hb1). destruct (He j b Hb1) as (E2 & E1 & E0).
    split; [|split; [|split]].
    + split; [intros C; destruct (E2 C)|intros [C|C]; discriminate C].
    + split; [intros C; destruct (E1 C)|]. intros (_ & _ & C). destruct (Nv C).
    + split; [intros C; destruct (E0 C)|]. intros (_ & _ & C). destruct (C j b Hb).
    + intros _ _ _. exists j, b. split; [exact Hb|]. split; [exact Nj|reflexivity].
Qed.

(* local (i, j) of the convolved window lands at absolute p + (i - R, j - R); beyond the range -2 *)
Lemma absolute_coords s p R conv : inside s p = true -> 0 <= R ->
  shape conv (2 * R + 1) (2 * R + 1) ->
  (forall i j, 0 <= i < 2 * R + 1 -> 0 <= j < 2 * R + 1 ->
     inside s (fst p + (i - R), snd p + (j - R)) = true ->
     get2 (abs_embed s p R conv) (fst p + (i - R)) (snd p + (j - R)) = get2 conv i j) /\
  (forall q, inside s q = true -> in_range R (fst q - fst p, snd q - snd p) = false ->
     get2 (abs_embed s p R conv) (fst q) (snd q) = Some (-2)).
Proof.
  intros Hp HR Hc. destruct (absolute_embed s p R conv Hp HR Hc) as [_ Hemb]. split.
  - intros i j Hi Hj Hin. rewrite (Hemb _ _ Hin).
    replace (in_range R (fst p + (i - R) - fst p, snd p + (j - R) - snd p)) with true.
    + f_equal; lia.
    + symmetry. apply in_range_iff. cbn [fst snd]. lia.
  - intros [qa qb] Hin Hr. cbn [fst snd] in *. rewrite (Hemb _ _ Hin), Hr. reflexivity.
Qed.

(* ---- position and ammunition ------------------------------------------------------------------------ *)
Lemma position_true s i a : ginv s -> agent s i = Some a ->
  obs_position s i = a_pos a /\
  (a_active a = true -> forall p, obs_position s i = Some p ->
     In i (cell_get (g_cells s) p) /\ inside s p = true).
Proof.
  intros G Ha. unfold obs_position. rewrite Ha. split; [reflexivity|].
  intros Hact p Hp. apply (gi_agent_cell _ _ G i a p ltac:(discriminate) Ha Hact Hp).
Qed.

Lemma ammo_true s i a : ginv s -> agent s i = Some a ->
  obs_ammo s i = a_ammo a /\ forall m, obs_ammo s i = Some m -> 0 <= m.
Proof.
  intros G Ha. unfold obs_ammo. rewrite Ha. split; [reflexivity|].
  intros m Hm. destruct (gi_vitals _ _ G i a Ha) as (_ & _ & V & _). apply V, Hm.
Qed.

(* ---- the checker accepts the model ---------------------------------------------------------------- *)
Lemma nodupn_intro l : NoDup l -> nodupn l = true.
Proof.
  induction 1 as [|x l Hx Hl IH]; [reflexivity|]. cbn [nodupn]. rewrite IH.
  apply memn_false in Hx. rewrite Hx. reflexivity.
Qed.

Lemma same_set_intro l m : (forall j, In j l <-> In j m) -> same_set l m = true.
Proof.
  intros H. unfold same_set. apply andb_true_iff. split; apply forallb_forall; intros x Hx;
    apply memn_In, H, Hx.
Qed.

Lemma win_at_spec s p R i j : ginv s -> win_spec s p (i - R, j - R) (win_at s p R i j) = true.
Proof.
  intros G. unfold win_spec, win_at. cbn [fst snd].
  destruct (inside s (fst p + (i - R), snd p + (j - R))) eqn:E; [|reflexivity].
  cbn [andb]. apply andb_true_iff. split.
  - apply nodupn_intro, (gi_nodup _ _ G).
  - apply same_set_intro, cell_iff_occupants, G.
Qed.

Lemma chk_centered_model vis s i R os o arr o' : ginv s ->
  obs_centered vis s i R os o = OOk arr o' -> chk_centered vis s i R os arr = true.
Proof.
  intros G H. unfold chk_centered. destruct (viewer_pos s i R) as [p|] eqn:Hp.
  2:{ unfold obs_centered in H. rewrite Hp in H. discriminate. }
  destruct (centered_cell vis s i R os o arr o' p G Hp H) as [Hsh Hcell].
  apply andb_true_iff. split; [apply shape_ok_intro, Hsh|].
  apply all_rows_intro. intros r c v Hv. destruct (get2_Some _ _ _ _ _ _ Hsh Hv) as [Hr Hc].
  destruct (Hcell (r - R) (c - R) ltac:(lia) ltac:(lia)) as (v' & Hg & Hs).
  replace (r - R + R) with r in Hg by lia. replace (c - R + R) with c in Hg by lia.
  rewrite Hv in Hg. injection Hg as <-. exact Hs.
Qed.

Lemma all_layers_intro (f : Z -> Z -> bool) l : forall e0,
  (forall e v, get l e = Some v -> f (e0 + e) v = true) -> all_layers f e0 l = true.
Proof.
  induction l as [|a l IH]; intros e0 H; cbn [all_layers]; [reflexivity|].
  apply andb_true_iff. split.
  - rewrite <- (Z.add_0_r e0). apply H. reflexivity.
  - apply IH. intros k x Hk. pose proof (get_Some _ _ _ Hk) as [Hk0 _].
    replace (e0 + 1 + k) with (e0 + (k + 1)) by lia. apply H.
    rewrite get_cons by lia. replace (k + 1 =? 0) with false by (symmetry; apply Z.eqb_neq; lia).
    replace (k + 1 - 1) with k by lia. exact Hk.
Qed.

Lemma chk_stacked_model vis s i R arr : ginv s ->
  obs_stacked vis s i R = Some arr -> chk_stacked vis s i R arr = true.
Proof.
  intros G H. unfold chk_stacked. destruct (viewer_pos s i R) as [p|] eqn:Hp.
  2:{ unfold obs_stacked in H. rewrite Hp in H. discriminate. }
  destruct (stacked_cell vis s i R arr p G Hp H) as [Hsh Hcell].
  apply andb_true_iff. split; [apply shape_ok_intro, Hsh|].
  apply all_rows_intro. intros r c l Hl. destruct (get2_Some _ _ _ _ _ _ Hsh Hl) as [Hr Hc].
  destruct (Hcell (r - R) (c - R) ltac:(lia) ltac:(lia)) as (l' & Hg & Hlen & Hs).
  replace (r - R + R) with r in Hg by lia. replace (c - R + R) with c in Hg by lia.
  rewrite Hl in Hg. injection Hg as <-. apply andb_true_iff. split; [apply Z.eqb_eq, Hlen|].
  apply all_layers_intro. intros e v Hv. rewrite Z.add_0_l. apply (Hs e v Hv).
Qed.

Lemma chk_absolute_model vis s i R o arr o' : ginv s ->
  obs_absolute vis s i R o = OOk arr o' -> chk_absolute vis s i R arr = true.
Proof.
  intros G H. unfold chk_absolute. destruct (viewer_pos s i R) as [p|] eqn:Hp.
  2:{ unfold obs_absolute in H. rewrite Hp in H. discriminate. }
  destruct (absolute_cell vis s i R o arr o' p G Hp H) as (Hsh & _ & Hcell).
  apply andb_true_iff. split; [apply shape_ok_intro, Hsh|].
  apply all_rows_intro. intros r c v Hv. destruct (get2_Some _ _ _ _ _ _ Hsh Hv) as [Hr Hc].
  destruct (Hcell (r, c)) as (v' & Hg & Hs); [apply inside_iff; cbn [fst snd]; lia|].
  cbn [fst snd] in Hg. rewrite Hv in Hg. injection Hg as <-. exact Hs.
Qed.

Lemma chk_window_model s i R w : ginv s -> obs_window s i R = Some w -> chk_window s i R w = true.
Proof.
  intros G H. unfold chk_window. unfold obs_window in H.
  destruct (viewer_pos s i R) as [p|] eqn:Hp; [|discriminate]. injection H as <-.
  destruct (viewer_pos_Some _ _ _ _ Hp) as (a & _ & _ & Hin & HR).
  destruct (window_is_offset s p R Hin HR) as [Hsh Hwin].
  apply andb_true_iff. split; [apply shape_ok_intro, Hsh|].
  apply all_rows_intro. intros r c x Hx. destruct (get2_Some _ _ _ _ _ _ Hsh Hx) as [Hr Hc].
  rewrite (Hwin r c Hr Hc) in Hx. injection Hx as <-. apply win_at_spec, G.
Qed.

Lemma optcell_eqb_refl p : optcell_eqb p p = true.
Proof. destruct p as [p|]; [apply cell_eqb_refl|reflexivity]. Qed.
Lemma optZ_eqb_refl p : optZ_eqb p p = true.
Proof. destruct p as [p|]; [apply Z.eqb_refl|reflexivity]. Qed.

(* codecs *)
Lemma all_some_map {T} (dec : sx -> option T) (enc : T -> sx) l :
  (forall x, dec (enc x) = Some x) -> all_some (map dec (map enc l)) = Some l.
Proof.
  intros H. induction l as [|x l IH]; [reflexivity|]. cbn. rewrite H, IH. reflexivity.
Qed.

Lemma sxZs_ofZs l : sxZs (ofZs l) = Some l.
Proof. apply (all_some_map sxZ A). reflexivity. Qed.
Lemma sxZZs_ofZZs m : sxZZs (ofZZs m) = Some m.
Proof. apply (all_some_map sxZs ofZs), sxZs_ofZs. Qed.
Lemma sxZZZs_enc a : sxZZZs (L (map ofZZs a)) = Some a.
Proof. apply (all_some_map sxZZs ofZZs), sxZZs_ofZZs. Qed.
Lemma sxNats_ofNats l : sxNats (ofNats l) = Some l.
Proof.
  apply (all_some_map sxNat ofNat). intros n. unfold sxNat, ofNat.
  replace (Z.of_nat n <? 0) with false by (symmetry; apply Z.ltb_ge; lia). rewrite Nat2Z.id. reflexivity.
Qed.
Lemma dec_wcell_enc x : dec_wcell (enc_wcell x) = Some x.
Proof.
  destruct x as [l|]; [|reflexivity]. unfold enc_wcell.
  change (dec_wcell (ofNats l)) with (option_map Some (sxNats (ofNats l))).
  rewrite sxNats_ofNats. reflexivity.
Qed.
Lemma dec_win_enc w : dec_win (L (map (fun row => L (map enc_wcell row)) w)) = Some w.
Proof.
  apply (all_some_map (fun r => match r with L cs => all_some (map dec_wcell cs) | A _ => None end)
                      (fun row => L (map enc_wcell row))).
  intros row. apply (all_some_map dec_wcell enc_wcell), dec_wcell_enc.
Qed.
Lemma dec_optcell_enc p : dec_optcell (enc_optcell p) = Some p.
Proof. destruct p as [[r c]|]; reflexivity. Qed.
Lemma sxOptZ_enc o : sxOptZ (ofOptZ o) = Some o.
Proof. destruct o; reflexivity. Qed.

(* a request on which the model produces an observation: the viewer stands in the grid and the
   recorded draws are admissible and used up *)
Inductive req_ok (vis : vis_fn) (s : gstate) (q : oreq) : Prop :=
| ok_abs arr : q_kind q = 0 ->
    obs_absolute vis s (q_viewer q) (resolve_range s (q_range q)) (q_oracle q) = OOk arr [] ->
    req_ok vis s q
| ok_cent_self arr : q_kind q = 1 ->
    obs_centered vis s (q_viewer q) (resolve_range s (q_range q)) true (q_oracle q) = OOk arr [] ->
    req_ok vis s q
| ok_cent_noself arr : q_kind q = 2 ->
    obs_centered vis s (q_viewer q) (resolve_range s (q_range q)) false (q_oracle q) = OOk arr [] ->
    req_ok vis s q
| ok_stacked arr : q_kind q = 3 ->
    obs_stacked vis s (q_viewer q) (resolve_range s (q_range q)) = Some arr -> req_ok vis s q
| ok_position a : q_kind q = 4 -> agent s (q_viewer q) = Some a -> req_ok vis s q
| ok_ammo a : q_kind q = 5 -> agent s (q_viewer q) = Some a -> req_ok vis s q
| ok_window w : q_kind q = 6 ->
    obs_window s (q_viewer q) (resolve_range s (q_range q)) = Some w -> req_ok vis s q.

Theorem chk_oreq_model vis s q : ginv s -> req_ok vis s q ->
  chk_oreq vis s q (run_oreq vis s q) = 0.
Proof.
  intros G [arr E H|arr E H|arr E H|arr E H|a E H|a E H|w E H]; unfold chk_oreq, run_oreq; rewrite E.
  - rewrite H. cbn [enc_ores]. rewrite sxZZs_ofZZs, (chk_absolute_model _ _ _ _ _ _ _ G H). reflexivity.
  - rewrite H. cbn [enc_ores]. rewrite sxZZs_ofZZs, (chk_centered_model _ _ _ _ _ _ _ _ G H). reflexivity.
  - rewrite H. cbn [enc_ores]. rewrite sxZZs_ofZZs, (chk_centered_model _ _ _ _ _ _ _ _ G H). reflexivity.
  - rewrite H, sxZZZs_enc, (chk_stacked_model _ _ _ _ _ G H). reflexivity.
  - rewrite dec_optcell_enc. unfold chk_position, obs_position. rewrite H, optcell_eqb_refl. reflexivity.
  - rewrite sxOptZ_enc. unfold chk_ammo, obs_ammo. rewrite H, optZ_eqb_refl. reflexivity.
  - rewrite H, dec_win_enc, (chk_window_model _ _ _ _ G H). reflexivity.
Qed.

Theorem chk_oreqs_model vis s qs : ginv s -> Forall (req_ok vis s) qs ->
  chk_oreqs vis s qs (map (run_oreq vis s) qs) = 0.
Proof.
  intros G H. induction H as [|q qs Hq _ IH]; [reflexivity|].
  cbn [map chk_oreqs]. rewrite (chk_oreq_model vis s q G Hq). exact IH.
Qed.

(* ---- the readable statements ------------------------------------------------------------------------ *)
Lemma viewer_pos_intro s i a p R : agent s i = Some a -> a_pos a = Some p -> inside s p = true ->
  0 <= R -> viewer_pos s i R = Some p.
Proof.
  intros Ha Hp Hin HR. unfold viewer_pos. rewrite Ha, Hp, Hin. apply Z.leb_le in HR. rewrite HR. reflexivity.
Qed.

Lemma encs_okb_ok s : encs_okb s = true -> encs_ok s.
Proof.
  unfold encs_okb, encs_ok, agent. rewrite forallb_forall. intros H j b Hb.
  apply nth_error_In, H in Hb. rewrite !andb_true_iff, !negb_true_iff, !Z.eqb_neq in Hb. tauto.
Qed.

Theorem centered_cell_clauses vis s i a p R os o arr o' :
  ginv s -> encs_ok s -> agent s i = Some a -> a_pos a = Some p -> inside s p = true -> 0 <= R ->
  obs_centered vis s i R os o = OOk arr o' ->
  shape arr (2 * R + 1) (2 * R + 1) /\
  forall di dj, - R <= di <= R -> - R <= dj <= R ->
    exists v, get2 arr (di + R) (dj + R) = Some v /\
      let q := (fst p + di, snd p + dj) in
      (v = -2 <-> vis s i R (di, dj) = false) /\
      (v = -1 <-> vis s i R (di, dj) = true /\ inside s q = false) /\
      (v = 0 <-> vis s i R (di, dj) = true /\ inside s q = true /\
                 forall j b, occupant s q j b -> (os = false -> j <> i) -> False) /\
      (v <> -2 -> v <> -1 -> v <> 0 ->
       exists j b, occupant s q j b /\ (os = false -> j <> i) /\ a_enc b = v).
Proof.
  intros G He Ha Hp Hin HR H.
  destruct (centered_cell vis s i R os o arr o' p G (viewer_pos_intro _ _ _ _ _ Ha Hp Hin HR) H)
    as [Hsh Hcell].
  split; [exact Hsh|]. intros di dj Hi Hj. destruct (Hcell di dj Hi Hj) as (v & Hg & Hs).
  exists v. split; [exact Hg|]. apply (cent_spec_clauses vis s i p R os (di, dj) v He Hs).
Qed.

Theorem stacked_cell_clauses vis s i a p R arr :
  ginv s -> agent s i = Some a -> a_pos a = Some p -> inside s p = true -> 0 <= R ->
  obs_stacked vis s i R = Some arr ->
  shape arr (2 * R + 1) (2 * R + 1) /\
  forall di dj, - R <= di <= R -> - R <= dj <= R ->
    exists l, get2 arr (di + R) (dj + R) = Some l /\
      Z.of_nat (length l) = Z.max 0 (number_of_encodings s) /\
      forall e, 0 <= e < number_of_encodings s ->
        exists v, get l e = Some v /\
          let q := (fst p + di, snd p + dj) in
          (v = -2 <-> vis s i R (di, dj) = false) /\
          (v = -1 <-> vis s i R (di, dj) = true /\ inside s q = false) /\
          (vis s i R (di, dj) = true -> inside s q = true ->
           v = count_enc s (occupants s q) (e + 1)).
Proof.
  intros G Ha Hp Hin HR H.
  destruct (stacked_cell vis s i R arr p G (viewer_pos_intro _ _ _ _ _ Ha Hp Hin HR) H) as [Hsh Hcell].
  split; [exact Hsh|]. intros di dj Hi Hj. destruct (Hcell di dj Hi Hj) as (l & Hg & Hlen & Hs).
  exists l. split; [exact Hg|]. split; [exact Hlen|]. intros e He.
  destruct (get_in l e) as (v & Hv); [lia|]. exists v. split; [exact Hv|].
  destruct (Hs e v Hv) as [_ Hspec]. apply (stk_spec_clauses vis s i p R (di, dj) e v Hspec).
Qed.

(* the occupants list is exactly the set of active agents positioned on the cell, once each, and
   under the invariant it has the same members as the cell dictionary *)
Theorem occupants_exact s q :
  NoDup (occupants s q) /\
  (forall j, In j (occupants s q) <-> exists b, occupant s q j b) /\
  (ginv s -> forall j, In j (cell_get (g_cells s) q) <-> In j (occupants s q)).
Proof.
  split; [apply at_cell_NoDup|]. split; [apply occupants_In|]. intros G. apply cell_iff_occupants, G.
Qed.

Theorem absolute_cell_clauses vis s i a p R o arr o' :
  ginv s -> encs_ok s -> agent s i = Some a -> a_pos a = Some p -> inside s p = true -> 0 <= R ->
  obs_absolute vis s i R o = OOk arr o' ->
  shape arr (g_rows s) (g_cols s) /\
  (exists conv, abs_convolved vis s i R o = OOk conv o' /\ shape conv (2 * R + 1) (2 * R + 1) /\
     forall li lj, 0 <= li < 2 * R + 1 -> 0 <= lj < 2 * R + 1 ->
       inside s (fst p + (li - R), snd p + (lj - R)) = true ->
       get2 arr (fst p + (li - R)) (snd p + (lj - R)) = get2 conv li lj) /\
  forall q, inside s q = true ->
    exists v, get2 arr (fst q) (snd q) = Some v /\
      let d := (fst q - fst p, snd q - snd p) in
      (in_range R d = false -> v = -2) /\
      (v = -2 <-> in_range R d = false \/ vis s i R d = false) /\
      (v = -1 <-> in_range R d = true /\ vis s i R d = true /\ a_active a = true /\ q = p) /\
      (v = 0 <-> in_range R d = true /\ vis s i R d = true /\ forall j b, occupant s q j b -> False) /\
      (v <> -2 -> v <> -1 -> v <> 0 -> exists j b, occupant s q j b /\ j <> i /\ a_enc b = v).
Proof.
  intros G He Ha Hp Hin HR H.
  destruct (absolute_cell vis s i R o arr o' p G (viewer_pos_intro _ _ _ _ _ Ha Hp Hin HR) H)
    as (Hsh & (conv & Hc & Hshc & ->) & Hcell).
  split; [exact Hsh|]. split.
  - exists conv. split; [exact Hc|]. split; [exact Hshc|].
    apply (proj1 (absolute_coords s p R conv Hin HR Hshc)).
  - intros q Hq. destruct (Hcell q Hq) as (v & Hg & Hs). exists v. split; [exact Hg|].
    pose proof (abs_spec_clauses vis s i a p R q v He Ha Hp Hs) as Hcl. cbn zeta in Hcl |- *.
    destruct Hcl as (C1 & C2 & C3 & C4).
    split; [intros Hr; apply C1; left; exact Hr|].
    split; [exact C1|]. split; [exact C2|]. split; [exact C3|exact C4].
Qed.

Theorem obs_state_inv rows cols ov ags kills :
  NoDup (map fst ov) -> Forall vitals_ok ags -> Forall (fun a => a_active a = true) ags ->
  Forall (fun a => match a_pos a with
                   | Some q => (0 <=? fst q) && (fst q <? rows) && (0 <=? snd q) && (snd q <? cols) = true
                   | None => True end) ags ->
  ginv (obs_state (init_state rows cols ov ags) kills).
Proof.
  intros H1 H2 H3 H4. unfold obs_state. apply apply_hits_inv.
  apply init_state_inv; [|exact H2|exact H3|exact H4]. intros x y. apply overlap_symmetric, H1.
Qed.
